import Oracle.Util
/-! Oracle handlers for C18 (model functions exposed on the line protocol). -/
namespace Oracle
open Mobius

def c18Handlers : List (String × Handler) := []

end Oracle
