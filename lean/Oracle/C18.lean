import Oracle.Util
import MobiusModel.News
import MobiusModel.NewsDeploy
/-!
  Oracle handlers for C18.  `c18run` executes a whole history on the News model
  (`Mobius.News.step` — the definitions the theorems are about — plus the thin handler layer of
  transaction_handlers.go) and prints one observation per operation.  The file is the tree itself
  (`ser = id`), i.e. the YAML round-trip assumption is built in.

  c18run <tokens…>          a path is `<n> <hex>*n`
    B <path> <name>                       new bundle (381)        -> done | panic
    C <path> <name>                       new category (382)      -> done | panic
    P <path> <idfield> <title> <poster> <date> <body>   post / reply (410; idfield = bytes of field 326)
                                                                  -> done | silent | panic
    DA <path> <idfield>                   delete article (411)    -> done | silent | panic
    DI <path>                             delete item (380)       -> done | silent
    R                                     reload from the file    -> done | err
    BOOT / RI                             first start of the real binary with -init / a later (re)start (`Mobius.News.start`)
    SV / RS                               the operator saves a copy of the file / puts the saved copy back (file only)
    GA <path> <idfield>  /  GA2 …         get article (400) from memory / from the file as a second store loads it
                                          -> art title poster date prev next parent first bodyLen bodySum | none | silent
    LA <path>  /  LA2 …                   article list (371)      -> hex of field 321
    LC <path>  /  LC2 …                   category list (370)     -> cats n hex…
-/
namespace Oracle
open Mobius Mobius.News

def cdO : Codec Tree := ⟨id, some⟩

/-- the embedded template `Categories: {}` -/
def templateO : Tree := AMap.empty

/-- body checksum printed instead of the (up to 64 KiB) body -/
def cksum (b : Bytes) : Nat := b.foldl (fun h x => (h * 31 + x.toNat) % 4294967296) 7

def takePath : List String → Path × List String
  | n :: rest => ((rest.take (num n)).map hexb, rest.drop (num n))
  | [] => ([], [])

def kindStr (r : R (State Tree)) : String :=
  match r with
  | .ok _ => "done"
  | .err _ => "done"      -- the handlers log the error and send the plain reply
  | .panic _ => "panic"

def artStr : Option Art → String
  | none => "none"
  | some a => s!"art {toHex a.title} {toHex a.poster} {toHex a.date} {a.prev} {a.next} {a.parent} {a.firstChild} {a.data.length} {cksum a.data}"

def diskTree (st : State Tree) : Tree := (cdO.deser st.disk).getD AMap.empty

partial def c18Loop (ini : Bool) (st : State Tree) (saved : Tree) (acc : List String) : List String → List String
  | [] => acc.reverse
  | "B" :: rest =>
    let (p, r1) := takePath rest
    match r1 with
    | n :: r2 => let x := step cdO st (.newBundle p (hexb n)); c18Loop ini x.state saved (kindStr x :: acc) r2
    | [] => ("bad-token" :: acc).reverse
  | "C" :: rest =>
    let (p, r1) := takePath rest
    match r1 with
    | n :: r2 => let x := step cdO st (.newCategory p (hexb n)); c18Loop ini x.state saved (kindStr x :: acc) r2
    | [] => ("bad-token" :: acc).reverse
  | "P" :: rest =>
    let (p, r1) := takePath rest
    match r1 with
    | idf :: ti :: po :: dt :: body :: r2 =>
      if p = [] then c18Loop ini st saved ("silent" :: acc) r2 else
      match decodeInt (hexb idf) with
      | .ok par =>
        let x := step cdO st (.post p par ⟨hexb ti, hexb po, hexb dt, 0, 0, 0, 0, hexb body⟩)
        c18Loop ini x.state saved (kindStr x :: acc) r2
      | _ => c18Loop ini st saved ("silent" :: acc) r2
    | _ => ("bad-token" :: acc).reverse
  | "DA" :: rest =>
    let (p, r1) := takePath rest
    match r1 with
    | idf :: r2 =>
      match decodeInt (hexb idf) with
      | .ok id => let x := step cdO st (.delArticle p id); c18Loop ini x.state saved (kindStr x :: acc) r2
      | _ => c18Loop ini st saved ("silent" :: acc) r2
    | [] => ("bad-token" :: acc).reverse
  | "DI" :: rest =>
    let (p, r1) := takePath rest
    if p = [] then c18Loop ini st saved ("silent" :: acc) r1 else
    let x := step cdO st (.delItem p); c18Loop ini x.state saved (kindStr x :: acc) r1
  | "SV" :: rest => c18Loop ini st (diskTree st) ("saved" :: acc) rest          -- an operator copies the file
  | "RS" :: rest => c18Loop ini ⟨st.mem, cdO.ser saved⟩ saved ("restored" :: acc) rest   -- … and later puts the copy back
  | "BOOT" :: rest =>      -- first start of the binary with -init on a directory that holds nothing yet
    let x := start cdO templateO true ⟨st, false⟩
    c18Loop x.state.initialised x.state.st saved ((match x with | .ok _ => "done" | _ => "err") :: acc) rest
  | "RI" :: rest =>        -- the binary is stopped and started again with -init (or without: the directory is initialised)
    let x := start cdO templateO true ⟨st, ini⟩
    c18Loop x.state.initialised x.state.st saved ((match x with | .ok _ => "done" | _ => "err") :: acc) rest
  | "R" :: rest =>
    let x := step cdO st .reload
    c18Loop ini x.state saved ((match x with | .ok _ => "done" | _ => "err") :: acc) rest
  | "GA" :: rest =>
    let (p, r1) := takePath rest
    match r1 with
    | idf :: r2 =>
      match decodeInt (hexb idf) with
      | .ok id => c18Loop ini st saved (artStr (getArticle st.mem p id) :: acc) r2
      | _ => c18Loop ini st saved ("silent" :: acc) r2
    | [] => ("bad-token" :: acc).reverse
  | "GA2" :: rest =>
    let (p, r1) := takePath rest
    match r1 with
    | idf :: r2 =>
      match decodeInt (hexb idf) with
      | .ok id => c18Loop ini st saved (artStr (getArticle (diskTree st) p id) :: acc) r2
      | _ => c18Loop ini st saved ("silent" :: acc) r2
    | [] => ("bad-token" :: acc).reverse
  | "LA" :: rest =>
    let (p, r1) := takePath rest
    c18Loop ini st saved (toHex (listArticlesField st.mem p) :: acc) r1
  | "LA2" :: rest =>
    let (p, r1) := takePath rest
    c18Loop ini st saved (toHex (listArticlesField (diskTree st) p) :: acc) r1
  | "LC" :: rest =>
    let (p, r1) := takePath rest
    let fs := listCatsFields st.mem p
    c18Loop ini st saved ((s!"cats {fs.length}" ++ String.join (fs.map fun f => " " ++ toHex f)) :: acc) r1
  | "LC2" :: rest =>
    let (p, r1) := takePath rest
    let fs := listCatsFields (diskTree st) p
    c18Loop ini st saved ((s!"cats {fs.length}" ++ String.join (fs.map fun f => " " ++ toHex f)) :: acc) r1
  | t :: _ => (("bad-token " ++ t) :: acc).reverse

def c18Handlers : List (String × Handler) := [
  ("c18run", fun (a : List String) => " | ".intercalate (c18Loop true ⟨AMap.empty, AMap.empty⟩ AMap.empty [] a)),
  ("c18cksum", fun (a : List String) => match a with
    | [d] => toString (cksum (hexb d))
    | _ => "bad-op")
]

end Oracle
