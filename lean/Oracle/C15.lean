import Oracle.Util
/-! Oracle handlers for C15 (model functions exposed on the line protocol). -/
namespace Oracle
open Mobius

def c15Handlers : List (String × Handler) := []

end Oracle
