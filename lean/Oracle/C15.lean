import Oracle.Util
import MobiusModel.Accounts
import MobiusModel.AccountsWire
import MobiusModel.AccountsFault
/-!
  Oracle handlers for C15.  `c15run` executes a whole history on the Accounts model
  (`Mobius.Accounts.step`, the definitions the theorems are about) and prints one observation
  per operation.  Environment: `hash` = identity on the password bytes as sent, `verify` = equality,
  so the printed "hash" of an account is the byte string the real server must accept at login
  (`verify` compares bcrypt keys, see `bcKey`).

  c15run <nameMax> <tokens…>
    A <login> <name> <pw> <access>      initial account (before the first operation)
    N|S|D|G <k> (<ty> <hex>)*k          new-user / set-user / delete-user / get-user with k fields
    U <r> (<k> (<ty> <hex>)*k)*r        update-user with r sub-records
    FN | FS | FU …                      the same requests served while the store's temporary file cannot be
                                        written (`stepF … (.tmpBlocked, op)`, AccountsFault.lean)
  c15wire <hex>                         the BYTES of a request through `Transaction.decode` and, for update-user,
                                        `subRecDecode` of every field: prints the request in the token form above
    L                                   list-users
    I <login> <pw>                      login attempt (password bytes as sent)
    R                                   restart (memory := load(disk))
    X                                   dump (memory, disk, load(disk))
  answer: observations joined by " | ".
-/
namespace Oracle
open Mobius Mobius.Accounts

/-- What a bcrypt hash depends on (golang.org/x/crypto/bcrypt): the key is the password plus a NUL
    byte, read cyclically for 72 bytes.  For passwords without a 0x00 byte (and at most 71 bytes) this is injective,
    i.e. `Env.Sound`; with 0x00 bytes distinct passwords can share a key ("" and the single byte 0). -/
def bcKey (p : Bytes) : Bytes := ((List.replicate 73 (p ++ [0])).flatten).take 72

def envO (nameMax : Nat) : Env Bytes := ⟨id, fun h q => bcKey h == bcKey q, nameMax⟩

def acctStr (a : Account Bytes) : String := s!"{toHex a.login}:{toHex a.name}:{toHex a.access}:{toHex a.hash}"

def acctRecHex (env : Env Bytes) (a : Account Bytes) : String :=
  toHex (AccountRec.encode ⟨a.name, a.login, a.access, !env.verify a.hash []⟩)

def outStr (env : Env Bytes) : Out Bytes → String
  | .done => "done"
  | .errReply => "err"
  | .silent => "silent"
  | .panic => "panic"
  | .user n l h a => s!"user {toHex n} {toHex l} {toHex a} {toHex h}"
  | .users l => s!"users {l.length}" ++ String.join (l.map fun a => " " ++ acctRecHex env a)
  | .auth ok => if ok then "auth 1" else "auth 0"

def dumpStr (st : State Bytes) : String :=
  let m := st.mem.toList.map fun e => toHex e.1 ++ "=" ++ acctStr e.2
  let d := st.disk.toList.map fun e => toHex e.1 ++ "=" ++ acctStr e.2
  let r := (load st.disk).toList.map fun e => toHex e.1 ++ "=" ++ acctStr e.2
  "dump mem " ++ ",".intercalate m ++ " disk " ++ ",".intercalate d ++ " load " ++ ",".intercalate r

def takeFields : Nat → List String → List Field × List String
  | 0, ts => ([], ts)
  | n + 1, ty :: d :: rest =>
    let (fs, r) := takeFields n rest
    (⟨num ty, hexb d⟩ :: fs, r)
  | _ + 1, _ => ([], [])

def takeRecs : Nat → List String → List (List Field) × List String
  | 0, ts => ([], ts)
  | n + 1, k :: rest =>
    let (fs, r) := takeFields (num k) rest
    let (recs, r') := takeRecs n r
    (fs :: recs, r')
  | _ + 1, [] => ([], [])

partial def c15Loop (env : Env Bytes) (st : State Bytes) (acc : List String) : List String → List String
  | [] => acc.reverse
  | "A" :: l :: n :: p :: a :: rest =>
    let ac : Account Bytes := ⟨hexb l, hexb n, hexb p, hexb a⟩
    c15Loop env ⟨st.mem.set ac.login ac, st.disk.set (ac.login ++ yamlExt) ac⟩ acc rest
  | "L" :: rest => let r := step env st .listUsers; c15Loop env r.1 (outStr env r.2 :: acc) rest
  | "R" :: rest => let r := step env st .restart; c15Loop env r.1 (outStr env r.2 :: acc) rest
  | "X" :: rest => c15Loop env st (dumpStr st :: acc) rest
  | "I" :: l :: p :: rest =>
    let r := step env st (.login (hexb l) (hexb p)); c15Loop env r.1 (outStr env r.2 :: acc) rest
  | "U" :: r :: rest =>
    let (recs, rest') := takeRecs (num r) rest
    let x := step env st (.updateUser recs); c15Loop env x.1 (outStr env x.2 :: acc) rest'
  | "FU" :: r :: rest =>
    let (recs, rest') := takeRecs (num r) rest
    let x := stepF env st (.tmpBlocked, .updateUser recs); c15Loop env x.1 (outStr env x.2 :: acc) rest'
  | "FN" :: k :: rest =>
    let (fs, rest') := takeFields (num k) rest
    let x := stepF env st (.tmpBlocked, .newUser fs); c15Loop env x.1 (outStr env x.2 :: acc) rest'
  | "FS" :: k :: rest =>
    let (fs, rest') := takeFields (num k) rest
    let x := stepF env st (.tmpBlocked, .setUser fs); c15Loop env x.1 (outStr env x.2 :: acc) rest'
  | op :: k :: rest =>
    let (fs, rest') := takeFields (num k) rest
    let o : Option Op := match op with
      | "N" => some (.newUser fs)
      | "S" => some (.setUser fs)
      | "D" => some (.deleteUser fs)
      | "G" => some (.getUser fs)
      | _ => none
    match o with
    | some o => let x := step env st o; c15Loop env x.1 (outStr env x.2 :: acc) rest'
    | none => (("bad-token " ++ op) :: acc).reverse
  | t :: _ => (("bad-token " ++ t) :: acc).reverse

def fieldsTok (fs : List Field) : String :=
  s!"{fs.length}" ++ String.join (fs.map fun f => s!" {f.ty} {toHex f.data}")

/-- the request a server reads out of these bytes, in the token form of `c15run` -/
def wireTok (p : Bytes) : String :=
  match Transaction.decode p with
  | .err => "err"
  | .panic => "panic"
  | .ok t =>
    if t.ty = 349 then
      let recs := t.fields.map fun f => subRecDecode f.data
      if recs.all (fun r => match r with | .ok _ => true | _ => false) then
        s!"U {recs.length}" ++ String.join (recs.map fun r => match r with | .ok fs => " " ++ fieldsTok fs | _ => "")
      else "U-bad-record"
    else
      let letter := if t.ty = 350 then "N" else if t.ty = 353 then "S" else if t.ty = 351 then "D" else if t.ty = 352 then "G" else "?"
      letter ++ " " ++ fieldsTok t.fields

def c15Handlers : List (String × Handler) := [
  ("c15wire", fun (a : List String) => match a with
    | [h] => wireTok (hexb h)
    | _ => "bad-op"),
  ("c15run", fun (a : List String) => match a with
    | nm :: rest => " | ".intercalate (c15Loop (envO (num nm)) ⟨AMap.empty, AMap.empty⟩ [] rest)
    | _ => "bad-op"),
  ("c15legal", fun (a : List String) => match a with
    | [l] => toString (decide (LegalLogin (hexb l)))
    | _ => "bad-op"),
  ("c15file", fun (a : List String) => match a with
    | [l] => toHex (fileC (hexb l)) ++ " " ++ toHex (fileU (hexb l))
    | _ => "bad-op")
]

end Oracle
