import Oracle.Util
import MobiusModel.FileOps
import MobiusModel.AcctLoader
/-! Oracle handlers for C07 (model functions exposed on the line protocol). -/
namespace Oracle
open Mobius Mobius.PathAlg Mobius.PathStr Mobius.FS Mobius.FileOps

/-- Components of a clean path string (`/a/b` or `a/b`). -/
def compsOf (s : Bytes) : List Comp := (PathAlg.splitSlash s).filter (· ≠ [])

/-- Optional field: `nil` = absent, otherwise hex (`-` = present and empty). -/
def optb (s : String) : Option Bytes := if s = "nil" then none else some (hexb s)

def showPath (p : Path) : String := toHex (renderAbs p)

def showRel (p : Path) : String := toHex (intercalateSlash p)

def showPaths (ps : List Path) : String := s!"{ps.length}" ++ String.join (ps.map fun p => " " ++ showPath p)

def parseIgnore (s : String) : Bytes → Bool :=
  let pats : List (Bool × Bytes) := if s = "-" then [] else
    (s.splitOn ",").filterMap fun t =>
      if t.startsWith "p" then some (true, hexb (t.drop 1).toString)
      else if t.startsWith "s" then some (false, hexb (t.drop 1).toString)
      else none
  fun n => pats.any fun (pre, lit) => if pre then lit.isPrefixOf n else lit.isSuffixOf n

def parseEntry (s : String) : Option (Path × Node) :=
  match s.splitOn ":" with
  | [p, "D"] => some (compsOf (hexb p), .dir)
  | [p, "F", d] => some (compsOf (hexb p), .file (hexb d))
  | [p, "L", t] => some (compsOf (hexb t) |> fun tc => (compsOf (hexb p), .link tc))
  | _ => none

def showEntry (e : Path × Node) : String :=
  let p := toHex (intercalateSlash e.1)
  match e.2 with
  | .dir => p ++ ":D"
  | .file d => p ++ ":F:" ++ toHex d
  | .link t => p ++ ":L:" ++ toHex (intercalateSlash t)

def showOptB : Option Bytes → String
  | none => "nil"
  | some b => toHex b

def showOptN : Option Nat → String
  | none => "nil"
  | some n => toString n

def showReply : Reply → String
  | .none => "none"
  | .err => "err"
  | .ok => "ok"
  | .panic => "panic"
  | .opaque => "opaque"
  | .list es => s!"list {es.length}" ++ String.join (es.map fun e =>
      s!" {toHex e.name}:{toHex e.ty}:{toHex e.creator}:{e.size}")
  | .info n ts cs ty c sz => s!"info {toHex n} {toHex ts} {toHex cs} {toHex ty} {showOptB c} {showOptN sz}"
  | .download x f => s!"download {x} {f}"
  | .upload r => s!"upload {showOptN r}"

def parseReq : List String → Option Req
  | ["list", pf] => some (.list (optb pf))
  | ["info", pf, n] => some (.getInfo (optb pf) (hexb n))
  | ["setinfo", pf, n, c, nn] => some (.setInfo (optb pf) (hexb n) (optb c) (optb nn))
  | ["delete", pf, n] => some (.delete (optb pf) (hexb n))
  | ["move", pf, n, np] => some (.move (optb pf) (hexb n) (optb np))
  | ["newfolder", pf, n] => some (.newFolder (optb pf) (hexb n))
  | ["alias", pf, n, np] => some (.alias (optb pf) (hexb n) (optb np))
  | ["download", pf, n] => some (.download (optb pf) (hexb n))
  | ["upload", pf, n, r] => some (.uploadFile (optb pf) (hexb n) (r == "1"))
  | _ => none

/-- `fsstep <ignore> <n> <entry>*n <op> <args…>` → `R <reply> T <n> <entry>*n` (root = []; see Oracle/C11.lean). -/
def fsStep (a : List String) : String :=
  match a with
  | ig :: n :: rest =>
    let k := num n
    let ents := (rest.take k).filterMap parseEntry
    if ents.length ≠ k then "bad-tree" else
    match parseReq (rest.drop k) with
    | none => "bad-op"
    | some req =>
      let r := handle [] (parseIgnore ig) ents req
      s!"R {showReply r.2} T {r.1.length}" ++ String.join (r.1.map fun e => " " ++ showEntry e)
  | _ => "bad-op"

/-- `<name> <login> <legacy 0|1>` repeated. -/
def loadEntries : List String → Option (List LoadEntry)
  | [] => some []
  | n :: l :: m :: rest => (loadEntries rest).map fun es => { name := hexb n, login := hexb l, migrate := m == "1", yaml := hexb l } :: es
  | _ => none

/-- `acctload <entries…>`: the accounts directory `U` holding exactly the matched files (contents = the login inside),
    run through the model's loader → the names directly below `U` afterwards with the login each file holds. -/
def acctLoadOp (a : List String) : String :=
  match loadEntries a with
  | none => "bad-op"
  | some es =>
    let dir : Path := [[85]]
    let fs0 : FS := (dir, Node.dir) :: es.map fun e => (dir ++ [e.name], Node.file e.login)
    let fs := acctLoad fs0 dir es
    let out := fs.filterMap fun e =>
      if e.1 = dir then none
      else if dir <+: e.1 ∧ e.1.length = 2 then
        match e.2 with
        | .file d => some (toHex (e.1.getLastD []) ++ ":" ++ toHex d)
        | _ => some (toHex (e.1.getLastD []) ++ ":?")
      else if dir <+: e.1 then some ("deep:" ++ toHex (intercalateSlash e.1))
      else some ("outside:" ++ toHex (intercalateSlash e.1))
    s!"{out.length}" ++ String.join (out.map fun x => " " ++ x)

def c07Handlers : List (String × Handler) := [
  ("acctload", acctLoadOp),
  ("fsstep", fsStep),
  -- readpath <root> <pathfield|nil> <name>  →  component-level ReadPath (decoded), rendered
  ("readpath", fun (a : List String) => match a with
    | [r, pf, n] => showRes showPath (target (compsOf (hexb r)) (optb pf) (hexb n))
    | _ => "bad-op"),
  -- readpathstr <root> <pathfield|nil> <name>  →  string-level ReadPath exactly as written in Go
  ("readpathstr", fun (a : List String) => match a with
    | [r, pf, n] => match parsePath (optb pf) with
      | .ok items => "ok " ++ toHex (decodeStr (readPathRaw (hexb r) items (hexb n)))
      | .err => "err"
      | .panic => "panic"
    | _ => "bad-op"),
  ("clean", fun (a : List String) => match a with
    | [s] => toHex (cleanStr (hexb s))
    | _ => "bad-op"),
  ("join", fun (a : List String) => toHex (joinStr (a.map hexb))),
  ("macroman", fun (_ : List String) => natList macRomanHigh),
  ("dec", fun (a : List String) => match a with
    | [s] => toHex (decodeStr (hexb s))
    | _ => "bad-op"),
  ("enc", fun (a : List String) => match a with
    | [s] => match encStr (hexb s) with
      | some m => "ok " ++ toHex m
      | none => "err"
    | _ => "bad-op"),
  -- fupath <count> <data>  →  folderUpload.FormattedPath
  ("fupath", fun (a : List String) => match a with
    | [c, d] => showRes showRel (formattedPath (num c) (hexb d))
    | _ => "bad-op"),
  -- fupathstr <count> <data>  →  the same through the string-level Join/Clean
  ("fupathstr", fun (a : List String) => match a with
    | [c, d] => match fuSegments (num c) (hexb d) with
      | .ok segs => "ok " ++ toHex ((joinStr [[slash], joinStr segs]).drop 1)
      | .err => "err"
      | .panic => "panic"
    | _ => "bad-op"),
  -- acct create|delete <dir> <login> ; acct update <dir> <old> <new>
  ("acctpaths", fun (a : List String) => match a with
    | ["create", d, l] => showPaths (acctCreatePaths (compsOf (hexb d)) (hexb l))
    | ["delete", d, l] => showPaths (acctDeletePaths (compsOf (hexb d)) (hexb l))
    | ["update", d, o, n] => showPaths (acctUpdatePaths (compsOf (hexb d)) (hexb o) (hexb n))
    | _ => "bad-op"),
  ("wrapper", fun (a : List String) => match a with
    | [p] => showPaths (wrapperPaths (compsOf (hexb p)))
    | _ => "bad-op"),
  -- reqpaths <root> <kind> <pf|nil> <name> [<newpf|nil> | <comment|nil> <newname|nil>]
  ("reqpaths", fun (a : List String) => match a with
    | r :: kind :: pf :: n :: rest =>
      let root := compsOf (hexb r)
      let req : Option Req := match kind, rest with
        | "getinfo", [] => some (.getInfo (optb pf) (hexb n))
        | "download", [] => some (.download (optb pf) (hexb n))
        | "delete", [] => some (.delete (optb pf) (hexb n))
        | "newfolder", [] => some (.newFolder (optb pf) (hexb n))
        | "list", [] => some (.list (optb pf))
        | "upload", [] => some (.uploadFile (optb pf) (hexb n) false)
        | "dlfolder", [] => some (.downloadFolder (optb pf) (hexb n))
        | "move", [np] => some (.move (optb pf) (hexb n) (optb np))
        | "alias", [np] => some (.alias (optb pf) (hexb n) (optb np))
        | "setinfo", [c, nn] => some (.setInfo (optb pf) (hexb n) (optb c) (optb nn))
        | _, _ => none
      match req with
      | some q => showPaths (q.paths root)
      | none => "bad-op"
    | _ => "bad-op")
]

end Oracle
