import Oracle.Util
/-! Oracle handlers for C07 (model functions exposed on the line protocol). -/
namespace Oracle
open Mobius

def c07Handlers : List (String × Handler) := []

end Oracle
