import Oracle.Util
import MobiusModel.SetUserLogins
/-! Oracle op shared by C05 and C06 (wave e): run a history of account creations, logins and single-account edits
    through `SetUserLogins`; logins and access bitmaps travel as hex byte strings. -/
namespace Oracle
open Mobius Mobius.SetUserLogins

/-- `A:<login>:<access>` create, `L:<login>` login (session id = number of sessions so far), `S:<login>:<access>` set-user -/
def suTok (st : World Bytes × String) (t : String) : World Bytes × String :=
  let (w, acks) := st
  match t.splitOn ":" with
  | ["A", l, a] => (create w (hexb l) (hexb a), acks)
  | ["L", l] => (login w w.sess.length (hexb l), acks)
  | ["S", l, a] => let r := setUser w (hexb l) (hexb a); (r.1, acks ++ (if r.2 then "1" else "0"))
  | _ => (w, acks ++ "?")

def suShow (st : World Bytes × String) : String :=
  let (w, acks) := st
  let orDash (s : String) := if s.isEmpty then "-" else s
  s!"acks={orDash acks} accts={orDash (",".intercalate (w.accts.map fun p => toHex p.1 ++ ":" ++ toHex p.2))} sess={orDash (",".intercalate (w.sess.map fun s => toHex s.login ++ ":" ++ toHex s.access))}"

def suLoginsHandlers : List (String × Handler) := [
  ("sulogins", fun (a : List String) => suShow (a.foldl suTok (World.init, "")))
]
end Oracle
