import Oracle.Util
import MobiusModel.Merge
import MobiusModel.KickTimer
/-! Oracle handlers for C14 (model functions exposed on the line protocol). -/
namespace Oracle
open Mobius

def decodeAll : List String → Option (List Transaction)
  | [] => some []
  | s :: rest =>
    match Transaction.decode (hexb s), decodeAll rest with
    | .ok t, some ts => some (t :: ts)
    | _, _ => none

def c14Handlers : List (String × Handler) := [
  -- c14perm <stream> <encoded transaction>… : does the stream parse to a permutation of the given transactions?
  ("c14perm", fun (a : List String) => match a with
    | stream :: sent =>
      match parseStream (hexb stream), decodeAll sent with
      | .ok got, some want => if got.isPerm want then s!"perm {got.length}" else s!"notperm {got.length} {want.length}"
      | .ok _, none => "bad-sent"
      | .err, _ => "unparseable err"
      | .panic, _ => "unparseable panic"
    | _ => "bad-op"),
  -- the Write calls of a single-Write sender and of an io.Copy-style sender with buffer n
  ("c14writes", fun (a : List String) => match a with
    | [n, d] => match Transaction.decode (hexb d) with
      | .ok t => s!"single {(singleWrite t).map List.length} copy {(copyWrite (num n) t).map List.length}"
      | _ => "undecodable"
    | _ => "bad-op"),
  -- kickhist <op,op,…> : connection-level events (add | spin:<id> | leave:<n> | timer:<n>) through Kick.step;
  -- answer = the client manager's view (ids handed out, whom each Disconnect removed)
  ("kickhist", fun (a : List String) => match a with
    | [ops] => Kick.oracleLine ops
    | _ => "bad-op")
]

end Oracle
