import Oracle.Util
/-! Oracle handlers for C14 (model functions exposed on the line protocol). -/
namespace Oracle
open Mobius

def c14Handlers : List (String × Handler) := []

end Oracle
