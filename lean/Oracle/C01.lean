import Oracle.Util
import MobiusModel.Drain
import MobiusModel.Spec.Tables
namespace Oracle
open Mobius

def infoOfArgs : List String → Option (InfoFork × List String)
  | pl :: ty :: cr :: fl :: pf :: rs :: cd :: md :: sc :: nm :: cm :: rest =>
    some (⟨hexb pl, hexb ty, hexb cr, hexb fl, hexb pf, hexb rs, hexb cd, hexb md, hexb sc, hexb nm, hexb cm⟩, rest)
  | _ => none

def infoStr (i : InfoFork) : String :=
  " ".intercalate [toHex i.platform, toHex i.ty, toHex i.creator, toHex i.flags, toHex i.platformFlags,
    toHex i.rsvd, toHex i.createDate, toHex i.modifyDate, toHex i.script, toHex i.name, toHex i.comment]

def parseForks : List String → List ForkInfo
  | f :: o :: rest => ⟨hexb f, num o⟩ :: parseForks rest
  | _ => []

def c01Handlers : List (String × Handler) := [
  ("field", fun (a : List String) => match a with
    | [ty, d] => toHex (Field.encode ⟨num ty, hexb d⟩)
    | _ => "bad-op"),
  ("fielddec", fun (a : List String) => match a with
    | [d] => showRes (fun (p : Field × Nat) => s!"{fieldStr p.1} {p.2}") (Field.decode (hexb d))
    | _ => "bad-op"),
  ("tran", fun (a : List String) => match a with
    | fl :: ir :: ty :: id :: er :: rest =>
      toHex (Transaction.encode ⟨UInt8.ofNat (num fl), UInt8.ofNat (num ir), num ty, num id, num er, parseFieldArgs rest⟩)
    | _ => "bad-op"),
  ("trandec", fun (a : List String) => match a with
    | [d] => showRes tranStr (Transaction.decode (hexb d))
    | _ => "bad-op"),
  ("streamdec", fun (a : List String) => match a with
    | [d] => showRes (fun ts => s!"{ts.length}" ++ String.join (ts.map fun t => " | " ++ tranStr t)) (parseStream (hexb d))
    | _ => "bad-op"),
  ("hs", fun (a : List String) => match a with
    | [v, s] => toHex (handshakeBytes (num v) (num s))
    | _ => "bad-op"),
  ("hsvalid", fun (a : List String) => match a with
    | [d] => toString (handshakeValid (hexb d))
    | _ => "bad-op"),
  ("hsreply", fun (_ : List String) => toHex handshakeReply),
  ("preamble", fun (a : List String) => match a with
    | [r, s] => toHex (transferPreamble (num r) (num s))
    | _ => "bad-op"),
  ("preambledec", fun (a : List String) => match a with
    | [d] => showRes (fun (p : Nat × Nat) => s!"{p.1} {p.2}") (transferDecode (hexb d))
    | _ => "bad-op"),
  ("user", fun (a : List String) => match a with
    | [id, ic, fl, nm] => toHex (User.encode ⟨num id, num ic, num fl, hexb nm⟩)
    | _ => "bad-op"),
  ("userdec", fun (a : List String) => match a with
    | [d] => showRes (fun (p : User × Nat) => s!"{p.1.id} {p.1.icon} {p.1.flags} {toHex p.1.name} {p.2}") (User.decode (hexb d))
    | _ => "bad-op"),
  ("acct", fun (a : List String) => match a with
    | [nm, lg, ac, pw] => toHex (AccountRec.encode ⟨hexb nm, hexb lg, hexb ac, pw == "1"⟩)
    | _ => "bad-op"),
  ("fnwi", fun (a : List String) => match a with
    | [ty, cr, sz, rs, sc, nm] => toHex (FileNameWithInfo.encode ⟨hexb ty, hexb cr, num sz, hexb rs, num sc, hexb nm⟩)
    | _ => "bad-op"),
  ("fnwidec", fun (a : List String) => match a with
    | [d] => showRes (fun (f : FileNameWithInfo) =>
        s!"{toHex f.ty} {toHex f.creator} {f.size} {toHex f.rsvd} {f.script} {toHex f.name}") (FileNameWithInfo.decode (hexb d))
    | _ => "bad-op"),
  ("info", fun (a : List String) => match infoOfArgs a with
    | some (i, []) => toHex i.encode
    | _ => "bad-op"),
  ("infodec", fun (a : List String) => match a with
    | [d] => showRes infoStr (InfoFork.decode (hexb d))
    | _ => "bad-op"),
  ("ffo", fun (a : List String) => match a with
    | fc :: rest => match infoOfArgs rest with
      | some (i, [ds]) => toHex (ffoHeader (num fc) i (num ds))
      | _ => "bad-op"
    | _ => "bad-op"),
  ("ffodec", fun (a : List String) => match a with
    | [d] => showRes (fun (r : Nat × InfoFork × Nat) => s!"{r.1} {infoStr r.2.1} {r.2.2}") (ffoDecode (hexb d))
    | _ => "bad-op"),
  ("forkhdr", fun (a : List String) => match a with
    | [ty, sz] => toHex (forkHeader (hexb ty) (num sz))
    | _ => "bad-op"),
  ("resume", fun (a : List String) => toHex (resumeEncode (parseForks a))),
  ("resumedec", fun (a : List String) => match a with
    | [d] => showRes (fun (fs : List ForkInfo) => s!"{fs.length}" ++ String.join (fs.map fun f => s!" {toHex f.fork} {f.offset}"))
        (resumeDecode (hexb d))
    | _ => "bad-op"),
  ("pathenc", fun (a : List String) => match a with
    | [p] => toHex (encodeFilePath (hexb p))
    | _ => "bad-op"),
  ("pathitems", fun (a : List String) => toHex (pathEncode (a.map hexb))),
  ("fhdr", fun (a : List String) => match a with
    | [p, d] => toHex (fileHeader (hexb p) (d == "1"))
    | _ => "bad-op"),
  ("pathdec", fun (a : List String) => match a with
    | [d] => showRes bytesList (pathDecode (hexb d))
    | _ => "bad-op"),
  ("artentry", fun (a : List String) => match a with
    | [id, dt, pa, ti, po, sz] => toHex (ArtEntry.encode ⟨num id, hexb dt, num pa, hexb ti, hexb po, num sz⟩)
    | _ => "bad-op"),
  ("artlist", fun (a : List String) => match a with
    | [id, ct, nm, ds, en] => toHex (artListEncode (num id) (num ct) (hexb nm) (hexb ds) (hexb en))
    | _ => "bad-op"),
  ("artparse", fun (a : List String) => match a with
    | [n, d] => match parseArtEntries (num n) (hexb d) with
      | some es => s!"ok {es.length}" ++ String.join (es.map fun e =>
          s!" {e.id} {toHex e.date} {e.parent} {toHex e.title} {toHex e.poster} {e.size}")
      | none => "unparseable"
    | _ => "bad-op"),
  ("newscat", fun (a : List String) => match a with
    | [c, ct, nm] => toHex (newsCatEncode (c == "1") (num ct) (hexb nm))
    | _ => "bad-op"),
  ("newspathdec", fun (a : List String) => match a with
    | [d] => showRes bytesList (newsPathDecode (hexb d))
    | _ => "bad-op"),
  ("tracker", fun (a : List String) => match a with
    | [po, us, pi, nm, ds, pw] => toHex (trackerRegEncode (num po) (num us) (hexb pi) (hexb nm) (hexb ds) (hexb pw))
    | _ => "bad-op"),
  ("decodeint", fun (a : List String) => match a with
    | [d] => showRes toString (decodeInt (hexb d))
    | _ => "bad-op"),
  ("time", fun (a : List String) => match a with
    | [y, s] => toHex (timeEncode (num y) (num s))
    | _ => "bad-op"),
  ("specconst", fun (a : List String) => match a with
    | [tbl, name] =>
      let t := if tbl == "tran" then Mobius.Spec.tranTypes else if tbl == "field" then Mobius.Spec.fieldIDs
               else if tbl == "access" then Mobius.Spec.accessConsts else Mobius.Spec.miscConsts
      match t.lookup name with
      | some v => toString v
      | none => "none"
    | _ => "bad-op"),
  ("specnames", fun (a : List String) => match a with
    | [tbl] =>
      let t := if tbl == "tran" then Mobius.Spec.tranTypes else if tbl == "field" then Mobius.Spec.fieldIDs
               else if tbl == "access" then Mobius.Spec.accessConsts else Mobius.Spec.miscConsts
      " ".intercalate (t.map (·.1))
    | _ => "bad-op"),
  ("drain", fun (a : List String) => match a with
    | d :: sizes =>
      let r := drain (hexb d) (sizes.map num) 0
      s!"{toHex r.out} {r.off} {r.eof}"
    | _ => "bad-op")
]

end Oracle
