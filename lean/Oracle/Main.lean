import Oracle.C01
/-!
  Line-protocol driver: one request per line (`op arg…`, byte strings in hex, `-` = empty),
  one answer line per request.  The functions executed are the definitions the theorems are about.
-/
open Oracle

def handlers : List (String × Handler) := c01Handlers

def step (line : String) : String :=
  match (line.splitOn " ").filter (· ≠ "") with
  | [] => "bad-op"
  | op :: args =>
    match handlers.lookup op with
    | some h => h args
    | none => "bad-op"

partial def loop (hin hout : IO.FS.Stream) : IO Unit := do
  let line ← hin.getLine
  if line.isEmpty then return ()
  hout.putStrLn (step (line.replace "\n" ""))
  hout.flush
  loop hin hout

def main : IO Unit := do
  loop (← IO.getStdin) (← IO.getStdout)
