import Oracle.Util
/-! Oracle handlers for C02 (model functions exposed on the line protocol). -/
namespace Oracle
open Mobius

def c02Handlers : List (String × Handler) := []

end Oracle
