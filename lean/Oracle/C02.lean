import Oracle.Util
import MobiusModel.SessionOracle
/-! Oracle handlers for C02: the Session / Scan / readFull / BanGate model on the line protocol
    (argument parsing and printing live in MobiusModel/SessionOracle.lean). -/
namespace Oracle
open Mobius

def c02Handlers : List (String × Handler) := SessionOracle.handlers

end Oracle
