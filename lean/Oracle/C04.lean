import Oracle.Util
/-! Oracle handlers for C04 (model functions exposed on the line protocol). -/
namespace Oracle
open Mobius

def c04Handlers : List (String × Handler) := []

end Oracle
