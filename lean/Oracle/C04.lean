import Oracle.Util
import MobiusModel.SessionOracle
import MobiusModel.LoginHistory
import MobiusModel.SetUserPw
import MobiusModel.BanReload
/-! Oracle handlers for C04: the Session / Scan / readFull / BanGate model on the line protocol
    (argument parsing and printing live in MobiusModel/SessionOracle.lean), the batched account
    edit (LoginHistory) and the ban gate across reload steps (BanReload). -/
namespace Oracle
open Mobius

/-- `n (ty data)*` → the fields of one record and the remaining arguments. -/
def parseRecFields : Nat → List String → List Field × List String
  | 0, rest => ([], rest)
  | n + 1, ty :: d :: rest => let r := parseRecFields n rest; (⟨num ty, hexb d⟩ :: r.1, r.2)
  | _, rest => ([], rest)

def parseRecs : Nat → List String → List (List Field) × List String
  | 0, rest => ([], rest)
  | n + 1, k :: rest =>
    let (fs, rest1) := parseRecFields (num k) rest
    let r := parseRecs n rest1
    (fs :: r.1, r.2)
  | _, rest => ([], rest)

/-- `acctbatch nAcct (login hash)* nRecs (nFields (ty data)*)* login*`: the account table after one
    TranUpdateUser holding the records, queried at the given logins.  Stored hashes use the oracle's
    convention (`1 :: p` = bcrypt hash of `p`). -/
def acctBatchOp : List String → String
  | na :: rest =>
    let (accts, rest1) := SessionOracle.parsePairs (num na) rest
    match rest1 with
    | nr :: rest2 =>
      let (recs, qs) := parseRecs (num nr) rest2
      let r := LoginHistory.applyBatch (fun p => 1 :: p) recs (LoginHistory.ofList accts)
      s!"ack={if r.2 then 1 else 0}" ++ String.join (qs.map fun q =>
        match r.1 (hexb q) with
        | some h => s!" {q}={if h.isEmpty then "-" else toHex h}"
        | none => s!" {q}=none")
    | [] => "bad-op"
  | _ => "bad-op"

/-- `(S|B) nFields (ty data)*` repeated: set-user requests and single-record update-user requests. -/
def parseEdits : Nat → List String → List LoginHistory.Edit × List String
  | 0, rest => ([], rest)
  | n + 1, k :: nf :: rest =>
    let (fs, rest1) := parseRecFields (num nf) rest
    let r := parseEdits n rest1
    ((if k == "S" then LoginHistory.Edit.setUser fs else LoginHistory.Edit.batch [fs]) :: r.1, r.2)
  | _, rest => ([], rest)

/-- `setuserhist nAcct (login hash)* nEdits ((S|B) nFields (ty data)*)* login*`: the account table after a
    history of TranSetUser / single-record TranUpdateUser requests, with the acknowledgements in order. -/
def setUserHistOp : List String → String
  | na :: rest =>
    let (accts, rest1) := SessionOracle.parsePairs (num na) rest
    match rest1 with
    | ne :: rest2 =>
      let (es, qs) := parseEdits (num ne) rest2
      let r := LoginHistory.applyEdits (fun p => 1 :: p) es (LoginHistory.ofList accts)
      s!"acks={String.join (r.2.map fun b => if b then "1" else "0")}" ++ String.join (qs.map fun q =>
        match r.1 (hexb q) with
        | some h => s!" {q}={if h.isEmpty then "-" else toHex h}"
        | none => s!" {q}=none")
    | [] => "bad-op"
  | _ => "bad-op"

def parseEvents : Nat → List String → List BanReload.Ev
  | 0, _ => []
  | n + 1, "L" :: rest => .loadLock :: parseEvents n rest
  | n + 1, "R" :: rest => .loadRead :: parseEvents n rest
  | n + 1, "U" :: rest => .loadUnlock :: parseEvents n rest
  | n + 1, "C" :: ip :: now :: rest => .check (hexb ip) (num now) :: parseEvents n rest
  | n + 1, "A" :: ip :: k :: u :: rest => .add (hexb ip) (if k == "p" then none else some (num u)) :: parseEvents n rest
  | n + 1, "E" :: nb :: rest =>
    let (bans, rest1) := SessionOracle.parseBans (num nb) rest
    .edit ⟨bans⟩ :: parseEvents n rest1
  | _, _ => []

/-- `banreload nBans (ip p|t until)* nEv ev*` (events: `L` `R` `U` = the three steps of Load, `C ip now` = a
    connection reaches the ban check, `A ip p|t until` = BanFile.Add, `E nBans (ip p|t until)*` = the operator
    replaces the file): the decisions of the checks in order, or `disabled` when the schedule asks for a step
    the mutex does not allow. -/
def banReloadOp : List String → String
  | nb :: rest =>
    let (bans, rest1) := SessionOracle.parseBans (num nb) rest
    match rest1 with
    | ne :: evs =>
      match BanReload.run true ⟨⟨bans⟩, ⟨bans⟩, .idle⟩ (parseEvents (num ne) evs) with
      | some (s, obs) =>
        s!"ok obs={String.join (obs.map fun o => if o.refused then "1" else "0")} idle={if s.loader = .idle then 1 else 0}"
      | none => "disabled"
    | [] => "bad-op"
  | _ => "bad-op"

def c04Handlers : List (String × Handler) :=
  SessionOracle.handlers ++ [("acctbatch", acctBatchOp), ("banreload", banReloadOp), ("setuserhist", setUserHistOp)]

end Oracle
