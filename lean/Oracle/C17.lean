import Oracle.Util
/-! Oracle handlers for C17 (model functions exposed on the line protocol). -/
namespace Oracle
open Mobius

def c17Handlers : List (String × Handler) := []

end Oracle
