import Oracle.Util
import MobiusModel.SessionOracle
import MobiusModel.KickTimer
/-! Oracle handlers for C17: the Session / Scan / readFull / BanGate model on the line protocol
    (argument parsing and printing live in MobiusModel/SessionOracle.lean). -/
namespace Oracle
open Mobius

def c17Handlers : List (String × Handler) := SessionOracle.handlers ++ [
  -- kickhist <op,op,…> : connection-level events (add | spin:<id> | leave:<n> | timer:<n>) through Kick.step
  ("kickhist", fun (a : List String) => match a with
    | [ops] => Kick.oracleLine ops
    | _ => "bad-op")]

end Oracle
