import Oracle.Driver
import Oracle.C01
import Oracle.C01Ext

def main : IO Unit := Oracle.run (Oracle.c01Handlers ++ Oracle.c01ExtHandlers)
