import Oracle.Driver
import Oracle.C01

def main : IO Unit := Oracle.run (Oracle.c01Handlers)
