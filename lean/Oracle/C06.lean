import Oracle.AccessUtil
import Oracle.SetUserLogins
import MobiusModel.KickGrace
/-! Oracle handlers for C06: the two account-creation paths and the disconnect decision. -/
namespace Oracle
open Mobius Mobius.Spec Mobius.Authz

def banKindStr : BanKind → String
  | .temporary => "temporary" | .permanent => "permanent"


/-- One token of a kick-grace history: `Lp` / `Lu` login of a protected / plain user, `C<n>` n logins each followed
    by its logout, `K<s>` accepted-or-not disconnect request naming the id held by connection serial `s`,
    `H<s>` connection `s` hangs up (its loop's deferred Disconnect()), `T<j>` the j-th pending timer fires. -/
def kickTok (w : KickGrace.World) (t : String) : KickGrace.World :=
  let arg := num (String.ofList (t.toList.drop 1))
  let idxOf (p : KickGrace.Handle → Bool) (k : Nat) : Option Nat :=
    let rec go (l : List KickGrace.Handle) (i k : Nat) : Option Nat :=
      match l with
      | [] => none
      | h :: r => if p h then (if k = 0 then some i else go r (i + 1) (k - 1)) else go r (i + 1) k
    go w.handles 0 k
  match t.toList.head? with
  | some 'L' => KickGrace.step w (.login (t == "Lp"))
  | some 'C' => Nat.rec (motive := fun _ => KickGrace.World) w (fun _ w =>
      let w1 := KickGrace.step w (.login false)
      let w2 := KickGrace.step w1 (.disconnect (w1.handles.length - 1))
      -- the spent connection has no handle left, so nothing can consult its once-flag again: it is dropped here
      -- (the model's `done` is a list; 65 000 logins would make every later membership test linear)
      { w2 with done := w.done, closed := w.closed, left := w.left }) arg
  | some 'K' => match w.reg.clients.find? (·.conn == arg) with
    | some c => KickGrace.step w (.kick true c.id)
    | none => w
  | some 'H' => match idxOf (fun h => h.kind == .loop && h.conn == arg) 0 with
    | some j => KickGrace.step w (.disconnect j)
    | none => w
  | some 'T' => match idxOf (fun h => h.kind == .timer) arg with
    | some j => KickGrace.step w (.disconnect j)
    | none => w
  | _ => w

def kickTable (w : KickGrace.World) : String :=
  ",".intercalate (w.reg.clients.map fun c => s!"{c.id}:{c.conn}")

def c06Handlers : List (String × Handler) := [
  -- newuser <creator hex> <login exists 0|1> <access field hex> <create fails 0|1>
  ("newuser", fun (a : List String) => match a with
    | [c, e, f, x] => createStr (newUser (bitmapOf c) (flag e) (hexb f) (flag x))
    | _ => "bad-op"),
  -- updcreate <creator hex> <access sub-field hex> <create fails 0|1>
  ("updcreate", fun (a : List String) => match a with
    | [c, f, x] => createStr (updateUserCreate (bitmapOf c) (hexb f) (flag x))
    | _ => "bad-op"),
  -- subset <a hex> <b hex>  : a ⊆ b (the property's own predicate)
  ("subset", fun (a : List String) => match a with
    | [x, y] => toString (AccessBitmap.subsetB (bitmapOf x) (bitmapOf y))
    | _ => "bad-op"),
  ("ofbytes", fun (a : List String) => match a with
    | [d] => bitmapStr (AccessBitmap.ofBytes (hexb d))
    | _ => "bad-op"),
  -- kickrun <tokens…> : the client table (id:connection serial) after the history
  ("kickrun", fun (a : List String) => kickTable (a.foldl kickTok KickGrace.World.init)),
  -- kickunheld <which> : a disconnect request naming an id nobody holds: nothing is scheduled, nothing changes
  ("kickunheld", fun (_ : List String) =>
    let w := (KickGrace.step (KickGrace.step KickGrace.World.init (.login true)) (.login false))
    let (w', r) := KickGrace.kick w true 31249
    s!"alive={r == .panicked && w'.handles == w.handles} protected_ok={w'.reg.clients == w.reg.clients}"),
  -- disconnect <requester hex> <target hex> <option>  →  requester guard, then the target decision
  ("disconnect", fun (a : List String) => match a with
    | [r, t, o] => match banOptOf o with
      | some opt =>
        if !(bitmapOf r).isSet Priv.disconUser then "denied"
        else
          let d := disconnectTarget (bitmapOf t) "L" "IP" opt []
          let rep := match d.reply with | .errReply _ => "protected" | _ => "reply"
          let bans := if d.bans.isEmpty then "-" else ",".intercalate (d.bans.map fun b => banKindStr b.2)
          s!"{rep} bans={bans} scheduled={d.scheduled} notice={d.notice}"
      | none => "bad-op"
    | _ => "bad-op")
] ++ suLoginsHandlers

end Oracle
