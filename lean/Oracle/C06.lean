import Oracle.Util
/-! Oracle handlers for C06 (model functions exposed on the line protocol). -/
namespace Oracle
open Mobius

def c06Handlers : List (String × Handler) := []

end Oracle
