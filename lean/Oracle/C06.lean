import Oracle.AccessUtil
/-! Oracle handlers for C06: the two account-creation paths and the disconnect decision. -/
namespace Oracle
open Mobius Mobius.Spec Mobius.Authz

def banKindStr : BanKind → String
  | .temporary => "temporary" | .permanent => "permanent"

def c06Handlers : List (String × Handler) := [
  -- newuser <creator hex> <login exists 0|1> <access field hex> <create fails 0|1>
  ("newuser", fun (a : List String) => match a with
    | [c, e, f, x] => createStr (newUser (bitmapOf c) (flag e) (hexb f) (flag x))
    | _ => "bad-op"),
  -- updcreate <creator hex> <access sub-field hex> <create fails 0|1>
  ("updcreate", fun (a : List String) => match a with
    | [c, f, x] => createStr (updateUserCreate (bitmapOf c) (hexb f) (flag x))
    | _ => "bad-op"),
  -- subset <a hex> <b hex>  : a ⊆ b (the property's own predicate)
  ("subset", fun (a : List String) => match a with
    | [x, y] => toString (AccessBitmap.subsetB (bitmapOf x) (bitmapOf y))
    | _ => "bad-op"),
  ("ofbytes", fun (a : List String) => match a with
    | [d] => bitmapStr (AccessBitmap.ofBytes (hexb d))
    | _ => "bad-op"),
  -- disconnect <requester hex> <target hex> <option>  →  requester guard, then the target decision
  ("disconnect", fun (a : List String) => match a with
    | [r, t, o] => match banOptOf o with
      | some opt =>
        if !(bitmapOf r).isSet Priv.disconUser then "denied"
        else
          let d := disconnectTarget (bitmapOf t) "L" "IP" opt []
          let rep := match d.reply with | .errReply _ => "protected" | _ => "reply"
          let bans := if d.bans.isEmpty then "-" else ",".intercalate (d.bans.map fun b => banKindStr b.2)
          s!"{rep} bans={bans} scheduled={d.scheduled} notice={d.notice}"
      | none => "bad-op"
    | _ => "bad-op")
]

end Oracle
