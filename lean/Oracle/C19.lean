import Oracle.Util
/-! Oracle handlers for C19 (model functions exposed on the line protocol). -/
namespace Oracle
open Mobius

def c19Handlers : List (String × Handler) := []

end Oracle
