import Oracle.Util
import MobiusModel.Board
import MobiusModel.Announce
/-! Oracle handlers for C19 (model functions exposed on the line protocol). -/
namespace Oracle
open Mobius Mobius.Board

/-- FNV-1a 64 of a byte string (large boards are compared by length + hash). -/
def fnv64 (b : Bytes) : UInt64 :=
  b.foldl (fun h c => (h ^^^ c.toUInt64) * 1099511628211) 14695981039346656037

def digest (b : Bytes) : String := s!"{b.length}/{(fnv64 b).toNat}"

/-- `512,384,…` → buffer-size function (the last entry repeats; empty script = 512; sizes below 1 become 1). -/
def sizeFn (s : String) : Nat → Nat :=
  let l := (s.splitOn ",").filterMap (·.toNat?)
  fun i => max 1 (l.getD i (l.getLast?.getD 512))

/-- `r:<sizes>` | `p:<hex>` -/
def parseOp (s : String) : Option Op :=
  match s.splitOn ":" with
  | ["r", sz] => some (.read (sizeFn sz))
  | ["r"] => some (.read (sizeFn ""))
  | ["p", h] => some (.post (hexb h))
  | _ => none

/-- `<tag>:s:<off>` | `<tag>:r:<n>` | `<tag>:w:<hex>` -/
def parseRaw (s : String) : Option (Nat × Raw) :=
  match s.splitOn ":" with
  | [t, "s", o] => some (num t, .seek (num o))
  | [t, "r", n] => some (num t, .read (num n))
  | [t, "w", h] => some (num t, .write (hexb h))
  | _ => none

def parseAEv (s : String) : Option Announce.Ev :=
  match s.splitOn ":" with
  | ["c", n] => some (.connect (num n))
  | ["d", n] => some (.disconnect (num n))
  | ["l"] => some .list
  | ["s", p] => some (.snap (num p))
  | ["v", p] => some (.deliver (num p))
  | _ => none

def c19Handlers : List (String × Handler) := [
  -- c19announce <id,id,…|-> <event>…  → the announcements handed to the outbox, in order, as `<client>:<post>`, then
  --   ` | ` and for every post snapped the number of audience members not yet addressed (`<post>=<n>`)
  ("c19announce", fun (a : List String) => match a with
    | cl :: evs =>
      match evs.mapM parseAEv with
      | some l =>
        let clients := if cl == "-" then [] else (cl.splitOn ",").map num
        let s := Announce.run ⟨clients, fun _ => [], []⟩ l
        let posts := (l.filterMap fun e => match e with | .snap p => some p | _ => none).eraseDups
        " ".intercalate (s.inbox.map fun (c, p) => s!"{c}:{p}") ++ " | " ++
          " ".intercalate (posts.map fun p => s!"{p}={(s.pending p).length}")
      | none => "bad-op"
    | _ => "bad-op"),
  -- c19post <template> <name> <date> <body>  → the post text
  ("c19post", fun (a : List String) => match a with
    | [t, n, d, b] => toHex (formatPost (hexb t) (hexb n) (hexb d) (hexb b))
    | _ => "bad-op"),
  -- c19run <init> <op>…  → per op its result digest (reads) or `-` (posts), then final data digest, file digest
  ("c19run", fun (a : List String) => match a with
    | init :: ops =>
      match ops.mapM parseOp with
      | some l =>
        let d := hexb init
        let r := runOps ⟨d, 0, d⟩ l
        let rs := (l.zip r.2).map fun (op, res) => match op with
          | .read _ => digest res
          | .post _ => "-"
        " ".intercalate rs ++ " | " ++ digest r.1.data ++ " " ++ digest r.1.file
      | none => "bad-op"
    | _ => "bad-op"),
  -- c19postf <persistOk 0|1> <nclients> <template> <name> <date> <body> <memory> <file>  → handler outcome with the persist result as input
  ("c19postf", fun (a : List String) => match a with
    | [ok, n, t, nm, d, b, mem, file] =>
      let s : Store := ⟨hexb mem, 0, hexb file⟩
      let r := handlePostF (ok == "1") (hexb t) (List.range (num n)) (hexb nm) (hexb d) (hexb b) s
      s!"acked={if r.acked then 1 else 0} notes={r.notes.length} file={digest r.store.file}"
    | _ => "bad-op"),
  -- c19board <init> <post>…  → hex of the board after the posts (in that order)
  ("c19board", fun (a : List String) => match a with
    | init :: ps => toHex (boardAfter (hexb init) (ps.map fun h => Op.post (hexb h)))
    | _ => "bad-op"),
  -- c19raw <init> <cursor> <event>…  → per event `<bytes delivered digest>,<eof>`, then final data digest, file digest
  ("c19raw", fun (a : List String) => match a with
    | init :: cur :: evs =>
      match evs.mapM parseRaw with
      | some l =>
        let d := hexb init
        let r := runRaw ⟨d, num cur, d⟩ l
        " ".intercalate (r.2.map fun (_, b, e) => s!"{digest b},{if e then 1 else 0}") ++ " | " ++
          digest r.1.data ++ " " ++ digest r.1.file
      | none => "bad-op"
    | _ => "bad-op"),
  -- c19got <init> <cursor> <tag> <event>…  → hex of what operation <tag> collected in the raw schedule
  ("c19got", fun (a : List String) => match a with
    | init :: cur :: tag :: evs =>
      match evs.mapM parseRaw with
      | some l =>
        let d := hexb init
        toHex (got (num tag) (runRaw ⟨d, num cur, d⟩ l).2)
      | none => "bad-op"
    | _ => "bad-op")
]

end Oracle
