import Oracle.Util
import Oracle.C01
import MobiusModel.Transfers
import MobiusModel.DownloadRoots
import MobiusModel.DownloadNames
/-! Oracle handlers for C08 (model functions exposed on the line protocol).

  Byte strings may be written `hex+z<N>+hex…`: `z<N>` stands for N zero bytes (file contents never
  influence header bytes or sizes; payload equality is judged by the harness against the disk).

  File spec (`fileOfArgs`): `<name> <size> <rsrc: -|len> <mtime 8> <type 4> <creator 4> <0 | 1 + 11 information-fork tokens>`. -/
namespace Oracle
open Mobius

def hexzPiece (s : String) : Bytes :=
  if s.startsWith "z" then List.replicate (num (s.drop 1).toString) 0 else hexb s

/-- `ab01+z1000+ff` → bytes. -/
def hexz (s : String) : Bytes :=
  if s = "-" then [] else ((s.splitOn "+").map hexzPiece).flatten

def optNum (s : String) : Option Nat := if s = "-" then none else some (num s)

def fileOfArgs : List String → Option (StoredFile × List String)
  | nm :: sz :: rs :: mt :: ty :: cr :: hasInfo :: rest =>
    let rsrcV : Option Bytes := (optNum rs).map (fun n => List.replicate n 0)
    let base : StoredFile := StoredFile.mk (hexb nm) (List.replicate (num sz) 0) none rsrcV (hexb mt) (hexb ty) (hexb cr)
    if hasInfo = "1" then
      match infoOfArgs rest with
      | some (i, rest') => some ({ base with info := some i }, rest')
      | none => none
    else some (base, rest)
  | _ => none

def fieldsStr (fs : List Field) : String := " ".intercalate (fs.map fieldStr)

/-- `<root> <filespec>` repeated `n` times. -/
def rootedFiles : Nat → List String → Option (List (Bytes × StoredFile))
  | 0, [] => some []
  | 0, _ => none
  | n + 1, r :: rest => match fileOfArgs rest with
    | some (f, rest') => (rootedFiles n rest').map fun l => (hexb r, f) :: l
    | none => none
  | _ + 1, [] => none

/-- The store that holds, at the one path in question (`[]`), the listed file under each listed root. -/
def storeOf (l : List (Bytes × StoredFile)) : DlRoots.Store := fun root path =>
  if path = [] then (l.find? fun e => e.1 == root).map (·.2) else none

/-- `{<on-disk name> <size>}*n` → the folder (contents are zeros: only names and sizes matter here). -/
def dirOfArgs : Nat → List String → Option DlNames.Dir
  | 0, [] => some []
  | 0, _ => none
  | n + 1, nm :: sz :: rest => (dirOfArgs n rest).map fun d =>
      (hexb nm, { name := hexb nm, data := List.replicate (num sz) 0 : StoredFile }) :: d
  | _ + 1, _ => none

def c08Handlers : List (String × Handler) := [
  -- dlnamed <k|-> <preview> <wire name> <n> {<on-disk name> <size>}*n
  --   → dec=<the on-disk name the request resolves to> utf8=<the wire bytes are well-formed UTF-8>
  --     reply=<entry whose sizes the reply announces> stream=<entry whose bytes the transfer carries>
  ("dlnamed", fun (a : List String) => match a with
    | k :: pv :: wire :: n :: rest => match dirOfArgs (num n) rest with
      | some d =>
        let w := hexb wire
        let rq : DlRequest := { resume := optNum k, preview := pv == "1" }
        let st := DlNames.storeOf [47] d
        let who (pred : StoredFile → Bool) : String := match d.find? (fun e => pred e.2) with
          | some e => toHex e.1
          | none => "none"
        let head := s!"dec={toHex (DlNames.resolve w)} utf8={DlNames.utf8Valid w}"
        match DlRoots.handleDownload st { serverRoot := [47] } w rq with
        | none => s!"{head} reply=none stream=none"
        | some (rep, p) =>
          let out := DlRoots.serveTransfer st p
          s!"{head} reply={who fun f => downloadReply f rq == rep} stream={who fun f => out == some (downloadStream f rq)}"
      | none => "bad-op"
    | _ => "bad-op"),
  -- dlreply <k|-> <preview> <ref> <filespec> → the reply's fields in order
  ("dlreply", fun (a : List String) => match a with
    | k :: pv :: ref :: rest => match fileOfArgs rest with
      | some (f, []) => fieldsStr (downloadReplyFields (hexb ref) f { resume := optNum k, preview := pv == "1" })
      | _ => "bad-op"
    | _ => "bad-op"),
  -- dlstream <k|-> <preview> <filespec> → len hdr trailer-header rsrc-length err
  ("dlstream", fun (a : List String) => match a with
    | k :: pv :: rest => match fileOfArgs rest with
      | some (f, []) =>
        let rq : DlRequest := { resume := optNum k, preview := pv == "1" }
        let (out, err) := downloadStream f rq
        let hl := if rq.preview then 0 else f.hdrLen
        let body := out.drop hl
        let rem := f.data.length - (rq.resume.getD 0)
        let trailer := body.drop rem
        let rl := f.rsrcSize
        s!"len={out.length} hdr={toHex (out.take hl)} data={min rem body.length} trailer={toHex (trailer.take (trailer.length - rl))} rsrc={min rl trailer.length} err={err}"
      | _ => "bad-op"
    | _ => "bad-op"),
  -- dlroute <k|-> <preview> <ref> <serverRoot> <acctRoot|-> <n> {<root> <filespec>}*n
  --   → granted=false | granted=true reply=<root whose file the reply describes> stream=<root whose file the stream carries>
  ("dlroute", fun (a : List String) => match a with
    | k :: pv :: _ref :: sr :: ar :: n :: rest => match rootedFiles (num n) rest with
      | some l =>
        let st := storeOf l
        let s : DlRoots.Sess := { serverRoot := hexb sr, acctRoot := if ar = "-" then [] else hexb ar }
        let rq : DlRequest := { resume := optNum k, preview := pv == "1" }
        match DlRoots.handleDownload st s [] rq with
        | none => "granted=false"
        | some (rep, p) =>
          let who (pred : StoredFile → Bool) : String := match l.find? (fun e => pred e.2) with
            | some e => toHex e.1
            | none => "none"
          let out := DlRoots.serveTransfer st p
          s!"granted=true reply={who fun f => downloadReply f rq == rep} stream={who fun f => out == some (downloadStream f rq)}"
      | none => "bad-op"
    | _ => "bad-op"),
  -- dlsplit <stream hexz> <fileSize> → what the reference client of the theorems obtains (lengths + info fork)
  ("dlsplit", fun (a : List String) => match a with
    | [s, n] => match splitDownload (hexz s) (num n) with
      | some (info, data, rest) => s!"ok info={toHex info} data={data.length} rest={toHex rest}"
      | none => "none"
    | _ => "bad-op"),
  -- hdrfields <header hex> → INFO size field, name size field (what the consistency theorems read)
  ("hdrfields", fun (a : List String) => match a with
    | [h] => let b := hexb h; s!"infosize={rd32 (b.drop 36)} namesize={rd16 (b.drop 110)} datasize={rd32 (b.drop (b.length - 4))} forks={rd16 (b.drop 22)}"
    | _ => "bad-op")
]

end Oracle
