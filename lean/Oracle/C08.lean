import Oracle.Util
/-! Oracle handlers for C08 (model functions exposed on the line protocol). -/
namespace Oracle
open Mobius

def c08Handlers : List (String × Handler) := []

end Oracle
