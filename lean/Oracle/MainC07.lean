import Oracle.Driver
import Oracle.C01
import Oracle.C07

def main : IO Unit := Oracle.run (Oracle.c01Handlers ++ Oracle.c07Handlers)
