import Oracle.Util
/-! Oracle handlers for C03 (model functions exposed on the line protocol). -/
namespace Oracle
open Mobius

def c03Handlers : List (String × Handler) := []

end Oracle
