import Oracle.Util
import MobiusModel.RWLock
import MobiusModel.GrownState
/-! Oracle handlers for C03 (model functions exposed on the line protocol). -/
namespace Oracle
open Mobius

def rwAct : String → Option RWLock.Act
  | "rlock" => some .rlock
  | "runlock" => some .runlock
  | "lockreq" => some .lockReq
  | "lockgrant" => some .lockGrant
  | "unlock" => some .unlock
  | _ => none

def natList (l : List Nat) : String := String.intercalate "," (l.map toString)

/-- `rwrun <goroutine> <action> …`: the RWMutex model on a schedule.  An action that is blocked (or not
    possible) in the current state is reported `0` and skipped, one that happens is reported `1`;
    the final state follows. -/
def rwRunOp (a : List String) : String :=
  let rec go (s : RWLock.S) (acc : String) : List String → String
    | t :: act :: rest =>
      match rwAct act with
      | none => "bad-op"
      | some x =>
        match RWLock.step s (num t) x with
        | some s' => go s' (acc ++ "1") rest
        | none => go s (acc ++ "0") rest
    | _ =>
      let w := match s.writer with
        | some t => toString t
        | none => "-"
      s!"steps={if acc.isEmpty then "-" else acc} readers={natList s.readers} writer={w} waiting={natList s.waiting}"
  go RWLock.init "" a

/-- `replyheader n len*`: header total size and the 16-bit field prefixes of a transaction whose fields
    carry data of the given lengths (GrownState.replyHeader). -/
def replyHeaderOp : List String → String
  | _ :: lens =>
    let r := GrownState.replyHeader (lens.map num)
    s!"total={r.1} prefixes={if r.2.isEmpty then "-" else natList r.2}"
  | _ => "bad-op"

def c03Handlers : List (String × Handler) := [("rwrun", rwRunOp), ("replyheader", replyHeaderOp)]

end Oracle
