import Oracle.Driver
import Oracle.C01
import Oracle.C11

def main : IO Unit := Oracle.run (Oracle.c01Handlers ++ Oracle.c11Handlers)
