import Oracle.Util
/-! Oracle handlers for C10 (model functions exposed on the line protocol). -/
namespace Oracle
open Mobius

def c10Handlers : List (String × Handler) := []

end Oracle
