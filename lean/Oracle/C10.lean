import Oracle.Util
import Oracle.C01
import Oracle.C08
import Oracle.C09
import MobiusModel.Tree
import MobiusModel.TreeAlias
/-! Oracle handlers for C10 (model functions exposed on the line protocol).

  Tree tokens (preorder): `D <name> <number of children> …children…` | `F <filespec>` (file spec as in C08).
  Actions: `s` (send) | `n` (next) | `r<k>` (resume from k).
  Paths: hex components joined by `/` (`-` = the upload folder itself). -/
namespace Oracle
open Mobius

mutual
partial def parseNode : List String → Option (Node × List String)
  | "D" :: nm :: n :: rest =>
    match parseKids (num n) rest with
    | some (ks, rest') => some (.dir (hexb nm) ks, rest')
    | none => none
  | "F" :: rest =>
    match fileOfArgs rest with
    | some (f, rest') => some (.file f, rest')
    | none => none
  | _ => none
partial def parseKids : Nat → List String → Option (List Node × List String)
  | 0, rest => some ([], rest)
  | n + 1, rest =>
    match parseNode rest with
    | some (k, rest') =>
      match parseKids n rest' with
      | some (ks, rest'') => some (k :: ks, rest'')
      | none => none
    | none => none
end

def parseAction (s : String) : Action :=
  if s = "n" then .next else if s.startsWith "r" then .resume (num (s.drop 1).toString) else .send

def pathStr (p : List Bytes) : String := if p.isEmpty then "-" else "/".intercalate (p.map toHex)

def parsePath (s : String) : List Bytes := if s = "-" then [] else (s.splitOn "/").map hexb

/-- One item of the folder-download dialogue: header, kind, and the body split into
    size prefix / flattened-file header / data length / trailer (without the fork bytes) / fork length. -/
def itemStr (e : Entry) (a : Action) (o : ItemOut) : String :=
  match e.file with
  | none => s!"{toHex o.header} d {o.body.length}"
  | some f =>
    if o.body.isEmpty then s!"{toHex o.header} f 0" else
    let k := match a with | .resume k => k | _ => 0
    let rem := f.data.length - k
    let after := o.body.drop (4 + f.hdrLen + rem)
    let rl := if after.isEmpty then 0 else f.rsrcSize
    s!"{toHex o.header} f {o.body.length} prefix={rd32 o.body} ffo={toHex ((o.body.drop 4).take f.hdrLen)} data={rem} trailer={toHex (after.take (after.length - rl))} rsrc={rl}"

def slotStr (s : Slot) : String :=
  (match s.final with | some .dir => "d" | some (.file d) => s!"f{d.length}" | none => "") ++
  (match s.inc with | some p => s!"p{p.length}" | none => "")

def parseSlot (s : String) : Slot :=
  -- d | f<n> | p<n> | f<n>p<m> | dp<m>
  let (fin, inc) := match s.splitOn "p" with
    | [a, b] => (a, some (num b))
    | [a] => (a, none)
    | _ => ("", none)
  { final := if fin = "d" then some .dir else if fin.startsWith "f" then some (.file (List.replicate (num (fin.drop 1).toString) 0)) else none,
    inc := inc.map (fun n => List.replicate n 0) }

def parseFs : List String → Fs
  | [] => []
  | t :: rest => match t.splitOn ":" with
    | [p, s] => (parsePath p, parseSlot s) :: parseFs rest
    | _ => parseFs rest

partial def parseItems : List String → List UpItem
  | "D" :: p :: rest => { path := parsePath p, isDir := true } :: parseItems rest
  | "F" :: p :: fc :: rest =>
    match infoOfArgs rest with
    | some (i, dl :: rl :: rest') =>
      { path := parsePath p, isDir := false, fc := num fc, info := i, data := List.replicate (num dl) 0, rsrc := List.replicate (num rl) 0 } :: parseItems rest'
    | _ => []
  | _ => []

/-- distinct bound paths of a store, most recent binding, non-empty slots only -/
def fsListing (fs : Fs) : List String :=
  let paths := fs.foldl (fun acc (p : List Bytes × Slot) => if acc.contains p.1 then acc else acc ++ [p.1]) ([] : List (List Bytes))
  (paths.filterMap fun p => let s := fs.get p; if s = {} then none else some (pathStr p ++ ":" ++ slotStr s))

def splitBar (a : List String) : List (List String) :=
  a.foldr (fun s acc => if s = "|" then [] :: acc else match acc with | h :: t => (s :: h) :: t | [] => [[s]]) [[]]

def c10Own : List (String × Handler) := [
  -- walk <tree> → the callbacks of filepath.Walk: path, d|f, visible
  ("walk", fun (a : List String) => match parseNode a with
    | some (t, []) => " ".intercalate ((t.walk []).map fun e => s!"{pathStr e.path}:{if e.isDir then "d" else "f"}:{if e.visible then 1 else 0}")
    | _ => "bad-op"),
  -- fcount <tree> → field 220, field 108
  ("fcount", fun (a : List String) => match parseNode a with
    | some (t, []) => s!"{t.itemCount} {t.totalSize}"
    | _ => "bad-op"),
  -- fdl <actions…> | <tree> → count ; items
  ("fdl", fun (a : List String) => match splitBar a with
    | [acts, tree] => match parseNode tree with
      | some (t, []) =>
        let as := acts.map parseAction
        let outs := downloadFolder t as
        let es := t.items
        let rows := (es.zip (as ++ List.replicate es.length Action.send)).zip outs
        s!"count={t.itemCount} n={outs.length}" ++ String.join (rows.map fun r => " | " ++ itemStr r.1.1 r.1.2 r.2)
      | _ => "bad-op"
    | _ => "bad-op"),
  -- ful <cut: -|index:n> | <store: path:slot …> | <items> → ok ; what the server wrote per item ; the store
  ("ful", fun (a : List String) => match splitBar a with
    | [cut, store, items] =>
      let its := parseItems items
      let cutAt : Option (Nat × Nat) := match cut with
        | [c] => (match c.splitOn ":" with | [i, n] => some (num i, num n) | _ => none)
        | _ => none
      let withCuts := its.zipIdx.map fun (it, idx) => (it, match cutAt with | some (i, n) => if i = idx then some n else none | none => none)
      let (fs, ws, ok) := uploadItems (parseFs store) withCuts
      s!"ok={ok} wrote=" ++ " ".intercalate (ws.map toHex) ++ " fs=" ++ " ".intercalate (fsListing fs)
    | _ => "bad-op"),
  -- aliasres <absolute folder holding the link> <a|r> <link string> → where the model's kernel looks for the target
  ("aliasres", fun (a : List String) => match a with
    | [d, k, l] =>
      let comps := fun (b : Bytes) => (splitSlash b).filter (· ≠ [])
      toHex (joinSlash (resolveAt (comps (hexb d)) ⟨k == "a", comps (hexb l)⟩))
    | _ => "bad-op"),
  -- relof <absolute folder> <absolute target> → the relative link string from the folder to the target
  ("relof", fun (a : List String) => match a with
    | [d, t] =>
      let comps := fun (b : Bytes) => (splitSlash b).filter (· ≠ [])
      toHex (joinSlash (relOf (comps (hexb d)) (comps (hexb t))).comps)
    | _ => "bad-op"),
  -- sidepath <folder> <template prefix> <name> → the side file's path (model of Sprintf(prefix%s, name) in the item's folder)
  ("sidepath", fun (a : List String) => match a with
    | [d, pre, n] =>
      let comps := fun (b : Bytes) => (splitSlash b).filter (· ≠ [])
      match sidePath (comps (hexb d)) (hexb pre) (hexb n) with
      | some p => toHex (joinSlash p)
      | none => "none"
    | _ => "bad-op"),
  -- fanswer <store> | <path> → the answer to a file item
  ("fanswer", fun (a : List String) => match splitBar a with
    | [store, [p]] => toHex ((parseFs store).answer (parsePath p)).bytes
    | _ => "bad-op")
]

/-- The C10 oracle also answers the C08 / C09 ops. -/
def c10Handlers : List (String × Handler) := c09Handlers ++ c10Own

end Oracle
