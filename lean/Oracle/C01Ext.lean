import Oracle.Util
import MobiusModel.SendPath
import MobiusModel.AliasNS
/-! Oracle handlers for C01 added in wave d (only `oracle_c01` links them): the send path over histories. -/
namespace Oracle
open Mobius

/-- `n` (type, hexdata) pairs, and what is left. -/
def takeFields : Nat → List String → List Field × List String
  | n + 1, ty :: d :: rest => let (fs, r) := takeFields n rest; (⟨num ty, hexb d⟩ :: fs, r)
  | _, rest => ([], rest)

/-- steps: `client registered(0/1) outcome(-1 = ok, k = error after k bytes) flags isReply type id err nfields (fty fhex)*` -/
def parseSteps : Nat → List String → List SendPath.Step
  | fuel + 1, cl :: rg :: oc :: fl :: ir :: ty :: id :: er :: nf :: rest =>
    let (fs, r) := takeFields (num nf) rest
    let o : SendPath.Outcome := if oc == "-1" then .ok else .fail (num oc)
    ⟨num cl, rg == "1", o, ⟨UInt8.ofNat (num fl), UInt8.ofNat (num ir), num ty, num id, num er, fs⟩⟩ :: parseSteps fuel r
  | _, _ => []

def outcomeStr : SendPath.Outcome → String
  | .ok => "ok"
  | .fail k => s!"fail{k}"

def c01ExtHandlers : List (String × Handler) := [
  -- every Write call of the history: client/outcome/bytes
  ("sendrun", fun (a : List String) =>
    let calls := SendPath.run (parseSteps a.length a)
    s!"{calls.length}" ++ String.join (calls.map fun c => s!" {c.client}/{outcomeStr c.outcome}/{toHex c.bytes}")),
  -- what one client received, and the reference parse of it
  ("sendrecv", fun (a : List String) => match a with
    | cl :: rest =>
      let calls := SendPath.run (parseSteps rest.length rest)
      let s := SendPath.received (num cl) calls
      s!"{toHex s} " ++ showRes (fun ts => s!"{ts.length}" ++ String.join (ts.map fun t => " | " ++ tranStr t)) (parseStream s)
    | _ => "bad-op"),
  -- download of the end of an alias chain of length `depth` over one file:
  -- aliasdl depth off(-1 = whole file) name ty creator mtime data rsrc(- = no stored fork... given as "none")
  ("aliasdl", fun (a : List String) => match a with
    | [depth, off, nm, ty, cr, mt, data, rs] =>
      let d := num depth
      let own : AliasNS.Own := { name := hexb nm, ty := hexb ty, creator := hexb cr, mtime := hexb mt }
      let last : AliasNS.Own := { own with rsrc := if rs == "none" then none else some (hexb rs) }
      let ns : AliasNS.NS :=
        (0, if d == 0 then AliasNS.Node.file last (hexb data) else AliasNS.Node.file own (hexb data)) ::
        (List.range d).map fun i => (i + 1, AliasNS.Node.alias (if i + 1 == d then last else { own with mtime := [] }) i)
      match AliasNS.download ns d (if off == "-1" then none else some (num off)) with
      | some (rep, s) => s!"ok {rep.transferSize} {rep.fileSize} {toHex s}"
      | none => "none"
    | _ => "bad-op")
]

end Oracle
