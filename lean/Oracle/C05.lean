import Oracle.Util
/-! Oracle handlers for C05 (model functions exposed on the line protocol). -/
namespace Oracle
open Mobius

def c05Handlers : List (String × Handler) := []

end Oracle
