import Oracle.AccessUtil
import Oracle.SetUserLogins
import MobiusModel.ChatGate
import MobiusModel.LoginName
/-! Oracle handlers for C05: the governing-privilege table and the handlers' decision model. -/
namespace Oracle
open Mobius Mobius.Spec Mobius.Authz


/-- chat op token: `N:<who>:<0|1>:<newId>` invite-new, `J:<who>:<cid>` join, `L:…` leave, `S:<who>:<cid>` set subject,
    `M:<who>:<0|1>:<cid>` private send, `D:<who>:<cid>` decline -/
def chatOpOf (t : String) : Option ChatGate.Op :=
  match t.splitOn ":" with
  | ["N", w, p, n] => some (.inviteNew (num w) (flag p) (num n))
  | ["J", w, c] => some (.join (num w) (num c))
  | ["L", w, c] => some (.leave (num w) (num c))
  | ["S", w, c] => some (.setSubject (num w) (num c) [115])
  | ["M", w, p, c] => some (.send (num w) (flag p) (num c))
  | ["D", w, c] => some (.decline (num w) (num c))
  | _ => none

def chatResStr : ChatGate.Res → String
  | .denied => "denied" | .panicked => "panic" | .ok l => "ok:" ++ natsStr (l.toArray.qsort (· < ·)).toList

def optField (s : String) : Option Bytes := if s == "absent" then none else some (hexb s)

def nameEvOf (t : String) : Option LoginName.NameEv :=
  match t.splitOn ":" with
  | ["A", f] => some (.agreed (optField f))
  | ["I", f] => some (.setInfo (optField f))
  | _ => none

def c05Handlers : List (String × Handler) := [
  -- authz <requester bitmap hex> <request class tokens…>  →  verdict | effects | out
  ("authz", fun (a : List String) => match a with
    | b :: req => match reqOf req with
      | some r => resultStr (run (bitmapOf b) r)
      | none => "bad-op"
    | _ => "bad-op"),
  -- chatgate <op tokens…> : per-op results, then the ids of the chats that exist
  ("chatgate", fun (a : List String) =>
    let (s, rs) := a.foldl (fun (acc : ChatGate.St × List String) t =>
      match chatOpOf t with
      | some o => let r := ChatGate.step acc.1 o; (r.1, acc.2 ++ [chatResStr r.2])
      | none => (acc.1, acc.2 ++ ["bad-op"])) (ChatGate.St.init, [])
    " ".intercalate rs ++ " | " ++ natsStr s.ids),
  -- loginname <acct name hex|-> <any-name 0|1> <login field hex|absent> <events…> : announced at login, final name
  ("loginname", fun (a : List String) => match a with
    | an :: p :: lf :: evs =>
      let evs' := evs.filterMap nameEvOf
      s!"announced={LoginName.announcedAtLogin (hexb an) (flag p) (optField lf)} name={toHex (LoginName.session (hexb an) (flag p) (optField lf) evs')}"
    | _ => "bad-op"),
  -- governing <request class tokens…>  →  the protocol's governing privilege numbers for this class
  ("governing", fun (a : List String) => match reqOf a with
    | some r => natsStr (governing r)
    | none => "bad-op"),
  ("requested", fun (a : List String) => match reqOf a with
    | some r => effectsStr (requested r)
    | none => "bad-op"),
  ("tranname", fun (a : List String) => match reqOf a with
    | some r => r.tranName
    | none => "bad-op"),
  -- place <item hex>… : kind of the folder the path items address (after joining and cleaning all of them)
  ("place", fun (a : List String) => placeStr (placeOfItems (a.map hexb))),
  -- placeraw <path field hex> : the same from the raw field bytes (FilePath.Write decode first)
  ("placeraw", fun (a : List String) => match a with
    | [d] => match pathDecode (hexb d) with
      | .ok items => placeStr (placeOfItems items)
      | _ => "badPath"
    | _ => "bad-op"),
  -- folder <item hex>… : the addressed folder's components
  ("folder", fun (a : List String) => bytesList (addressedFolder (a.map hexb))),
  ("isset", fun (a : List String) => match a with
    | [b, i] => toString ((bitmapOf b).isSet (num i))
    | _ => "bad-op")
] ++ suLoginsHandlers

end Oracle
