import Oracle.AccessUtil
/-! Oracle handlers for C05: the governing-privilege table and the handlers' decision model. -/
namespace Oracle
open Mobius Mobius.Spec Mobius.Authz

def c05Handlers : List (String × Handler) := [
  -- authz <requester bitmap hex> <request class tokens…>  →  verdict | effects | out
  ("authz", fun (a : List String) => match a with
    | b :: req => match reqOf req with
      | some r => resultStr (run (bitmapOf b) r)
      | none => "bad-op"
    | _ => "bad-op"),
  -- governing <request class tokens…>  →  the protocol's governing privilege numbers for this class
  ("governing", fun (a : List String) => match reqOf a with
    | some r => natsStr (governing r)
    | none => "bad-op"),
  ("requested", fun (a : List String) => match reqOf a with
    | some r => effectsStr (requested r)
    | none => "bad-op"),
  ("tranname", fun (a : List String) => match reqOf a with
    | some r => r.tranName
    | none => "bad-op"),
  -- place <item hex>… : kind of the folder the path items address (after joining and cleaning all of them)
  ("place", fun (a : List String) => placeStr (placeOfItems (a.map hexb))),
  -- placeraw <path field hex> : the same from the raw field bytes (FilePath.Write decode first)
  ("placeraw", fun (a : List String) => match a with
    | [d] => match pathDecode (hexb d) with
      | .ok items => placeStr (placeOfItems items)
      | _ => "badPath"
    | _ => "bad-op"),
  -- folder <item hex>… : the addressed folder's components
  ("folder", fun (a : List String) => bytesList (addressedFolder (a.map hexb))),
  ("isset", fun (a : List String) => match a with
    | [b, i] => toString ((bitmapOf b).isSet (num i))
    | _ => "bad-op")
]

end Oracle
