import Oracle.Util
import MobiusModel.Chat
/-! Oracle handlers for C12 (model functions exposed on the line protocol). -/
namespace Oracle
open Mobius

def fnv64 (b : Bytes) : UInt64 :=
  b.foldl (fun h x => (h ^^^ x.toUInt64) * 1099511628211) 14695981039346656037

/-- Field data: hex when short, otherwise length and FNV-1a hash (keeps answer lines small). -/
def dataStr (b : Bytes) : String := if b.length ≤ 40 then toHex b else s!"#{b.length}:{(fnv64 b).toNat}"

def outStr (o : Out) : String :=
  s!"{o.to}:{if o.isReply then 1 else 0}:{o.ty}:{o.err}:{o.reqId}" ++
    String.join (o.fields.map fun f => s!",{f.ty}={dataStr f.data}")

def outsStr (os : List Out) : String := if os.isEmpty then "." else ";".intercalate (os.map outStr)

def optNum (s : String) : Option Nat := if s = "-" then none else some (num s)
def optHex (s : String) : Option Bytes := if s = "none" then none else some (hexb s)

def parseChatEvs : List String → List ChatEv
  | "L" :: l :: an :: ac :: nm :: ic :: rest => .login (hexb l) (hexb an) (hexb ac) (hexb nm) (hexb ic) :: parseChatEvs rest
  | "D" :: a :: rest => .disconnect (num a) :: parseChatEvs rest
  | "N" :: a :: r :: t :: c :: rest => .inviteNew (num a) (num r) (num t) (num c) :: parseChatEvs rest
  | "I" :: a :: r :: t :: c :: rest => .invite (num a) (num r) (num t) (num c) :: parseChatEvs rest
  | "J" :: a :: r :: c :: rest => .join (num a) (num r) (num c) :: parseChatEvs rest
  | "V" :: a :: r :: c :: rest => .leave (num a) (num r) (num c) :: parseChatEvs rest
  | "R" :: a :: r :: c :: rest => .decline (num a) (num r) (num c) :: parseChatEvs rest
  | "S" :: a :: r :: c :: s :: rest => .setSubject (num a) (num r) (num c) (hexb s) :: parseChatEvs rest
  | "E" :: l :: ac :: rest => .accessEdit (hexb l) (hexb ac) :: parseChatEvs rest
  | "M" :: a :: r :: c :: o :: m :: rest => .send (num a) (num r) (optNum c) (optHex o) (hexb m) :: parseChatEvs rest
  | _ => []

def insertNat (x : Nat) : List Nat → List Nat
  | [] => [x]
  | y :: ys => if x ≤ y then x :: y :: ys else y :: insertNat x ys

def chatStateStr (w : ChatWorld) : String :=
  let ids := ",".intercalate (w.reg.clients.map fun c => toString c.id)
  let cids := (w.chats.map (·.id)).foldr insertNat []
  let chats := cids.map fun cid =>
    match w.chat cid with
    | some ch => s!"{cid}/{toHex ch.subject}/" ++ ",".intercalate ((w.members cid).map fun m => toString m.1)
    | none => ""
  s!"ids={ids} chats=" ++ ";".intercalate chats

/-- Per-connection inboxes: run the history, route every output through `deliver` on the state after its event. -/
def chatInboxes (w : ChatWorld) : List ChatEv → List (Nat × Out)
  | [] => []
  | e :: es =>
    let (w1, os) := w.step e
    (os.filterMap fun o => (deliver w1.reg o).map fun k => (k, o)) ++ chatInboxes w1 es

def c12Handlers : List (String × Handler) := [
  ("c12run", fun (a : List String) =>
    let evs := parseChatEvs a
    let (w, outs) := ChatWorld.init.run evs
    s!"{evs.length} " ++ " | ".intercalate (outs.map outsStr) ++ " || " ++ chatStateStr w),
  ("c12inbox", fun (a : List String) =>
    let evs := parseChatEvs a
    let log := chatInboxes ChatWorld.init evs
    let conns := (log.map (·.1)).foldr (fun k acc => if acc.contains k then acc else insertNat k acc) []
    " | ".intercalate (conns.map fun k => s!"{k}>" ++ outsStr ((log.filter (·.1 == k)).map (·.2)))),
  ("chattext", fun (a : List String) => match a with
    | [nm, em, msg] => toHex (chatText (hexb nm) (em == "1") (hexb msg))
    | _ => "bad-op"),
  ("pad13", fun (a : List String) => match a with
    | [nm] => toHex (pad13 (hexb nm))
    | _ => "bad-op"),
  ("runecount", fun (a : List String) => match a with
    | [s] => toString (runeCount (hexb s))
    | _ => "bad-op")
]

end Oracle
