import Oracle.Util
/-! Oracle handlers for C12 (model functions exposed on the line protocol). -/
namespace Oracle
open Mobius

def c12Handlers : List (String × Handler) := []

end Oracle
