import Oracle.Util
import MobiusModel.Chat
import MobiusModel.StalledDelivery
/-! Oracle handlers for C12 (model functions exposed on the line protocol). -/
namespace Oracle
open Mobius

def fnv64 (b : Bytes) : UInt64 :=
  b.foldl (fun h x => (h ^^^ x.toUInt64) * 1099511628211) 14695981039346656037

/-- Field data: hex when short, otherwise length and FNV-1a hash (keeps answer lines small). -/
def dataStr (b : Bytes) : String := if b.length ≤ 40 then toHex b else s!"#{b.length}:{(fnv64 b).toNat}"

def outStr (o : Out) : String :=
  s!"{o.to}:{if o.isReply then 1 else 0}:{o.ty}:{o.err}:{o.reqId}" ++
    String.join (o.fields.map fun f => s!",{f.ty}={dataStr f.data}")

def outsStr (os : List Out) : String := if os.isEmpty then "." else ";".intercalate (os.map outStr)

def optNum (s : String) : Option Nat := if s = "-" then none else some (num s)
def optHex (s : String) : Option Bytes := if s = "none" then none else some (hexb s)

def parseChatEvs : List String → List ChatEv
  | "L" :: l :: an :: ac :: nm :: ic :: rest => .login (hexb l) (hexb an) (hexb ac) (hexb nm) (hexb ic) :: parseChatEvs rest
  | "D" :: a :: rest => .disconnect (num a) :: parseChatEvs rest
  | "N" :: a :: r :: t :: c :: rest => .inviteNew (num a) (num r) (num t) (num c) :: parseChatEvs rest
  | "I" :: a :: r :: t :: c :: rest => .invite (num a) (num r) (num t) (num c) :: parseChatEvs rest
  | "J" :: a :: r :: c :: rest => .join (num a) (num r) (num c) :: parseChatEvs rest
  | "V" :: a :: r :: c :: rest => .leave (num a) (num r) (num c) :: parseChatEvs rest
  | "R" :: a :: r :: c :: rest => .decline (num a) (num r) (num c) :: parseChatEvs rest
  | "S" :: a :: r :: c :: s :: rest => .setSubject (num a) (num r) (num c) (hexb s) :: parseChatEvs rest
  | "E" :: l :: ac :: rest => .accessEdit (hexb l) (hexb ac) :: parseChatEvs rest
  | "M" :: a :: r :: c :: o :: m :: rest => .send (num a) (num r) (optNum c) (optHex o) (hexb m) :: parseChatEvs rest
  | _ => []

def insertNat (x : Nat) : List Nat → List Nat
  | [] => [x]
  | y :: ys => if x ≤ y then x :: y :: ys else y :: insertNat x ys

def chatStateStr (w : ChatWorld) : String :=
  let ids := ",".intercalate (w.reg.clients.map fun c => toString c.id)
  let cids := (w.chats.map (·.id)).foldr insertNat []
  let chats := cids.map fun cid =>
    match w.chat cid with
    | some ch => s!"{cid}/{toHex ch.subject}/" ++ ",".intercalate ((w.members cid).map fun m => toString m.1)
    | none => ""
  s!"ids={ids} chats=" ++ ";".intercalate chats

/-- Per-connection inboxes: run the history, route every output through `deliver` on the state after its event. -/
def chatInboxes (w : ChatWorld) : List ChatEv → List (Nat × Out)
  | [] => []
  | e :: es =>
    let (w1, os) := w.step e
    (os.filterMap fun o => (deliver w1.reg o).map fun k => (k, o)) ++ chatInboxes w1 es

/-- A pseudo-random schedule for the goroutines `sends`: at each step either the dispatcher starts the next one
    or one of the pending writes is tried (LCG on `seed`). -/
def stallSchedule : Nat → Nat → List (Send Out) → Nat → List (NetEv Out)
  | 0, _, rest, _ => rest.map .spawn
  | fuel + 1, seed, rest, npend =>
    let seed' := (seed * 6364136223846793005 + 1442695040888963407) % 18446744073709551616
    let r := seed' / 65536
    match rest with
    | [] => if npend = 0 then [] else .fire (r % npend) :: stallSchedule fuel seed' [] npend
    | s :: rest' =>
      if r % 3 = 0 ∧ npend > 0 then .fire (r / 3 % npend) :: stallSchedule fuel seed' rest npend
      else .spawn s :: stallSchedule fuel seed' rest' (npend + 1)

/-- Fire until nothing deliverable is pending (the schedule `Net.exists_quiet_schedule` proves to exist). -/
def drainNet : Nat → Net Out → Net Out
  | 0, n => n
  | fuel + 1, n =>
    match n.pending.findIdx? (fun s => n.reads s.to) with
    | some i => drainNet fuel (n.step (.fire i))
    | none => n

def c12Handlers : List (String × Handler) := [
  -- c12stall <stalled connections, comma separated | -> <events of phase 1> <seed> <chat events…>
  --   phase 1 (everybody reads) is delivered in full, the connections stall, the goroutines of the rest of the history run
  --   under a pseudo-random schedule, then the net is drained: the inboxes in the form of c12inbox, then pending=<n>
  ("c12stall", fun (a : List String) => match a with
    | st :: p1 :: seed :: rest =>
      let evs := parseChatEvs rest
      let all := chatSends ChatWorld.init evs
      let s1 := chatSends ChatWorld.init (evs.take (num p1))
      let s2 := all.drop s1.length
      let stalled := if st = "-" ∨ st = "" then [] else (st.splitOn ",").map num
      let n1 := drainNet (s1.length + 1) (Net.run {} (s1.map .spawn))
      let n2 := Net.run n1 (stalled.map .stall)
      let n3 := drainNet (all.length + 1) (Net.run n2 (stallSchedule (4 * s2.length + 8) (num seed) s2 0))
      let conns := (all.map (·.to)).foldr (fun k acc => if acc.contains k then acc else insertNat k acc) []
      " | ".intercalate (conns.map fun k => s!"{k}>" ++ outsStr (n3.inbox k)) ++
        s!" | pending={n3.pending.length} quiet={decide (n3.pending.all fun s => !n3.reads s.to)}"
    | _ => "bad-op"),
  ("c12run", fun (a : List String) =>
    let evs := parseChatEvs a
    let (w, outs) := ChatWorld.init.run evs
    s!"{evs.length} " ++ " | ".intercalate (outs.map outsStr) ++ " || " ++ chatStateStr w),
  ("c12inbox", fun (a : List String) =>
    let evs := parseChatEvs a
    let log := chatInboxes ChatWorld.init evs
    let conns := (log.map (·.1)).foldr (fun k acc => if acc.contains k then acc else insertNat k acc) []
    " | ".intercalate (conns.map fun k => s!"{k}>" ++ outsStr ((log.filter (·.1 == k)).map (·.2)))),
  ("chattext", fun (a : List String) => match a with
    | [nm, em, msg] => toHex (chatText (hexb nm) (em == "1") (hexb msg))
    | _ => "bad-op"),
  ("pad13", fun (a : List String) => match a with
    | [nm] => toHex (pad13 (hexb nm))
    | _ => "bad-op"),
  ("runecount", fun (a : List String) => match a with
    | [s] => toString (runeCount (hexb s))
    | _ => "bad-op")
]

end Oracle
