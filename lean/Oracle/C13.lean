import Oracle.Util
import Oracle.C12
import MobiusModel.Presence
import MobiusModel.PresenceAbort
/-! Oracle handlers for C13 (model functions exposed on the line protocol). -/
namespace Oracle
open Mobius

def optNumN (s : String) : Option Nat := if s = "none" then none else some (num s)

def parsePresEvs : List String → List PresEv
  | "C" :: l :: an :: ac :: ic :: rest => .connect (hexb l) (hexb an) (hexb ac) (hexb ic) :: parsePresEvs rest
  | "LN" :: l :: an :: ac :: nm :: ic :: rest => .loginNamed (hexb l) (hexb an) (hexb ac) (hexb nm) (hexb ic) :: parsePresEvs rest
  | "A" :: a :: r :: nm :: ic :: o :: au :: rest =>
    .agreed (num a) (num r) (optHex nm) (optHex ic) (num o) (optHex au) :: parsePresEvs rest
  | "U" :: a :: r :: nm :: ic :: o :: au :: rest =>
    .setInfo (num a) (num r) (optHex nm) (optHex ic) (optNumN o) (optHex au) :: parsePresEvs rest
  | "SU" :: a :: r :: l :: f :: ac :: rest => .setUser (num a) (num r) (hexb l) (f == "1") (hexb ac) :: parsePresEvs rest
  | "D" :: a :: rest => .disconnect (num a) :: parsePresEvs rest
  | "F" :: a :: r :: rest => .fetch (num a) (num r) :: parsePresEvs rest
  | "AW" :: a :: rest => .away (num a) :: parsePresEvs rest
  | "WK" :: a :: rest => .wake (num a) :: parsePresEvs rest
  | "IM" :: a :: r :: t :: m :: q :: rest => .sendIM (num a) (num r) (num t) (hexb m) (optHex q) :: parsePresEvs rest
  | _ => []

/-- Wave d: the same tokens plus the aborted requests (`UA` set-client-user-info / `AA` agreed with a short or
    missing Options field: actor, name, icon; `CR` a request whose handler panics before it changed anything). -/
def parsePresReqs : List String → List PresReq
  | "UA" :: a :: nm :: ic :: rest => .setInfoAbort (num a) (optHex nm) (optHex ic) :: parsePresReqs rest
  | "AA" :: a :: nm :: ic :: rest => .agreedAbort (num a) (optHex nm) (optHex ic) :: parsePresReqs rest
  | "CR" :: a :: rest => .crash (num a) :: parsePresReqs rest
  | "C" :: l :: an :: ac :: ic :: rest => .ok (.connect (hexb l) (hexb an) (hexb ac) (hexb ic)) :: parsePresReqs rest
  | "LN" :: l :: an :: ac :: nm :: ic :: rest => .ok (.loginNamed (hexb l) (hexb an) (hexb ac) (hexb nm) (hexb ic)) :: parsePresReqs rest
  | "A" :: a :: r :: nm :: ic :: o :: au :: rest =>
    .ok (.agreed (num a) (num r) (optHex nm) (optHex ic) (num o) (optHex au)) :: parsePresReqs rest
  | "U" :: a :: r :: nm :: ic :: o :: au :: rest =>
    .ok (.setInfo (num a) (num r) (optHex nm) (optHex ic) (optNumN o) (optHex au)) :: parsePresReqs rest
  | "SU" :: a :: r :: l :: f :: ac :: rest => .ok (.setUser (num a) (num r) (hexb l) (f == "1") (hexb ac)) :: parsePresReqs rest
  | "D" :: a :: rest => .ok (.disconnect (num a)) :: parsePresReqs rest
  | "F" :: a :: r :: rest => .ok (.fetch (num a) (num r)) :: parsePresReqs rest
  | "AW" :: a :: rest => .ok (.away (num a)) :: parsePresReqs rest
  | "WK" :: a :: rest => .ok (.wake (num a)) :: parsePresReqs rest
  | "IM" :: a :: r :: t :: m :: q :: rest => .ok (.sendIM (num a) (num r) (num t) (hexb m) (optHex q)) :: parsePresReqs rest
  | _ => []

def entryStr (e : Entry) : String := s!"{e.id}/{dataStr e.name}/{toHex e.icon}/{e.flags}"
def entriesStr (es : List Entry) : String := if es.isEmpty then "." else ",".intercalate (es.map entryStr)

def noteStr : Note → String
  | .list es => "L[" ++ entriesStr es ++ "]"
  | .change e => "C[" ++ entryStr e ++ "]"
  | .left i => s!"X[{i}]"
  | .other => "o"

def presStateStr (w : PresWorld) : String :=
  let views := w.reg.clients.map fun c =>
    s!"{c.id}>" ++ (match w.view c.conn with | some r => entriesStr r | none => "none")
  s!"ctr={w.reg.counter} list=" ++ entriesStr w.userList ++ " views=" ++ ";".intercalate views

def usedOf (ids : List Nat) (i : Nat) : Bool := ids.contains i

def c13Handlers : List (String × Handler) := [
  ("c13run", fun (a : List String) =>
    let evs := parsePresEvs a
    let (w, outs) := PresWorld.init.run evs
    s!"{evs.length} " ++ " | ".intercalate (outs.map fun os => outsStr (os.map (·.1))) ++ " || " ++ presStateStr w),
  -- notes decoded from the wire form of every output vs the ghost notes (1 = all agree)
  ("c13notes", fun (a : List String) =>
    let evs := parsePresEvs a
    let (_, outs) := PresWorld.init.run evs
    let bad := (outs.flatten.filter fun p => noteOf p.1 != p.2)
    if bad.isEmpty then "agree" else "differ " ++ ";".intercalate (bad.map fun p => outStr p.1 ++ "~" ++ noteStr (noteOf p.1) ++ "~" ++ noteStr p.2)),
  -- wave d: histories with aborted requests (same answer format as c13run)
  ("c13runx", fun (a : List String) =>
    let qs := parsePresReqs a
    let (w, outs) := PresWorld.init.runX qs
    s!"{qs.length} " ++ " | ".intercalate (outs.map fun os => outsStr (os.map (·.1))) ++ " || " ++ presStateStr w),
  ("c13notesx", fun (a : List String) =>
    let qs := parsePresReqs a
    let (_, outs) := PresWorld.init.runX qs
    let bad := (outs.flatten.filter fun p => noteOf p.1 != p.2)
    if bad.isEmpty then "agree" else "differ " ++ ";".intercalate (bad.map fun p => outStr p.1 ++ "~" ++ noteStr (noteOf p.1) ++ "~" ++ noteStr p.2)),
  -- the allocator: counter, then the ids in use
  ("c13alloc", fun (a : List String) => match a with
    | ctr :: ids =>
      match allocId (usedOf (ids.map num)) 65536 (num ctr) with
      | some (c, i) => s!"{c} {i}"
      | none => "none"
    | _ => "bad-op")
]

end Oracle
