import Oracle.Util
import Oracle.C12
import MobiusModel.Presence
import MobiusModel.PresenceAbort
import MobiusModel.PresenceTeardown
/-! Oracle handlers for C13 (model functions exposed on the line protocol). -/
namespace Oracle
open Mobius

def optNumN (s : String) : Option Nat := if s = "none" then none else some (num s)

def parsePresEvs : List String → List PresEv
  | "C" :: l :: an :: ac :: ic :: rest => .connect (hexb l) (hexb an) (hexb ac) (hexb ic) :: parsePresEvs rest
  | "LN" :: l :: an :: ac :: nm :: ic :: rest => .loginNamed (hexb l) (hexb an) (hexb ac) (hexb nm) (hexb ic) :: parsePresEvs rest
  | "A" :: a :: r :: nm :: ic :: o :: au :: rest =>
    .agreed (num a) (num r) (optHex nm) (optHex ic) (num o) (optHex au) :: parsePresEvs rest
  | "U" :: a :: r :: nm :: ic :: o :: au :: rest =>
    .setInfo (num a) (num r) (optHex nm) (optHex ic) (optNumN o) (optHex au) :: parsePresEvs rest
  | "SU" :: a :: r :: l :: f :: ac :: rest => .setUser (num a) (num r) (hexb l) (f == "1") (hexb ac) :: parsePresEvs rest
  | "D" :: a :: rest => .disconnect (num a) :: parsePresEvs rest
  | "F" :: a :: r :: rest => .fetch (num a) (num r) :: parsePresEvs rest
  | "AW" :: a :: rest => .away (num a) :: parsePresEvs rest
  | "WK" :: a :: rest => .wake (num a) :: parsePresEvs rest
  | "IM" :: a :: r :: t :: m :: q :: rest => .sendIM (num a) (num r) (num t) (hexb m) (optHex q) :: parsePresEvs rest
  | _ => []

/-- Wave d: the same tokens plus the aborted requests (`UA` set-client-user-info / `AA` agreed with a short or
    missing Options field: actor, name, icon; `CR` a request whose handler panics before it changed anything). -/
def parsePresReqs : List String → List PresReq
  | "UA" :: a :: nm :: ic :: rest => .setInfoAbort (num a) (optHex nm) (optHex ic) :: parsePresReqs rest
  | "AA" :: a :: nm :: ic :: rest => .agreedAbort (num a) (optHex nm) (optHex ic) :: parsePresReqs rest
  | "CR" :: a :: rest => .crash (num a) :: parsePresReqs rest
  | "C" :: l :: an :: ac :: ic :: rest => .ok (.connect (hexb l) (hexb an) (hexb ac) (hexb ic)) :: parsePresReqs rest
  | "LN" :: l :: an :: ac :: nm :: ic :: rest => .ok (.loginNamed (hexb l) (hexb an) (hexb ac) (hexb nm) (hexb ic)) :: parsePresReqs rest
  | "A" :: a :: r :: nm :: ic :: o :: au :: rest =>
    .ok (.agreed (num a) (num r) (optHex nm) (optHex ic) (num o) (optHex au)) :: parsePresReqs rest
  | "U" :: a :: r :: nm :: ic :: o :: au :: rest =>
    .ok (.setInfo (num a) (num r) (optHex nm) (optHex ic) (optNumN o) (optHex au)) :: parsePresReqs rest
  | "SU" :: a :: r :: l :: f :: ac :: rest => .ok (.setUser (num a) (num r) (hexb l) (f == "1") (hexb ac)) :: parsePresReqs rest
  | "D" :: a :: rest => .ok (.disconnect (num a)) :: parsePresReqs rest
  | "F" :: a :: r :: rest => .ok (.fetch (num a) (num r)) :: parsePresReqs rest
  | "AW" :: a :: rest => .ok (.away (num a)) :: parsePresReqs rest
  | "WK" :: a :: rest => .ok (.wake (num a)) :: parsePresReqs rest
  | "IM" :: a :: r :: t :: m :: q :: rest => .ok (.sendIM (num a) (num r) (num t) (hexb m) (optHex q)) :: parsePresReqs rest
  | _ => []

/-- Wave e: the same tokens plus `DT actor ok|err` — a session that ends with the given outcome of `Connection.Close()`. -/
def parsePresReqsT : List String → List PresReqT
  | "DT" :: a :: cr :: rest => .teardown (num a) (if cr == "err" then .err else .ok) :: parsePresReqsT rest
  | "UA" :: a :: nm :: ic :: rest => .base (.setInfoAbort (num a) (optHex nm) (optHex ic)) :: parsePresReqsT rest
  | "AA" :: a :: nm :: ic :: rest => .base (.agreedAbort (num a) (optHex nm) (optHex ic)) :: parsePresReqsT rest
  | "CR" :: a :: rest => .base (.crash (num a)) :: parsePresReqsT rest
  | "C" :: l :: an :: ac :: ic :: rest => .base (.ok (.connect (hexb l) (hexb an) (hexb ac) (hexb ic))) :: parsePresReqsT rest
  | "LN" :: l :: an :: ac :: nm :: ic :: rest => .base (.ok (.loginNamed (hexb l) (hexb an) (hexb ac) (hexb nm) (hexb ic))) :: parsePresReqsT rest
  | "A" :: a :: r :: nm :: ic :: o :: au :: rest =>
    .base (.ok (.agreed (num a) (num r) (optHex nm) (optHex ic) (num o) (optHex au))) :: parsePresReqsT rest
  | "U" :: a :: r :: nm :: ic :: o :: au :: rest =>
    .base (.ok (.setInfo (num a) (num r) (optHex nm) (optHex ic) (optNumN o) (optHex au))) :: parsePresReqsT rest
  | "SU" :: a :: r :: l :: f :: ac :: rest => .base (.ok (.setUser (num a) (num r) (hexb l) (f == "1") (hexb ac))) :: parsePresReqsT rest
  | "D" :: a :: rest => .base (.ok (.disconnect (num a))) :: parsePresReqsT rest
  | "F" :: a :: r :: rest => .base (.ok (.fetch (num a) (num r))) :: parsePresReqsT rest
  | "AW" :: a :: rest => .base (.ok (.away (num a))) :: parsePresReqsT rest
  | "WK" :: a :: rest => .base (.ok (.wake (num a))) :: parsePresReqsT rest
  | "IM" :: a :: r :: t :: m :: q :: rest => .base (.ok (.sendIM (num a) (num r) (num t) (hexb m) (optHex q))) :: parsePresReqsT rest
  | _ => []

def entryStr (e : Entry) : String := s!"{e.id}/{dataStr e.name}/{toHex e.icon}/{e.flags}"
def entriesStr (es : List Entry) : String := if es.isEmpty then "." else ",".intercalate (es.map entryStr)

def noteStr : Note → String
  | .list es => "L[" ++ entriesStr es ++ "]"
  | .change e => "C[" ++ entryStr e ++ "]"
  | .left i => s!"X[{i}]"
  | .other => "o"

def presStateStr (w : PresWorld) : String :=
  let views := w.reg.clients.map fun c =>
    s!"{c.id}>" ++ (match w.view c.conn with | some r => entriesStr r | none => "none")
  s!"ctr={w.reg.counter} list=" ++ entriesStr w.userList ++ " views=" ++ ";".intercalate views

def usedOf (ids : List Nat) (i : Nat) : Bool := ids.contains i

def c13Handlers : List (String × Handler) := [
  ("c13run", fun (a : List String) =>
    let evs := parsePresEvs a
    let (w, outs) := PresWorld.init.run evs
    s!"{evs.length} " ++ " | ".intercalate (outs.map fun os => outsStr (os.map (·.1))) ++ " || " ++ presStateStr w),
  -- notes decoded from the wire form of every output vs the ghost notes (1 = all agree)
  ("c13notes", fun (a : List String) =>
    let evs := parsePresEvs a
    let (_, outs) := PresWorld.init.run evs
    let bad := (outs.flatten.filter fun p => noteOf p.1 != p.2)
    if bad.isEmpty then "agree" else "differ " ++ ";".intercalate (bad.map fun p => outStr p.1 ++ "~" ++ noteStr (noteOf p.1) ++ "~" ++ noteStr p.2)),
  -- wave d: histories with aborted requests (same answer format as c13run)
  ("c13runx", fun (a : List String) =>
    let qs := parsePresReqs a
    let (w, outs) := PresWorld.init.runX qs
    s!"{qs.length} " ++ " | ".intercalate (outs.map fun os => outsStr (os.map (·.1))) ++ " || " ++ presStateStr w),
  ("c13notesx", fun (a : List String) =>
    let qs := parsePresReqs a
    let (_, outs) := PresWorld.init.runX qs
    let bad := (outs.flatten.filter fun p => noteOf p.1 != p.2)
    if bad.isEmpty then "agree" else "differ " ++ ";".intercalate (bad.map fun p => outStr p.1 ++ "~" ++ noteStr (noteOf p.1) ++ "~" ++ noteStr p.2)),
  -- wave e: histories in which every departure carries the outcome of Connection.Close() (same answer format)
  ("c13runt", fun (a : List String) =>
    let qs := parsePresReqsT a
    let (w, outs) := PresWorld.init.runT qs
    s!"{qs.length} " ++ " | ".intercalate (outs.map fun os => outsStr (os.map (·.1))) ++ " || " ++ presStateStr w),
  -- the body of Disconnect as a program: `c13teardown <close-first 0|1> <return-on-error 0|1> ok|err <n>` = n users
  -- connected, user 1 leaves: number of user-left notices, Close calls, error logged
  ("c13teardown", fun (a : List String) => match a with
    | [cf, roe, cr, n] =>
      let w := (List.range (num n)).foldl (fun (w : PresWorld) k => (w.step (.connect [k.toUInt8] [65] [] [0, 0])).1) PresWorld.init
      match w.reg.get 1 with
      | none => "nobody"
      | some c =>
        let prog := if cf == "1" then [TdCall.delete, .close, .notify] else disconnectProg
        let s := tdRun prog c (if cr == "err" then .err else .ok) (roe == "1") w
        s!"{s.outs.length} {s.closeCalls} {s.logged}"
    | _ => "bad-op"),
  -- the allocator: counter, then the ids in use
  ("c13alloc", fun (a : List String) => match a with
    | ctr :: ids =>
      match allocId (usedOf (ids.map num)) 65536 (num ctr) with
      | some (c, i) => s!"{c} {i}"
      | none => "none"
    | _ => "bad-op")
]

end Oracle
