import Oracle.Util
/-! Oracle handlers for C13 (model functions exposed on the line protocol). -/
namespace Oracle
open Mobius

def c13Handlers : List (String × Handler) := []

end Oracle
