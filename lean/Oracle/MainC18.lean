import Oracle.Driver
import Oracle.C01
import Oracle.C18

def main : IO Unit := Oracle.run (Oracle.c01Handlers ++ Oracle.c18Handlers)
