import Oracle.Util
import MobiusModel.Request
/-! Oracle handlers for C20 (model functions exposed on the line protocol). -/
namespace Oracle
open Mobius Mobius.Crash

def fnv64' (b : Bytes) : UInt64 :=
  b.foldl (fun h c => (h ^^^ c.toUInt64) * 1099511628211) 14695981039346656037

def digest' (b : Bytes) : String := s!"{b.length}/{(fnv64' b).toNat}"

/-- Update specs: `T:<tmp>:<p>:<data>` write-temp-then-rename, `C:<tmp>:<final>:<data>` create by link,
    `R:<tmp>:<old>:<new>:<data>` rename + update, `D:<p>` delete, `W:<p>:<data>` direct write (negative witness),
    `U:<tmp>:<old>:<new>:<data>` account update as the code decides it from the directory `fs`. -/
def parseSpec (fs : FS) (s : String) : Option (List Sys) :=
  match s.splitOn ":" with
  | ["U", t, o, n, d] => some (updateProg t.toList fs o.toList n.toList (hexb d))
  | ["T", t, p, d] => some (tempRename t.toList p.toList (hexb d))
  | ["F", t, p, d] => some (freshTempRename t.toList p.toList (hexb d))
  | ["C", t, f, d] => some (freshCreateLink t.toList f.toList (hexb d))
  | ["R", t, o, n, d] => some (freshRenameUpdate t.toList o.toList n.toList (hexb d))
  | ["D", p] => some [.remove p.toList]
  | ["W", p, d] => some (directWrite p.toList (hexb d))
  | _ => none

def showSys : Sys → String
  | .openTrunc p => s!"open:{String.ofList p}"
  | .write p d => s!"write:{String.ofList p}:{digest' d}"
  | .close p => s!"close:{String.ofList p}"
  | .rename a b => s!"rename:{String.ofList a}:{String.ofList b}"
  | .link a b => s!"link:{String.ofList a}:{String.ofList b}"
  | .remove p => s!"unlink:{String.ofList p}"
  | .openKeep p => s!"open[|O_CREAT]:{String.ofList p}"
  | .overwrite p d => s!"write:{String.ofList p}:{digest' d}"

def parseEntry (s : String) : Option (Name × Bytes) :=
  match s.splitOn ":" with
  | [n, d] => some (n.toList, hexb d)
  | _ => none

def listing (fs : FS) : String :=
  let l := (fs.names.map fun e => s!"{String.ofList e.1}={digest' (fs.data e.2)}").toArray.qsort (· < ·)
  " ".intercalate l.toList

/-- What the loader of the store in question looks at. -/
def observe (vis : String) (fs : FS) : List (Option Bytes) :=
  match vis.splitOn "=" with
  | ["file", p] => [get fs p.toList]
  | _ => (contents isYaml fs).map some

/-- programs of a request's records (one spec each), each decided in the state the earlier ones left (`reqProg`) -/
def reqProgs (fs : FS) : List String → Option (List (List Sys))
  | [] => some []
  | s :: r => match parseSpec fs s with
    | none => none
    | some p => (reqProgs (crash p p.length fs) r).map (p :: ·)

/-- the states after 0, 1, …, n complete records -/
def statesAfter (fs : FS) : List (List Sys) → List FS
  | [] => [fs]
  | p :: r => fs :: statesAfter (crash p p.length fs) r

def firstIdx {α : Type} (f : α → Bool) : List α → Nat → Option Nat
  | [], _ => none
  | x :: r, i => if f x then some i else firstIdx f r (i + 1)

def c20Handlers : List (String × Handler) := [
  -- c20reqprog <n> <spec_1> … <spec_n> [<name:hex>…] → the records' programs, joined by " ; "
  ("c20reqprog", fun (a : List String) => match a with
    | n :: rest =>
      let specs := rest.take (num n)
      match (rest.drop (num n)).mapM parseEntry with
      | none => "bad-op"
      | some ents => match reqProgs (ofList ents) specs with
        | some ps => " ; ".intercalate (ps.map fun p => " ".intercalate (p.map showSys))
        | none => "bad-op"
    | _ => "bad-op"),
  -- c20reqsim <k> <vis> <n> <spec_1> … <spec_n> <name:hex>… → listing of the crash state of the CONCATENATED program |
  --   the smallest j such that the loader's view equals the view after j complete records (or torn), total number of calls
  ("c20reqsim", fun (a : List String) => match a with
    | k :: vis :: n :: rest =>
      let specs := rest.take (num n)
      match (rest.drop (num n)).mapM parseEntry with
      | none => "bad-op"
      | some ents =>
        let fs := ofList ents
        match reqProgs fs specs with
        | none => "bad-op"
        | some ps =>
          let prog := ps.flatten
          let st := crash prog (num k) fs
          let o := observe vis st
          let verdict := match firstIdx (fun s => observe vis s == o) (statesAfter fs ps) 0 with
            | some j => toString j
            | none => "torn"
          listing st ++ " | " ++ verdict ++ s!" {prog.length}"
    | _ => "bad-op"),
  -- c20prog <spec> [<name:hex>…] → the system-call program (in directory state fs, default empty)
  ("c20prog", fun (a : List String) => match a with
    | s :: ents => match ents.mapM parseEntry with
      | some ents => match parseSpec (ofList ents) s with
        | some prog => " ".intercalate (prog.map showSys)
        | none => "bad-op"
      | none => "bad-op"
    | _ => "bad-op"),
  -- c20sim <spec> <k> <yaml | file=<p>> <name:hex>…  → listing of the crash state | old/new/both/torn
  ("c20sim", fun (a : List String) => match a with
    | s :: k :: vis :: ents =>
      match ents.mapM parseEntry with
      | none => "bad-op"
      | some ents =>
      let fs := ofList ents
      match parseSpec fs s with
      | none => "bad-op"
      | some prog =>
        let st := crash prog (num k) fs
        let fin := crash prog prog.length fs
        let o := observe vis st
        let isOld := o == observe vis fs
        let isNew := o == observe vis fin
        let verdict := if isOld && isNew then "both" else if isOld then "old" else if isNew then "new" else "torn"
        listing st ++ " | " ++ verdict ++ s!" {prog.length}"
    | _ => "bad-op"),
  -- c20glob <name>… → which names the account loader's glob matches
  ("c20glob", fun (a : List String) => " ".intercalate (a.map fun n => if isYaml n.toList then "1" else "0"))
]

end Oracle
