import Oracle.Util
/-! Oracle handlers for C20 (model functions exposed on the line protocol). -/
namespace Oracle
open Mobius

def c20Handlers : List (String × Handler) := []

end Oracle
