import Oracle.Util
/-! Oracle handlers for C09 (model functions exposed on the line protocol). -/
namespace Oracle
open Mobius

def c09Handlers : List (String × Handler) := []

end Oracle
