import Oracle.Util
import Oracle.C01
import Oracle.C08
import MobiusModel.Transfers
import MobiusModel.UploadHistory
import MobiusModel.UploadDeclared
/-! Oracle handlers for C09 (model functions exposed on the line protocol).

  The state of the two names is passed as lengths (`-` = absent); contents are zero-filled on this
  side and compared by the harness against the client's data.  Connection bytes use the `hexz` form. -/
namespace Oracle
open Mobius

def stOfArgs (fin inc : String) : UpState :=
  { final := (optNum fin).map (fun n => List.replicate n 0), inc := (optNum inc).map (fun n => List.replicate n 0) }

def optLen (o : Option Bytes) : String := match o with | some b => toString b.length | none => "-"

def stStr (st : UpState) : String := s!"{optLen st.final} {optLen st.inc}"

def upEvOf (s : String) : Option UpEv :=
  match s.toList with
  | 'c' :: k => some (.attempt (num (String.ofList k)))
  | ['a', '1'] => some (.ask true)
  | ['a', '0'] => some (.ask false)
  | 'i' :: k => some (.idle (num (String.ofList k)))
  | 't' :: _ => some (.touch 1 1)
  | _ => none

def upReplyStr : UpReply → String
  | .refused => "refused"
  | .noReply => "noreply"
  | .ok none => "ok"
  | .ok (some off) => s!"ok {off}"

/-- An attempt that got a reference number shows the reply and the names afterwards; a request without a
    transfer (and an attempt that was refused) only the reply. -/
def upObsStr (o : UpObs) : String :=
  if o.isAttempt then s!"{upReplyStr o.reply} > {stStr o.after}" else upReplyStr o.reply

def c09Own : List (String × Handler) := [
  -- uphandle <final> <inc> <resume 0|1>
  ("uphandle", fun (a : List String) => match a with
    | [fin, inc, rs] => match handleUploadFile (stOfArgs fin inc) (rs == "1") with
      | .refused => "refused"
      | .noReply => "noreply"
      | .ok none => "ok"
      | .ok (some off) => s!"ok {off} {toHex (uploadResumeData off)}"
    | _ => "bad-op"),
  -- upconn <final> <inc> <connection bytes hexz> → new state
  ("upconn", fun (a : List String) => match a with
    | [fin, inc, conn] => stStr (uploadConn (stOfArgs fin inc) (hexz conn))
    | _ => "bad-op"),
  -- recv <bytes hexz> → appended complete rsrc-written
  ("recv", fun (a : List String) => match a with
    | [b] => let r := receiveFile (hexz b); s!"{r.appended.length} {r.complete} {r.rsrc.length}"
    | _ => "bad-op"),
  -- upstream <fc> <info 11 tokens> <data length> <rsrc length> → header part and trailer-header part of what a client sends
  ("upstream", fun (a : List String) => match a with
    | fc :: rest => match infoOfArgs rest with
      | some (i, [dl, rl]) =>
        let s := uploadStream (num fc) i (List.replicate (num dl) 0) (List.replicate (num rl) 0)
        let hl := 56 + i.size
        let tr := s.drop (hl + num dl)
        s!"len={s.length} hdr={toHex (s.take hl)} trailer={toHex (tr.take (tr.length - num rl))}"
      | _ => "bad-op"
    | _ => "bad-op"),
  -- uprun <ref> <fc> <info 11 tokens> <data length> <rsrc length> <cuts…> → the state after every attempt
  ("uprun", fun (a : List String) => match a with
    | ref :: fc :: rest => match infoOfArgs rest with
      | some (i, dl :: rl :: cuts) =>
        let d := List.replicate (num dl) 0
        let r := List.replicate (num rl) 0
        let step := fun (acc : UpState × List String) (c : String) =>
          let st := uploadAttempt (num ref) (num fc) i d r acc.1 (num c)
          (st, acc.2 ++ [stStr st])
        " ; ".intercalate (cuts.foldl step ({}, [])).2
      | _ => "bad-op"
    | _ => "bad-op"),
  -- updeclared <ref> <fc> <info 11 tokens> <inc> <declared data size> <bytes sent> → the names after an attempt that
  --   announces the declared size (any 32-bit number), delivers the whole header and that many data bytes, and dies
  ("updeclared", fun (a : List String) => match a with
    | ref :: fc :: rest => match infoOfArgs rest with
      | some (i, [inc, ds, send]) =>
        stStr (uploadDeclared (num ref) (num fc) i (stOfArgs "-" inc) (num ds) (List.replicate (num send) 0))
      | _ => "bad-op"
    | _ => "bad-op"),
  -- uphist <ref> <fc> <info 11 tokens> <data length> <rsrc length> <events…> → what every request showed
  --   events: c<k> attempt cut after k bytes · a0 / a1 request without a transfer · i<secs> idle · t<anything> times moved
  ("uphist", fun (a : List String) => match a with
    | ref :: fc :: rest => match infoOfArgs rest with
      | some (i, dl :: rl :: evs) =>
        let w := upHistory (num ref) (num fc) i (List.replicate (num dl) 0) (List.replicate (num rl) 0) (evs.filterMap upEvOf)
        " ; ".intercalate (w.trace.map upObsStr)
      | _ => "bad-op"
    | _ => "bad-op")
]

/-- The C09 oracle also answers the C08 ops (its histories end with a download). -/
def c09Handlers : List (String × Handler) := c08Handlers ++ c09Own

end Oracle
