import MobiusModel.Hex
import MobiusModel.Wire
/-! Argument parsing / result printing shared by the oracle's handlers. -/
namespace Oracle
open Mobius

def num (s : String) : Nat := s.toNat?.getD 0
def hexb (s : String) : Bytes := (fromHex s).getD []

abbrev Handler := List String → String

def showRes {α : Type} (f : α → String) : Res α → String
  | .ok a => "ok " ++ f a
  | .err => "err"
  | .panic => "panic"

def fieldStr (f : Field) : String := s!"{f.ty}:{toHex f.data}"

def tranStr (t : Transaction) : String :=
  s!"{t.flags.toNat} {t.isReply.toNat} {t.ty} {t.id} {t.err} {t.fields.length}" ++
    String.join (t.fields.map fun f => " " ++ fieldStr f)

def bytesList (l : List Bytes) : String := s!"{l.length}" ++ String.join (l.map fun b => " " ++ toHex b)

def parseFieldArgs : List String → List Field
  | ty :: d :: rest => ⟨num ty, hexb d⟩ :: parseFieldArgs rest
  | _ => []

end Oracle
