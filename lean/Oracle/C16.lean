import Oracle.AccessUtil
import MobiusModel.AccessYaml
import MobiusModel.Generated.AccessYaml
import MobiusModel.Generated.Consts
/-! Oracle handlers for C16: save / load of the access bitmap over the regenerated tables, the
    documented names, the legacy array. -/
namespace Oracle
open Mobius Mobius.Spec Mobius.AccessYaml

def genTables : Tables := ⟨Generated.accessConsts, Generated.unmarshalTable, Generated.flagsStruct, Generated.marshalTable⟩

def intOf (s : String) : Int :=
  if s.startsWith "n" then - (Int.ofNat (num (s.drop 1).toString)) else Int.ofNat (num s)

def c16Handlers : List (String × Handler) := [
  -- specname <bit> : the documented account-file name of privilege <bit> ("-" if undefined)
  ("specname", fun (a : List String) => match a with
    | [i] => match Spec.accessYamlNames.find? (fun e => e.2 == num i) with
      | some e => e.1
      | none => "-"
    | _ => "bad-op"),
  ("specbits", fun (_ : List String) => natsStr Spec.definedBits),
  -- mask <hex8> : the property's reference result of save→load
  ("mask", fun (a : List String) => match a with
    | [b] => bitmapStr ((bitmapOf b).mask Spec.definedBits)
    | _ => "bad-op"),
  -- roundtrip <hex8> : load (save b) over the regenerated tables
  ("roundtrip", fun (a : List String) => match a with
    | [b] => bitmapStr (load genTables (save genTables (bitmapOf b)))
    | _ => "bad-op"),
  -- savekeys <hex8> : the keys written `true`, in file order
  ("savekeys", fun (a : List String) => match a with
    | [b] =>
      let ks := ((save genTables (bitmapOf b)).filter (·.2)).map (·.1)
      if ks.isEmpty then "-" else ",".intercalate ks
    | _ => "bad-op"),
  -- allkeys : every key written, in file order
  ("allkeys", fun (_ : List String) => ",".intercalate ((save genTables AccessBitmap.zero).map (·.1))),
  -- loadkeys k1 k2 … : load of a document whose listed keys are `true`
  ("loadkeys", fun (a : List String) => bitmapStr (load genTables (a.map fun k => (k, true)))),
  -- legacy v0 v1 … (n<k> = -k) : the legacy numeric-array branch
  ("legacy", fun (a : List String) => match loadLegacy (a.map intOf) with
    | some b => bitmapStr b
    | none => "panic"),
  ("wire", fun (a : List String) => match a with
    | [b] => toHex (wire (bitmapOf b))
    | _ => "bad-op"),
  ("isset", fun (a : List String) => match a with
    | [b, i] => toString ((bitmapOf b).isSet (num i))
    | _ => "bad-op"),
  ("setbit", fun (a : List String) => match a with
    | [b, i] => bitmapStr ((bitmapOf b).set (num i))
    | _ => "bad-op")
]

end Oracle
