import Oracle.Util
/-! Oracle handlers for C16 (model functions exposed on the line protocol). -/
namespace Oracle
open Mobius

def c16Handlers : List (String × Handler) := []

end Oracle
