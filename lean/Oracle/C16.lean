import Oracle.AccessUtil
import MobiusModel.AccessYaml
import MobiusModel.Generated.AccessYaml
import MobiusModel.Generated.Consts
import MobiusModel.AccountsWire
import MobiusModel.AccountsFault
/-! Oracle handlers for C16: save / load of the access bitmap over the regenerated tables, the
    documented names, the legacy array. -/
namespace Oracle
open Mobius Mobius.Spec Mobius.AccessYaml

def genTables : Tables := ⟨Generated.accessConsts, Generated.unmarshalTable, Generated.flagsStruct, Generated.marshalTable⟩

def intOf (s : String) : Int :=
  if s.startsWith "n" then - (Int.ofNat (num (s.drop 1).toString)) else Int.ofNat (num s)

/-- environment of the account model for the edit paths: hashes are the password bytes -/
def envE : Accounts.Env Bytes := ⟨id, fun h q => h == q, 255⟩

/-- the fixture of the edit families: account "u" with privileges `b0` (memory and file) -/
def editState (b0 : Bytes) : Accounts.State Bytes :=
  let u : Accounts.Account Bytes := ⟨[117], [117], [], b0⟩
  ⟨AMap.empty.set u.login u, AMap.empty.set (u.login ++ Accounts.yamlExt) u⟩

/-- privileges of `target` in memory, and what its file (named flags) loads to -/
def editView (st : Accounts.State Bytes) (target : Bytes) : String :=
  match st.mem.get target, st.disk.get (target ++ Accounts.yamlExt) with
  | some a, some d => toHex a.access ++ " " ++ bitmapStr (load genTables (save genTables (AccessBitmap.ofBytes d.access)))
  | _, _ => "absent"

def c16Handlers : List (String × Handler) := [
  -- c16edit <target login hex> <b0 hex8> <request bytes hex> : the account model on the BYTES of an edit request
  ("c16edit", fun (a : List String) => match a with
    | [_, b0, raw] =>
      let st := (Accounts.stepWire envE (editState (hexb b0)) (hexb raw)).1
      -- the edited account is the one that is not "admin": u, renamed or fresh
      let ts := st.mem.toList.map (·.1)
      String.intercalate "|" (ts.map fun t => editView st t)
    | _ => "bad-op"),
  -- c16failedsave <N|S|U> <b0> <b1> : the same edits while the temporary file cannot be written
  ("c16failedsave", fun (a : List String) => match a with
    | [kind, b0, b1] =>
      let u : Bytes := [117]
      let fresh : Bytes := [102, 114, 101, 115, 104]
      let fsU : List Field := [⟨105, obfuscate u⟩, ⟨102, u⟩, ⟨106, [0]⟩, ⟨110, hexb b1⟩]
      let fsN : List Field := [⟨105, obfuscate fresh⟩, ⟨102, [102]⟩, ⟨106, [1]⟩, ⟨110, hexb b1⟩]
      let (op, target) : Accounts.Op × Bytes :=
        if kind = "S" then (.setUser fsU, u) else if kind = "U" then (.updateUser [fsU], u) else (.newUser fsN, fresh)
      editView (Accounts.stepF envE (editState (hexb b0)) (.tmpBlocked, op)).1 target
    | _ => "bad-op"),
  -- specname <bit> : the documented account-file name of privilege <bit> ("-" if undefined)
  ("specname", fun (a : List String) => match a with
    | [i] => match Spec.accessYamlNames.find? (fun e => e.2 == num i) with
      | some e => e.1
      | none => "-"
    | _ => "bad-op"),
  ("specbits", fun (_ : List String) => natsStr Spec.definedBits),
  -- mask <hex8> : the property's reference result of save→load
  ("mask", fun (a : List String) => match a with
    | [b] => bitmapStr ((bitmapOf b).mask Spec.definedBits)
    | _ => "bad-op"),
  -- roundtrip <hex8> : load (save b) over the regenerated tables
  ("roundtrip", fun (a : List String) => match a with
    | [b] => bitmapStr (load genTables (save genTables (bitmapOf b)))
    | _ => "bad-op"),
  -- savekeys <hex8> : the keys written `true`, in file order
  ("savekeys", fun (a : List String) => match a with
    | [b] =>
      let ks := ((save genTables (bitmapOf b)).filter (·.2)).map (·.1)
      if ks.isEmpty then "-" else ",".intercalate ks
    | _ => "bad-op"),
  -- allkeys : every key written, in file order
  ("allkeys", fun (_ : List String) => ",".intercalate ((save genTables AccessBitmap.zero).map (·.1))),
  -- loadkeys k1 k2 … : load of a document whose listed keys are `true`
  ("loadkeys", fun (a : List String) => bitmapStr (load genTables (a.map fun k => (k, true)))),
  -- legacy v0 v1 … (n<k> = -k) : the legacy numeric-array branch
  ("legacy", fun (a : List String) => match loadLegacy (a.map intOf) with
    | some b => bitmapStr b
    | none => "panic"),
  ("wire", fun (a : List String) => match a with
    | [b] => toHex (wire (bitmapOf b))
    | _ => "bad-op"),
  ("isset", fun (a : List String) => match a with
    | [b, i] => toString ((bitmapOf b).isSet (num i))
    | _ => "bad-op"),
  ("setbit", fun (a : List String) => match a with
    | [b, i] => bitmapStr ((bitmapOf b).set (num i))
    | _ => "bad-op")
]

end Oracle
