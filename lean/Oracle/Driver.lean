import Oracle.Util
/-!
  Line-protocol driver: one request per line (`op arg…`, byte strings in hex, `-` = empty),
  one answer line per request.  The functions executed are the definitions the theorems are about.
-/
namespace Oracle

def step (handlers : List (String × Handler)) (line : String) : String :=
  match (line.splitOn " ").filter (· ≠ "") with
  | [] => "bad-op"
  | op :: args =>
    match handlers.lookup op with
    | some h => h args
    | none => "bad-op"

partial def loop (handlers : List (String × Handler)) (hin hout : IO.FS.Stream) : IO Unit := do
  let line ← hin.getLine
  if line.isEmpty then return ()
  hout.putStrLn (step handlers (line.replace "\n" ""))
  hout.flush
  loop handlers hin hout

def run (handlers : List (String × Handler)) : IO Unit := do
  loop handlers (← IO.getStdin) (← IO.getStdout)

end Oracle
