import Oracle.Util
import Oracle.C07
import MobiusModel.FileOps
/-! Oracle handlers for C11 (model functions exposed on the line protocol).

  `c11 <ignore> <n> <entry>*n <op> <args…>`  →  `R <reply> T <n> <entry>*n`

  * entry = `<hex of a/b/c relative to the root; - = the root>:D` | `…:F:<hex content>` | `…:L:<hex of target relative to the root>`
    (entries are sent sorted by component list, so the children of a folder appear in `os.ReadDir` order);
  * ignore = comma-separated `p<hex>` (name prefix, `^lit`) / `s<hex>` (name suffix, `lit$`), `-` = none;
  * the oracle keeps no state: every line carries the whole tree.
-/
namespace Oracle
open Mobius Mobius.PathAlg Mobius.PathStr Mobius.FS Mobius.FileOps

def c11Handlers : List (String × Handler) := c07Handlers ++ [
  ("c11", fsStep),
  ("typeof", fun (a : List String) => match a with
    | [n] => let tc := typeOfName (hexb n); s!"{toHex tc.1} {toHex tc.2}"
    | _ => "bad-op"),
  ("triminc", fun (a : List String) => match a with
    | [n] => toHex (trimInc (hexb n))
    | _ => "bad-op")
]

end Oracle
