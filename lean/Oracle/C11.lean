import Oracle.Util
import Oracle.C07
import MobiusModel.FileOps
/-! Oracle handlers for C11 (model functions exposed on the line protocol).

  `c11 <ignore> <n> <entry>*n <op> <args…>`  →  `R <reply> T <n> <entry>*n`

  * entry = `<hex of a/b/c relative to the root; - = the root>:D` | `…:F:<hex content>` | `…:L:<hex of target relative to the root>`
    (entries are sent sorted by component list, so the children of a folder appear in `os.ReadDir` order);
  * ignore = comma-separated `p<hex>` (name prefix, `^lit`) / `s<hex>` (name suffix, `lit$`), `-` = none;
  * the oracle keeps no state: every line carries the whole tree.
-/
namespace Oracle
open Mobius Mobius.PathAlg Mobius.PathStr Mobius.FS Mobius.FileOps

def parseIgnore (s : String) : Bytes → Bool :=
  let pats : List (Bool × Bytes) := if s = "-" then [] else
    (s.splitOn ",").filterMap fun t =>
      if t.startsWith "p" then some (true, hexb (t.drop 1).toString)
      else if t.startsWith "s" then some (false, hexb (t.drop 1).toString)
      else none
  fun n => pats.any fun (pre, lit) => if pre then lit.isPrefixOf n else lit.isSuffixOf n

def parseEntry (s : String) : Option (Path × Node) :=
  match s.splitOn ":" with
  | [p, "D"] => some (compsOf (hexb p), .dir)
  | [p, "F", d] => some (compsOf (hexb p), .file (hexb d))
  | [p, "L", t] => some (compsOf (hexb t) |> fun tc => (compsOf (hexb p), .link tc))
  | _ => none

def showEntry (e : Path × Node) : String :=
  let p := toHex (intercalateSlash e.1)
  match e.2 with
  | .dir => p ++ ":D"
  | .file d => p ++ ":F:" ++ toHex d
  | .link t => p ++ ":L:" ++ toHex (intercalateSlash t)

def showOptB : Option Bytes → String
  | none => "nil"
  | some b => toHex b

def showOptN : Option Nat → String
  | none => "nil"
  | some n => toString n

def showReply : Reply → String
  | .none => "none"
  | .err => "err"
  | .ok => "ok"
  | .panic => "panic"
  | .opaque => "opaque"
  | .list es => s!"list {es.length}" ++ String.join (es.map fun e =>
      s!" {toHex e.name}:{toHex e.ty}:{toHex e.creator}:{e.size}")
  | .info n ts cs ty c sz => s!"info {toHex n} {toHex ts} {toHex cs} {toHex ty} {showOptB c} {showOptN sz}"
  | .download x f => s!"download {x} {f}"
  | .upload r => s!"upload {showOptN r}"

def parseReq : List String → Option Req
  | ["list", pf] => some (.list (optb pf))
  | ["info", pf, n] => some (.getInfo (optb pf) (hexb n))
  | ["setinfo", pf, n, c, nn] => some (.setInfo (optb pf) (hexb n) (optb c) (optb nn))
  | ["delete", pf, n] => some (.delete (optb pf) (hexb n))
  | ["move", pf, n, np] => some (.move (optb pf) (hexb n) (optb np))
  | ["newfolder", pf, n] => some (.newFolder (optb pf) (hexb n))
  | ["alias", pf, n, np] => some (.alias (optb pf) (hexb n) (optb np))
  | ["download", pf, n] => some (.download (optb pf) (hexb n))
  | ["upload", pf, n, r] => some (.uploadFile (optb pf) (hexb n) (r == "1"))
  | _ => none

def c11Step (a : List String) : String :=
  match a with
  | ig :: n :: rest =>
    let k := num n
    let ents := (rest.take k).filterMap parseEntry
    if ents.length ≠ k then "bad-tree" else
    match parseReq (rest.drop k) with
    | none => "bad-op"
    | some req =>
      let r := handle [] (parseIgnore ig) ents req
      s!"R {showReply r.2} T {r.1.length}" ++ String.join (r.1.map fun e => " " ++ showEntry e)
  | _ => "bad-op"

def c11Handlers : List (String × Handler) := c07Handlers ++ [
  ("c11", c11Step),
  ("typeof", fun (a : List String) => match a with
    | [n] => let tc := typeOfName (hexb n); s!"{toHex tc.1} {toHex tc.2}"
    | _ => "bad-op"),
  ("triminc", fun (a : List String) => match a with
    | [n] => toHex (trimInc (hexb n))
    | _ => "bad-op")
]

end Oracle
