import Oracle.Util
/-! Oracle handlers for C11 (model functions exposed on the line protocol). -/
namespace Oracle
open Mobius

def c11Handlers : List (String × Handler) := []

end Oracle
