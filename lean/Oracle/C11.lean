import Oracle.Util
import Oracle.C07
import MobiusModel.FileOps
/-! Oracle handlers for C11 (model functions exposed on the line protocol).

  `c11 <ignore> <n> <entry>*n <op> <args…>`  →  `R <reply> T <n> <entry>*n`

  * entry = `<hex of a/b/c relative to the root; - = the root>:D` | `…:F:<hex content>` | `…:L:<hex of target relative to the root>`
    (entries are sent sorted by component list, so the children of a folder appear in `os.ReadDir` order);
  * ignore = comma-separated `p<hex>` (name prefix, `^lit`) / `s<hex>` (name suffix, `lit$`), `-` = none;
  * the oracle keeps no state: every line carries the whole tree.
-/
namespace Oracle
open Mobius Mobius.PathAlg Mobius.PathStr Mobius.FS Mobius.FileOps

/-- An ignore predicate given extensionally: `n<hex name>,n<hex name>,…` (`-` = nothing is ignored) — exactly the
    listed names are ignored.  The model keeps the predicate abstract (`list_exact` holds for every predicate); the
    harness computes the set from the CONFIGURED patterns with its reference matcher. -/
def parseIgnoreSet (s : String) : Bytes → Bool :=
  let names : List Bytes := if s = "-" then [] else
    (s.splitOn ",").filterMap fun t => if t.startsWith "n" then some (hexb (t.drop 1).toString) else none
  fun n => names.contains n

/-- `c11x <ignored names> <n> <entry>*n <op> <args…>` → `R <reply> T <n> <entry>*n`: `c11` under an extensional predicate. -/
def fsStepX (a : List String) : String :=
  match a with
  | ig :: n :: rest =>
    let k := num n
    let ents := (rest.take k).filterMap parseEntry
    if ents.length ≠ k then "bad-tree" else
    match parseReq (rest.drop k) with
    | none => "bad-op"
    | some req =>
      let r := handle [] (parseIgnoreSet ig) ents req
      s!"R {showReply r.2} T {r.1.length}" ++ String.join (r.1.map fun e => " " ++ showEntry e)
  | _ => "bad-op"

def c11Handlers : List (String × Handler) := c07Handlers ++ [
  ("c11", fsStep),
  ("c11x", fsStepX),
  ("typeof", fun (a : List String) => match a with
    | [n] => let tc := typeOfName (hexb n); s!"{toHex tc.1} {toHex tc.2}"
    | _ => "bad-op"),
  ("triminc", fun (a : List String) => match a with
    | [n] => toHex (trimInc (hexb n))
    | _ => "bad-op")
]

end Oracle
