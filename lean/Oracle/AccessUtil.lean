import Oracle.Util
import MobiusModel.Authz
/-! Parsing / printing shared by the C05, C06 and C16 oracle handlers. -/
namespace Oracle
open Mobius Mobius.Spec Mobius.Authz

def bitmapOf (s : String) : AccessBitmap := AccessBitmap.ofBytes (hexb s)
def bitmapStr (b : AccessBitmap) : String := toHex b.toBytes
def flag (s : String) : Bool := s == "1"
def strHex (s : String) : String := toHex s.toUTF8.toList
def natsStr (l : List Nat) : String := if l.isEmpty then "-" else ",".intercalate (l.map toString)

def fileTargetOf : String → Option FileTarget
  | "badPath" => some .badPath | "root" => some .root | "missing" => some .missing
  | "file" => some .file | "folder" => some .folder | _ => none

def newsTargetOf : String → Option NewsTarget
  | "badPath" => some .badPath | "category" => some .category | "bundle" => some .bundle
  | "missing" => some .missing | _ => none

def placeOf : String → Option Place
  | "badPath" => some .badPath | "uploads" => some .uploads | "dropBox" => some .dropBox
  | "plain" => some .plain | _ => none

def placeStr : Place → String
  | .badPath => "badPath" | .uploads => "uploads" | .dropBox => "dropBox" | .plain => "plain"

def banOptOf : String → Option BanOpt
  | "absent" => some .absent | "temporary" => some .temporary | "permanent" => some .permanent
  | "other" => some .other | _ => none

/-- `d0` / `d1` delete (fails flag), `m0` / `m1` modify, `c:<hex>:0|1` create -/
def userItemOf (s : String) : Option UserItem :=
  match s.splitOn ":" with
  | ["d0"] => some (.delete false) | ["d1"] => some (.delete true)
  | ["m0"] => some (.modify false) | ["m1"] => some (.modify true)
  | ["c", h, f] => some (.create (hexb h) (flag f))
  | _ => none

def userItemsOf : List String → Option (List UserItem)
  | [] => some []
  | s :: rest => do
    let i ← userItemOf s
    let r ← userItemsOf rest
    pure (i :: r)

/-- request class from its tokens, e.g. `deleteFile folder`, `setFileInfo file 1 0`, `updateUser d0 c:ff00:0` -/
def reqOf : List String → Option Req
  | ["agreed", n] => some (.agreed (flag n))
  | ["chatSend"] => some .chatSend
  | ["delNewsArt"] => some .delNewsArt
  | ["delNewsItem", t] => (newsTargetOf t).map .delNewsItem
  | ["deleteFile", t] => (fileTargetOf t).map .deleteFile
  | ["deleteUser", f] => some (.deleteUser (flag f))
  | ["disconnectUser", p, o] => (banOptOf o).map (.disconnectUser (flag p))
  | ["downloadBanner"] => some .downloadBanner
  | ["downloadFile", t] => (fileTargetOf t).map .downloadFile
  | ["downloadFldr", t] => (fileTargetOf t).map .downloadFldr
  | ["getClientInfoText", e] => some (.getClientInfoText (flag e))
  | ["getFileInfo", t] => (fileTargetOf t).map .getFileInfo
  | ["getFileNameList", p] => (placeOf p).map .getFileNameList
  | ["getMsgs"] => some .getMsgs
  | ["getNewsArtData"] => some .getNewsArtData
  | ["getNewsArtNameList"] => some .getNewsArtNameList
  | ["getNewsCatNameList"] => some .getNewsCatNameList
  | ["getUser", e] => some (.getUser (flag e))
  | ["getUserNameList"] => some .getUserNameList
  | ["inviteNewChat"] => some .inviteNewChat
  | ["inviteToChat"] => some .inviteToChat
  | ["joinChat"] => some .joinChat
  | ["keepAlive"] => some .keepAlive
  | ["leaveChat"] => some .leaveChat
  | ["listUsers"] => some .listUsers
  | ["makeFileAlias"] => some .makeFileAlias
  | ["moveFile", t] => (fileTargetOf t).map .moveFile
  | ["newFolder", e] => some (.newFolder (flag e))
  | ["newNewsCat"] => some .newNewsCat
  | ["newNewsFldr"] => some .newNewsFldr
  | ["newUser", e, a, f] => some (.newUser (flag e) (hexb a) (flag f))
  | ["oldPostNews"] => some .oldPostNews
  | ["postNewsArt"] => some .postNewsArt
  | ["rejectChatInvite"] => some .rejectChatInvite
  | ["sendInstantMsg", e] => some (.sendInstantMsg (flag e))
  | ["setChatSubject"] => some .setChatSubject
  | ["setClientUserInfo"] => some .setClientUserInfo
  | ["setFileInfo", t, c, r] => (fileTargetOf t).map fun t => .setFileInfo t (flag c) (flag r)
  | ["setUser", e] => some (.setUser (flag e))
  | "updateUser" :: items => (userItemsOf items).map .updateUser
  | ["uploadFile", p, e] => (placeOf p).map fun p => .uploadFile p (flag e)
  | ["uploadFldr", p] => (placeOf p).map .uploadFldr
  | ["userBroadcast"] => some .userBroadcast
  | _ => none

def refusalStr : Refusal → String
  | .amplification => "amplification" | .protectedTarget => "protectedTarget" | .nothingNamed => "nothingNamed"
  | .notFound => "notFound" | .alreadyExists => "alreadyExists" | .ioError => "ioError"

def verdictStr : Verdict → String
  | .denied m => "denied " ++ strHex m.text
  | .refused w => "refused " ++ refusalStr w
  | .proceeded => "proceeded"
  | .silent => "silent"

def outStr : Out → String
  | .errReply _ => "err" | .reply => "reply" | .toOthers => "others"

def effectsStr (l : List Effect) : String := if l.isEmpty then "-" else ",".intercalate (l.map Effect.name)

def resultStr (r : Result) : String :=
  s!"{verdictStr r.verdict} | {effectsStr r.effects} | " ++ (if r.out.isEmpty then "-" else ",".intercalate (r.out.map outStr))

def createStr : CreateOutcome → String
  | .denied => "denied" | .exists_ => "exists" | .tooMuch => "toomuch" | .failed => "failed"
  | .created a => "created " ++ bitmapStr a

end Oracle
