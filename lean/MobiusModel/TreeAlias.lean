import MobiusModel.Tree
/-!
  TreeAlias (C10, wave d): aliases in downloaded folders carry their LINK STRING — an absolute or a
  relative path — and are resolved the way the kernel resolves a symbolic link: an absolute string
  from `/`, a relative string from the FOLDER THAT HOLDS THE LINK (never from the working directory
  of the server process), `.` skipped, `..` one level up (the root is its own parent).

  * `LinkStr`, `normalize`, `resolveAt` — lexical resolution (exact when no component on the way is
    itself an alias: the generated trees point at real files and folders through real folders).
  * `relOf d t` — the relative link string `filepath.Rel(d, t)` / `ln -s` produces from folder `d` to
    target `t`; `resolveAt_relOf`: resolving it from `d` gives `t` back, for all `d`, `t`.
  * `aliasNode` — what a folder download makes of an alias, given what exists at the resolved path:
    a regular file → a file item under the ALIAS's name with the target's bytes and date, no side
    files; a folder → one folder item without children; nothing → the empty file (`danglingAlias`).
  * `ANode` / `ANode.elab` — trees with alias leaves, elaborated folder by folder (each alias is
    resolved against the absolute path of the folder that holds it).

  Side files (`sidePath`): the information / resource fork of an item lives in the item's own folder
  under a name computed from the item's NAME only — `sprintfS` models `fmt.Sprintf` for templates
  whose only verb is `%s`: arguments are copied verbatim, never re-scanned for verbs.
-/
namespace Mobius

-- ---------------------------------------------------------------- link strings

structure LinkStr where
  isAbs : Bool
  comps : List Bytes      -- the string split at '/', empty components dropped; may hold "." and ".."
deriving Repr, DecidableEq

def dot : Bytes := [46]
def dotdot : Bytes := [46, 46]

/-- Walk `comps` starting from `base` (a component list, root = []). -/
def normalize : List Bytes → List Bytes → List Bytes
  | base, [] => base
  | base, c :: cs =>
    if c = dot then normalize base cs
    else if c = dotdot then normalize base.dropLast cs
    else normalize (base ++ [c]) cs

/-- Where the kernel looks for the target of a link stored in folder `linkDir` (absolute). -/
def resolveAt (linkDir : List Bytes) (l : LinkStr) : List Bytes :=
  normalize (if l.isAbs then [] else linkDir) l.comps

def Plain (p : List Bytes) : Prop := ∀ c ∈ p, c ≠ dot ∧ c ≠ dotdot

theorem normalize_plain (base p : List Bytes) (h : Plain p) : normalize base p = base ++ p := by
  induction p generalizing base with
  | nil => simp [normalize]
  | cons c cs ih =>
    have hc := h c (by simp)
    rw [normalize, if_neg hc.1, if_neg hc.2, ih _ (fun x hx => h x (by simp [hx]))]
    simp

theorem normalize_append (base a b : List Bytes) : normalize base (a ++ b) = normalize (normalize base a) b := by
  induction a generalizing base with
  | nil => simp [normalize]
  | cons c cs ih =>
    simp only [List.cons_append, normalize]
    split
    · exact ih _
    · split
      · exact ih _
      · exact ih _

theorem normalize_ups (base : List Bytes) (n : Nat) :
    normalize base (List.replicate n dotdot) = base.take (base.length - n) := by
  induction n generalizing base with
  | zero => simp [normalize]
  | succ n ih =>
    rw [List.replicate_succ, normalize, if_neg (by decide), if_pos rfl, ih]
    rw [List.dropLast_eq_take, List.take_take, List.length_take]
    congr 1
    omega

/-- An absolute link string leads to the same place wherever the link is stored. -/
theorem resolveAt_abs (d d' : List Bytes) (l : LinkStr) (h : l.isAbs = true) : resolveAt d l = resolveAt d' l := by
  simp [resolveAt, h]

/-- A relative link string is resolved from the folder that holds the link — no other directory (in
    particular no working directory) enters the definition. -/
theorem resolveAt_rel (d : List Bytes) (l : LinkStr) (h : l.isAbs = false) : resolveAt d l = normalize d l.comps := by
  simp [resolveAt, h]

theorem resolveAt_rel_plain (d : List Bytes) (l : LinkStr) (h : l.isAbs = false) (hp : Plain l.comps) :
    resolveAt d l = d ++ l.comps := by
  rw [resolveAt_rel d l h, normalize_plain d _ hp]

/-- Length of the longest common prefix. -/
def commonLen : List Bytes → List Bytes → Nat
  | a :: as, b :: bs => if a = b then commonLen as bs + 1 else 0
  | _, _ => 0

theorem commonLen_le_left (a b : List Bytes) : commonLen a b ≤ a.length := by
  induction a generalizing b with
  | nil => simp [commonLen]
  | cons x xs ih =>
    cases b with
    | nil => simp [commonLen]
    | cons y ys => simp only [commonLen]; split <;> simp; exact ih ys

theorem commonLen_take (a b : List Bytes) : a.take (commonLen a b) = b.take (commonLen a b) := by
  induction a generalizing b with
  | nil => simp [commonLen]
  | cons x xs ih =>
    cases b with
    | nil => simp [commonLen]
    | cons y ys =>
      simp only [commonLen]
      split
      · next h => simp [h, ih ys]
      · simp

/-- `filepath.Rel(d, t)`: as many `..` as `d` has components beyond the common prefix, then the rest of `t`. -/
def relOf (d t : List Bytes) : LinkStr :=
  ⟨false, List.replicate (d.length - commonLen d t) dotdot ++ t.drop (commonLen d t)⟩

/-- The relative link string from folder `d` to `t`, resolved from `d`, is `t` — for every folder and target
    (the same string resolved from any other folder `d'` is in general NOT `t`: see the example below). -/
theorem resolveAt_relOf (d t : List Bytes) (ht : Plain t) : resolveAt d (relOf d t) = t := by
  have hk := commonLen_le_left d t
  rw [resolveAt_rel _ _ rfl]
  simp only [relOf]
  rw [normalize_append, normalize_ups, normalize_plain _ _ (fun c hc => ht c (List.mem_of_mem_drop hc))]
  have : d.length - (d.length - commonLen d t) = commonLen d t := by omega
  rw [this, commonLen_take d t, List.take_append_drop]

-- ---------------------------------------------------------------- what a folder download makes of an alias

/-- What exists at a path (after the kernel followed the link): a regular file with its bytes and date, or a folder. -/
inductive Obj where
  | file (data mtime : Bytes)
  | dir
deriving Repr

/-- The file item an alias of a regular file is sent as: the alias's own name (type and creator follow its
    extension), the target's bytes and date, no side files. -/
def aliasFile (name data mtime ty creator : Bytes) : StoredFile :=
  { name := name, data := data, mtime := mtime, ty := ty, creator := creator }

def aliasNode (what : Option Obj) (name ty creator : Bytes) : Node :=
  match what with
  | some (.file data mtime) => .file (aliasFile name data mtime ty creator)
  | some .dir => Node.folderAlias name
  | none => Node.danglingAlias name

/-- A directory tree whose leaves may be aliases carrying their link string. -/
inductive ANode where
  | file (f : StoredFile)
  | dir (name : Bytes) (kids : List ANode)
  | alias (name : Bytes) (l : LinkStr) (ty creator : Bytes)

mutual
/-- Elaboration against a world `w` (absolute path ↦ what exists there): `at_` is the absolute path of the folder
    that holds the node. -/
def ANode.elab (w : List Bytes → Option Obj) : ANode → List Bytes → Node
  | .file f, _ => .file f
  | .dir n kids, at_ => .dir n (ANode.elabKids w kids (at_ ++ [n]))
  | .alias n l ty cr, at_ => aliasNode (w (resolveAt at_ l)) n ty cr
def ANode.elabKids (w : List Bytes → Option Obj) : List ANode → List Bytes → List Node
  | [], _ => []
  | k :: ks, at_ => k.elab w at_ :: ANode.elabKids w ks at_
end

theorem aliasNode_name (what : Option Obj) (n ty cr : Bytes) : (aliasNode what n ty cr).name = n := by
  cases what with
  | none => rfl
  | some o => cases o <;> rfl

/-- Whatever it points at, an alias is exactly ONE walk entry, under its own name, at its own place. -/
theorem aliasNode_walk (what : Option Obj) (n ty cr : Bytes) (p : List Bytes) :
    ∃ f, (aliasNode what n ty cr).walk p = [⟨p, n, f⟩] := by
  cases what with
  | none => exact ⟨_, walk_file _ p⟩
  | some o =>
    cases o with
    | file d m => exact ⟨_, walk_file _ p⟩
    | dir => exact ⟨none, walk_folderAlias n p⟩

-- ---------------------------------------------------------------- side files

/-- `fmt.Sprintf(tmpl, args…)` for templates whose verbs are `%s` (and `%%`): every `%s` is replaced by the next
    argument COPIED VERBATIM — the argument is never scanned for verbs; anything else (a verb other than `s`, a
    missing argument, a trailing `%`) yields `none` (Go prints a `%!…` diagnostic there). -/
def sprintfS : Bytes → List Bytes → Option Bytes
  | [], _ => some []
  | [c], _ => if c = 37 then none else some [c]
  | c :: d :: rest, as =>
    if c ≠ 37 then (sprintfS (d :: rest) as).map (c :: ·)
    else if d = 115 then
      match as with
      | a :: as' => (sprintfS rest as').map (a ++ ·)
      | [] => none
    else if d = 37 then (sprintfS rest as).map (37 :: ·)
    else none

theorem sprintfS_cons (c : UInt8) (hc : c ≠ 37) (t : Bytes) (as : List Bytes) :
    sprintfS (c :: t) as = (sprintfS t as).map (c :: ·) := by
  cases t with
  | nil => simp [sprintfS, hc]
  | cons d rest => rw [sprintfS.eq_def]; simp [hc]

theorem sprintfS_literal (pre : Bytes) (h : (37 : UInt8) ∉ pre) (rest : Bytes) (as : List Bytes) :
    sprintfS (pre ++ rest) as = (sprintfS rest as).map (pre ++ ·) := by
  induction pre with
  | nil => simp
  | cons c cs ih =>
    have hc : c ≠ 37 := fun e => h (by simp [e])
    have hcs : (37 : UInt8) ∉ cs := fun e => h (by simp [e])
    rw [List.cons_append, sprintfS_cons c hc, ih hcs]
    cases sprintfS rest as <;> simp

/-- A constant template `<prefix>%s` applied to ANY name — `%` characters in the name included — is the prefix
    followed by the name. -/
theorem sprintfS_prefix_template (pre name : Bytes) (h : (37 : UInt8) ∉ pre) :
    sprintfS (pre ++ [37, 115]) [name] = some (pre ++ name) := by
  rw [sprintfS_literal pre h]
  simp [sprintfS]

/-- The side file of item `name` in folder `dir` (a component list): in the item's own folder, under
    `Sprintf(template, name)`. -/
def sidePath (dir : List Bytes) (pre name : Bytes) : Option (List Bytes) :=
  (sprintfS (pre ++ [37, 115]) [name]).map fun b => dir ++ [b]

end Mobius
