import MobiusModel.Wire
/-!
  Registry: the client table of `hotline/client_manager.go` (`MemClientMgr`).

  * `clients map[ClientID]*ClientConn` is modelled as a list kept **sorted by id** (what `List()`
    returns after its `slices.SortFunc`), so the listing is the state itself;
  * `nextClientID atomic.Uint32` is `counter` (arithmetic `% 2^32`), the id is its low 16 bits;
  * `Add` mirrors the allocator after fix 2989207: `for { id = uint16(counter.Add(1)); if id is not
    held by a connected client && id != 0 { break } }`.  The Go loop has no bound; the model searches
    with fuel 65536 and returns `none` where the Go loop would spin forever (only possible with
    65 535 simultaneous clients — `Registry.add_succeeds` shows the search always succeeds below
    that capacity);
  * `conn` is a ghost serial number standing for the Go pointer identity of a `*ClientConn`
    (never reused; not observable on the wire).
-/
namespace Mobius

/-- `AccessBitmap.IsSet(i)`: `bits[i/8] & (1 << (7 - i%8)) != 0`. -/
def accessBit (a : Bytes) (i : Nat) : Bool := ((a.getD (i / 8) 0).toNat / 2 ^ (7 - i % 8)) % 2 == 1

/-- `UserFlags.IsSet(i)` on the 16-bit value (bit 0 = least significant). -/
def flagBit (f i : Nat) : Bool := (f / 2 ^ i) % 2 == 1

/-- `UserFlags.Set(i, v)`. -/
def setFlag (f i : Nat) (v : Bool) : Nat :=
  if v then (if flagBit f i then f else f + 2 ^ i) else (if flagBit f i then f - 2 ^ i else f)

/-- One `*ClientConn` as far as chat / presence / messaging read it. -/
structure Client where
  id : Nat            -- `ID` (16 bits on the wire)
  conn : Nat          -- ghost: identity of the connection object
  login : Bytes       -- `Account.Login`
  acctName : Bytes    -- `Account.Name`
  access : Bytes      -- `Account.Access` (8 bytes)
  name : Bytes        -- `UserName`
  icon : Bytes        -- `Icon` (`[]byte`; 2 bytes in every well-formed request)
  flags : Nat         -- `Flags` as a 16-bit value
  autoReply : Bytes   -- `AutoReply`
  announced : Bool    -- ghost: the login has been announced to the other users
deriving Repr, DecidableEq

structure Registry where
  counter : Nat           -- `nextClientID`
  serial : Nat            -- ghost: next connection serial
  clients : List Client   -- sorted by `id`
deriving Repr, DecidableEq

def Registry.init : Registry := ⟨0, 0, []⟩

/-- Map insertion `clients[c.ID] = c`, keeping the list sorted by id (an entry with the same id is
    replaced, as in a Go map). -/
def insertClient (c : Client) (l : List Client) : List Client :=
  l.filter (fun d => d.id < c.id) ++ c :: l.filter (fun d => c.id < d.id)

def Registry.ids (r : Registry) : List Nat := r.clients.map (·.id)

/-- `Get(id)`. -/
def Registry.get (r : Registry) (id : Nat) : Option Client := r.clients.find? (·.id == id)

/-- `Delete(id)`. -/
def Registry.delete (r : Registry) (id : Nat) : Registry :=
  { r with clients := r.clients.filter (·.id != id) }

def Registry.used (r : Registry) (id : Nat) : Bool := r.clients.any (·.id == id)

/-- The allocator loop of `Add`: returns the new counter and the id. -/
def allocId (used : Nat → Bool) : Nat → Nat → Option (Nat × Nat)
  | 0, _ => none
  | fuel + 1, ctr =>
    let ctr' := (ctr + 1) % 4294967296
    let id := ctr' % 65536
    if id ≠ 0 ∧ used id = false then some (ctr', id) else allocId used fuel ctr'

/-- `Add(cc)`: `mk` is the connection object; its id and (ghost) serial are filled in here. -/
def Registry.add (r : Registry) (mk : Client) : Option (Registry × Client) :=
  match allocId r.used 65536 r.counter with
  | none => none
  | some (ctr', id) =>
    let c := { mk with id := id, conn := r.serial }
    some (⟨ctr', r.serial + 1, insertClient c r.clients⟩, c)

/-- A field update through the shared `*ClientConn` pointer of the client holding `id`. -/
def Registry.modify (r : Registry) (id : Nat) (f : Client → Client) : Registry :=
  { r with clients := r.clients.map fun d => if d.id = id then f d else d }

/-- Sorted by id. -/
def SortedIds (l : List Client) : Prop := l.Pairwise (fun a b => a.id < b.id)

/-- Representation invariant of the table. -/
structure Registry.Inv (r : Registry) : Prop where
  sorted : SortedIds r.clients
  range : ∀ c ∈ r.clients, c.id ≠ 0 ∧ c.id < 65536
  conns : ∀ c ∈ r.clients, c.conn < r.serial
  connsNodup : (r.clients.map (·.conn)).Nodup

-- ------------------------------------------------------------------ sorted lists

theorem SortedIds.nodup {l : List Client} (h : SortedIds l) : (l.map (·.id)).Nodup := by
  unfold SortedIds at h
  rw [List.Nodup, List.pairwise_map]
  exact h.imp (fun hab => Nat.ne_of_lt hab)

/-- Two entries of a sorted table with the same id are the same entry. -/
theorem SortedIds.eq_of_id {l : List Client} (h : SortedIds l) {a b : Client}
    (ha : a ∈ l) (hb : b ∈ l) (hid : a.id = b.id) : a = b := by
  induction l with
  | nil => cases ha
  | cons d ds ih =>
    have hd := List.pairwise_cons.mp h
    rcases List.mem_cons.mp ha with rfl | ha' <;> rcases List.mem_cons.mp hb with rfl | hb'
    · rfl
    · exact absurd hid (Nat.ne_of_lt (hd.1 _ hb'))
    · exact absurd hid.symm (Nat.ne_of_lt (hd.1 _ ha'))
    · exact ih hd.2 ha' hb'

theorem mem_insertClient {c x : Client} {l : List Client} :
    x ∈ insertClient c l ↔ x = c ∨ (x ∈ l ∧ x.id ≠ c.id) := by
  simp only [insertClient, List.mem_append, List.mem_cons, List.mem_filter, decide_eq_true_eq]
  constructor
  · rintro (⟨h, hlt⟩ | rfl | ⟨h, hlt⟩)
    · exact Or.inr ⟨h, by omega⟩
    · exact Or.inl rfl
    · exact Or.inr ⟨h, by omega⟩
  · rintro (rfl | ⟨h, hne⟩)
    · exact Or.inr (Or.inl rfl)
    · by_cases hlt : x.id < c.id
      · exact Or.inl ⟨h, hlt⟩
      · exact Or.inr (Or.inr ⟨h, by omega⟩)

theorem SortedIds.insert {c : Client} {l : List Client} (h : SortedIds l) : SortedIds (insertClient c l) := by
  unfold SortedIds insertClient at *
  rw [List.pairwise_append]
  refine ⟨h.filter _, ?_, ?_⟩
  · rw [List.pairwise_cons]
    refine ⟨?_, h.filter _⟩
    intro b hb
    simpa using (List.mem_filter.mp hb).2
  · intro a ha b hb
    have ha' : a.id < c.id := by simpa using (List.mem_filter.mp ha).2
    rcases List.mem_cons.mp hb with rfl | hb
    · exact ha'
    · have : c.id < b.id := by simpa using (List.mem_filter.mp hb).2
      omega

/-- With a fresh id the listing's ids are the old ones plus the new one. -/
theorem insertClient_ids_perm {c : Client} {l : List Client} (hfresh : ∀ d ∈ l, d.id ≠ c.id) :
    ((insertClient c l).map (·.id)).Perm (c.id :: l.map (·.id)) := by
  have hsplit : (l.filter (fun d => d.id < c.id) ++ l.filter (fun d => c.id < d.id)).Perm l := by
    have h2 : l.filter (fun d => c.id < d.id) = l.filter (fun d => !decide (d.id < c.id)) := by
      apply List.filter_congr
      intro d hd
      have := hfresh d hd
      by_cases h : d.id < c.id
      · simp [h]; omega
      · simp [h]; omega
    rw [h2]
    exact List.filter_append_perm _ l
  unfold insertClient
  rw [List.map_append, List.map_cons]
  refine List.perm_middle.trans (List.Perm.cons _ ?_)
  rw [← List.map_append]
  exact hsplit.map _

-- ------------------------------------------------------------------ lookup

theorem Registry.get_some {r : Registry} {id : Nat} {c : Client} (h : r.get id = some c) :
    c ∈ r.clients ∧ c.id = id := by
  unfold Registry.get at h
  exact ⟨List.mem_of_find?_eq_some h, by simpa using List.find?_some h⟩

theorem Registry.get_of_mem {r : Registry} (hs : SortedIds r.clients) {c : Client} (hc : c ∈ r.clients) :
    r.get c.id = some c := by
  unfold Registry.get
  cases hf : r.clients.find? (·.id == c.id) with
  | none =>
    have := List.find?_eq_none.mp hf c hc
    simp at this
  | some d =>
    have hd := List.mem_of_find?_eq_some hf
    have hid : d.id = c.id := by simpa using List.find?_some hf
    rw [hs.eq_of_id hd hc hid]

theorem Registry.get_none {r : Registry} {id : Nat} (h : r.get id = none) : ∀ c ∈ r.clients, c.id ≠ id := by
  unfold Registry.get at h
  intro c hc
  have := List.find?_eq_none.mp h c hc
  simpa using this

theorem Registry.used_iff {r : Registry} {id : Nat} : r.used id = true ↔ ∃ c ∈ r.clients, c.id = id := by
  simp [Registry.used]

-- ------------------------------------------------------------------ the allocator

theorem allocId_spec {used : Nat → Bool} {fuel ctr c' id : Nat} (h : allocId used fuel ctr = some (c', id)) :
    id ≠ 0 ∧ used id = false ∧ id < 65536 ∧ c' < 4294967296 ∧ id = c' % 65536 := by
  induction fuel generalizing ctr with
  | zero => simp [allocId] at h
  | succ fuel ih =>
    unfold allocId at h
    dsimp only at h
    split at h
    · rename_i hc
      have h' := Option.some.inj h
      have h1 : c' = (ctr + 1) % 4294967296 := (congrArg Prod.fst h').symm
      have h2 : id = (ctr + 1) % 4294967296 % 65536 := (congrArg Prod.snd h').symm
      subst h1; subst h2
      refine ⟨hc.1, hc.2, ?_, ?_, rfl⟩ <;> omega
    · exact ih h

/-- If some candidate among the next `fuel` counter values is free and non-zero, the loop finds one. -/
theorem allocId_finds {used : Nat → Bool} (fuel ctr k : Nat) (hk1 : 1 ≤ k) (hk2 : k ≤ fuel)
    (hne : (ctr + k) % 65536 ≠ 0) (hfree : used ((ctr + k) % 65536) = false) :
    ∃ p, allocId used fuel ctr = some p := by
  induction fuel generalizing ctr k with
  | zero => omega
  | succ fuel ih =>
    unfold allocId
    dsimp only
    split
    · exact ⟨_, rfl⟩
    · rename_i hc
      have hk : k ≠ 1 := by
        intro h1; subst h1
        apply hc
        have : (ctr + 1) % 4294967296 % 65536 = (ctr + 1) % 65536 := by omega
        rw [this]; exact ⟨hne, hfree⟩
      have e : ((ctr + 1) % 4294967296 + (k - 1)) % 65536 = (ctr + k) % 65536 := by omega
      exact ih ((ctr + 1) % 4294967296) (k - 1) (by omega) (by omega) (by rw [e]; exact hne) (by rw [e]; exact hfree)

/-- Pigeonhole: a table with fewer than 65 535 entries (distinct non-zero 16-bit ids) leaves a
    non-zero 16-bit id free. -/
theorem exists_free_id {ids : List Nat} (hlen : ids.length < 65535) :
    ∃ r, 1 ≤ r ∧ r < 65536 ∧ r ∉ ids := by
  apply Classical.byContradiction
  intro hno
  have hsub : List.range' 1 65535 ⊆ ids := by
    intro r hr
    have hr' := List.mem_range'_1.mp hr
    apply Classical.byContradiction
    intro hnot
    exact hno ⟨r, hr'.1, by omega, hnot⟩
  have := List.Nodup.length_le_of_subset (List.nodup_range' (s := 1) (n := 65535)) hsub
  simp at this
  omega

theorem allocId_succeeds {used : Nat → Bool} (ctr r : Nat) (h1 : 1 ≤ r) (h2 : r < 65536) (hfree : used r = false) :
    ∃ p, allocId used 65536 ctr = some p := by
  -- the candidate at distance k = ((r - ctr - 1) mod 65536) + 1 has residue r
  let k := (r + 65536 - ctr % 65536 - 1) % 65536 + 1
  have hk : (ctr + k) % 65536 = r := by
    show (ctr + ((r + 65536 - ctr % 65536 - 1) % 65536 + 1)) % 65536 = r
    omega
  exact allocId_finds 65536 ctr k (by show 1 ≤ _ + 1; omega) (by show _ + 1 ≤ 65536; omega)
    (by rw [hk]; omega) (by rw [hk]; exact hfree)

-- ------------------------------------------------------------------ invariant preservation

theorem Registry.Inv.init : Registry.init.Inv :=
  ⟨List.Pairwise.nil, (by intro c h; cases h), (by intro c h; cases h), List.nodup_nil⟩

theorem Registry.Inv.ids_nodup {r : Registry} (h : r.Inv) : r.ids.Nodup := h.sorted.nodup

theorem Registry.Inv.delete {r : Registry} (h : r.Inv) (id : Nat) : (r.delete id).Inv := by
  refine ⟨?_, ?_, ?_, ?_⟩
  · exact List.Pairwise.filter _ h.sorted
  · intro c hc; exact h.range c (List.mem_filter.mp hc).1
  · intro c hc; exact h.conns c (List.mem_filter.mp hc).1
  · have : (List.filter (fun x => x.id != id) r.clients).map (·.conn) |>.Sublist (r.clients.map (·.conn)) :=
      List.Sublist.map _ (List.filter_sublist)
    exact h.connsNodup.sublist this

theorem Registry.Inv.modify {r : Registry} (h : r.Inv) (id : Nat) (f : Client → Client)
    (hf : ∀ d ∈ r.clients, d.id = id → (f d).id = d.id ∧ (f d).conn = d.conn) : (r.modify id f).Inv := by
  have hid : ∀ d ∈ r.clients, (if d.id = id then f d else d).id = d.id := by
    intro d hd; split
    · exact (hf d hd (by assumption)).1
    · rfl
  have hcn : ∀ d ∈ r.clients, (if d.id = id then f d else d).conn = d.conn := by
    intro d hd; split
    · exact (hf d hd (by assumption)).2
    · rfl
  refine ⟨?_, ?_, ?_, ?_⟩
  · show SortedIds (r.clients.map _)
    unfold SortedIds
    rw [List.pairwise_map]
    exact h.sorted.imp_of_mem (fun {a b} ha hb hab => by rw [hid a ha, hid b hb]; exact hab)
  · intro c hc
    obtain ⟨d, hd, rfl⟩ := List.mem_map.mp hc
    rw [hid d hd]; exact h.range d hd
  · intro c hc
    obtain ⟨d, hd, rfl⟩ := List.mem_map.mp hc
    rw [hcn d hd]; exact h.conns d hd
  · show ((r.clients.map (fun d => if d.id = id then f d else d)).map (fun c : Client => c.conn)).Nodup
    rw [List.map_map]
    have : r.clients.map ((fun c : Client => c.conn) ∘ fun d => if d.id = id then f d else d) = r.clients.map (·.conn) :=
      List.map_congr_left (fun d hd => hcn d hd)
    rw [this]; exact h.connsNodup

/-- Replacing the record of the connected client `c` by `c'`: the table holds `c'` and everybody else. -/
theorem Registry.mem_modify {r : Registry} {c c' : Client} (hc : c ∈ r.clients) {x : Client} :
    x ∈ (r.modify c.id (fun _ => c')).clients ↔ x = c' ∨ (x ∈ r.clients ∧ x.id ≠ c.id) := by
  unfold Registry.modify
  simp only [List.mem_map]
  constructor
  · rintro ⟨d, hd, rfl⟩
    split
    · exact Or.inl rfl
    · rename_i hne; exact Or.inr ⟨hd, hne⟩
  · rintro (rfl | ⟨hx, hne⟩)
    · exact ⟨c, hc, by simp⟩
    · exact ⟨x, hx, by simp [hne]⟩

/-- What a successful `Add` guarantees. -/
theorem Registry.add_spec {r r' : Registry} {mk c : Client} (h : r.Inv) (ha : r.add mk = some (r', c)) :
    r'.Inv ∧ c.id ≠ 0 ∧ c.id < 65536 ∧ c.id ∉ r.ids ∧ c.conn = r.serial ∧
    c = { mk with id := c.id, conn := r.serial } ∧
    r'.clients = insertClient c r.clients ∧ r'.serial = r.serial + 1 ∧
    (∀ x, x ∈ r'.clients ↔ x = c ∨ x ∈ r.clients) := by
  unfold Registry.add at ha
  split at ha
  · cases ha
  · rename_i ctr' id hal
    have hs := allocId_spec hal
    have h' := Option.some.inj ha
    have hr' : r' = ⟨ctr', r.serial + 1, insertClient { mk with id := id, conn := r.serial } r.clients⟩ :=
      (congrArg Prod.fst h').symm
    have hc : c = { mk with id := id, conn := r.serial } := (congrArg Prod.snd h').symm
    have hcid : c.id = id := by rw [hc]
    have hccn : c.conn = r.serial := by rw [hc]
    have hfresh : ∀ d ∈ r.clients, d.id ≠ c.id := by
      intro d hd heq
      have : r.used id = true := Registry.used_iff.mpr ⟨d, hd, by rw [heq, hcid]⟩
      rw [hs.2.1] at this; cases this
    have hmem : ∀ x, x ∈ insertClient c r.clients ↔ x = c ∨ x ∈ r.clients := by
      intro x
      rw [mem_insertClient]
      constructor
      · rintro (h | ⟨h, _⟩); exact Or.inl h; exact Or.inr h
      · rintro (h | h); exact Or.inl h; exact Or.inr ⟨h, hfresh x h⟩
    subst hr'
    rw [← hc]
    refine ⟨⟨h.sorted.insert, ?_, ?_, ?_⟩, ?_, ?_, ?_, hccn, ?_, rfl, rfl, hmem⟩
    · intro x hx
      rcases (hmem x).mp hx with rfl | hx
      · rw [hcid]; exact ⟨hs.1, hs.2.2.1⟩
      · exact h.range x hx
    · intro x hx
      show x.conn < r.serial + 1
      rcases (hmem x).mp hx with rfl | hx
      · omega
      · have := h.conns x hx; omega
    · show ((insertClient c r.clients).map (·.conn)).Nodup
      have hp : ((insertClient c r.clients).map (·.conn)).Perm (c.conn :: r.clients.map (·.conn)) := by
        unfold insertClient
        rw [List.map_append, List.map_cons]
        refine List.perm_middle.trans (List.Perm.cons _ ?_)
        rw [← List.map_append]
        apply List.Perm.map
        have h2 : r.clients.filter (fun d => c.id < d.id) = r.clients.filter (fun d => !decide (d.id < c.id)) := by
          apply List.filter_congr
          intro d hd
          have := hfresh d hd
          by_cases hlt : d.id < c.id
          · simp [hlt]; omega
          · simp [hlt]; omega
        rw [h2]
        exact List.filter_append_perm _ _
      refine (List.Perm.nodup_iff hp).mpr (List.nodup_cons.mpr ⟨?_, h.connsNodup⟩)
      intro hin
      obtain ⟨d, hd, hdc⟩ := List.mem_map.mp hin
      have := h.conns d hd
      omega
    · rw [hcid]; exact hs.1
    · rw [hcid]; exact hs.2.2.1
    · intro hin
      obtain ⟨d, hd, hdc⟩ := List.mem_map.mp hin
      exact hfresh d hd hdc
    · rw [hc]

/-- Below the capacity of the 16-bit id space the allocator loop terminates with an id. -/
theorem Registry.add_succeeds {r : Registry} (mk : Client) (hcap : r.clients.length < 65535) :
    ∃ r' c, r.add mk = some (r', c) := by
  obtain ⟨f, hf1, hf2, hf3⟩ := exists_free_id (ids := r.ids) (by simpa [Registry.ids] using hcap)
  have hfree : r.used f = false := by
    cases hu : r.used f with
    | false => rfl
    | true =>
      obtain ⟨c, hc, hid⟩ := Registry.used_iff.mp hu
      exact absurd (List.mem_map.mpr ⟨c, hc, hid⟩) hf3
  obtain ⟨p, hp⟩ := allocId_succeeds (used := r.used) r.counter f hf1 hf2 hfree
  unfold Registry.add
  rw [hp]
  exact ⟨_, _, rfl⟩

/-- A field update through the shared pointers of several clients at once (ids and connections untouched). -/
def Registry.mapKeep (r : Registry) (g : Client → Client) : Registry := { r with clients := r.clients.map g }

theorem Registry.Inv.mapKeep {r : Registry} (h : r.Inv) (g : Client → Client)
    (hg : ∀ d, (g d).id = d.id ∧ (g d).conn = d.conn) : (r.mapKeep g).Inv := by
  refine ⟨?_, ?_, ?_, ?_⟩
  · show SortedIds (r.clients.map g)
    unfold SortedIds
    rw [List.pairwise_map]
    exact h.sorted.imp (fun {a b} hab => by rw [(hg a).1, (hg b).1]; exact hab)
  · intro c hc
    obtain ⟨d, hd, rfl⟩ := List.mem_map.mp hc
    rw [(hg d).1]; exact h.range d hd
  · intro c hc
    obtain ⟨d, hd, rfl⟩ := List.mem_map.mp hc
    rw [(hg d).2]; exact h.conns d hd
  · show ((r.clients.map g).map (fun c : Client => c.conn)).Nodup
    rw [List.map_map]
    have : ((fun c : Client => c.conn) ∘ g) = (·.conn) := by funext d; exact (hg d).2
    rw [this]; exact h.connsNodup

-- ------------------------------------------------------------------ histories of the table alone

/-- A history of the client table alone: connections come and go. -/
inductive RegOp where
  | add (mk : Client)
  | delete (id : Nat)

def regStep (r : Registry) : RegOp → Registry
  | .add mk => match r.add mk with | some (r', _) => r' | none => r
  | .delete id => r.delete id

theorem regStep_inv (r : Registry) (h : r.Inv) (op : RegOp) : (regStep r op).Inv := by
  cases op with
  | add mk =>
    simp only [regStep]
    split
    · rename_i r' c ha; exact (Registry.add_spec h ha).1
    · exact h
  | delete id => exact h.delete id

theorem regOps_inv (ops : List RegOp) : (ops.foldl regStep Registry.init).Inv := by
  have : ∀ (r : Registry), r.Inv → (ops.foldl regStep r).Inv := by
    induction ops with
    | nil => intro r h; exact h
    | cons op ops ih => intro r h; exact ih _ (regStep_inv r h op)
  exact this _ Registry.Inv.init

end Mobius
