/-!
  RWLockFlat (C08, wave d): goroutines around one `sync.RWMutex` — when can they deadlock?

  A transfer connection updates the statistics counters under the WRITE lock before it sends a byte
  (`Stats.Increment`), statistics readers (`Server.CurrentStats` → `Stats.Values`) take the READ lock.
  Go's RWMutex gives writers priority: once a `Lock()` call has announced itself, new `RLock()` calls
  block until that writer is done.  Hence the lock is not re-entrant for readers: a goroutine that
  calls `RLock` while holding the read lock waits for the announced writer, which waits for that very
  goroutine's first read lock — for ever (and every later reader and writer with them).

  Model: every goroutine runs a program of lock actions; the lock's state is derived from what the
  goroutines hold.  Theorem `no_deadlock`: if all programs are FLAT (a sequence of `RLock; RUnlock`
  and `Lock; Unlock` sections, i.e. no acquisition while holding), then in every reachable state in
  which some goroutine still has something to do, some goroutine can take a step — and in particular
  an announced writer acquires as soon as the current holders have left, which they always can.
  `nested_rlock_deadlocks`: with ONE nested read section the stuck state is reachable.
-/
namespace Mobius.RWFlat

inductive Act where
  | rlock | runlock | lock | unlock
deriving DecidableEq, Repr

/-- One goroutine: what it still has to do, how many read locks it holds, whether it holds the write
    lock, whether its `Lock()` call has announced itself and is waiting. -/
structure Th where
  prog : List Act
  r : Nat := 0
  w : Bool := false
  p : Bool := false
deriving DecidableEq, Repr

abbrev State := List Th

def noWriter (s : State) : Bool := s.all fun t => !t.w
def noPending (s : State) : Bool := s.all fun t => !t.p
def noReaders (s : State) : Bool := s.all fun t => t.r == 0

/-- Can goroutine `t` take its next step in state `s`?  (`sync.RWMutex`: `RLock` waits for a holding or
    announced writer; `Lock` announces itself at once and then waits for all holders to leave.) -/
def enabled (s : State) (t : Th) : Bool :=
  match t.prog with
  | [] => false
  | .rlock :: _ => noWriter s && noPending s
  | .runlock :: _ => true
  | .lock :: _ => if t.p then noReaders s && noWriter s else true
  | .unlock :: _ => true

/-- The goroutine after its step. -/
def stepTh (t : Th) : Th :=
  match t.prog with
  | [] => t
  | .rlock :: rest => { t with prog := rest, r := t.r + 1 }
  | .runlock :: rest => { t with prog := rest, r := t.r - 1 }
  | .lock :: rest => if t.p then { t with prog := rest, w := true, p := false } else { t with p := true }
  | .unlock :: rest => { t with prog := rest, w := false }

/-- States reachable from `s0` by enabled steps of any goroutines, in any order. -/
inductive Reach (s0 : State) : State → Prop where
  | refl : Reach s0 s0
  | step (s : State) (i : Nat) (h : i < s.length) : Reach s0 s → enabled s s[i] = true →
      Reach s0 (s.set i (stepTh s[i]))

/-- Deadlock: somebody still has work, nobody can move. -/
def stuck (s : State) : Bool := (s.any fun t => t.prog ≠ []) && s.all fun t => !enabled s t

/-- A flat program: sections `RLock; RUnlock` and `Lock; Unlock`, nothing acquired while holding. -/
def flat : List Act → Bool
  | [] => true
  | .rlock :: .runlock :: rest => flat rest
  | .lock :: .unlock :: rest => flat rest
  | _ => false

/-- The program of one call of a locking method that calls no locking method while it holds the lock. -/
def methodProg (writer : Bool) : List Act := if writer then [.lock, .unlock] else [.rlock, .runlock]

theorem flat_append (a b : List Act) (ha : flat a = true) (hb : flat b = true) : flat (a ++ b) = true := by
  induction a using flat.induct with
  | case1 => simpa using hb
  | case2 rest ih => simp only [flat] at ha; simpa [flat] using ih ha
  | case3 rest ih => simp only [flat] at ha; simpa [flat] using ih ha
  | case4 l h1 h2 h3 => simp [flat] at ha

/-- Any sequence of calls of such methods is a flat program. -/
theorem flat_of_calls (calls : List Bool) : flat (calls.flatMap methodProg) = true := by
  induction calls with
  | nil => rfl
  | cons c cs ih =>
    rw [List.flatMap_cons]
    apply flat_append _ _ _ ih
    cases c <;> rfl

/-- Where a goroutine with a flat program can be: idle between sections, inside a read section, inside a write
    section, or announced and waiting for the write lock. -/
def good (t : Th) : Bool :=
  match t.r, t.w, t.p, t.prog with
  | 0, false, false, pr => flat pr
  | 1, false, false, .runlock :: rest => flat rest
  | 0, true, false, .unlock :: rest => flat rest
  | 0, false, true, .lock :: .unlock :: rest => flat rest
  | _, _, _, _ => false

theorem good_cases (t : Th) (h : good t = true) :
    (t.r = 0 ∧ t.w = false ∧ t.p = false ∧ flat t.prog = true) ∨
    (t.r = 1 ∧ t.w = false ∧ t.p = false ∧ ∃ rest, t.prog = .runlock :: rest ∧ flat rest = true) ∨
    (t.r = 0 ∧ t.w = true ∧ t.p = false ∧ ∃ rest, t.prog = .unlock :: rest ∧ flat rest = true) ∨
    (t.r = 0 ∧ t.w = false ∧ t.p = true ∧ ∃ rest, t.prog = .lock :: .unlock :: rest ∧ flat rest = true) := by
  obtain ⟨prog, r, w, p⟩ := t
  unfold good at h
  simp only at h
  split at h
  · left; simp_all
  · right; left; simp_all
  · right; right; left; simp_all
  · right; right; right; simp_all
  · cases h

theorem flat_cases (pr : List Act) (h : flat pr = true) :
    pr = [] ∨ (∃ rest, pr = .rlock :: .runlock :: rest ∧ flat rest = true) ∨
    (∃ rest, pr = .lock :: .unlock :: rest ∧ flat rest = true) := by
  unfold flat at h
  split at h
  · left; rfl
  · right; left; exact ⟨_, rfl, h⟩
  · right; right; exact ⟨_, rfl, h⟩
  · cases h

/-- A step keeps a goroutine with a flat program in one of the four places. -/
theorem good_step (t : Th) (h : good t = true) : good (stepTh t) = true := by
  obtain ⟨prog, r, w, p⟩ := t
  rcases good_cases _ h with ⟨h1, h2, h3, h4⟩ | ⟨h1, h2, h3, rest, h4, h5⟩ | ⟨h1, h2, h3, rest, h4, h5⟩ |
      ⟨h1, h2, h3, rest, h4, h5⟩
  · simp only at h1 h2 h3 h4
    subst h1; subst h2; subst h3
    rcases flat_cases _ h4 with h5 | ⟨rest, h5, h6⟩ | ⟨rest, h5, h6⟩
    · subst h5; simp [stepTh, good, flat]
    · subst h5; simp [stepTh, good, h6]
    · subst h5; simp [stepTh, good, h6]
  · simp only at h1 h2 h3 h4
    subst h1; subst h2; subst h3; subst h4
    simp [stepTh, good, h5]
  · simp only at h1 h2 h3 h4
    subst h1; subst h2; subst h3; subst h4
    simp [stepTh, good, h5]
  · simp only at h1 h2 h3 h4
    subst h1; subst h2; subst h3; subst h4
    simp [stepTh, good, h5]

def allGood (s : State) : Prop := ∀ t ∈ s, good t = true

theorem allGood_reach (s0 s : State) (h0 : allGood s0) (hr : Reach s0 s) : allGood s := by
  induction hr with
  | refl => exact h0
  | step s i hi _ _ ih =>
    intro t ht
    rcases List.mem_or_eq_of_mem_set ht with h | h
    · exact ih t h
    · subst h; exact good_step _ (ih _ (List.getElem_mem hi))

theorem exists_of_not_all (s : State) (f : Th → Bool) (h : ¬ s.all f = true) : ∃ t ∈ s, f t = false := by
  induction s with
  | nil => simp at h
  | cons a l ih =>
    by_cases ha : f a = true
    · have hl : ¬ l.all f = true := by
        intro hl; apply h; simp [ha, hl]
      obtain ⟨t, ht, hf⟩ := ih hl
      exact ⟨t, List.mem_cons_of_mem _ ht, hf⟩
    · exact ⟨a, List.mem_cons_self, by simpa using ha⟩

/-- **Progress.**  If every goroutine is in one of the four places of a flat program and somebody still has work,
    somebody can move: a write holder can unlock; else a read holder can unlock; else (nobody holds anything) an
    announced writer acquires; else any goroutine starts its next section. -/
theorem progress (s : State) (hg : allGood s) (hw : (s.any fun t => t.prog ≠ []) = true) :
    ∃ t ∈ s, enabled s t = true := by
  by_cases hW : noWriter s = true
  · by_cases hR : noReaders s = true
    · by_cases hP : noPending s = true
      · -- everybody idle
        obtain ⟨t, ht, hne⟩ := List.any_eq_true.mp hw
        refine ⟨t, ht, ?_⟩
        rcases good_cases t (hg t ht) with ⟨_, _, _, hf⟩ | ⟨_, _, _, rest, hp, _⟩ | ⟨_, _, _, rest, hp, _⟩ |
            ⟨_, _, hp', rest, hp, _⟩
        · rcases flat_cases _ hf with h | ⟨rest, h, _⟩ | ⟨rest, h, _⟩
          · simp [h] at hne
          · simp [enabled, h, hW, hP]
          · have hp : t.p = false := by
              have := List.all_eq_true.mp hP t ht; simpa using this
            simp [enabled, h, hp]
        · simp [enabled, hp]
        · simp [enabled, hp]
        · simp [enabled, hp, hp', hR, hW]
      · -- an announced writer, nobody holds anything
        have : ∃ t ∈ s, t.p = true := by
          obtain ⟨t, ht, hp⟩ := exists_of_not_all s _ hP
          exact ⟨t, ht, by simpa using hp⟩
        obtain ⟨t, ht, hp⟩ := this
        refine ⟨t, ht, ?_⟩
        rcases good_cases t (hg t ht) with ⟨_, _, h3, _⟩ | ⟨_, _, h3, _⟩ | ⟨_, _, h3, _⟩ | ⟨_, _, _, rest, hpr, _⟩
        · rw [hp] at h3; cases h3
        · rw [hp] at h3; cases h3
        · rw [hp] at h3; cases h3
        · simp [enabled, hpr, hp, hR, hW]
    · -- a read holder
      have : ∃ t ∈ s, t.r ≠ 0 := by
        obtain ⟨t, ht, hr⟩ := exists_of_not_all s _ hR
        exact ⟨t, ht, by simpa using hr⟩
      obtain ⟨t, ht, hr⟩ := this
      refine ⟨t, ht, ?_⟩
      rcases good_cases t (hg t ht) with ⟨h1, _⟩ | ⟨_, _, _, rest, hpr, _⟩ | ⟨h1, _⟩ | ⟨h1, _⟩
      · exact absurd h1 hr
      · simp [enabled, hpr]
      · exact absurd h1 hr
      · exact absurd h1 hr
  · -- a write holder
    have : ∃ t ∈ s, t.w = true := by
      obtain ⟨t, ht, hw'⟩ := exists_of_not_all s _ hW
      exact ⟨t, ht, by simpa using hw'⟩
    obtain ⟨t, ht, hw'⟩ := this
    refine ⟨t, ht, ?_⟩
    rcases good_cases t (hg t ht) with ⟨_, h2, _⟩ | ⟨_, h2, _⟩ | ⟨_, _, _, rest, hpr, _⟩ | ⟨_, h2, _⟩
    · rw [hw'] at h2; cases h2
    · rw [hw'] at h2; cases h2
    · simp [enabled, hpr]
    · rw [hw'] at h2; cases h2

/-- A state in which goroutines with flat programs have not started yet. -/
def initial (progs : List (List Act)) : State := progs.map fun p => { prog := p }

theorem allGood_initial (progs : List (List Act)) (h : ∀ p ∈ progs, flat p = true) : allGood (initial progs) := by
  intro t ht
  simp only [initial, List.mem_map] at ht
  obtain ⟨p, hp, rfl⟩ := ht
  simpa [good] using h p hp

/-- **No deadlock.**  Goroutines whose programs are flat never reach a state in which somebody has work left and
    nobody can move — for any number of goroutines, any programs, any schedule. -/
theorem no_deadlock (progs : List (List Act)) (h : ∀ p ∈ progs, flat p = true) (s : State)
    (hr : Reach (initial progs) s) : stuck s = false := by
  have hg := allGood_reach _ s (allGood_initial progs h) hr
  cases hs : stuck s with
  | false => rfl
  | true =>
    simp only [stuck, Bool.and_eq_true] at hs
    obtain ⟨t, ht, he⟩ := progress s hg hs.1
    have := List.all_eq_true.mp hs.2 t ht
    simp [he] at this

/-- The re-entrant reader: goroutine 0 takes the read lock twice (a locking method calling a locking method while
    it holds the lock), goroutine 1 is one writer. -/
def nestedExample : State := initial [[.rlock, .rlock, .runlock, .runlock], [.lock, .unlock]]

/-- After "reader takes the outer read lock; writer announces itself" nobody can ever move again. -/
theorem nested_rlock_deadlocks :
    ∃ s, Reach nestedExample s ∧ stuck s = true := by
  refine ⟨(nestedExample.set 0 (stepTh nestedExample[0])).set 1 (stepTh (nestedExample.set 0 (stepTh nestedExample[0]))[1]), ?_, by decide⟩
  apply Reach.step _ 1 (by decide) _ (by decide)
  exact Reach.step _ 0 (by decide) Reach.refl (by decide)

end Mobius.RWFlat
