/-
  Bytes: big-endian integers over `List UInt8`, with the Go truncations
  (`uint16(len x)`, `uint32(a+b)`) modelled as `% 2^k` at the call sites.
-/
namespace Mobius

abbrev Bytes := List UInt8

def b8 (n : Nat) : UInt8 := UInt8.ofNat (n % 256)

@[simp] theorem b8_toNat (n : Nat) : (b8 n).toNat = n % 256 := by
  simp [b8, UInt8.toNat_ofNat']

/-- `binary.BigEndian.PutUint16` of `n % 65536`. -/
def be16 (n : Nat) : Bytes := [b8 (n / 256), b8 n]

/-- `binary.BigEndian.PutUint32` of `n % 2^32`. -/
def be32 (n : Nat) : Bytes := [b8 (n / 16777216), b8 (n / 65536), b8 (n / 256), b8 n]

/-- `binary.BigEndian.Uint16` of the first two bytes (0 when short; callers guard the length). -/
def rd16 : Bytes → Nat
  | a :: b :: _ => a.toNat * 256 + b.toNat
  | _ => 0

/-- `binary.BigEndian.Uint32` of the first four bytes. -/
def rd32 : Bytes → Nat
  | a :: b :: c :: d :: _ => a.toNat * 16777216 + b.toNat * 65536 + c.toNat * 256 + d.toNat
  | _ => 0

@[simp] theorem be16_length (n : Nat) : (be16 n).length = 2 := rfl
@[simp] theorem be32_length (n : Nat) : (be32 n).length = 4 := rfl

theorem rd16_be16_append (n : Nat) (r : Bytes) : rd16 (be16 n ++ r) = n % 65536 := by
  simp [be16, rd16]; omega

theorem rd32_be32_append (n : Nat) (r : Bytes) : rd32 (be32 n ++ r) = n % 4294967296 := by
  simp [be32, rd32]; omega

theorem rd16_be16 (n : Nat) : rd16 (be16 n) = n % 65536 := by
  simpa using rd16_be16_append n []

theorem rd32_be32 (n : Nat) : rd32 (be32 n) = n % 4294967296 := by
  simpa using rd32_be32_append n []

theorem rd16_lt (b : Bytes) : rd16 b < 65536 := by
  unfold rd16; split
  · rename_i a b _; have := a.toNat_lt; have := b.toNat_lt; omega
  · omega

theorem rd32_lt (b : Bytes) : rd32 b < 4294967296 := by
  unfold rd32; split
  · rename_i a b c d _
    have := a.toNat_lt; have := b.toNat_lt; have := c.toNat_lt; have := d.toNat_lt; omega
  · omega

theorem rd32_append (d e : Bytes) (h : 4 ≤ d.length) : rd32 (d ++ e) = rd32 d := by
  match d, h with
  | a :: b :: c :: x :: rest, _ => simp [rd32]

theorem rd16_append (d e : Bytes) (h : 2 ≤ d.length) : rd16 (d ++ e) = rd16 d := by
  match d, h with
  | a :: b :: rest, _ => simp [rd16]

theorem b8_eq_of (a : UInt8) (n : Nat) (h : n % 256 = a.toNat) : b8 n = a := by
  apply UInt8.toNat_inj.mp; simp [h]

/-- be16 of rd16 gives back the two bytes. -/
theorem be16_rd16 (a b : UInt8) (r : Bytes) : be16 (rd16 (a :: b :: r)) = [a, b] := by
  have ha := a.toNat_lt; have hb := b.toNat_lt
  simp only [be16, rd16]
  rw [b8_eq_of a _ (by omega), b8_eq_of b _ (by omega)]

theorem be32_rd32 (a b c d : UInt8) (r : Bytes) : be32 (rd32 (a :: b :: c :: d :: r)) = [a, b, c, d] := by
  have ha := a.toNat_lt; have hb := b.toNat_lt; have hc := c.toNat_lt; have hd := d.toNat_lt
  simp only [be32, rd32]
  rw [b8_eq_of a _ (by omega), b8_eq_of b _ (by omega), b8_eq_of c _ (by omega), b8_eq_of d _ (by omega)]

end Mobius
