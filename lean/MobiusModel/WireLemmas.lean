import MobiusModel.Wire
/-! Helper lemmas for the wire theorems (kept apart from the property statements). -/
namespace Mobius

theorem Field.encode_length (f : Field) : f.encode.length = 4 + f.data.length := by
  simp [Field.encode]; omega

theorem fieldsEncode_cons (f : Field) (fs : List Field) : fieldsEncode (f :: fs) = f.encode ++ fieldsEncode fs := by
  simp [fieldsEncode]

theorem fieldsEncode_length (fs : List Field) :
    (fieldsEncode fs).length = (fs.map fun f => 4 + f.data.length).sum := by
  induction fs with
  | nil => simp [fieldsEncode]
  | cons f fs ih => rw [fieldsEncode_cons]; simp [Field.encode_length, ih]

/-- `Field.Write` on exactly the encoded field gives the field back. -/
theorem Field.decode_encode' (f : Field) (h : f.WF) :
    Field.decode f.encode = .ok (f, 4 + f.data.length) := by
  obtain ⟨hty, hlen⟩ := h
  have h2 : (f.encode).drop 2 = be16 f.data.length ++ f.data := by simp [Field.encode, be16]
  have h4 : (f.encode).drop 4 = f.data := by simp [Field.encode, be16]
  have hr : rd16 f.encode = f.ty := by
    have : f.encode = be16 f.ty ++ (be16 f.data.length ++ f.data) := by simp [Field.encode]
    rw [this, rd16_be16_append]; omega
  unfold Field.decode
  have hl := Field.encode_length f
  rw [h2, rd16_be16_append, h4, hr]
  have : f.data.length % 65536 = f.data.length := by omega
  simp [hl, this]

/-- `FieldScanner` on data starting with an encoded field yields exactly that field. -/
theorem fieldSplit_encode (f : Field) (h : f.WF) (rest : Bytes) :
    fieldSplit (f.encode ++ rest) = some (4 + f.data.length, f.encode) := by
  obtain ⟨hty, hlen⟩ := h
  have h2 : (f.encode ++ rest).drop 2 = be16 f.data.length ++ (f.data ++ rest) := by simp [Field.encode, be16]
  unfold fieldSplit
  have hl := Field.encode_length f
  rw [h2, rd16_be16_append]
  have : f.data.length % 65536 = f.data.length := by omega
  simp only [this, List.length_append, hl]
  have h1 : ¬ (4 + f.data.length + rest.length < 4) := by omega
  have h3 : ¬ (4 + f.data.length > 4 + f.data.length + rest.length) := by omega
  simp only [h1, h3, if_false]
  congr 2
  rw [← hl]; simp


/-- A field the inner scanner of `Transaction.Write` can deliver: every well-formed field
    (4 + 65535 bytes fit the scanner's token limit). -/
def Field.Scannable (f : Field) : Prop := f.WF

theorem Field.Scannable.wf {f : Field} (h : f.Scannable) : f.WF := h

theorem parseFields_encode (fs : List Field) (h : ∀ f ∈ fs, f.Scannable) (rest : Bytes) :
    parseFields fs.length (fieldsEncode fs ++ rest) = .ok fs := by
  induction fs with
  | nil => simp [parseFields]
  | cons f fs ih =>
    have hf := h f (by simp)
    have hl := Field.encode_length f
    rw [fieldsEncode_cons, List.length_cons, parseFields]
    have htake : (f.encode ++ fieldsEncode fs ++ rest).take fieldTokMax
        = f.encode ++ (fieldsEncode fs ++ rest).take (fieldTokMax - f.encode.length) := by
      rw [List.append_assoc, List.take_append]
      congr 1
      apply List.take_of_length_le
      rw [hl]; have := hf.2; simp [fieldTokMax]; omega
    rw [htake, fieldSplit_encode f hf.wf]
    simp only
    rw [Field.decode_encode' f hf.wf]
    simp only
    have hdrop : (f.encode ++ fieldsEncode fs ++ rest).drop (4 + f.data.length) = fieldsEncode fs ++ rest := by
      rw [List.append_assoc, ← hl, List.drop_left]
    rw [hdrop, ih (fun g hg => h g (by simp [hg]))]

end Mobius

namespace Mobius

/-- Transactions the server-side decoder round-trips: every field fits one scanner token. -/
def Transaction.WFdec (t : Transaction) : Prop :=
  t.ty < 65536 ∧ t.id < 4294967296 ∧ t.err < 4294967296 ∧
  (∀ f ∈ t.fields, f.Scannable) ∧ t.fields.length < 65536 ∧ t.payloadSize + 20 < 4294967296

theorem Transaction.encode_length (t : Transaction) : t.encode.length = 20 + t.payloadSize := by
  simp [Transaction.encode, fieldsEncode_length, Transaction.payloadSize]; omega

theorem Transaction.encode_split (t : Transaction) :
    t.encode = [t.flags, t.isReply] ++ (be16 t.ty ++ (be32 t.id ++ (be32 t.err ++
      (be32 t.payloadSize ++ (be32 t.payloadSize ++ (be16 t.fields.length ++ fieldsEncode t.fields)))))) := by
  simp [Transaction.encode]

theorem Transaction.drop12 (t : Transaction) (rest : Bytes) :
    (t.encode ++ rest).drop 12 = be32 t.payloadSize ++ (be32 t.payloadSize ++ (be16 t.fields.length ++ (fieldsEncode t.fields ++ rest))) := by
  simp [Transaction.encode, be16, be32]

theorem Transaction.drop20 (t : Transaction) (rest : Bytes) :
    (t.encode ++ rest).drop 20 = be16 t.fields.length ++ (fieldsEncode t.fields ++ rest) := by
  simp [Transaction.encode, be16, be32]

theorem Transaction.drop22 (t : Transaction) (rest : Bytes) :
    (t.encode ++ rest).drop 22 = fieldsEncode t.fields ++ rest := by
  simp [Transaction.encode, be16, be32]

theorem Transaction.decode_encode' (t : Transaction) (h : t.WFdec) :
    Transaction.decode t.encode = .ok t := by
  obtain ⟨hty, hid, herr, hf, hn, hp⟩ := h
  have hl := Transaction.encode_length t
  have hps : 2 ≤ t.payloadSize := by simp [Transaction.payloadSize]
  unfold Transaction.decode
  have d12 := Transaction.drop12 t []
  have d20 := Transaction.drop20 t []
  have d22 := Transaction.drop22 t []
  simp only [List.append_nil] at d12 d20 d22
  rw [d12, rd32_be32_append, d20, rd16_be16_append]
  dsimp only
  have e1 : t.payloadSize % 4294967296 = t.payloadSize := by omega
  have e2 : (20 + t.payloadSize) % 4294967296 = 20 + t.payloadSize := by omega
  have e3 : t.fields.length % 65536 = t.fields.length := by omega
  rw [e1, e2, e3]
  have c1 : ¬ (t.encode.length < 22) := by omega
  have c2 : ¬ (20 + t.payloadSize < 22 ∨ 20 + t.payloadSize > t.encode.length) := by omega
  simp only [c1, c2, if_false]
  have htake : t.encode.take (20 + t.payloadSize) = t.encode := List.take_of_length_le (by omega)
  rw [htake, d22]
  have := parseFields_encode t.fields hf []
  simp only [List.append_nil] at this
  rw [this]
  simp only
  have r2 : rd16 (t.encode.drop 2) = t.ty := by
    have : t.encode.drop 2 = be16 t.ty ++ (be32 t.id ++ (be32 t.err ++
      (be32 t.payloadSize ++ (be32 t.payloadSize ++ (be16 t.fields.length ++ fieldsEncode t.fields))))) := by
      simp [Transaction.encode]
    rw [this, rd16_be16_append]; omega
  have r4 : rd32 (t.encode.drop 4) = t.id := by
    have : t.encode.drop 4 = be32 t.id ++ (be32 t.err ++
      (be32 t.payloadSize ++ (be32 t.payloadSize ++ (be16 t.fields.length ++ fieldsEncode t.fields)))) := by
      simp [Transaction.encode, be16]
    rw [this, rd32_be32_append]; omega
  have r8 : rd32 (t.encode.drop 8) = t.err := by
    have : t.encode.drop 8 = be32 t.err ++
      (be32 t.payloadSize ++ (be32 t.payloadSize ++ (be16 t.fields.length ++ fieldsEncode t.fields))) := by
      simp [Transaction.encode, be16, be32]
    rw [this, rd32_be32_append]; omega
  rw [r2, r4, r8]
  have h0 : t.encode.headD 0 = t.flags := by simp [Transaction.encode]
  have h1 : (t.encode.drop 1).headD 0 = t.isReply := by simp [Transaction.encode]
  rw [h0, h1]

/-- `transactionScanner` on data that starts with an encoded transaction yields exactly it. -/
theorem tranSplit_encode (t : Transaction) (hp : t.payloadSize + 20 < 4294967296) (rest : Bytes) :
    tranSplit (t.encode ++ rest) = some (t.encode.length, t.encode) := by
  have hl := Transaction.encode_length t
  unfold tranSplit
  rw [Transaction.drop12, rd32_be32_append]
  have e1 : t.payloadSize % 4294967296 = t.payloadSize := by omega
  have e2 : (20 + t.payloadSize) % 4294967296 = 20 + t.payloadSize := by omega
  rw [e1, e2]
  have c1 : ¬ ((t.encode ++ rest).length < 16) := by simp; omega
  have c2 : ¬ (20 + t.payloadSize > (t.encode ++ rest).length) := by simp; omega
  simp only [c1, c2, if_false]
  rw [← hl]; simp

theorem parseStreamAux_succ (fuel : Nat) (d : Bytes) :
    parseStreamAux (fuel + 1) d =
      if d = [] then .ok [] else
      match tranSplit d with
      | none => .err
      | some (adv, tok) =>
        if adv = 0 then .err else
        match Transaction.decode tok with
        | .ok t =>
          match parseStreamAux fuel (d.drop adv) with
          | .ok ts => .ok (t :: ts)
          | r => r
        | .err => .err
        | .panic => .panic := by
  rfl

theorem parseStreamAux_encode (ts : List Transaction) (h : ∀ t ∈ ts, t.WFdec) (fuel : Nat)
    (hfuel : ts.length ≤ fuel) :
    parseStreamAux fuel (ts.map Transaction.encode).flatten = .ok ts := by
  induction ts generalizing fuel with
  | nil => cases fuel <;> simp [parseStreamAux]
  | cons t ts ih =>
    cases fuel with
    | zero => simp at hfuel
    | succ fuel =>
      have ht := h t (by simp)
      have hl := Transaction.encode_length t
      have hps : 2 ≤ t.payloadSize := by simp [Transaction.payloadSize]
      simp only [List.map_cons, List.flatten_cons]
      rw [parseStreamAux_succ]
      have hne : ¬ (t.encode ++ (ts.map Transaction.encode).flatten = []) := by
        have hpos : 0 < t.encode.length := by omega
        cases hte : t.encode with
        | nil => simp [hte] at hpos
        | cons a as => simp
      simp only [hne, if_false]
      rw [tranSplit_encode t ht.2.2.2.2.2]
      simp only
      have hz : ¬ (t.encode.length = 0) := by omega
      simp only [hz, if_false]
      rw [Transaction.decode_encode' t ht]
      simp only
      rw [List.drop_left, ih (fun u hu => h u (by simp [hu])) fuel (by simpa using hfuel)]

end Mobius
