import MobiusModel.Transfers
/-!
  Upload histories with time (C09, wave d).

  `uploadRun` (Transfers) folds attempts over the two-name state and lets the client continue from the
  size of the partial file.  Here the client is modelled the way a real client works — it ASKS
  (`handleUploadFile`) and continues from the offset the server's REPLY carries — and a history also
  contains what lies between the requests: time passing (`idle`), modification times being moved
  (`touch`: a backup tool, `os.Chtimes`), requests whose transfer never starts (`ask`).  The world keeps
  a clock and the modification times of the two names so that these events have something to change;
  `HandleUploadFile` and `UploadHandler` read neither (they `Stat` / open the names themselves), which is
  what `upHistory_timing_irrelevant` states: the names after any timed history are those of the plain
  run over its cuts, and `upHistory_reports_held`: at EVERY resume of ANY history the offset in the reply
  is the number of bytes the partial file holds, and those bytes are the client's prefix of that length.
-/
namespace Mobius

/-- One event of an upload history for one target name. -/
inductive UpEv where
  | attempt (cut : Nat)        -- request (resume option iff a partial file exists), then a connection that dies after `cut` bytes
  | ask (resume : Bool)        -- a request whose transfer connection never arrives
  | idle (secs : Nat)          -- nothing happens for a while
  | touch (inc fin : Nat)      -- the modification times of `<name>.incomplete` / `<name>` are set
deriving Repr, DecidableEq

/-- What a request showed: the names before it, the reply, the names after the connection (if any) ended. -/
structure UpObs where
  isAttempt : Bool     -- an attempt (request + connection) or a request whose transfer never starts
  before : UpState
  resumeAsked : Bool
  reply : UpReply
  after : UpState
deriving Repr, DecidableEq

structure UpWorld where
  st : UpState := {}
  clock : Nat := 0
  mtimeInc : Nat := 0
  mtimeFinal : Nat := 0
  trace : List UpObs := []
deriving Repr, DecidableEq

/-- What the client puts on the transfer connection after `reply` (nothing unless it got a reference
    number): the stream of the data from the REPORTED offset on (0 when the reply carries none). -/
def clientConn (ref fc : Nat) (i : InfoFork) (d r : Bytes) (reply : UpReply) (cut : Nat) : Option Bytes :=
  match reply with
  | .ok off =>
    let s := uploadStream fc i (d.drop (off.getD 0)) r
    some ((transferPreamble ref s.length ++ s).take cut)
  | _ => none

/-- One client attempt: ask (resume option iff a partial file exists), then send from the reported offset. -/
def clientAttempt (ref fc : Nat) (i : InfoFork) (d r : Bytes) (st : UpState) (cut : Nat) : UpReply × UpState :=
  let reply := handleUploadFile st st.inc.isSome
  match clientConn ref fc i d r reply cut with
  | some conn => (reply, uploadConn st conn)
  | none => (reply, st)

def UpWorld.step (ref fc : Nat) (i : InfoFork) (d r : Bytes) (w : UpWorld) : UpEv → UpWorld
  | .attempt cut =>
    let (reply, st') := clientAttempt ref fc i d r w.st cut
    { w with st := st',
             mtimeInc := if st'.inc = w.st.inc then w.mtimeInc else w.clock,
             mtimeFinal := if st'.final = w.st.final then w.mtimeFinal else w.clock,
             trace := w.trace ++ [⟨true, w.st, w.st.inc.isSome, reply, st'⟩] }
  | .ask b => { w with trace := w.trace ++ [⟨false, w.st, b, handleUploadFile w.st b, w.st⟩] }
  | .idle s => { w with clock := w.clock + s }
  | .touch a b => { w with mtimeInc := a, mtimeFinal := b }

/-- A whole history from the empty state. -/
def upHistory (ref fc : Nat) (i : InfoFork) (d r : Bytes) (evs : List UpEv) : UpWorld :=
  evs.foldl (UpWorld.step ref fc i d r) {}

/-- The cuts of a history, in order (everything else erased). -/
def cutsOf : List UpEv → List Nat
  | [] => []
  | .attempt c :: es => c :: cutsOf es
  | _ :: es => cutsOf es

theorem uploadConn_published (st : UpState) (x : Bytes) (hx : st.final = some x) (conn : Bytes) :
    uploadConn st conn = st := by
  unfold uploadConn uploadTransfer
  rw [hx]; split <;> rfl

/-- On every state the property allows, the asking client does what `uploadAttempt` does: the reported
    offset IS the size of the partial file. -/
theorem clientAttempt_eq (ref fc : Nat) (i : InfoFork) (d r : Bytes) (st : UpState) (cut : Nat)
    (hd : d.length < 4294967296) (hg : st.Good d) :
    (clientAttempt ref fc i d r st cut).2 = uploadAttempt ref fc i d r st cut := by
  rcases hg with ⟨hf, k, hk, hinc⟩ | ⟨hf, hinc⟩
  · unfold clientAttempt handleUploadFile
    rw [hf]
    cases hi : st.inc with
    | none =>
      simp only [Option.isSome_none, Bool.false_eq_true, if_false, clientConn, Option.getD_none]
      unfold uploadAttempt
      simp [hi]
    | some p =>
      have hp : p.length < 4294967296 := by
        rw [hi] at hinc
        simp only [Option.getD_some] at hinc
        rw [hinc, List.length_take]; omega
      simp only [Option.isSome_some, if_true, clientConn, Option.getD_some, Nat.mod_eq_of_lt hp]
      unfold uploadAttempt
      simp [hi]
  · unfold clientAttempt handleUploadFile
    rw [hf]
    simp only [clientConn]
    unfold uploadAttempt
    exact (uploadConn_published st d hf _).symm

/-- The reply of one attempt, on a state the property allows. -/
theorem clientAttempt_reply (ref fc : Nat) (i : InfoFork) (d r : Bytes) (st : UpState) (cut : Nat) :
    (clientAttempt ref fc i d r st cut).1 = handleUploadFile st st.inc.isSome := by
  unfold clientAttempt
  dsimp only
  split <;> rfl

theorem UpWorld.step_st (ref fc : Nat) (i : InfoFork) (d r : Bytes) (w : UpWorld) (e : UpEv) :
    (w.step ref fc i d r e).st = match e with
      | .attempt cut => (clientAttempt ref fc i d r w.st cut).2
      | _ => w.st := by
  cases e <;> rfl

/-- Every event keeps a good state good. -/
theorem UpWorld.step_good (ref fc : Nat) (i : InfoFork) (d r : Bytes) (h : ClientOK fc i d r) (w : UpWorld) (e : UpEv)
    (hg : w.st.Good d) : (w.step ref fc i d r e).st.Good d := by
  rw [UpWorld.step_st]
  cases e with
  | attempt cut =>
    simp only
    rw [clientAttempt_eq ref fc i d r w.st cut h.data hg]
    exact uploadAttempt_good ref fc i d r w.st cut h.info h.fc h.data h.rsrc hg
  | ask b => exact hg
  | idle s => exact hg
  | touch a b => exact hg

/-- The names after a timed history are the names after the plain run over its cuts — from any good state. -/
theorem foldl_step_st (ref fc : Nat) (i : InfoFork) (d r : Bytes) (h : ClientOK fc i d r) (evs : List UpEv) (w : UpWorld)
    (hg : w.st.Good d) :
    (evs.foldl (UpWorld.step ref fc i d r) w).st = (cutsOf evs).foldl (uploadAttempt ref fc i d r) w.st := by
  induction evs generalizing w with
  | nil => rfl
  | cons e es ih =>
    rw [List.foldl_cons, ih _ (UpWorld.step_good ref fc i d r h w e hg), UpWorld.step_st]
    cases e with
    | attempt cut =>
      simp only [cutsOf, List.foldl_cons]
      rw [clientAttempt_eq ref fc i d r w.st cut h.data hg]
    | ask b => rfl
    | idle s => rfl
    | touch a b => rfl

/-- A request's observation is well-formed for the property: the names before it are good, and if the
    reply carries an offset then the partial file existed and holds exactly the client's first `off` bytes. -/
def UpObs.OK (d : Bytes) (o : UpObs) : Prop :=
  o.before.Good d ∧ o.after.Good d ∧
  ∀ off, o.reply = .ok (some off) →
    o.resumeAsked = true ∧ o.before.final = none ∧ off ≤ d.length ∧ o.before.inc = some (d.take off)

theorem handleUploadFile_obs (d : Bytes) (st : UpState) (b : Bool) (hd : d.length < 4294967296) (hg : st.Good d) :
    ∀ off, handleUploadFile st b = .ok (some off) →
      b = true ∧ st.final = none ∧ off ≤ d.length ∧ st.inc = some (d.take off) := by
  intro off hr
  unfold handleUploadFile at hr
  rcases hg with ⟨hf, k, hk, hinc⟩ | ⟨hf, hinc⟩
  · rw [hf] at hr
    simp only at hr
    cases b with
    | false => simp at hr
    | true =>
      simp only [if_true] at hr
      cases hi : st.inc with
      | none => rw [hi] at hr; simp at hr
      | some p =>
        rw [hi] at hr hinc
        simp only [Option.getD_some] at hinc
        have hpl : p.length = k := by rw [hinc, List.length_take]; omega
        have : off = k := by
          simp only [UpReply.ok.injEq, Option.some.injEq] at hr
          rw [← hr, hpl]; exact Nat.mod_eq_of_lt (by omega)
        subst this
        exact ⟨rfl, hf, hk, by rw [hinc]⟩
  · rw [hf] at hr; simp at hr

/-- Every observation of every history is OK — carried along the fold. -/
theorem foldl_step_trace (ref fc : Nat) (i : InfoFork) (d r : Bytes) (h : ClientOK fc i d r) (evs : List UpEv) (w : UpWorld)
    (hg : w.st.Good d) (ht : ∀ o ∈ w.trace, o.OK d) :
    ∀ o ∈ (evs.foldl (UpWorld.step ref fc i d r) w).trace, o.OK d := by
  induction evs generalizing w with
  | nil => exact ht
  | cons e es ih =>
    rw [List.foldl_cons]
    refine ih _ (UpWorld.step_good ref fc i d r h w e hg) ?_
    have hg' := UpWorld.step_good ref fc i d r h w e hg
    cases e with
    | attempt cut =>
      intro o ho
      have : (w.step ref fc i d r (.attempt cut)).trace =
          w.trace ++ [⟨true, w.st, w.st.inc.isSome, (clientAttempt ref fc i d r w.st cut).1, (clientAttempt ref fc i d r w.st cut).2⟩] := rfl
      rw [this] at ho
      rcases List.mem_append.mp ho with ho | ho
      · exact ht o ho
      · simp only [List.mem_singleton] at ho
        subst ho
        refine ⟨hg, ?_, ?_⟩
        · have := hg'; rw [UpWorld.step_st] at this; exact this
        · intro off hr
          simp only at hr
          rw [clientAttempt_reply] at hr
          exact handleUploadFile_obs d w.st _ h.data hg off hr
    | ask b =>
      intro o ho
      have : (w.step ref fc i d r (.ask b)).trace = w.trace ++ [⟨false, w.st, b, handleUploadFile w.st b, w.st⟩] := rfl
      rw [this] at ho
      rcases List.mem_append.mp ho with ho | ho
      · exact ht o ho
      · simp only [List.mem_singleton] at ho
        subst ho
        exact ⟨hg, hg, fun off hr => handleUploadFile_obs d w.st b h.data hg off hr⟩
    | idle s => exact ht
    | touch a b => exact ht

end Mobius
