import MobiusModel.Wire
import MobiusModel.WireLemmas
/-!
  GrownState (C03): replies built from shared state that valid requests have grown past what one
  Hotline field can announce.

  A field's size prefix is 16 bits (`NewField` stores `uint16(len data)`), but `Field`'s data is
  written whole, and `Transaction.Size` counts the bytes that are written (`len(field.Data) + 4`),
  not the announced ones.  So a reply carrying the message board after a few 30 KB posts (one field
  of more than 65535, later more than 131071 bytes) still has a header that frames exactly the bytes
  on the socket.  A client frames the stream by that header (`reframe` below — the server's own
  `transactionScanner` does the same): it may not be able to delimit the oversized field, but it
  finds the next transaction where it starts, and so every later reply.

  * `board` — the message board under posts (`PostMessageBoard` prepends), its length grows without bound;
  * `replyHeader` — what the harness compares with the bytes a real client received;
  * `reframe_stream` — the header-trusting reader recovers every transaction of a stream, for all field sizes.
-/
set_option linter.unusedVariables false
set_option linter.unusedSimpArgs false
namespace Mobius.GrownState
open Mobius

/-- The message board after posts (newest first). -/
def board (init : Bytes) (posts : List Bytes) : Bytes := posts.foldl (fun b p => p ++ b) init

theorem board_length (init : Bytes) (posts : List Bytes) :
    (board init posts).length = init.length + (posts.map List.length).sum := by
  unfold board
  induction posts generalizing init with
  | nil => simp
  | cons p rest ih => simp only [List.foldl_cons, List.map_cons, List.sum_cons]; rw [ih]; simp; omega

/-- The get-msgs reply for a board: one data field holding all of it. -/
def boardReply (id : Nat) (b : Bytes) : Transaction := ⟨0, 1, 0, id, 0, [⟨101, b⟩]⟩

/-- The 16-bit size prefix a field of `n` data bytes is written with. -/
def fieldPrefix (n : Nat) : Nat := n % 65536

/-- Header total size and field prefixes of a transaction whose fields have the given data lengths. -/
def replyHeader (lens : List Nat) : Nat × List Nat := (2 + (lens.map fun l => 4 + l).sum, lens.map fieldPrefix)

theorem replyHeader_total (t : Transaction) :
    (replyHeader (t.fields.map fun f => f.data.length)).1 = t.payloadSize := by
  simp [replyHeader, Transaction.payloadSize, List.map_map, Function.comp_def]

/-- The bytes written for a transaction are 20 + 2 + Σ (4 + |data|) — whatever the field prefixes announce. -/
theorem encode_length_any_field (t : Transaction) :
    t.encode.length = 20 + 2 + (t.fields.map fun f => 4 + f.data.length).sum := by
  rw [Transaction.encode_length]; simp [Transaction.payloadSize]; omega

/-- The header-trusting reader: cut the stream where the headers say (fuel = number of transactions wanted). -/
def reframe : Nat → Bytes → List Bytes
  | 0, _ => []
  | fuel + 1, d =>
    match tranSplit d with
    | none => []
    | some (adv, tok) => if adv = 0 then [] else tok :: reframe fuel (d.drop adv)

theorem reframe_zero (d : Bytes) : reframe 0 d = [] := rfl
theorem reframe_succ (fuel : Nat) (d : Bytes) :
    reframe (fuel + 1) d =
      match tranSplit d with
      | none => []
      | some (adv, tok) => if adv = 0 then [] else tok :: reframe fuel (d.drop adv) := rfl

def streamOf (ts : List Transaction) : Bytes := (ts.map Transaction.encode).flatten

/-- **A header-trusting reader resynchronises at every transaction, for all field sizes.**  For every list
    of transactions (fields of any length — no `Field.WF` hypothesis) written one after the other and
    followed by anything, the reader recovers exactly the encodings, in order. -/
theorem reframe_stream (ts : List Transaction) (h : ∀ t ∈ ts, t.payloadSize + 20 < 4294967296) (rest : Bytes) :
    reframe ts.length (streamOf ts ++ rest) = ts.map Transaction.encode := by
  induction ts with
  | nil => simp [reframe_zero]
  | cons t tl ih =>
    have ht := h t (by simp)
    have hl := Transaction.encode_length t
    simp only [streamOf, List.map_cons, List.flatten_cons, List.length_cons, List.append_assoc]
    rw [reframe_succ, tranSplit_encode t ht]
    have hz : ¬ (t.encode.length = 0) := by omega
    simp only [hz, if_false, List.drop_left']
    have := ih (fun x hx => h x (by simp [hx]))
    simp only [streamOf] at this
    rw [this]

/-- In particular the reply that follows an oversized one is found: after the board reply (any board,
    also one longer than 65535 or 131071 bytes) the next transaction is read as sent. -/
theorem next_reply_found_after_board (id : Nat) (b : Bytes) (next : Transaction) (rest : Bytes)
    (hb : b.length + 26 < 4294967296) (hn : next.payloadSize + 20 < 4294967296) :
    reframe 2 ((boardReply id b).encode ++ next.encode ++ rest) = [(boardReply id b).encode, next.encode] := by
  have := reframe_stream [boardReply id b, next] (by
    intro t ht
    simp at ht
    rcases ht with rfl | rfl
    · simp [boardReply, Transaction.payloadSize]; omega
    · exact hn) rest
  simpa [streamOf] using this

/-- The board reply after posts: the header announces 26 + all bytes ever posted, the field prefix wraps. -/
theorem boardReply_header (id : Nat) (init : Bytes) (posts : List Bytes) :
    (boardReply id (board init posts)).encode.length = 26 + init.length + (posts.map List.length).sum ∧
    replyHeader [(board init posts).length] =
      (6 + init.length + (posts.map List.length).sum, [(init.length + (posts.map List.length).sum) % 65536]) := by
  constructor
  · rw [encode_length_any_field]; simp [boardReply, board_length]; omega
  · simp [replyHeader, fieldPrefix, board_length]; omega

end Mobius.GrownState
