import MobiusModel.Access
import MobiusModel.Spec.Governing
/-!
  Authz — decision model of the privilege logic of every registered handler in
  internal/mobius/transaction_handlers.go (as it is after the `fix:` commits): given the
  requester's bitmap and the request class (transaction type + target-kind facts) it mirrors the
  guard order of the Go handler and yields

    * `verdict`  : denied for lack of a privilege (with the exact error text) | refused by another
                   rule | proceeded | silent (no reply),
    * `effects`  : the privileged effects performed, in order,
    * `out`      : what is sent (error reply / reply to the requester, traffic to other users).

  Two handlers are modelled in more detail for C06: account creation (the 64-iteration subset loop
  and `copy(newAccess[:], data)`) and disconnect (protected target, ban options).

  The bits tested are named after the Go constants (`A.deleteFile` = `hotline.AccessDeleteFile` …);
  Props/C05 proves from the regenerated constant table that they carry the protocol's numbers and
  from the regenerated guard skeleton that the Go handlers test *these* constants in *this* order.
-/
namespace Mobius.Authz
open Mobius.Spec AccessBitmap

/-! ### error texts of privilege denials (exactly the strings in the Go source) -/

inductive DenyMsg
  | chat | privMsg | setFolderComment | setFileComment | renameFolder | renameFile
  | deleteFolder | deleteFile | moveFolder | moveFile | createFolder
  | modifyAccounts | viewAccounts | deleteAccounts | createAccounts
  | broadcast | clientInfo | postNews | disconnect | readNews
  | createNewsCat | createNewsFldr | deleteNewsCat | deleteNewsFldr | deleteNewsArt | postNewsArt
  | downloadFiles | downloadFolders | uploadFolders | uploadFiles
  | uploadFolderAnywhere | uploadFileAnywhere     -- text contains the item name (`%s`)
  | viewDropBoxes | privateChat | makeAliases
deriving DecidableEq, Repr

def DenyMsg.text : DenyMsg → String
  | .chat => "You are not allowed to participate in chat."
  | .privMsg => "You are not allowed to send private messages."
  | .setFolderComment => "You are not allowed to set comments for folders."
  | .setFileComment => "You are not allowed to set comments for files."
  | .renameFolder => "You are not allowed to rename folders."
  | .renameFile => "You are not allowed to rename files."
  | .deleteFolder => "You are not allowed to delete folders."
  | .deleteFile => "You are not allowed to delete files."
  | .moveFolder => "You are not allowed to move folders."
  | .moveFile => "You are not allowed to move files."
  | .createFolder => "You are not allowed to create folders."
  | .modifyAccounts => "You are not allowed to modify accounts."
  | .viewAccounts => "You are not allowed to view accounts."
  | .deleteAccounts => "You are not allowed to delete accounts."
  | .createAccounts => "You are not allowed to create new accounts."
  | .broadcast => "You are not allowed to send broadcast messages."
  | .clientInfo => "You are not allowed to get client info."
  | .postNews => "You are not allowed to post news."
  | .disconnect => "You are not allowed to disconnect users."
  | .readNews => "You are not allowed to read news."
  | .createNewsCat => "You are not allowed to create news categories."
  | .createNewsFldr => "You are not allowed to create news folders."
  | .deleteNewsCat => "You are not allowed to delete news categories."
  | .deleteNewsFldr => "You are not allowed to delete news folders."
  | .deleteNewsArt => "You are not allowed to delete news articles."
  | .postNewsArt => "You are not allowed to post news articles."
  | .downloadFiles => "You are not allowed to download files."
  | .downloadFolders => "You are not allowed to download folders."
  | .uploadFolders => "You are not allowed to upload folders."
  | .uploadFiles => "You are not allowed to upload files."
  | .uploadFolderAnywhere => "Cannot accept upload of the folder \"%s\" because you are only allowed to upload to the \"Uploads\" folder."
  | .uploadFileAnywhere => "Cannot accept upload of the file \"%s\" because you are only allowed to upload to the \"Uploads\" folder."
  | .viewDropBoxes => "You are not allowed to view drop boxes."
  | .privateChat => "You are not allowed to request private chat."
  | .makeAliases => "You are not allowed to make aliases."

/-- the privilege whose absence produces this denial -/
def DenyMsg.priv : DenyMsg → Nat
  | .chat => Priv.sendChat | .privMsg => Priv.sendPrivMsg
  | .setFolderComment => Priv.setFolderComment | .setFileComment => Priv.setFileComment
  | .renameFolder => Priv.renameFolder | .renameFile => Priv.renameFile
  | .deleteFolder => Priv.deleteFolder | .deleteFile => Priv.deleteFile
  | .moveFolder => Priv.moveFolder | .moveFile => Priv.moveFile | .createFolder => Priv.createFolder
  | .modifyAccounts => Priv.modifyUser | .viewAccounts => Priv.openUser
  | .deleteAccounts => Priv.deleteUser | .createAccounts => Priv.createUser
  | .broadcast => Priv.broadcast | .clientInfo => Priv.getClientInfo | .postNews => Priv.newsPostArt
  | .disconnect => Priv.disconUser | .readNews => Priv.newsReadArt
  | .createNewsCat => Priv.newsCreateCat | .createNewsFldr => Priv.newsCreateFldr
  | .deleteNewsCat => Priv.newsDeleteCat | .deleteNewsFldr => Priv.newsDeleteFldr
  | .deleteNewsArt => Priv.newsDeleteArt | .postNewsArt => Priv.newsPostArt
  | .downloadFiles => Priv.downloadFile | .downloadFolders => Priv.downloadFolder
  | .uploadFolders => Priv.uploadFolder | .uploadFiles => Priv.uploadFile
  | .uploadFolderAnywhere => Priv.uploadAnywhere | .uploadFileAnywhere => Priv.uploadAnywhere
  | .viewDropBoxes => Priv.viewDropBoxes | .privateChat => Priv.openChat | .makeAliases => Priv.makeAlias

/-- every denial text of the model -/
def DenyMsg.all : List DenyMsg := [
  .chat, .privMsg, .setFolderComment, .setFileComment, .renameFolder, .renameFile, .deleteFolder, .deleteFile,
  .moveFolder, .moveFile, .createFolder, .modifyAccounts, .viewAccounts, .deleteAccounts, .createAccounts,
  .broadcast, .clientInfo, .postNews, .disconnect, .readNews, .createNewsCat, .createNewsFldr, .deleteNewsCat,
  .deleteNewsFldr, .deleteNewsArt, .postNewsArt, .downloadFiles, .downloadFolders, .uploadFolders, .uploadFiles,
  .uploadFolderAnywhere, .uploadFileAnywhere, .viewDropBoxes, .privateChat, .makeAliases]

/-- how the message appears in the Go source (`Generated.denyMessages`): the literal, or the `fmt.Sprintf` expression -/
def DenyMsg.source : DenyMsg → String
  | .uploadFolderAnywhere => "expr:fmt.Sprintf(\"Cannot accept upload of the folder \\\"%v\\\" because you are only allowed to upload to the \\\"Uploads\\\" folder.\", string(t.GetField(FieldFileName).Data))"
  | .uploadFileAnywhere => "expr:fmt.Sprintf(\"Cannot accept upload of the file \\\"%v\\\" because you are only allowed to upload to the \\\"Uploads\\\" folder.\", string(fileName))"
  | m => m.text

/-- refusals by a rule other than "the requester lacks the governing privilege" -/
inductive Refusal
  | amplification    -- "Cannot create account with more access than yourself."
  | protectedTarget  -- "<login> is not allowed to be disconnected."
  | nothingNamed     -- empty name and empty path
  | notFound         -- target / account / user does not exist
  | alreadyExists
  | ioError
deriving DecidableEq, Repr

inductive Verdict
  | denied (m : DenyMsg)
  | refused (why : Refusal)
  | proceeded
  | silent
deriving DecidableEq, Repr

/-- what a handler run emits -/
inductive Out
  | errReply (text : String)   -- one error reply (error code 1, field 100 = text) to the requester
  | reply                      -- a normal reply to the requester
  | toOthers                   -- transactions addressed to other clients / broadcast through the outbox
deriving DecidableEq, Repr

structure Result where
  verdict : Verdict
  effects : List Effect
  out : List Out
deriving DecidableEq, Repr

def deny (m : DenyMsg) (done : List Effect := []) : Result := ⟨.denied m, done, [.errReply m.text]⟩
def refuse (why : Refusal) (text : String) (done : List Effect := []) : Result := ⟨.refused why, done, [.errReply text]⟩
def silent (done : List Effect := []) : Result := ⟨.silent, done, []⟩
def proceed (effects : List Effect) (out : List Out := [.reply]) : Result := ⟨.proceeded, effects, out⟩

/-- `if !cc.Authorize(p) { return cc.NewErrReply(t, msg) }` followed by `k` -/
def guard (acc : AccessBitmap) (p : Nat) (m : DenyMsg) (k : Result) (done : List Effect := []) : Result :=
  if acc.isSet p then k else deny m done

/-! ### account creation (C06) -/

/-- `for i := 0; i < 64; i++ { if newAccess.IsSet(i) { if !cc.Authorize(i) { return error } } }`:
    `subsetLoopFrom creator newAccess k i` runs the `k` iterations `i, i+1, …, i+k-1`;
    `true` = the loop ran to completion without returning the error. -/
def subsetLoopFrom (creator newAccess : AccessBitmap) : Nat → Nat → Bool
  | 0, _ => true
  | k + 1, i =>
    if newAccess.isSet i then
      if creator.isSet i then subsetLoopFrom creator newAccess k (i + 1) else false
    else subsetLoopFrom creator newAccess k (i + 1)

/-- the Go loop: 64 iterations from `i = 0` -/
def subsetLoop (creator newAccess : AccessBitmap) : Bool := subsetLoopFrom creator newAccess 64 0

inductive CreateOutcome
  | denied                          -- requester lacks create-user
  | exists_                         -- login already taken
  | tooMuch                         -- "Cannot create account with more access than yourself."
  | failed                          -- AccountManager.Create returned an error
  | created (access : AccessBitmap) -- account stored (memory and disk) with this bitmap
deriving DecidableEq, Repr

/-- `HandleNewUser`: guard, existence check, `copy`, subset loop, create. -/
def newUser (creator : AccessBitmap) (loginExists : Bool) (accessField : Bytes) (createFails : Bool) : CreateOutcome :=
  if !creator.isSet Priv.createUser then .denied
  else if loginExists then .exists_
  else
    let newAccess := ofBytes accessField           -- var newAccess AccessBitmap; copy(newAccess[:], field.Data)
    if !subsetLoop creator newAccess then .tooMuch
    else if createFails then .failed
    else .created newAccess

/-- create branch of `HandleUpdateUser` (the account named by the sub-request does not exist) -/
def updateUserCreate (creator : AccessBitmap) (accessField : Bytes) (createFails : Bool) : CreateOutcome :=
  if !creator.isSet Priv.createUser then .denied
  else
    let newAccess := ofBytes accessField
    if !subsetLoop creator newAccess then .tooMuch
    else if createFails then .failed
    else .created newAccess

theorem subsetLoopFrom_iff (c n : AccessBitmap) (k i : Nat) :
    subsetLoopFrom c n k i = true ↔ ∀ j, i ≤ j → j < i + k → n.isSet j = true → c.isSet j = true := by
  induction k generalizing i with
  | zero =>
    simp only [subsetLoopFrom, true_iff]
    intro j h1 h2; omega
  | succ k ih =>
    simp only [subsetLoopFrom]
    by_cases hn : n.isSet i = true
    · by_cases hc : c.isSet i = true
      · simp only [hn, hc, if_true]
        rw [ih]
        constructor
        · intro h j hij hjb hnj
          by_cases e : j = i
          · subst e; exact hc
          · exact h j (by omega) (by omega) hnj
        · intro h j hij hjb hnj
          exact h j (by omega) (by omega) hnj
      · simp only [hn, hc, if_true]
        simp only [Bool.false_eq_true, if_false]
        constructor
        · intro h; cases h
        · intro h; exact absurd (h i (Nat.le_refl _) (by omega) hn) hc
    · have hn' : n.isSet i = false := by simpa using hn
      simp only [hn', Bool.false_eq_true, if_false]
      rw [ih]
      constructor
      · intro h j hij hjb hnj
        by_cases e : j = i
        · subst e; exact absurd hnj hn
        · exact h j (by omega) (by omega) hnj
      · intro h j hij hjb hnj
        exact h j (by omega) (by omega) hnj

theorem subsetLoop_iff (c n : AccessBitmap) : subsetLoop c n = true ↔ AccessBitmap.Subset n c := by
  unfold subsetLoop AccessBitmap.Subset
  rw [subsetLoopFrom_iff]
  constructor
  · intro h i hi; exact h i (Nat.zero_le _) (by omega)
  · intro h j _ hj; exact h j (by omega)

/-! ### disconnect (C06) -/

inductive BanKind | temporary | permanent
deriving DecidableEq, Repr

structure DisconnectResult where
  reply : Out
  bans : List (String × BanKind)      -- ban store afterwards
  scheduled : Bool                     -- the delayed `clientConn.Disconnect()` goroutine was started
  notice : Bool                        -- a "you are banned" server message is addressed to the target
deriving DecidableEq, Repr

/-- `HandleDisconnectUser` once the requester's own guard has passed: protected-target check, ban option, delayed disconnect.
    `ip` = the target's address, `bans` = the ban store before. -/
def disconnectTarget (target : AccessBitmap) (login ip : String) (opt : BanOpt) (bans : List (String × BanKind)) : DisconnectResult :=
  if target.isSet Priv.cannotBeDiscon then
    ⟨.errReply (login ++ " is not allowed to be disconnected."), bans, false, false⟩
  else
    match opt with
    | .absent => ⟨.reply, bans, true, false⟩
    | .temporary => ⟨.reply, bans ++ [(ip, .temporary)], true, true⟩
    | .permanent => ⟨.reply, bans ++ [(ip, .permanent)], true, true⟩
    | .other => ⟨.reply, bans, true, false⟩

/-! ### the 43 handlers -/

/-- file / folder branch of delete, move: `switch mode { case IsDir: guard…; case IsRegular: guard… }` then the effect -/
def byKind (acc : AccessBitmap) (t : FileTarget) (missingIsError : Bool)
    (pFolder : Nat) (mFolder : DenyMsg) (eFolder : Effect) (pFile : Nat) (mFile : DenyMsg) (eFile : Effect) : Result :=
  match t with
  | .badPath => silent
  | .root => refuse .nothingNamed "no file or folder was named"
  | .missing => if missingIsError then refuse .notFound "does not exist or cannot be found" else silent
  | .folder => guard acc pFolder mFolder (proceed [eFolder])
  | .file => guard acc pFile mFile (proceed [eFile])

/-- `HandleUpdateUser`: the sub-requests are processed in order; the first refusal ends the request
    (what was done before stays done). -/
def runUpdate (acc : AccessBitmap) : List UserItem → List Effect → Result
  | [], done => ⟨.proceeded, done, [.reply]⟩
  | .delete fails :: rest, done =>
    if acc.isSet Priv.deleteUser then
      (if fails then silent done else runUpdate acc rest (done ++ [.deleteUser]))
    else deny .deleteAccounts done
  | .modify fails :: rest, done =>
    if acc.isSet Priv.modifyUser then
      (if fails then silent done else runUpdate acc rest (done ++ [.modifyUser]))
    else deny .modifyAccounts done
  | .create access fails :: rest, done =>
    match updateUserCreate acc access fails with
    | .denied => deny .createAccounts done
    | .exists_ => refuse .alreadyExists "Cannot create account because there is already an account with that login." done
    | .tooMuch => refuse .amplification "Cannot create account with more access than yourself." done
    | .failed => refuse .alreadyExists "Cannot create account because there is already an account with that login." done
    | .created _ => runUpdate acc rest (done ++ [.createUser])

/-- upload destination rule shared by `HandleUploadFile` / `HandleUploadFolder` -/
def uploadRule (acc : AccessBitmap) (p : Place) (pOwn : Nat) (mOwn mAnywhere : DenyMsg) (eOwn : Effect)
    (exists_ : Bool) : Result :=
  guard acc pOwn mOwn <|
    match p with
    | .badPath => silent
    | .plain =>
      -- `if !cc.Authorize(AccessUploadAnywhere) { if !fp.IsUploadDir() && !fp.IsDropbox() { return error } }`
      if acc.isSet Priv.uploadAnywhere then
        (if exists_ then refuse .alreadyExists "there is already a file named" else proceed [eOwn, .uploadAnywhere])
      else deny mAnywhere
    | _ => if exists_ then refuse .alreadyExists "there is already a file named" else proceed [eOwn]

/-- The privilege decision of the handler registered for the request's transaction type. -/
def run (acc : AccessBitmap) : Req → Result
  -- HandleTranAgreed: `if name field present { if Authorize(AnyName) { adopt } else { account name } }`; no refusal
  | .agreed nameField =>
    proceed (if nameField && acc.isSet Priv.anyName then [.useAnyName] else []) [.toOthers, .reply]
  -- HandleSetClientUserInfo: `if cc.Authorize(AccessAnyName) { cc.UserName = … }`; notifies everybody; no reply
  | .setClientUserInfo =>
    proceed (if acc.isSet Priv.anyName then [.useAnyName] else []) [.toOthers]
  | .chatSend => guard acc Priv.sendChat .chat (proceed [.sendChat] [.toOthers])
  | .sendInstantMsg targetExists =>
    guard acc Priv.sendPrivMsg .privMsg (if targetExists then proceed [.sendPrivMsg] [.toOthers, .reply] else silent)
  | .inviteNewChat => guard acc Priv.openChat .privateChat (proceed [.openChat] [.toOthers, .reply])
  | .inviteToChat => guard acc Priv.openChat .privateChat (proceed [.openChat] [.toOthers, .reply])
  | .userBroadcast => guard acc Priv.broadcast .broadcast (proceed [.broadcast] [.toOthers, .reply])
  | .getClientInfoText targetExists =>
    guard acc Priv.getClientInfo .clientInfo (if targetExists then proceed [.getClientInfo] else refuse .notFound "User not found.")
  | .disconnectUser targetProtected opt =>
    guard acc Priv.disconUser .disconnect <|
      if targetProtected then refuse .protectedTarget " is not allowed to be disconnected."
      else proceed [.disconnectUser] (match opt with | .temporary | .permanent => [.toOthers, .reply] | _ => [.reply])
  -- files
  | .getFileInfo t =>
    (match t with
     | .badPath => silent | .root => refuse .nothingNamed "Cannot get info because no file or folder was named."
     | _ => proceed [])   -- a missing target is answered with default information (NewFileWrapper does not fail)
  | .setFileInfo t comment rename =>
    (match t with
     | .badPath => silent
     | .root => refuse .nothingNamed "Cannot set info because no file or folder was named."
     | .missing => silent
     | .folder =>
       if comment then
         guard acc Priv.setFolderComment .setFolderComment
           (if rename then guard acc Priv.renameFolder .renameFolder (proceed [.commentFolder, .renameFolder]) [.commentFolder]
            else proceed [.commentFolder])
       else if rename then guard acc Priv.renameFolder .renameFolder (proceed [.renameFolder])
       else proceed []
     | .file =>
       if comment then
         guard acc Priv.setFileComment .setFileComment
           (if rename then guard acc Priv.renameFile .renameFile (proceed [.commentFile, .renameFile]) [.commentFile]
            else proceed [.commentFile])
       else if rename then guard acc Priv.renameFile .renameFile (proceed [.renameFile])
       else proceed [])
  | .deleteFile t =>
    byKind acc t true Priv.deleteFolder .deleteFolder .deleteFolder Priv.deleteFile .deleteFile .deleteFile
  | .moveFile t =>
    byKind acc t true Priv.moveFolder .moveFolder .moveFolder Priv.moveFile .moveFile .moveFile
  | .newFolder exists_ =>
    guard acc Priv.createFolder .createFolder
      (if exists_ then refuse .alreadyExists "there is already a file or folder with that Name." else proceed [.createFolder])
  | .makeFileAlias => guard acc Priv.makeAlias .makeAliases (proceed [.makeAlias])
  | .downloadFile t =>
    guard acc Priv.downloadFile .downloadFiles
      (match t with
       | .badPath => silent | .root => refuse .nothingNamed "Cannot download because no file was named."
       | _ => proceed [.downloadFile])   -- also for a missing file: a (zero-size) transfer is registered
  | .downloadFldr t =>
    guard acc Priv.downloadFolder .downloadFolders
      (match t with | .badPath => silent | .missing => silent | _ => proceed [.downloadFolder])
  | .uploadFile p exists_ => uploadRule acc p Priv.uploadFile .uploadFiles .uploadFileAnywhere .uploadFile exists_
  | .uploadFldr p => uploadRule acc p Priv.uploadFolder .uploadFolders .uploadFolderAnywhere .uploadFolder false
  | .getFileNameList p =>
    (match p with
     | .badPath => silent
     -- `if fp.IsDropbox() && !cc.Authorize(AccessViewDropBoxes) { return error }`
     | .dropBox => guard acc Priv.viewDropBoxes .viewDropBoxes (proceed [.viewDropBox])
     | _ => proceed [])
  | .downloadBanner => proceed []
  -- accounts
  | .newUser exists_ access fails =>
    (match newUser acc exists_ access fails with
     | .denied => deny .createAccounts
     | .exists_ => refuse .alreadyExists "because there is already an account with that login."
     | .tooMuch => refuse .amplification "Cannot create account with more access than yourself."
     | .failed => refuse .alreadyExists "Cannot create account because there is already an account with that login."
     | .created _ => proceed [.createUser])
  | .deleteUser fails => guard acc Priv.deleteUser .deleteAccounts (if fails then silent else proceed [.deleteUser] [.toOthers, .reply])
  | .setUser exists_ =>
    guard acc Priv.modifyUser .modifyAccounts (if exists_ then proceed [.modifyUser] [.toOthers, .reply] else refuse .notFound "Account not found.")
  | .getUser exists_ =>
    guard acc Priv.openUser .viewAccounts (if exists_ then proceed [.openUser] else refuse .notFound "Account does not exist.")
  | .listUsers => guard acc Priv.openUser .viewAccounts (proceed [.openUser])
  | .updateUser items => runUpdate acc items []
  -- news
  | .oldPostNews => guard acc Priv.newsPostArt .postNews (proceed [.postNews] [.toOthers, .reply])
  | .postNewsArt => guard acc Priv.newsPostArt .postNewsArt (proceed [.postNews])
  | .getMsgs => guard acc Priv.newsReadArt .readNews (proceed [.readNews])
  | .getNewsCatNameList => guard acc Priv.newsReadArt .readNews (proceed [.readNews])
  | .getNewsArtNameList => guard acc Priv.newsReadArt .readNews (proceed [.readNews])
  | .getNewsArtData => guard acc Priv.newsReadArt .readNews (proceed [.readNews])
  | .delNewsArt => guard acc Priv.newsDeleteArt .deleteNewsArt (proceed [.deleteArticle])
  | .newNewsCat => guard acc Priv.newsCreateCat .createNewsCat (proceed [.createCategory])
  | .newNewsFldr => guard acc Priv.newsCreateFldr .createNewsFldr (proceed [.createBundle])
  | .delNewsItem t =>
    (match t with
     | .badPath => silent
     -- `if item.Type == {0,3} { guard DeleteCat } else { guard DeleteFldr }`
     | .category => guard acc Priv.newsDeleteCat .deleteNewsCat (proceed [.deleteCategory])
     | .bundle => guard acc Priv.newsDeleteFldr .deleteNewsFldr (proceed [.deleteBundle])
     | .missing => guard acc Priv.newsDeleteFldr .deleteNewsFldr (proceed []))
  -- no guard at all
  | .joinChat => proceed [] [.toOthers, .reply]
  | .leaveChat => proceed [] [.toOthers]
  | .rejectChatInvite => proceed [] [.toOthers]
  | .setChatSubject => proceed [] [.toOthers]
  | .keepAlive => proceed []
  | .getUserNameList => proceed []

def Result.deniedMsg (r : Result) : Option DenyMsg :=
  match r.verdict with | .denied m => some m | _ => none

/-! ### lemmas used by Props/C05 and Props/C06 -/


theorem newUser_created (acc : AccessBitmap) (ex : Bool) (a : Bytes) (f : Bool) (x : AccessBitmap)
    (h : newUser acc ex a f = .created x) :
    acc.isSet Priv.createUser = true ∧ ex = false ∧ x = ofBytes a ∧ subsetLoop acc x = true ∧ f = false := by
  unfold newUser at h
  cases h1 : acc.isSet Priv.createUser <;> cases ex <;> cases hs : subsetLoop acc (ofBytes a) <;> cases f <;> simp_all

theorem updateUserCreate_created (acc : AccessBitmap) (a : Bytes) (f : Bool) (x : AccessBitmap)
    (h : updateUserCreate acc a f = .created x) :
    acc.isSet Priv.createUser = true ∧ x = ofBytes a ∧ subsetLoop acc x = true ∧ f = false := by
  unfold updateUserCreate at h
  cases h1 : acc.isSet Priv.createUser <;> cases hs : subsetLoop acc (ofBytes a) <;> cases f <;> simp_all

theorem newUser_denied (acc : AccessBitmap) (ex : Bool) (a : Bytes) (f : Bool) :
    newUser acc ex a f = .denied ↔ acc.isSet Priv.createUser = false := by
  unfold newUser
  cases h1 : acc.isSet Priv.createUser <;> cases ex <;> cases hs : subsetLoop acc (ofBytes a) <;> cases f <;> simp_all

theorem updateUserCreate_denied (acc : AccessBitmap) (a : Bytes) (f : Bool) :
    updateUserCreate acc a f = .denied ↔ acc.isSet Priv.createUser = false := by
  unfold updateUserCreate
  cases h1 : acc.isSet Priv.createUser <;> cases hs : subsetLoop acc (ofBytes a) <;> cases f <;> simp_all

theorem runUpdate_effects (acc : AccessBitmap) (items : List UserItem) (done : List Effect) :
    ∀ e ∈ (runUpdate acc items done).effects, e ∈ done ∨ (e ∈ items.map UserItem.effect ∧ acc.isSet e.priv = true) := by
  induction items generalizing done with
  | nil => intro e he; simp [runUpdate] at he; exact Or.inl he
  | cons it rest ih =>
    intro e he
    have key : ∀ (eff : Effect), eff = it.effect → acc.isSet eff.priv = true →
        e ∈ (runUpdate acc rest (done ++ [eff])).effects →
        e ∈ done ∨ (e ∈ (it :: rest).map UserItem.effect ∧ acc.isSet e.priv = true) := by
      intro eff h1 h2 h3
      rcases ih _ e h3 with h | ⟨h, h'⟩
      · simp only [List.mem_append, List.mem_singleton] at h
        rcases h with h | h
        · exact Or.inl h
        · subst h; exact Or.inr ⟨by simp [h1], h2⟩
      · exact Or.inr ⟨by simp [h], h'⟩
    cases it with
    | delete fails =>
      simp only [runUpdate] at he
      by_cases hA : acc.isSet Priv.deleteUser = true
      · simp only [hA, if_true] at he
        cases fails
        · exact key .deleteUser rfl hA (by simpa using he)
        · simp [silent] at he; exact Or.inl he
      · simp [hA, deny] at he; exact Or.inl he
    | modify fails =>
      simp only [runUpdate] at he
      by_cases hA : acc.isSet Priv.modifyUser = true
      · simp only [hA, if_true] at he
        cases fails
        · exact key .modifyUser rfl hA (by simpa using he)
        · simp [silent] at he; exact Or.inl he
      · simp [hA, deny] at he; exact Or.inl he
    | create access fails =>
      simp only [runUpdate] at he
      cases hc : updateUserCreate acc access fails with
      | created x =>
        rw [hc] at he
        exact key .createUser rfl (updateUserCreate_created acc access fails x hc).1 he
      | denied => rw [hc] at he; simp [deny] at he; exact Or.inl he
      | exists_ => rw [hc] at he; simp [refuse] at he; exact Or.inl he
      | tooMuch => rw [hc] at he; simp [refuse] at he; exact Or.inl he
      | failed => rw [hc] at he; simp [refuse] at he; exact Or.inl he

theorem run_sound (acc : AccessBitmap) (r : Req) :
    ∀ e ∈ (run acc r).effects, e ∈ requested r ∧ acc.isSet e.priv = true := by
  intro e he
  cases r
  case updateUser items =>
    rcases runUpdate_effects acc items [] e he with h | h
    · cases h
    · exact h
  case newUser ex a f =>
    simp only [run] at he
    cases hc : newUser acc ex a f with
    | created x =>
      rw [hc] at he
      simp [proceed] at he
      subst he
      exact ⟨by simp [requested], (newUser_created acc ex a f x hc).1⟩
    | denied => rw [hc] at he; simp [deny] at he
    | exists_ => rw [hc] at he; simp [refuse] at he
    | tooMuch => rw [hc] at he; simp [refuse] at he
    | failed => rw [hc] at he; simp [refuse] at he
  all_goals
    simp only [run, guard, deny, proceed, silent, refuse, byKind, uploadRule] at he
    repeat' split at he
    all_goals simp_all [Effect.priv, requested]
    all_goals (try (rcases he with rfl | rfl <;> simp_all))

theorem runUpdate_denied (acc : AccessBitmap) (items : List UserItem) (done : List Effect) (m : DenyMsg)
    (h : (runUpdate acc items done).verdict = .denied m) :
    acc.isSet m.priv = false ∧ (∃ e ∈ items.map UserItem.effect, e.priv = m.priv) ∧
    (runUpdate acc items done).out = [.errReply m.text] ∧
    (runUpdate acc items done).effects.length < done.length + items.length := by
  induction items generalizing done with
  | nil => simp [runUpdate] at h
  | cons it rest ih =>
    have key : ∀ (eff : Effect), eff = it.effect →
        (runUpdate acc rest (done ++ [eff])).verdict = .denied m →
        acc.isSet m.priv = false ∧ (∃ e ∈ (it :: rest).map UserItem.effect, e.priv = m.priv) ∧
        (runUpdate acc rest (done ++ [eff])).out = [.errReply m.text] ∧
        (runUpdate acc rest (done ++ [eff])).effects.length < done.length + (it :: rest).length := by
      intro eff _ h3
      obtain ⟨a, ⟨e, he, hp⟩, c, d⟩ := ih _ h3
      refine ⟨a, ⟨e, by simp [he], hp⟩, c, ?_⟩
      simp at d ⊢; omega
    cases it with
    | delete fails =>
      simp only [runUpdate] at h ⊢
      by_cases hA : acc.isSet Priv.deleteUser = true
      · simp only [hA, if_true] at h ⊢
        cases fails
        · simpa using key .deleteUser rfl (by simpa using h)
        · simp [silent] at h
      · simp only [hA] at h ⊢
        simp [deny] at h ⊢
        subst h
        simp [DenyMsg.priv, UserItem.effect, Effect.priv, hA]
    | modify fails =>
      simp only [runUpdate] at h ⊢
      by_cases hA : acc.isSet Priv.modifyUser = true
      · simp only [hA, if_true] at h ⊢
        cases fails
        · simpa using key .modifyUser rfl (by simpa using h)
        · simp [silent] at h
      · simp only [hA] at h ⊢
        simp [deny] at h ⊢
        subst h
        simp [DenyMsg.priv, UserItem.effect, Effect.priv, hA]
    | create access fails =>
      simp only [runUpdate] at h ⊢
      revert h
      cases hc : updateUserCreate acc access fails with
      | created x =>
        intro h
        exact key .createUser rfl h
      | denied =>
        intro h
        simp [deny] at h ⊢
        subst h
        have := (updateUserCreate_denied acc access fails).mp hc
        simp [DenyMsg.priv, UserItem.effect, Effect.priv, this]
      | exists_ => intro h; simp [refuse] at h
      | tooMuch => intro h; simp [refuse] at h
      | failed => intro h; simp [refuse] at h

local macro "run_denied_tac" h:ident : tactic => `(tactic| (
    simp only [run, guard, deny, proceed, silent, refuse, byKind, uploadRule] at $h:ident ⊢
    repeat' split at $h:ident
    all_goals (try (simp at $h:ident))
    all_goals (try subst $h:ident)
    all_goals simp_all [Effect.priv, requested, DenyMsg.priv]))

theorem run_denied (acc : AccessBitmap) (r : Req) (m : DenyMsg) (h : (run acc r).verdict = .denied m) :
    acc.isSet m.priv = false ∧ (∃ e ∈ requested r, e.priv = m.priv) ∧ (run acc r).out = [.errReply m.text] ∧
    ((requested r).length ≤ 1 → (run acc r).effects = []) := by
  cases r
  case updateUser items =>
    obtain ⟨a, b, c, d⟩ := runUpdate_denied acc items [] m h
    refine ⟨a, b, c, ?_⟩
    intro hl
    simp [requested] at hl
    simp [run] at d ⊢
    have : (runUpdate acc items []).effects.length = 0 := by omega
    exact List.eq_nil_of_length_eq_zero this
  case newUser ex a f =>
    simp only [run] at h ⊢
    revert h
    cases hc : newUser acc ex a f with
    | denied =>
      intro h
      simp [deny] at h ⊢
      subst h
      have := (newUser_denied acc ex a f).mp hc
      simp [DenyMsg.priv, requested, Effect.priv, this]
    | created x => intro h; simp [proceed] at h
    | exists_ => intro h; simp [refuse] at h
    | tooMuch => intro h; simp [refuse] at h
    | failed => intro h; simp [refuse] at h
  case uploadFile p ex => cases p <;> run_denied_tac h
  case uploadFldr p => cases p <;> run_denied_tac h
  all_goals run_denied_tac h

end Mobius.Authz
