import MobiusModel.Board
/-!
  Crash: persistent updates as system-call programs over a small file-system model.

  * `FS` = one directory: an association list name ↦ content (order = directory order, irrelevant to
    the loaders' results, kept so that statements are plain list equalities).
  * `Sys` = the calls the Go standard library makes for `os.WriteFile` (open with
    `O_WRONLY|O_CREAT|O_TRUNC`, `write`, `close` – three separate crash points), `os.Rename`, `os.Link`,
    `os.Remove`.  `apply` gives their POSIX effect on the namespace (a failing call changes nothing).
  * `crash prog k fs` = the state found after a kill between the k-th and the (k+1)-th call.
  * programs: `tempRename`, `createLink`, `renameUpdate`, `[remove]`, and the negative witness
    `directWrite`.
  * loaders mirroring `NewFlatNews`, `NewThreadedNewsYAML`, `NewBanFile`, `NewYAMLAccountManager`; the
    YAML decoder is a parameter `deser`.
-/
namespace Mobius.Crash

abbrev Name := List Char
abbrev FS := List (Name × Bytes)

def get : FS → Name → Option Bytes
  | [], _ => none
  | (q, c) :: fs, p => if q = p then some c else get fs p

/-- create or replace (in place) -/
def set : FS → Name → Bytes → FS
  | [], p, c => [(p, c)]
  | (q, d) :: fs, p, c => if q = p then (q, c) :: fs else (q, d) :: set fs p c

def erase (fs : FS) (p : Name) : FS := fs.filter fun e => !(e.1 == p)

def renameKey (fs : FS) (a b : Name) : FS := fs.map fun e => if e.1 = a then (b, e.2) else e

inductive Sys where
  | openTrunc (p : Name)
  | write (p : Name) (d : Bytes)
  | close (p : Name)
  | rename (a b : Name)
  | link (a b : Name)
  | remove (p : Name)
  | openKeep (p : Name)            -- open(O_WRONLY|O_CREAT) WITHOUT O_TRUNC (negative witness only)
  | overwrite (p : Name) (d : Bytes) -- write at offset 0 of an untruncated file (negative witness only)
deriving DecidableEq, Repr

def apply (fs : FS) : Sys → FS
  | .openTrunc p => set fs p []
  | .write p d =>
    match get fs p with
    | some c => set fs p (c ++ d)
    | none => fs
  | .close _ => fs
  | .rename a b =>
    match get fs a with
    | none => fs
    | some c =>
      if a = b then fs
      else match get fs b with
        | some _ => erase (set fs b c) a
        | none => renameKey fs a b
  | .link a b =>
    match get fs a, get fs b with
    | some c, none => fs ++ [(b, c)]
    | _, _ => fs
  | .remove p => erase fs p
  | .openKeep p =>
    match get fs p with
    | some _ => fs
    | none => set fs p []
  | .overwrite p d =>
    match get fs p with
    | some c => set fs p (d ++ c.drop d.length)
    | none => fs

/-- The state a restart finds when the process was killed after the first `k` calls of `prog`. -/
def crash (prog : List Sys) (k : Nat) (fs : FS) : FS := (prog.take k).foldl apply fs

/-- `os.WriteFile(p, d, 0644)` -/
def writeFile (p : Name) (d : Bytes) : List Sys := [.openTrunc p, .write p d, .close p]

/-- write-temp-then-rename: `FlatNews.Write`, `ThreadedNewsYAML.writeFile`, `BanFile.Add`,
    `YAMLAccountManager.Update` (same login). -/
def tempRename (tmp p : Name) (new : Bytes) : List Sys := writeFile tmp new ++ [.rename tmp p]

/-- `YAMLAccountManager.Create`: write temp, link to the final name (fails if it exists), remove temp. -/
def createLink (tmp final : Name) (d : Bytes) : List Sys := writeFile tmp d ++ [.link tmp final, .remove tmp]

/-- `YAMLAccountManager.Update` with a changed login: rename the file, then replace it atomically. -/
def renameUpdate (tmp old new : Name) (d : Bytes) : List Sys := .rename old new :: tempRename tmp new d

/-- `YAMLAccountManager.Update` as a whole: same login → atomic replace; changed login → refused without any
    call when the new login already exists (`fix: 5d2c023`; the code tests its in-memory table, which agrees
    with the directory – C15), otherwise rename + atomic replace. -/
def updateProg (tmp : Name) (fs : FS) (old new : Name) (d : Bytes) : List Sys :=
  if old = new then tempRename tmp new d
  else if (get fs new).isSome then []
  else renameUpdate tmp old new d

/-- NEGATIVE WITNESS program: `os.WriteFile` directly on the live file. -/
def directWrite (p : Name) (new : Bytes) : List Sys := writeFile p new

/-- NEGATIVE WITNESS program: write-temp-then-rename whose temp file is opened WITHOUT `O_TRUNC`. -/
def tempRenameNoTrunc (tmp p : Name) (new : Bytes) : List Sys :=
  [.openKeep tmp, .overwrite tmp new, .close tmp, .rename tmp p]

/-- What a loader that lists the directory sees: the entries whose name passes `vis`. -/
def view (vis : Name → Bool) (fs : FS) : FS := fs.filter fun e => vis e.1

def contents (vis : Name → Bool) (fs : FS) : List Bytes := (view vis fs).map (·.2)

/-! ### loaders -/

/-- `filepath.Glob(dir/"*.yaml")`: the name ends in `.yaml`. -/
def isYaml (n : Name) : Bool := ".yaml".toList.isSuffixOf n

/-- `NewFlatNews`: error when the file is missing, otherwise its text with `\n`→`\r`. -/
def loadBoard (fs : FS) (p : Name) : Option Bytes := (get fs p).map Board.nl2cr

/-- `NewThreadedNewsYAML`: error when the file is missing or does not decode. -/
def loadYaml {α : Type} (deser : Bytes → Option α) (fs : FS) (p : Name) : Option α := (get fs p).bind deser

/-- `NewBanFile`: a missing file is the empty list; a present file must decode. -/
def loadBans {α : Type} (deser : Bytes → Option α) (empty : α) (fs : FS) (p : Name) : Option α :=
  match get fs p with
  | none => some empty
  | some c => deser c

/-- `NewYAMLAccountManager`: every `*.yaml` file must decode; no file at all is an error.  The accounts
    are keyed by the login INSIDE the file (the result is the list of decoded files, in directory order). -/
def loadAccounts {α : Type} (deser : Bytes → Option α) (fs : FS) : Option (List α) :=
  if (contents isYaml fs).isEmpty then none else (contents isYaml fs).mapM deser

/-! ### namespace lemmas -/

theorem get_set_eq (fs : FS) (p : Name) (c : Bytes) : get (set fs p c) p = some c := by
  induction fs with
  | nil => simp [set, get]
  | cons e fs ih =>
    obtain ⟨q, d⟩ := e
    by_cases h : q = p <;> simp [set, get, h, ih]

theorem get_set_ne (fs : FS) (p q : Name) (c : Bytes) (h : q ≠ p) : get (set fs p c) q = get fs q := by
  induction fs with
  | nil => simp [set, get, Ne.symm h]
  | cons e fs ih =>
    obtain ⟨r, d⟩ := e
    by_cases hr : r = p
    · subst hr; simp [set, get, Ne.symm h]
    · by_cases hq : r = q
      · subst hq; simp [set, get, hr]
      · simp [set, get, hr, hq, ih]

theorem set_set (fs : FS) (p : Name) (c d : Bytes) : set (set fs p c) p d = set fs p d := by
  induction fs with
  | nil => simp [set]
  | cons e fs ih =>
    obtain ⟨q, x⟩ := e
    by_cases h : q = p <;> simp [set, h, ih]

theorem get_erase_eq (fs : FS) (p : Name) : get (erase fs p) p = none := by
  induction fs with
  | nil => simp [erase, get]
  | cons e fs ih =>
    obtain ⟨q, d⟩ := e
    by_cases h : q = p
    · simp only [erase, List.filter_cons, h, beq_self_eq_true, Bool.not_true]
      simpa [erase] using ih
    · have hb : (q == p) = false := by simpa using h
      simp only [erase, List.filter_cons, hb, Bool.not_false, if_true, get, h, if_false]
      simpa [erase] using ih

theorem get_erase_ne (fs : FS) (p q : Name) (h : q ≠ p) : get (erase fs p) q = get fs q := by
  induction fs with
  | nil => simp [erase, get]
  | cons e fs ih =>
    obtain ⟨r, d⟩ := e
    by_cases hr : r = p
    · subst hr
      simp only [erase, List.filter_cons, beq_self_eq_true, Bool.not_true, get, Ne.symm h, if_false]
      simpa [erase] using ih
    · have hb : (r == p) = false := by simpa using hr
      simp only [erase, List.filter_cons, hb, Bool.not_false, if_true, get]
      by_cases hq : r = q
      · simp [hq]
      · simp only [hq, if_false]; simpa [erase] using ih

theorem get_renameKey_new (fs : FS) (a b : Name) (hab : a ≠ b) (hb : get fs b = none) :
    get (renameKey fs a b) b = get fs a := by
  induction fs with
  | nil => simp [renameKey, get]
  | cons e fs ih =>
    obtain ⟨q, d⟩ := e
    by_cases hq : q = a
    · subst hq; simp [renameKey, get]
    · have hqb : q ≠ b := by
        intro h; subst h; simp [get] at hb
      have hb' : get fs b = none := by simpa [get, hqb] using hb
      have := ih hb'
      simp only [renameKey] at this
      simp [renameKey, get, hq, hqb, this]

theorem get_renameKey_other (fs : FS) (a b q : Name) (ha : q ≠ a) (hb : q ≠ b) :
    get (renameKey fs a b) q = get fs q := by
  induction fs with
  | nil => simp [renameKey, get]
  | cons e fs ih =>
    obtain ⟨r, d⟩ := e
    simp only [renameKey] at ih
    by_cases hr : r = a
    · subst hr; simp [renameKey, get, Ne.symm hb, Ne.symm ha, ih]
    · by_cases hrq : r = q
      · subst hrq; simp [renameKey, get, hr]
      · simp [renameKey, get, hr, hrq, ih]

theorem view_set_invisible (vis : Name → Bool) (fs : FS) (p : Name) (c : Bytes) (h : vis p = false) :
    view vis (set fs p c) = view vis fs := by
  induction fs with
  | nil => simp [set, view, h]
  | cons e fs ih =>
    obtain ⟨q, d⟩ := e
    by_cases hq : q = p
    · subst hq; simp [set, view, h]
    · simp only [view] at ih
      simp [set, view, hq, List.filter_cons, ih]

theorem view_erase_invisible (vis : Name → Bool) (fs : FS) (p : Name) (h : vis p = false) :
    view vis (erase fs p) = view vis fs := by
  induction fs with
  | nil => simp [erase, view]
  | cons e fs ih =>
    obtain ⟨q, d⟩ := e
    simp only [view, erase] at ih
    by_cases hq : q = p
    · subst hq; simp [erase, view, h, ih]
    · have hb : (q == p) = false := by simpa using hq
      simp only [erase, view, List.filter_cons, hb, Bool.not_false, if_true]
      rw [ih]

theorem view_append (vis : Name → Bool) (a b : FS) : view vis (a ++ b) = view vis a ++ view vis b := by
  simp [view]

/-- Writing an invisible file first does not change what a later visible write looks like. -/
theorem view_set_after_invisible (vis : Name → Bool) (fs : FS) (t p : Name) (c d : Bytes)
    (ht : vis t = false) (hne : t ≠ p) :
    view vis (set (set fs t c) p d) = view vis (set fs p d) := by
  induction fs with
  | nil => simp [set, view, hne, ht]
  | cons e fs ih =>
    obtain ⟨q, x⟩ := e
    simp only [view] at ih
    by_cases hqt : q = t
    · subst hqt; simp [set, view, hne, ht]
    · by_cases hqp : q = p
      · subst hqp
        have := view_set_invisible vis fs t c ht
        simp only [view] at this
        simp [set, view, hqt, List.filter_cons, this]
      · simp [set, view, hqt, hqp, List.filter_cons, ih]

theorem contents_renameKey (vis : Name → Bool) (fs : FS) (a b : Name) (h : vis a = vis b) :
    contents vis (renameKey fs a b) = contents vis fs := by
  induction fs with
  | nil => simp [contents, view, renameKey]
  | cons e fs ih =>
    obtain ⟨q, d⟩ := e
    simp only [contents, view, renameKey] at ih
    by_cases hq : q = a
    · subst hq
      simp only [contents, view, renameKey, List.map_cons, if_true, List.filter_cons]
      rw [← h]
      cases hv : vis q <;> simp [ih]
    · simp only [contents, view, renameKey, List.map_cons, hq, if_false, List.filter_cons]
      cases hv : vis q <;> simp [ih]

/-! ### the state after each prefix of the programs -/

theorem crash_zero (prog : List Sys) (fs : FS) : crash prog 0 fs = fs := by simp [crash]

theorem crash_cons_succ (s : Sys) (prog : List Sys) (k : Nat) (fs : FS) :
    crash (s :: prog) (k + 1) fs = crash prog k (apply fs s) := by simp [crash]

theorem crash_ge (prog : List Sys) (k : Nat) (fs : FS) (h : prog.length ≤ k) :
    crash prog k fs = crash prog prog.length fs := by
  simp [crash, List.take_of_length_le h]

/-- The three calls of `os.WriteFile(tmp, d)`, whatever was there before, leave `tmp ↦ d`. -/
theorem writeFile_done (fs : FS) (tmp : Name) (d : Bytes) :
    crash (writeFile tmp d) 3 fs = set fs tmp d := by
  simp [crash, writeFile, apply, get_set_eq, set_set]

/-- States during `os.WriteFile(tmp, …)`: only `tmp` differs from the start. -/
theorem writeFile_prefix (fs : FS) (tmp : Name) (d : Bytes) (k : Nat) :
    ∃ c, crash (writeFile tmp d) k fs = set fs tmp c ∨ crash (writeFile tmp d) k fs = fs := by
  match k with
  | 0 => exact ⟨[], Or.inr (by simp [crash])⟩
  | 1 => exact ⟨[], Or.inl (by simp [crash, writeFile, apply])⟩
  | 2 => exact ⟨d, Or.inl (by simp [crash, writeFile, apply, get_set_eq, set_set])⟩
  | k + 3 =>
    refine ⟨d, Or.inl ?_⟩
    rw [crash_ge _ _ _ (by simp [writeFile])]
    exact writeFile_done fs tmp d

theorem crash_append_le (a b : List Sys) (k : Nat) (fs : FS) (h : k ≤ a.length) :
    crash (a ++ b) k fs = crash a k fs := by
  simp [crash, List.take_append_of_le_length h]

theorem crash_append_ge (a b : List Sys) (k : Nat) (fs : FS) :
    crash (a ++ b) (a.length + k) fs = crash b k (crash a a.length fs) := by
  have : List.take (a.length + k) a = a := List.take_of_length_le (by omega)
  simp [crash, List.take_append, List.foldl_append, this]

/-- get-level atomicity of write-temp-then-rename, for every crash point, every prior state
    (stale temp file, target absent or present): the target holds the old or the new content, the new
    one once all four calls are done; every other file except the temp is untouched. -/
theorem tempRename_get (fs : FS) (tmp p : Name) (new : Bytes) (hne : tmp ≠ p) (k : Nat) :
    (get (crash (tempRename tmp p new) k fs) p = get fs p ∨
      get (crash (tempRename tmp p new) k fs) p = some new) ∧
    (4 ≤ k → get (crash (tempRename tmp p new) k fs) p = some new) ∧
    (∀ q, q ≠ p → q ≠ tmp → get (crash (tempRename tmp p new) k fs) q = get fs q) := by
  by_cases hk : k ≤ 3
  · have hpre : crash (tempRename tmp p new) k fs = crash (writeFile tmp new) k fs :=
      crash_append_le _ _ _ _ (by simpa [writeFile] using hk)
    obtain ⟨c, hc⟩ := writeFile_prefix fs tmp new k
    rw [hpre]
    rcases hc with hc | hc <;> rw [hc]
    · refine ⟨Or.inl (get_set_ne _ _ _ _ (Ne.symm hne)), by omega, ?_⟩
      intro q _ hq; exact get_set_ne _ _ _ _ hq
    · exact ⟨Or.inl rfl, by omega, fun _ _ _ => rfl⟩
  · have hk4 : 4 ≤ k := by omega
    have hfull : crash (tempRename tmp p new) k fs = apply (set fs tmp new) (.rename tmp p) := by
      rw [crash_ge _ _ _ (by simpa [tempRename, writeFile] using hk4)]
      have := crash_append_ge (writeFile tmp new) [.rename tmp p] 1 fs
      simp only [writeFile, List.length_cons, List.length_nil] at this
      simp only [tempRename, writeFile, List.length_cons, List.length_nil, List.length_append]
      rw [this]
      have h3 := writeFile_done fs tmp new
      simp only [writeFile] at h3
      rw [h3]
      simp [crash]
    rw [hfull]
    simp only [apply, get_set_eq, hne, if_false]
    have hp : get (set fs tmp new) p = get fs p := get_set_ne _ _ _ _ (Ne.symm hne)
    cases hgp : get fs p with
    | some c0 =>
      rw [hp, hgp]
      simp only
      have h1 : get (erase (set (set fs tmp new) p new) tmp) p = some new := by
        rw [get_erase_ne _ _ _ (Ne.symm hne), get_set_eq]
      refine ⟨Or.inr h1, fun _ => h1, ?_⟩
      intro q hq hqt
      rw [get_erase_ne _ _ _ hqt, get_set_ne _ _ _ _ hq, get_set_ne _ _ _ _ hqt]
    | none =>
      rw [hp, hgp]
      simp only
      have hb : get (set fs tmp new) p = none := by rw [hp, hgp]
      have h1 : get (renameKey (set fs tmp new) tmp p) p = some new := by
        rw [get_renameKey_new _ _ _ hne hb, get_set_eq]
      refine ⟨Or.inr h1, fun _ => h1, ?_⟩
      intro q hq hqt
      rw [get_renameKey_other _ _ _ _ hqt hq, get_set_ne _ _ _ _ hqt]

/-- view-level atomicity (for loaders that list a directory): with an invisible temp name and an
    existing target, what the loader sees is the old directory or the directory with the target's
    content replaced – in place, all other entries identical. -/
theorem tempRename_view (vis : Name → Bool) (fs : FS) (tmp p : Name) (new : Bytes)
    (hvis : vis tmp = false) (hne : tmp ≠ p) (hex : get fs p ≠ none) (k : Nat) :
    (view vis (crash (tempRename tmp p new) k fs) = view vis fs ∨
      view vis (crash (tempRename tmp p new) k fs) = view vis (set fs p new)) ∧
    (4 ≤ k → view vis (crash (tempRename tmp p new) k fs) = view vis (set fs p new)) := by
  by_cases hk : k ≤ 3
  · have hpre : crash (tempRename tmp p new) k fs = crash (writeFile tmp new) k fs :=
      crash_append_le _ _ _ _ (by simpa [writeFile] using hk)
    obtain ⟨c, hc⟩ := writeFile_prefix fs tmp new k
    rw [hpre]
    rcases hc with hc | hc <;> rw [hc]
    · exact ⟨Or.inl (view_set_invisible vis fs tmp c hvis), by omega⟩
    · exact ⟨Or.inl rfl, by omega⟩
  · have hk4 : 4 ≤ k := by omega
    have hfull : crash (tempRename tmp p new) k fs = apply (set fs tmp new) (.rename tmp p) := by
      rw [crash_ge _ _ _ (by simpa [tempRename, writeFile] using hk4)]
      have := crash_append_ge (writeFile tmp new) [.rename tmp p] 1 fs
      simp only [writeFile, List.length_cons, List.length_nil] at this
      simp only [tempRename, writeFile, List.length_cons, List.length_nil, List.length_append]
      rw [this]
      have h3 := writeFile_done fs tmp new
      simp only [writeFile] at h3
      rw [h3]
      simp [crash]
    have hp : get (set fs tmp new) p = get fs p := get_set_ne _ _ _ _ (Ne.symm hne)
    obtain ⟨c0, hc0⟩ := Option.ne_none_iff_exists'.mp hex
    have : view vis (crash (tempRename tmp p new) k fs) = view vis (set fs p new) := by
      rw [hfull]
      simp only [apply, get_set_eq, hne, if_false, hp, hc0]
      rw [view_erase_invisible vis _ tmp hvis, view_set_after_invisible vis fs tmp p new new hvis hne]
    exact ⟨Or.inr this, fun _ => this⟩

/-- Account creation: the loader sees the old directory until the `link`, and from then on the old
    directory plus the complete new file; a leftover temp file is never seen. -/
theorem createLink_view (vis : Name → Bool) (fs : FS) (tmp final : Name) (d : Bytes)
    (hvis : vis tmp = false) (hne : tmp ≠ final) (hnew : get fs final = none) (k : Nat) :
    (k ≤ 3 → view vis (crash (createLink tmp final d) k fs) = view vis fs) ∧
    (4 ≤ k → view vis (crash (createLink tmp final d) k fs) = view vis (fs ++ [(final, d)])) := by
  constructor
  · intro hk
    have hpre : crash (createLink tmp final d) k fs = crash (writeFile tmp d) k fs :=
      crash_append_le _ _ _ _ (by simpa [writeFile] using hk)
    obtain ⟨c, hc⟩ := writeFile_prefix fs tmp d k
    rw [hpre]
    rcases hc with hc | hc <;> rw [hc]
    · exact view_set_invisible vis fs tmp c hvis
  · intro hk
    have h3 := writeFile_done fs tmp d
    have hfin : get (set fs tmp d) final = none := by rw [get_set_ne _ _ _ _ (Ne.symm hne)]; exact hnew
    have hlink : apply (set fs tmp d) (.link tmp final) = set fs tmp d ++ [(final, d)] := by
      simp [apply, get_set_eq, hfin]
    have hv4 : view vis (set fs tmp d ++ [(final, d)]) = view vis (fs ++ [(final, d)]) := by
      rw [view_append, view_append, view_set_invisible vis fs tmp d hvis]
    by_cases h4 : k = 4
    · subst h4
      have : crash (createLink tmp final d) 4 fs = apply (set fs tmp d) (.link tmp final) := by
        have := crash_append_ge (writeFile tmp d) [.link tmp final, .remove tmp] 1 fs
        simp only [writeFile, List.length_cons, List.length_nil] at this
        simp only [createLink, writeFile]
        rw [this]
        simp only [writeFile] at h3
        rw [h3]
        simp [crash]
      rw [this, hlink, hv4]
    · have : crash (createLink tmp final d) k fs = erase (apply (set fs tmp d) (.link tmp final)) tmp := by
        rw [crash_ge _ _ _ (by simp [createLink, writeFile]; omega)]
        have := crash_append_ge (writeFile tmp d) [.link tmp final, .remove tmp] 2 fs
        simp only [writeFile, List.length_cons, List.length_nil] at this
        simp only [createLink, writeFile, List.length_cons, List.length_nil, List.length_append]
        rw [this]
        simp only [writeFile] at h3
        rw [h3]
        simp [crash, apply]
      rw [this, hlink, view_erase_invisible vis _ tmp hvis, hv4]

/-- Account rename + update: after the first call the file has its new NAME but still the complete
    OLD content, so a loader that keys accounts by the login inside the file loads the old value. -/
theorem renameUpdate_contents (vis : Name → Bool) (fs : FS) (tmp old new : Name) (d : Bytes)
    (hvis : vis tmp = false) (hvo : vis old = vis new) (hto : tmp ≠ new) (hon : old ≠ new)
    (hold : get fs old ≠ none) (hnew : get fs new = none) (k : Nat) :
    (contents vis (crash (renameUpdate tmp old new d) k fs) = contents vis fs ∨
      contents vis (crash (renameUpdate tmp old new d) k fs) = contents vis (set (renameKey fs old new) new d)) ∧
    (5 ≤ k → contents vis (crash (renameUpdate tmp old new d) k fs) = contents vis (set (renameKey fs old new) new d)) := by
  match k with
  | 0 => exact ⟨Or.inl (by simp [crash]), by omega⟩
  | k + 1 =>
    obtain ⟨c0, hc0⟩ := Option.ne_none_iff_exists'.mp hold
    have h1 : apply fs (.rename old new) = renameKey fs old new := by
      simp [apply, hc0, hon, hnew]
    have hex : get (renameKey fs old new) new ≠ none := by
      rw [get_renameKey_new fs old new hon hnew, hc0]; simp
    have hA := tempRename_view vis (renameKey fs old new) tmp new d hvis hto hex k
    simp only [renameUpdate, crash_cons_succ, h1]
    refine ⟨?_, ?_⟩
    · rcases hA.1 with h | h
      · left; simp only [contents, h]; exact contents_renameKey vis fs old new hvo
      · right; simp only [contents, h]
    · intro hk
      simp only [contents, hA.2 (by omega)]

/-! ### name lemmas -/

theorem isYaml_account_tmp : isYaml ".account.tmp".toList = false := by decide

/-- `<anything>.tmp` is not matched by `*.yaml`. -/
theorem isYaml_dot_tmp (x : Name) : isYaml (x ++ ".tmp".toList) = false := by
  simp only [isYaml, List.isSuffixOf, List.reverse_append]
  rfl

/-- HAZARD (why the temp name matters): `<anything>.tmp.yaml` IS matched by `*.yaml`. -/
theorem isYaml_tmp_dot_yaml (x : Name) : isYaml (x ++ ".tmp.yaml".toList) = true := by
  simp only [isYaml, List.isSuffixOf, List.reverse_append]
  rfl

theorem isYaml_login (l : Name) : isYaml (l ++ ".yaml".toList) = true := by
  simp only [isYaml, List.isSuffixOf, List.reverse_append]
  rfl

theorem append_tmp_ne (p : Name) : p ++ ".tmp".toList ≠ p := by
  intro h
  have := congrArg List.length h
  simp at this

theorem account_tmp_ne_login (l : Name) : ".account.tmp".toList ≠ l ++ ".yaml".toList := by
  intro h
  have h1 : isYaml ".account.tmp".toList = isYaml (l ++ ".yaml".toList) := by rw [h]
  rw [isYaml_account_tmp, isYaml_login] at h1
  exact Bool.false_ne_true h1

end Mobius.Crash
