import MobiusModel.Board
/-!
  Crash: persistent updates as system-call programs over a small file-system model WITH INODES.

  * `FS` = one directory: `names : List (Name × Nat)` (name ↦ inode number, in directory order), the
    inode contents `data : Nat → Bytes`, and the next unused inode number.  Hard links (`os.Link`)
    make two names share an inode: writing through one name changes what the other name shows.
    (The first version of this model copied contents on `link`; that hid the defect repaired by
    `fix: 57e02c9` – a temp name still linked to an account file after a crash.)
  * `Sys` = the calls the Go standard library makes for `os.WriteFile` (open with
    `O_WRONLY|O_CREAT|O_TRUNC`, `write`, `close` – three separate crash points), `os.Rename`, `os.Link`,
    `os.Remove`.  `apply` gives their POSIX effect (a failing call changes nothing).
  * `crash prog k fs` = the state found after a kill between the k-th and the (k+1)-th call.
  * programs: `tempRename` (board, news, ban list), `freshTempRename`, `freshCreateLink`,
    `freshRenameUpdate`, `updateProg` (accounts, with the leading removal of the temp name),
    `[remove]`; negative witnesses `directWrite`, `tempRenameNoTrunc`, `createLink` /
    `tempRename` on the shared account temp name (the programs before `fix: 57e02c9`).
  * loaders mirroring `NewFlatNews`, `NewThreadedNewsYAML`, `NewBanFile`, `NewYAMLAccountManager`; the
    YAML decoder is a parameter `deser`.
-/
namespace Mobius.Crash

abbrev Name := List Char
abbrev Dir := List (Name × Nat)
/-- what a loader gets from listing a directory and reading the files: (name, content) in directory order -/
abbrev View := List (Name × Bytes)

structure FS where
  names : Dir
  data : Nat → Bytes
  next : Nat

/-! ### directory (name ↦ inode) operations -/

def ino : Dir → Name → Option Nat
  | [], _ => none
  | (q, i) :: d, p => if q = p then some i else ino d p

def eraseN (d : Dir) (p : Name) : Dir := d.filter fun e => !(e.1 == p)

/-- point every entry called `p` at inode `i` -/
def replN (d : Dir) (p : Name) (i : Nat) : Dir := d.map fun e => if e.1 = p then (p, i) else e

/-- rename every entry called `a` to `b` -/
def renN (d : Dir) (a b : Name) : Dir := d.map fun e => if e.1 = a then (b, e.2) else e

def upd (f : Nat → Bytes) (i : Nat) (c : Bytes) : Nat → Bytes := fun j => if j = i then c else f j

def get (fs : FS) (p : Name) : Option Bytes := (ino fs.names p).map fs.data

/-- every inode in use is below the allocation counter (so a newly created file gets an unshared inode) -/
def WF (fs : FS) : Prop := ∀ e ∈ fs.names, e.2 < fs.next

inductive Sys where
  | openTrunc (p : Name)
  | write (p : Name) (d : Bytes)
  | close (p : Name)
  | rename (a b : Name)
  | link (a b : Name)
  | remove (p : Name)
  | openKeep (p : Name)              -- open(O_WRONLY|O_CREAT) WITHOUT O_TRUNC (negative witness only)
  | overwrite (p : Name) (d : Bytes) -- write at offset 0 of an untruncated file (negative witness only)
deriving DecidableEq, Repr

def apply (fs : FS) : Sys → FS
  | .openTrunc p =>
    match ino fs.names p with
    | some i => { fs with data := upd fs.data i [] }
    | none => { names := fs.names ++ [(p, fs.next)], data := upd fs.data fs.next [], next := fs.next + 1 }
  | .write p d =>
    match ino fs.names p with
    | some i => { fs with data := upd fs.data i (fs.data i ++ d) }
    | none => fs
  | .close _ => fs
  | .rename a b =>
    match ino fs.names a with
    | none => fs
    | some i =>
      if a = b then fs
      else match ino fs.names b with
        | some _ => { fs with names := eraseN (replN fs.names b i) a }
        | none => { fs with names := renN fs.names a b }
  | .link a b =>
    match ino fs.names a, ino fs.names b with
    | some i, none => { fs with names := fs.names ++ [(b, i)] }
    | _, _ => fs
  | .remove p => { fs with names := eraseN fs.names p }
  | .openKeep p =>
    match ino fs.names p with
    | some _ => fs
    | none => { names := fs.names ++ [(p, fs.next)], data := upd fs.data fs.next [], next := fs.next + 1 }
  | .overwrite p d =>
    match ino fs.names p with
    | some i => { fs with data := upd fs.data i (d ++ (fs.data i).drop d.length) }
    | none => fs

/-- The state a restart finds when the process was killed after the first `k` calls of `prog`. -/
def crash (prog : List Sys) (k : Nat) (fs : FS) : FS := (prog.take k).foldl apply fs

/-- `os.WriteFile(p, d, 0644)` -/
def writeFile (p : Name) (d : Bytes) : List Sys := [.openTrunc p, .write p d, .close p]

/-- write-temp-then-rename: `FlatNews.Write`, `ThreadedNewsYAML.writeFile`, `BanFile.Add`. -/
def tempRename (tmp p : Name) (new : Bytes) : List Sys := writeFile tmp new ++ [.rename tmp p]

/-- The account programs BEFORE `fix: 57e02c9` (kept for the negative witness). -/
def createLink (tmp final : Name) (d : Bytes) : List Sys := writeFile tmp d ++ [.link tmp final, .remove tmp]

/-- Account writes since `fix: 57e02c9`: a left-over temp NAME is removed before the temp file is written
    (it may still be hard-linked to an account file after a crash between `link` and `remove` in `Create`),
    so the temp file always gets an inode of its own. -/
def freshWrite (tmp : Name) (d : Bytes) : List Sys := .remove tmp :: writeFile tmp d

/-- `YAMLAccountManager.Update`, same login. -/
def freshTempRename (tmp p : Name) (new : Bytes) : List Sys := freshWrite tmp new ++ [.rename tmp p]

/-- `YAMLAccountManager.Create`: remove temp name, write temp, link to the final name (fails if it exists),
    remove temp. -/
def freshCreateLink (tmp final : Name) (d : Bytes) : List Sys := freshWrite tmp d ++ [.link tmp final, .remove tmp]

/-- `YAMLAccountManager.Update` with a changed login: rename the file, then replace it atomically. -/
def freshRenameUpdate (tmp old new : Name) (d : Bytes) : List Sys := .rename old new :: freshTempRename tmp new d

/-- `YAMLAccountManager.Update` as a whole: same login → atomic replace; changed login → refused without any
    call when the new login already exists (`fix: 5d2c023`; the code tests its in-memory table, which agrees
    with the directory – C15), otherwise rename + atomic replace. -/
def updateProg (tmp : Name) (fs : FS) (old new : Name) (d : Bytes) : List Sys :=
  if old = new then freshTempRename tmp new d
  else if (ino fs.names new).isSome then []
  else freshRenameUpdate tmp old new d

/-- NEGATIVE WITNESS program: `os.WriteFile` directly on the live file. -/
def directWrite (p : Name) (new : Bytes) : List Sys := writeFile p new

/-- NEGATIVE WITNESS program: write-temp-then-rename whose temp file is opened WITHOUT `O_TRUNC`. -/
def tempRenameNoTrunc (tmp p : Name) (new : Bytes) : List Sys :=
  [.openKeep tmp, .overwrite tmp new, .close tmp, .rename tmp p]

/-- What a loader that lists the directory sees: the entries whose name passes `vis`, with their contents. -/
def viewD (vis : Name → Bool) (data : Nat → Bytes) (d : Dir) : View :=
  (d.filter fun e => vis e.1).map fun e => (e.1, data e.2)

def view (vis : Name → Bool) (fs : FS) : View := viewD vis fs.data fs.names

def contents (vis : Name → Bool) (fs : FS) : List Bytes := (view vis fs).map (·.2)

/-- value level: give every entry called `p` the content `c` (all other entries untouched) -/
def setV (v : View) (p : Name) (c : Bytes) : View := v.map fun e => if e.1 = p then (p, c) else e

/-! ### loaders -/

/-- `filepath.Glob(dir/"*.yaml")`: the name ends in `.yaml`. -/
def isYaml (n : Name) : Bool := ".yaml".toList.isSuffixOf n

/-- `NewFlatNews`: error when the file is missing, otherwise its text with `\n`→`\r`. -/
def loadBoard (fs : FS) (p : Name) : Option Bytes := (get fs p).map Board.nl2cr

/-- `NewThreadedNewsYAML`: error when the file is missing or does not decode. -/
def loadYaml {α : Type} (deser : Bytes → Option α) (fs : FS) (p : Name) : Option α := (get fs p).bind deser

/-- `NewBanFile`: a missing file is the empty list; a present file must decode. -/
def loadBans {α : Type} (deser : Bytes → Option α) (empty : α) (fs : FS) (p : Name) : Option α :=
  match get fs p with
  | none => some empty
  | some c => deser c

/-- `NewYAMLAccountManager`: every `*.yaml` file must decode; no file at all is an error.  The accounts
    are keyed by the login INSIDE the file (the result is the list of decoded files, in directory order). -/
def loadAccounts {α : Type} (deser : Bytes → Option α) (fs : FS) : Option (List α) :=
  if (contents isYaml fs).isEmpty then none else (contents isYaml fs).mapM deser

/-- Build a directory from (name, content) pairs, one inode each (used by the oracle and the examples). -/
def ofList (l : View) : FS :=
  ⟨(List.range l.length).zipWith (fun i e => (e.1, i)) l, fun i => (l.getD i ([], [])).2, l.length⟩

/-! ### directory lemmas -/

theorem ino_eraseN_eq (d : Dir) (p : Name) : ino (eraseN d p) p = none := by
  induction d with
  | nil => rfl
  | cons e d ih =>
    obtain ⟨q, i⟩ := e
    by_cases h : q = p
    · subst h; simpa [eraseN] using ih
    · have hb : (q == p) = false := by simpa using h
      simp only [eraseN, List.filter_cons, hb, Bool.not_false, if_true, ino, h, if_false]
      simpa [eraseN] using ih

theorem ino_eraseN_ne (d : Dir) (p q : Name) (h : q ≠ p) : ino (eraseN d p) q = ino d q := by
  induction d with
  | nil => rfl
  | cons e d ih =>
    obtain ⟨r, i⟩ := e
    by_cases hr : r = p
    · subst hr
      have : ino ((r, i) :: d) q = ino d q := by simp [ino, Ne.symm h]
      rw [this]; simpa [eraseN] using ih
    · have hb : (r == p) = false := by simpa using hr
      simp only [eraseN, List.filter_cons, hb, Bool.not_false, if_true, ino]
      by_cases hq : r = q
      · simp [hq]
      · simp only [hq, if_false]; simpa [eraseN] using ih

theorem ino_append (d : Dir) (t q : Name) (n : Nat) :
    ino (d ++ [(t, n)]) q = match ino d q with
      | some i => some i
      | none => if t = q then some n else none := by
  induction d with
  | nil => simp [ino]
  | cons e d ih =>
    obtain ⟨r, i⟩ := e
    by_cases hr : r = q
    · simp [ino, hr]
    · simp [ino, hr, ih]

theorem ino_replN_eq (d : Dir) (p : Name) (i : Nat) (h : ino d p ≠ none) : ino (replN d p i) p = some i := by
  induction d with
  | nil => simp [ino] at h
  | cons e d ih =>
    obtain ⟨q, j⟩ := e
    by_cases hq : q = p
    · simp [replN, ino, hq]
    · have h' : ino d p ≠ none := by simpa [ino, hq] using h
      have := ih h'
      simp only [replN] at this
      simp [replN, ino, hq, this]

theorem ino_replN_ne (d : Dir) (p q : Name) (i : Nat) (h : q ≠ p) : ino (replN d p i) q = ino d q := by
  induction d with
  | nil => rfl
  | cons e d ih =>
    obtain ⟨r, j⟩ := e
    simp only [replN] at ih
    by_cases hr : r = p
    · subst hr; simp [replN, ino, Ne.symm h, ih]
    · by_cases hq : r = q
      · subst hq; simp [replN, ino, hr]
      · simp [replN, ino, hr, hq, ih]

theorem ino_renN_new (d : Dir) (a b : Name) (hab : a ≠ b) (hb : ino d b = none) : ino (renN d a b) b = ino d a := by
  induction d with
  | nil => rfl
  | cons e d ih =>
    obtain ⟨q, j⟩ := e
    by_cases hq : q = a
    · subst hq; simp [renN, ino]
    · have hqb : q ≠ b := by intro h; subst h; simp [ino] at hb
      have hb' : ino d b = none := by simpa [ino, hqb] using hb
      have := ih hb'
      simp only [renN] at this
      simp [renN, ino, hq, hqb, this]

theorem ino_renN_other (d : Dir) (a b q : Name) (ha : q ≠ a) (hb : q ≠ b) : ino (renN d a b) q = ino d q := by
  induction d with
  | nil => rfl
  | cons e d ih =>
    obtain ⟨r, j⟩ := e
    simp only [renN] at ih
    by_cases hr : r = a
    · subst hr; simp [renN, ino, Ne.symm hb, Ne.symm ha, ih]
    · by_cases hrq : r = q
      · subst hrq; simp [renN, ino, hr]
      · simp [renN, ino, hr, hrq, ih]

theorem mem_eraseN {d : Dir} {p : Name} {e : Name × Nat} (h : e ∈ eraseN d p) : e ∈ d :=
  (List.mem_filter.mp h).1

theorem eraseN_append_self (d : Dir) (t : Name) (n : Nat) : eraseN (d ++ [(t, n)]) t = eraseN d t := by
  simp [eraseN, List.filter_append]

theorem eraseN_eraseN (d : Dir) (t : Name) : eraseN (eraseN d t) t = eraseN d t := by
  simp [eraseN, List.filter_filter]

theorem replN_append_ne (d : Dir) (t p : Name) (n i : Nat) (h : t ≠ p) :
    replN (d ++ [(t, n)]) p i = replN d p i ++ [(t, n)] := by
  simp [replN, h]

theorem eraseN_replN (d : Dir) (t p : Name) (i : Nat) (h : t ≠ p) :
    eraseN (replN d p i) t = replN (eraseN d t) p i := by
  induction d with
  | nil => rfl
  | cons e d ih =>
    obtain ⟨q, j⟩ := e
    simp only [eraseN, replN] at ih
    by_cases hq : q = p
    · subst hq
      have hb : (q == t) = false := by simpa using (Ne.symm h)
      simp [eraseN, replN, hb, ih]
    · by_cases hqt : q = t
      · subst hqt; simp [eraseN, replN, hq, ih]
      · have hb : (q == t) = false := by simpa using hqt
        simp [eraseN, replN, hq, hb, ih]

/-! ### view lemmas -/

theorem viewD_eraseN_invisible (vis : Name → Bool) (data : Nat → Bytes) (d : Dir) (p : Name) (h : vis p = false) :
    viewD vis data (eraseN d p) = viewD vis data d := by
  induction d with
  | nil => rfl
  | cons e d ih =>
    obtain ⟨q, i⟩ := e
    simp only [viewD, eraseN, List.filter_filter] at ih
    by_cases hq : q = p
    · subst hq; simp [viewD, eraseN, h, List.filter_filter, ih]
    · have hb : (q == p) = false := by simpa using hq
      simp only [viewD, eraseN, List.filter_cons, hb, Bool.not_false, if_true]
      cases hv : vis q <;> simp [List.filter_filter, ih]

theorem viewD_append (vis : Name → Bool) (data : Nat → Bytes) (a b : Dir) :
    viewD vis data (a ++ b) = viewD vis data a ++ viewD vis data b := by
  simp [viewD]

theorem viewD_congr (vis : Name → Bool) (data data' : Nat → Bytes) (d : Dir)
    (h : ∀ e ∈ d, data' e.2 = data e.2) : viewD vis data' d = viewD vis data d := by
  induction d with
  | nil => rfl
  | cons e d ih =>
    have h1 := h e (by simp)
    have h2 := ih (fun x hx => h x (by simp [hx]))
    simp only [viewD] at h2
    simp only [viewD, List.filter_cons]
    cases hv : vis e.1 <;> simp [h1, h2]

theorem viewD_replN (vis : Name → Bool) (data : Nat → Bytes) (d : Dir) (p : Name) (i : Nat) :
    viewD vis data (replN d p i) = setV (viewD vis data d) p (data i) := by
  induction d with
  | nil => rfl
  | cons e d ih =>
    obtain ⟨q, j⟩ := e
    simp only [viewD, replN, setV] at ih
    by_cases hq : q = p
    · subst hq
      cases hv : vis q <;> simp [viewD, replN, setV, hv, ih]
    · cases hv : vis q <;> simp [viewD, replN, setV, hq, hv, ih]

theorem contents_renN (vis : Name → Bool) (data : Nat → Bytes) (d : Dir) (a b : Name) (h : vis a = vis b) :
    (viewD vis data (renN d a b)).map (·.2) = (viewD vis data d).map (·.2) := by
  induction d with
  | nil => rfl
  | cons e d ih =>
    obtain ⟨q, j⟩ := e
    simp only [viewD, renN] at ih
    by_cases hq : q = a
    · subst hq
      simp only [viewD, renN, List.map_cons, if_true, List.filter_cons]
      rw [← h]
      cases hv : vis q <;> simp [ih]
    · simp only [viewD, renN, List.map_cons, hq, if_false, List.filter_cons]
      cases hv : vis q <;> simp [ih]

/-! ### prefixes of programs -/

theorem crash_zero (prog : List Sys) (fs : FS) : crash prog 0 fs = fs := by simp [crash]

theorem crash_cons_succ (s : Sys) (prog : List Sys) (k : Nat) (fs : FS) :
    crash (s :: prog) (k + 1) fs = crash prog k (apply fs s) := by simp [crash]

theorem crash_ge (prog : List Sys) (k : Nat) (fs : FS) (h : prog.length ≤ k) :
    crash prog k fs = crash prog prog.length fs := by
  simp [crash, List.take_of_length_le h]

theorem crash_append_le (a b : List Sys) (k : Nat) (fs : FS) (h : k ≤ a.length) :
    crash (a ++ b) k fs = crash a k fs := by
  simp [crash, List.take_append_of_le_length h]

theorem crash_append_ge (a b : List Sys) (k : Nat) (fs : FS) :
    crash (a ++ b) (a.length + k) fs = crash b k (crash a a.length fs) := by
  have : List.take (a.length + k) a = a := List.take_of_length_le (by omega)
  simp [crash, List.take_append, List.foldl_append, this]

theorem ino_lt (d : Dir) (n : Nat) (hd : ∀ e ∈ d, e.2 < n) (a : Name) (i : Nat) (h : ino d a = some i) : i < n := by
  induction d with
  | nil => simp [ino] at h
  | cons y d ih =>
    obtain ⟨q, j⟩ := y
    by_cases hq : q = a
    · simp only [ino, hq, if_true, Option.some.injEq] at h
      subst h; exact hd (q, j) (by simp)
    · simp only [ino, hq, if_false] at h
      exact ih (fun e he => hd e (by simp [he])) h

theorem wf_append_fresh (fs : FS) (p : Name) (c : Bytes) (h : WF fs) :
    WF { names := fs.names ++ [(p, fs.next)], data := upd fs.data fs.next c, next := fs.next + 1 } := by
  intro e he
  simp only [List.mem_append, List.mem_singleton] at he
  rcases he with he | he
  · have := h e he; simp only; omega
  · subst he; simp

theorem wf_apply (fs : FS) (s : Sys) (h : WF fs) : WF (apply fs s) := by
  cases s with
  | openTrunc p =>
    simp only [apply]
    cases ino fs.names p with
    | some i => exact h
    | none => exact wf_append_fresh fs p [] h
  | write p d =>
    simp only [apply]
    cases ino fs.names p <;> exact h
  | close p => exact h
  | rename a b =>
    simp only [apply]
    cases hA : ino fs.names a with
    | none => exact h
    | some i =>
      simp only
      by_cases hab : a = b
      · simp only [hab, if_true]; exact h
      · simp only [hab, if_false]
        have hi : i < fs.next := ino_lt fs.names fs.next h a i hA
        cases ino fs.names b with
        | some j =>
          intro e he
          have he' := mem_eraseN he
          simp only [replN, List.mem_map] at he'
          obtain ⟨x, hx, rfl⟩ := he'
          by_cases hx1 : x.1 = b
          · simp only [hx1, if_true]; exact hi
          · simp only [hx1, if_false]; exact h x hx
        | none =>
          intro e he
          simp only [renN, List.mem_map] at he
          obtain ⟨x, hx, rfl⟩ := he
          by_cases hx1 : x.1 = a
          · simp only [hx1, if_true]; exact h x hx
          · simp only [hx1, if_false]; exact h x hx
  | link a b =>
    simp only [apply]
    cases hA : ino fs.names a with
    | none => exact h
    | some i =>
      cases ino fs.names b with
      | some j => exact h
      | none =>
        have hi : i < fs.next := ino_lt fs.names fs.next h a i hA
        intro e he
        simp only [List.mem_append, List.mem_singleton] at he
        rcases he with he | he
        · exact h e he
        · subst he; exact hi
  | remove p => intro e he; exact h e (mem_eraseN he)
  | openKeep p =>
    simp only [apply]
    cases ino fs.names p with
    | some i => exact h
    | none => exact wf_append_fresh fs p [] h
  | overwrite p d =>
    simp only [apply]
    cases ino fs.names p <;> exact h

theorem wf_crash (prog : List Sys) (k : Nat) (fs : FS) (h : WF fs) : WF (crash prog k fs) := by
  induction prog generalizing k fs with
  | nil => simpa [crash] using h
  | cons s prog ih =>
    cases k with
    | zero => simpa [crash] using h
    | succ k => rw [crash_cons_succ]; exact ih k _ (wf_apply fs s h)

/-! ### inode data lemmas -/

theorem upd_same (f : Nat → Bytes) (i : Nat) (c : Bytes) : upd f i c i = c := by simp [upd]

theorem upd_other (f : Nat → Bytes) (i j : Nat) (c : Bytes) (h : j ≠ i) : upd f i c j = f j := by simp [upd, h]

theorem upd_upd (f : Nat → Bytes) (i : Nat) (a b : Bytes) : upd (upd f i a) i b = upd f i b := by
  funext j; by_cases h : j = i <;> simp [upd, h]

theorem ino_mem (d : Dir) (q : Name) (i : Nat) (h : ino d q = some i) : (q, i) ∈ d := by
  induction d with
  | nil => simp [ino] at h
  | cons e d ih =>
    obtain ⟨r, j⟩ := e
    by_cases hr : r = q
    · simp only [ino, hr, if_true, Option.some.injEq] at h
      subst hr; subst h; simp
    · simp only [ino, hr, if_false] at h
      exact List.mem_cons_of_mem _ (ih h)

theorem ino_renN_old (d : Dir) (a b : Name) (hab : a ≠ b) : ino (renN d a b) a = none := by
  induction d with
  | nil => rfl
  | cons e d ih =>
    obtain ⟨q, j⟩ := e
    simp only [renN] at ih
    by_cases hq : q = a
    · subst hq; simp [renN, ino, Ne.symm hab, ih]
    · simp [renN, ino, hq, ih]

/-! ### the account programs (`fix: 57e02c9`): the temp file always gets an inode of its own -/

/-- The directory as seen by a loader that does not look at `tmp`, after `tmp` was re-created on a fresh inode. -/
theorem view_fresh (vis : Name → Bool) (fs : FS) (hwf : WF fs) (tmp : Name) (c : Bytes) (hvis : vis tmp = false) :
    viewD vis (upd fs.data fs.next c) (eraseN fs.names tmp ++ [(tmp, fs.next)]) = view vis fs := by
  rw [viewD_append]
  have h2 : viewD vis (upd fs.data fs.next c) [(tmp, fs.next)] = [] := by simp [viewD, hvis]
  rw [h2, List.append_nil]
  have h1 : viewD vis (upd fs.data fs.next c) (eraseN fs.names tmp) = viewD vis fs.data (eraseN fs.names tmp) := by
    apply viewD_congr
    intro e he
    have := hwf e (mem_eraseN he)
    exact upd_other _ _ _ _ (by omega)
  rw [h1, viewD_eraseN_invisible vis fs.data fs.names tmp hvis]
  rfl

theorem freshWrite_at1 (fs : FS) (tmp : Name) (d : Bytes) :
    crash (freshWrite tmp d) 1 fs = { fs with names := eraseN fs.names tmp } := by
  simp [crash, freshWrite, apply]

theorem freshWrite_at2 (fs : FS) (tmp : Name) (d : Bytes) :
    crash (freshWrite tmp d) 2 fs =
      ⟨eraseN fs.names tmp ++ [(tmp, fs.next)], upd fs.data fs.next [], fs.next + 1⟩ := by
  simp [crash, freshWrite, writeFile, apply, ino_eraseN_eq]

theorem freshWrite_done (fs : FS) (tmp : Name) (d : Bytes) :
    crash (freshWrite tmp d) 4 fs =
      ⟨eraseN fs.names tmp ++ [(tmp, fs.next)], upd fs.data fs.next d, fs.next + 1⟩ := by
  have hi : ino (eraseN fs.names tmp ++ [(tmp, fs.next)]) tmp = some fs.next := by
    rw [ino_append, ino_eraseN_eq]; simp
  simp [crash, freshWrite, writeFile, apply, ino_eraseN_eq, hi, upd_upd, upd_same]

theorem freshWrite_at3 (fs : FS) (tmp : Name) (d : Bytes) :
    crash (freshWrite tmp d) 3 fs = crash (freshWrite tmp d) 4 fs := by
  simp [crash, freshWrite, writeFile, apply]

/-- While the temp file is being written (any prefix of `freshWrite`), a loader that ignores `tmp` sees
    exactly what it saw before – whatever `tmp` was linked to. -/
theorem freshWrite_prefix_view (vis : Name → Bool) (fs : FS) (hwf : WF fs) (tmp : Name) (d : Bytes)
    (hvis : vis tmp = false) (k : Nat) : view vis (crash (freshWrite tmp d) k fs) = view vis fs := by
  match k with
  | 0 => simp [crash]
  | 1 =>
    rw [freshWrite_at1]
    exact viewD_eraseN_invisible vis fs.data fs.names tmp hvis
  | 2 => rw [freshWrite_at2]; exact view_fresh vis fs hwf tmp [] hvis
  | 3 => rw [freshWrite_at3, freshWrite_done]; exact view_fresh vis fs hwf tmp d hvis
  | k + 4 =>
    rw [crash_ge _ _ _ (by simp [freshWrite, writeFile])]
    have : (freshWrite tmp d).length = 4 := by simp [freshWrite, writeFile]
    rw [this, freshWrite_done]; exact view_fresh vis fs hwf tmp d hvis

theorem freshTempRename_view (vis : Name → Bool) (fs : FS) (hwf : WF fs) (tmp p : Name) (new : Bytes)
    (hvis : vis tmp = false) (hne : tmp ≠ p) (hex : ino fs.names p ≠ none) (k : Nat) :
    (view vis (crash (freshTempRename tmp p new) k fs) = view vis fs ∨
      view vis (crash (freshTempRename tmp p new) k fs) = setV (view vis fs) p new) ∧
    (5 ≤ k → view vis (crash (freshTempRename tmp p new) k fs) = setV (view vis fs) p new) := by
  by_cases hk : k ≤ 4
  · have hpre : crash (freshTempRename tmp p new) k fs = crash (freshWrite tmp new) k fs :=
      crash_append_le _ _ _ _ (by simpa [freshWrite, writeFile] using hk)
    rw [hpre]
    exact ⟨Or.inl (freshWrite_prefix_view vis fs hwf tmp new hvis k), by omega⟩
  · have hfull : crash (freshTempRename tmp p new) k fs =
        apply ⟨eraseN fs.names tmp ++ [(tmp, fs.next)], upd fs.data fs.next new, fs.next + 1⟩ (.rename tmp p) := by
      rw [crash_ge _ _ _ (by simp [freshTempRename, freshWrite, writeFile]; omega)]
      have := crash_append_ge (freshWrite tmp new) [.rename tmp p] 1 fs
      have hl : (freshWrite tmp new).length = 4 := by simp [freshWrite, writeFile]
      rw [hl] at this
      have hl2 : (freshTempRename tmp p new).length = 4 + 1 := by simp [freshTempRename, freshWrite, writeFile]
      rw [hl2]
      simp only [freshTempRename]
      rw [this, freshWrite_done]
      simp [crash]
    obtain ⟨i0, hi0⟩ := Option.ne_none_iff_exists'.mp hex
    have htmp : ino (eraseN fs.names tmp ++ [(tmp, fs.next)]) tmp = some fs.next := by
      rw [ino_append, ino_eraseN_eq]; simp
    have hp : ino (eraseN fs.names tmp ++ [(tmp, fs.next)]) p = some i0 := by
      rw [ino_append, ino_eraseN_ne _ _ _ (Ne.symm hne), hi0]
    have hnames : eraseN (replN (eraseN fs.names tmp ++ [(tmp, fs.next)]) p fs.next) tmp
        = replN (eraseN fs.names tmp) p fs.next := by
      rw [replN_append_ne _ _ _ _ _ hne, eraseN_append_self, eraseN_replN _ _ _ _ hne, eraseN_eraseN]
    have hv : view vis (crash (freshTempRename tmp p new) k fs) = setV (view vis fs) p new := by
      rw [hfull]
      simp only [apply, htmp, hne, if_false, hp, hnames, view]
      rw [viewD_replN, upd_same]
      congr 1
      have h1 : viewD vis (upd fs.data fs.next new) (eraseN fs.names tmp) = viewD vis fs.data (eraseN fs.names tmp) := by
        apply viewD_congr
        intro e he
        have := hwf e (mem_eraseN he)
        exact upd_other _ _ _ _ (by omega)
      rw [h1, viewD_eraseN_invisible vis fs.data fs.names tmp hvis]
    exact ⟨Or.inr hv, fun _ => hv⟩

/-- Account creation: the loader sees the old directory until the `link`, and from then on the old directory
    plus the complete new file; a left-over temp name – even one still linked to an account file – is never
    written through. -/
theorem freshCreateLink_view (vis : Name → Bool) (fs : FS) (hwf : WF fs) (tmp final : Name) (d : Bytes)
    (hvis : vis tmp = false) (hne : tmp ≠ final) (hnew : ino fs.names final = none) (k : Nat) :
    (k ≤ 4 → view vis (crash (freshCreateLink tmp final d) k fs) = view vis fs) ∧
    (5 ≤ k → view vis (crash (freshCreateLink tmp final d) k fs) =
        view vis fs ++ (if vis final then [(final, d)] else [])) := by
  have hl : (freshWrite tmp d).length = 4 := by simp [freshWrite, writeFile]
  have htmp : ino (eraseN fs.names tmp ++ [(tmp, fs.next)]) tmp = some fs.next := by
    rw [ino_append, ino_eraseN_eq]; simp
  have hfin : ino (eraseN fs.names tmp ++ [(tmp, fs.next)]) final = none := by
    rw [ino_append, ino_eraseN_ne _ _ _ (Ne.symm hne), hnew]; simp [hne]
  have hlink : apply ⟨eraseN fs.names tmp ++ [(tmp, fs.next)], upd fs.data fs.next d, fs.next + 1⟩ (.link tmp final)
      = ⟨eraseN fs.names tmp ++ [(tmp, fs.next)] ++ [(final, fs.next)], upd fs.data fs.next d, fs.next + 1⟩ := by
    simp [apply, htmp, hfin]
  have hv5 : viewD vis (upd fs.data fs.next d) (eraseN fs.names tmp ++ [(tmp, fs.next)] ++ [(final, fs.next)])
      = view vis fs ++ (if vis final then [(final, d)] else []) := by
    rw [viewD_append, view_fresh vis fs hwf tmp d hvis]
    congr 1
    cases hvf : vis final <;> simp [viewD, hvf, upd_same]
  constructor
  · intro hk
    have hpre : crash (freshCreateLink tmp final d) k fs = crash (freshWrite tmp d) k fs :=
      crash_append_le _ _ _ _ (by rw [hl]; exact hk)
    rw [hpre]; exact freshWrite_prefix_view vis fs hwf tmp d hvis k
  · intro hk
    by_cases h5 : k = 5
    · subst h5
      have := crash_append_ge (freshWrite tmp d) [.link tmp final, .remove tmp] 1 fs
      rw [hl] at this
      simp only [freshCreateLink]
      rw [this, freshWrite_done]
      have : crash [Sys.link tmp final, Sys.remove tmp] 1
          ⟨eraseN fs.names tmp ++ [(tmp, fs.next)], upd fs.data fs.next d, fs.next + 1⟩
          = apply ⟨eraseN fs.names tmp ++ [(tmp, fs.next)], upd fs.data fs.next d, fs.next + 1⟩ (.link tmp final) := by
        simp [crash]
      rw [this, hlink]
      exact hv5
    · rw [crash_ge _ _ _ (by simp [freshCreateLink, freshWrite, writeFile]; omega)]
      have := crash_append_ge (freshWrite tmp d) [.link tmp final, .remove tmp] 2 fs
      rw [hl] at this
      have hl2 : (freshCreateLink tmp final d).length = 4 + 2 := by simp [freshCreateLink, freshWrite, writeFile]
      rw [hl2]
      simp only [freshCreateLink]
      rw [this, freshWrite_done]
      have : crash [Sys.link tmp final, Sys.remove tmp] 2
          ⟨eraseN fs.names tmp ++ [(tmp, fs.next)], upd fs.data fs.next d, fs.next + 1⟩
          = apply (apply ⟨eraseN fs.names tmp ++ [(tmp, fs.next)], upd fs.data fs.next d, fs.next + 1⟩ (.link tmp final))
              (.remove tmp) := by
        simp [crash]
      rw [this, hlink]
      simp only [apply, view]
      rw [viewD_eraseN_invisible vis _ _ tmp hvis]
      exact hv5

/-- Account rename + update: after the first call the file has its new NAME but still the complete OLD
    content, so a loader that keys accounts by the login inside the file loads the old value. -/
theorem freshRenameUpdate_contents (vis : Name → Bool) (fs : FS) (hwf : WF fs) (tmp old new : Name) (d : Bytes)
    (hvis : vis tmp = false) (hvo : vis old = vis new) (hto : tmp ≠ new) (hon : old ≠ new)
    (hold : ino fs.names old ≠ none) (hnew : ino fs.names new = none) (k : Nat) :
    (contents vis (crash (freshRenameUpdate tmp old new d) k fs) = contents vis fs ∨
      contents vis (crash (freshRenameUpdate tmp old new d) k fs) =
        (setV (view vis { fs with names := renN fs.names old new }) new d).map (·.2)) ∧
    (6 ≤ k → contents vis (crash (freshRenameUpdate tmp old new d) k fs) =
        (setV (view vis { fs with names := renN fs.names old new }) new d).map (·.2)) := by
  match k with
  | 0 => exact ⟨Or.inl (by simp [crash]), by omega⟩
  | k + 1 =>
    obtain ⟨i0, hi0⟩ := Option.ne_none_iff_exists'.mp hold
    have h1 : apply fs (.rename old new) = { fs with names := renN fs.names old new } := by
      simp [apply, hi0, hon, hnew]
    have hwf1 : WF { fs with names := renN fs.names old new } := h1 ▸ wf_apply fs (.rename old new) hwf
    have hex : ino (renN fs.names old new) new ≠ none := by
      rw [ino_renN_new fs.names old new hon hnew, hi0]; simp
    have hA := freshTempRename_view vis { fs with names := renN fs.names old new } hwf1 tmp new d hvis hto hex k
    simp only [freshRenameUpdate, crash_cons_succ, h1]
    have hsame : contents vis { fs with names := renN fs.names old new } = contents vis fs :=
      contents_renN vis fs.data fs.names old new hvo
    refine ⟨?_, ?_⟩
    · rcases hA.1 with h | h
      · left; simp only [contents, h]; exact hsame
      · right; simp only [contents, h]
    · intro hk
      simp only [contents, hA.2 (by omega)]

/-! ### single-file stores (board, threaded news, ban list): `tempRename` with a private temp file -/

/-- Nothing else is linked to the temp file (no `link` is ever made on these names). -/
def TmpPrivate (fs : FS) (tmp : Name) : Prop :=
  ∀ i, ino fs.names tmp = some i → ∀ e ∈ fs.names, e.2 = i → e.1 = tmp

/-- `open(tmp, O_CREAT|O_TRUNC)` with a private temp: afterwards `tmp` has an empty inode `j` of its own and every
    other name shows what it showed before. -/
theorem openTrunc_private (fs : FS) (hwf : WF fs) (tmp : Name) (hp : TmpPrivate fs tmp) :
    ∃ j, ino (apply fs (.openTrunc tmp)).names tmp = some j ∧
      (apply fs (.openTrunc tmp)).data = upd fs.data j [] ∧
      (∀ e ∈ (apply fs (.openTrunc tmp)).names, e.2 = j → e.1 = tmp) ∧
      (∀ q, q ≠ tmp → ino (apply fs (.openTrunc tmp)).names q = ino fs.names q) ∧
      WF (apply fs (.openTrunc tmp)) := by
  have hwf' := wf_apply fs (.openTrunc tmp) hwf
  cases hi : ino fs.names tmp with
  | some j =>
    refine ⟨j, ?_, ?_, ?_, ?_, hwf'⟩
    · simp [apply, hi]
    · simp [apply, hi]
    · intro e he hej
      have : e ∈ fs.names := by simpa [apply, hi] using he
      exact hp j hi e this hej
    · intro q _; simp [apply, hi]
  | none =>
    refine ⟨fs.next, ?_, ?_, ?_, ?_, hwf'⟩
    · simp only [apply, hi]; rw [ino_append, hi]; simp
    · simp [apply, hi]
    · intro e he hej
      simp only [apply, hi, List.mem_append, List.mem_singleton] at he
      rcases he with he | he
      · have := hwf e he; omega
      · rw [he]
    · intro q hq
      simp only [apply, hi]
      rw [ino_append]
      cases ino fs.names q <;> simp [Ne.symm hq]

/-- A name other than the private temp shows the same content when only the temp's inode was rewritten. -/
theorem get_other_private (N : Dir) (f : Nat → Bytes) (j : Nat) (c : Bytes) (tmp q : Name) (hq : q ≠ tmp)
    (hpriv : ∀ e ∈ N, e.2 = j → e.1 = tmp) : (ino N q).map (upd f j c) = (ino N q).map f := by
  cases hi : ino N q with
  | none => rfl
  | some iq =>
    have hm := ino_mem N q iq hi
    have : iq ≠ j := fun h => hq (hpriv (q, iq) hm h)
    simp [upd_other _ _ _ _ this]

/-- get-level atomicity of write-temp-then-rename for every crash point and every prior state in which the temp
    name is private (absent, or a stale file of its own): the target holds the old or the new content, the new one
    once all four calls are done; every other file is untouched; and the crash state again has a private temp and
    is well formed – so the statement applies again to whatever comes next (crash – restart – continue). -/
theorem tempRename_get (fs : FS) (hwf : WF fs) (tmp p : Name) (new : Bytes) (hne : tmp ≠ p)
    (hp : TmpPrivate fs tmp) (k : Nat) :
    (get (crash (tempRename tmp p new) k fs) p = get fs p ∨
      get (crash (tempRename tmp p new) k fs) p = some new) ∧
    (4 ≤ k → get (crash (tempRename tmp p new) k fs) p = some new) ∧
    (∀ q, q ≠ p → q ≠ tmp → get (crash (tempRename tmp p new) k fs) q = get fs q) ∧
    WF (crash (tempRename tmp p new) k fs) ∧ TmpPrivate (crash (tempRename tmp p new) k fs) tmp := by
  refine ⟨?_, ?_, ?_, wf_crash _ k fs hwf, ?_⟩ <;>
  obtain ⟨j, h1, h2, h3, h4, _⟩ := openTrunc_private fs hwf tmp hp <;>
  obtain ⟨S1, e1⟩ : ∃ S1, S1 = apply fs (.openTrunc tmp) := ⟨_, rfl⟩
  all_goals
    rw [← e1] at h1 h2 h3 h4
    have hS2 : apply S1 (.write tmp new) = { S1 with data := upd fs.data j new } := by
      simp only [apply, h1]
      congr 1
      rw [h2, upd_same, upd_upd]; rfl
    have hk0 : crash (tempRename tmp p new) 0 fs = fs := by simp [crash]
    have hk1 : crash (tempRename tmp p new) 1 fs = S1 := by rw [e1]; simp [crash, tempRename, writeFile]
    have hk2 : crash (tempRename tmp p new) 2 fs = { S1 with data := upd fs.data j new } := by
      rw [← hS2, e1]; simp [crash, tempRename, writeFile]
    have hk3 : crash (tempRename tmp p new) 3 fs = { S1 with data := upd fs.data j new } := by
      rw [← hS2, e1]; simp [crash, tempRename, writeFile, apply]
    have hk4 : ∀ k, 4 ≤ k → crash (tempRename tmp p new) k fs =
        apply { S1 with data := upd fs.data j new } (.rename tmp p) := by
      intro k hk
      rw [crash_ge _ _ _ (by simpa [tempRename, writeFile] using hk), ← hS2, e1]
      simp [crash, tempRename, writeFile, apply]
    -- the state after the rename, in both cases (target present / absent)
    have hren : ∀ q, get (apply { S1 with data := upd fs.data j new } (.rename tmp p)) q =
        if q = p then some new else if q = tmp then none else get fs q := by
      intro q
      have hpp : ino S1.names p = ino fs.names p := h4 p (Ne.symm hne)
      cases hip : ino fs.names p with
      | some i0 =>
        simp only [apply, h1, hne, if_false, hpp, hip, get]
        by_cases hq : q = p
        · subst hq
          rw [ino_eraseN_ne _ _ _ (Ne.symm hne), ino_replN_eq _ _ _ (by rw [hpp, hip]; simp)]
          simp [upd_same]
        · by_cases hqt : q = tmp
          · subst hqt; simp [hq, ino_eraseN_eq]
          · simp only [hq, hqt, if_false]
            rw [ino_eraseN_ne _ _ _ hqt, ino_replN_ne _ _ _ _ hq,
              get_other_private _ _ _ _ tmp q hqt h3, h4 q hqt]
      | none =>
        simp only [apply, h1, hne, if_false, hpp, hip, get]
        by_cases hq : q = p
        · subst hq
          rw [ino_renN_new _ _ _ hne (by rw [hpp, hip]), h1]
          simp [upd_same]
        · by_cases hqt : q = tmp
          · subst hqt; simp [hq, ino_renN_old _ _ _ hne]
          · simp only [hq, hqt, if_false]
            rw [ino_renN_other _ _ _ _ hqt hq, get_other_private _ _ _ _ tmp q hqt h3, h4 q hqt]
    -- a name other than tmp in the states before the rename
    have hpre1 : ∀ q, q ≠ tmp → get S1 q = get fs q := by
      intro q hq
      simp only [get, h2]
      rw [get_other_private _ _ _ _ tmp q hq h3, h4 q hq]
    have hpre2 : ∀ q, q ≠ tmp → get { S1 with data := upd fs.data j new } q = get fs q := by
      intro q hq
      simp only [get]
      rw [get_other_private _ _ _ _ tmp q hq h3, h4 q hq]
  · -- old or new
    match k with
    | 0 => left; rw [hk0]
    | 1 => left; rw [hk1]; exact hpre1 p (Ne.symm hne)
    | 2 => left; rw [hk2]; exact hpre2 p (Ne.symm hne)
    | 3 => left; rw [hk3]; exact hpre2 p (Ne.symm hne)
    | k + 4 => right; rw [hk4 (k + 4) (by omega), hren]; simp
  · intro hk; rw [hk4 k hk, hren]; simp
  · intro q hq hqt
    match k with
    | 0 => rw [hk0]
    | 1 => rw [hk1]; exact hpre1 q hqt
    | 2 => rw [hk2]; exact hpre2 q hqt
    | 3 => rw [hk3]; exact hpre2 q hqt
    | k + 4 => rw [hk4 (k + 4) (by omega), hren]; simp [hq, hqt]
  · -- the temp is private again
    have hprivS : ∀ (S : FS), S.names = S1.names → TmpPrivate S tmp := by
      intro S hS i hi e he hei
      rw [hS] at hi he
      rw [h1] at hi
      have : i = j := by simpa using hi.symm
      exact h3 e he (this ▸ hei)
    match k with
    | 0 => rw [hk0]; exact hp
    | 1 => rw [hk1]; exact hprivS _ rfl
    | 2 => rw [hk2]; exact hprivS _ rfl
    | 3 => rw [hk3]; exact hprivS _ rfl
    | k + 4 =>
      intro i hi
      have := hren tmp
      rw [← hk4 (k + 4) (by omega)] at this
      simp only [get] at this
      rw [hi] at this
      simp at this
      exact absurd this.1 hne

/-! ### name lemmas -/

theorem isYaml_account_tmp : isYaml ".account.tmp".toList = false := by decide

/-- `<anything>.tmp` is not matched by `*.yaml`. -/
theorem isYaml_dot_tmp (x : Name) : isYaml (x ++ ".tmp".toList) = false := by
  simp only [isYaml, List.isSuffixOf, List.reverse_append]
  rfl

/-- HAZARD (why the temp name matters): `<anything>.tmp.yaml` IS matched by `*.yaml`. -/
theorem isYaml_tmp_dot_yaml (x : Name) : isYaml (x ++ ".tmp.yaml".toList) = true := by
  simp only [isYaml, List.isSuffixOf, List.reverse_append]
  rfl

theorem isYaml_login (l : Name) : isYaml (l ++ ".yaml".toList) = true := by
  simp only [isYaml, List.isSuffixOf, List.reverse_append]
  rfl

theorem append_tmp_ne (p : Name) : p ++ ".tmp".toList ≠ p := by
  intro h
  have := congrArg List.length h
  simp at this

theorem account_tmp_ne_login (l : Name) : ".account.tmp".toList ≠ l ++ ".yaml".toList := by
  intro h
  have h1 : isYaml ".account.tmp".toList = isYaml (l ++ ".yaml".toList) := by rw [h]
  rw [isYaml_account_tmp, isYaml_login] at h1
  exact Bool.false_ne_true h1

/-! ### the account store as a whole: operations, histories, the loader's repair -/

/-- the account loader's result as a function of what it lists -/
def loadView {α : Type} (deser : Bytes → Option α) (v : View) : Option (List α) :=
  if (v.map (·.2)).isEmpty then none else (v.map (·.2)).mapM deser

theorem loadAccounts_eq {α : Type} (deser : Bytes → Option α) (fs : FS) :
    loadAccounts deser fs = loadView deser (view isYaml fs) := rfl

def acctTmp : Name := ".account.tmp".toList
def acctFile (login : Name) : Name := login ++ ".yaml".toList

inductive AcctOp where
  | create (login : Name) (d : Bytes)
  | update (old new : Name) (d : Bytes)
  | delete (login : Name)

/-- the system calls `YAMLAccountManager.Create / Update / Delete` make in directory state `fs` -/
def acctProg (fs : FS) : AcctOp → List Sys
  | .create l d => freshCreateLink acctTmp (acctFile l) d
  | .update o n d => updateProg acctTmp fs (acctFile o) (acctFile n) d
  | .delete l => [.remove (acctFile l)]

/-- operations the server performs in this state: it creates only logins that do not exist and updates only
    accounts that exist (handler checks; C15) -/
def AcctOp.Valid (fs : FS) : AcctOp → Prop
  | .create l _ => ino fs.names (acctFile l) = none
  | .update o _ _ => ino fs.names (acctFile o) ≠ none
  | .delete _ => True

/-- run an operation; `kill = some k`: the process dies after `k` of its calls, `none`: it runs to the end -/
def runOp (fs : FS) (op : AcctOp) (kill : Option Nat) : FS :=
  crash (acctProg fs op) (kill.getD (acctProg fs op).length) fs

/-- what `NewYAMLAccountManager` sees -/
def obs (fs : FS) : List Bytes := contents isYaml fs

/-- The loader's repair (`fix: 083f744`): a listed file whose name is not `<login inside>.yaml` is renamed to that
    name unless it exists.  `loginOf` (the YAML decoder's Login field) is a parameter. -/
def repairStep (loginOf : Bytes → Option Name) (fs : FS) (e : Name × Nat) : FS :=
  match loginOf (fs.data e.2) with
  | some l =>
    if acctFile l ≠ e.1 ∧ ino fs.names (acctFile l) = none then apply fs (.rename e.1 (acctFile l)) else fs
  | none => fs

def recover (loginOf : Bytes → Option Name) (fs : FS) : FS :=
  (fs.names.filter fun e => isYaml e.1).foldl (repairStep loginOf) fs

theorem wf_recover (loginOf : Bytes → Option Name) (fs : FS) (h : WF fs) : WF (recover loginOf fs) := by
  unfold recover
  generalize (fs.names.filter fun e => isYaml e.1) = l
  induction l generalizing fs with
  | nil => exact h
  | cons e l ih =>
    apply ih
    unfold repairStep
    split
    · split
      · exact wf_apply _ _ h
      · exact h
    · exact h

/-- Every single account operation is atomic and durable in EVERY well-formed directory state – whatever earlier
    crashes left behind (stale temp file, temp name still linked to an account file, …): a kill at any point
    leaves the loader seeing what it saw before or what it sees after the completed operation; and the state is
    well formed again. -/
theorem acct_step_atomic (fs : FS) (hwf : WF fs) (op : AcctOp) (hv : op.Valid fs) (kill : Option Nat) :
    (obs (runOp fs op kill) = obs fs ∨ obs (runOp fs op kill) = obs (runOp fs op none)) ∧
    WF (runOp fs op kill) := by
  refine ⟨?_, wf_crash _ _ fs hwf⟩
  cases op with
  | create l d =>
    have hl : (freshCreateLink acctTmp (acctFile l) d).length = 6 := by simp [freshCreateLink, freshWrite, writeFile]
    have h := fun k => freshCreateLink_view isYaml fs hwf acctTmp (acctFile l) d isYaml_account_tmp
      (account_tmp_ne_login l) hv k
    simp only [runOp, acctProg, obs, contents, Option.getD_none, hl]
    by_cases hk : kill.getD 6 ≤ 4
    · left; rw [(h _).1 hk]
    · right; rw [(h _).2 (by omega), (h 6).2 (by omega)]
  | update o n d =>
    simp only [runOp, acctProg, obs, Option.getD_none]
    unfold updateProg
    by_cases hsame : acctFile o = acctFile n
    · simp only [hsame, if_true]
      have hex : ino fs.names (acctFile n) ≠ none := hsame ▸ hv
      have hl : (freshTempRename acctTmp (acctFile n) d).length = 5 := by simp [freshTempRename, freshWrite, writeFile]
      have h := fun k => freshTempRename_view isYaml fs hwf acctTmp (acctFile n) d isYaml_account_tmp
        (account_tmp_ne_login n) hex k
      rw [hl]
      rcases (h (kill.getD 5)).1 with h1 | h1
      · left; simp only [contents, h1]
      · right; simp only [contents, h1, (h 5).2 (by omega)]
    · simp only [hsame, if_false]
      cases hn : ino fs.names (acctFile n) with
      | some c => left; simp [crash]
      | none =>
        simp only [Option.isSome_none, Bool.false_eq_true, if_false]
        have hvv : isYaml (acctFile o) = isYaml (acctFile n) := by
          simp only [acctFile]; rw [isYaml_login, isYaml_login]
        have hl : (freshRenameUpdate acctTmp (acctFile o) (acctFile n) d).length = 6 := by
          simp [freshRenameUpdate, freshTempRename, freshWrite, writeFile]
        have h := fun k => freshRenameUpdate_contents isYaml fs hwf acctTmp (acctFile o) (acctFile n) d
          isYaml_account_tmp hvv (account_tmp_ne_login n) hsame hv hn k
        rw [hl]
        rcases (h (kill.getD 6)).1 with h1 | h1
        · left; exact h1
        · right; rw [h1, (h 6).2 (by omega)]
  | delete l =>
    simp only [runOp, acctProg, obs, Option.getD_none]
    cases kill with
    | none => right; rfl
    | some k =>
      cases k with
      | zero => left; simp [crash]
      | succ k => right; simp [crash]

/-- Crash – restart (with the loader's repair) – continue histories of the account store. -/
inductive Hist (loginOf : Bytes → Option Name) (fs0 : FS) : FS → Prop where
  | start : Hist loginOf fs0 fs0
  | op {fs : FS} (o : AcctOp) (kill : Option Nat) : Hist loginOf fs0 fs → o.Valid fs → Hist loginOf fs0 (runOp fs o kill)
  | restart {fs : FS} : Hist loginOf fs0 fs → Hist loginOf fs0 (recover loginOf fs)

theorem hist_wf (loginOf : Bytes → Option Name) (fs0 fs : FS) (h0 : WF fs0) (h : Hist loginOf fs0 fs) : WF fs := by
  induction h with
  | start => exact h0
  | op o kill _ hv ih => exact (acct_step_atomic _ ih o hv kill).2
  | restart _ ih => exact wf_recover loginOf _ ih

/-! ### the loader's repair undoes an interrupted rename -/

theorem ino_none_not_mem (d : Dir) (p : Name) (h : ino d p = none) : ∀ e ∈ d, e.1 ≠ p := by
  induction d with
  | nil => intro e he; simp at he
  | cons x d ih =>
    obtain ⟨q, j⟩ := x
    by_cases hq : q = p
    · simp [ino, hq] at h
    · have h' : ino d p = none := by simpa [ino, hq] using h
      intro e he
      simp only [List.mem_cons] at he
      rcases he with rfl | he
      · exact hq
      · exact ih h' e he

theorem renN_renN_back (d : Dir) (a b : Name) (hb : ∀ e ∈ d, e.1 ≠ b) : renN (renN d a b) b a = d := by
  induction d with
  | nil => rfl
  | cons x d ih =>
    obtain ⟨q, j⟩ := x
    have ih' := ih (fun e he => hb e (by simp [he]))
    simp only [renN] at ih'
    have hqb : q ≠ b := hb (q, j) (by simp)
    by_cases hq : q = a
    · subst hq; simp [renN, ih']
    · simp [renN, hq, hqb, ih']

/-- If exactly the files called `newF` hold an account whose login says `oldF` (and `oldF` does not exist), the
    repair renames them back and touches nothing else. -/
theorem recover_undoes_rename (loginOf : Bytes → Option Name) (fs : FS) (oldF newF : Name) (hon : oldF ≠ newF)
    (hnew : ino fs.names newF ≠ none) (hold : ino fs.names oldF = none) (hy : isYaml newF = true)
    (H : ∀ e ∈ fs.names, isYaml e.1 = true →
      ∃ l, loginOf (fs.data e.2) = some l ∧ acctFile l = (if e.1 = newF then oldF else e.1)) :
    (recover loginOf fs).names = renN fs.names newF oldF ∧ (recover loginOf fs).data = fs.data := by
  obtain ⟨i0, hi0⟩ := Option.ne_none_iff_exists'.mp hnew
  -- invariant of the fold
  have key : ∀ (L : List (Name × Nat)), (∀ e ∈ L, e ∈ fs.names ∧ isYaml e.1 = true) →
      ∀ (cur : FS), cur.data = fs.data →
        (cur.names = fs.names ∨ cur.names = renN fs.names newF oldF) →
        ((L.foldl (repairStep loginOf) cur).data = fs.data ∧
         ((L.foldl (repairStep loginOf) cur).names = fs.names ∨
           (L.foldl (repairStep loginOf) cur).names = renN fs.names newF oldF) ∧
         ((cur.names = renN fs.names newF oldF ∨ ∃ e ∈ L, e.1 = newF) →
           (L.foldl (repairStep loginOf) cur).names = renN fs.names newF oldF)) := by
    intro L
    induction L with
    | nil =>
      intro _ cur hd hn
      refine ⟨hd, hn, ?_⟩
      intro h; rcases h with h | ⟨e, he, _⟩
      · exact h
      · simp at he
    | cons e L ih =>
      intro hL cur hd hn
      obtain ⟨hmem, hyaml⟩ := hL e (by simp)
      obtain ⟨l, hl, hfile⟩ := H e hmem hyaml
      have hstep : (repairStep loginOf cur e).data = fs.data ∧
          ((repairStep loginOf cur e).names = fs.names ∨ (repairStep loginOf cur e).names = renN fs.names newF oldF) ∧
          ((cur.names = renN fs.names newF oldF ∨ e.1 = newF) →
            (repairStep loginOf cur e).names = renN fs.names newF oldF) := by
        unfold repairStep
        rw [hd, hl]
        dsimp only
        by_cases he : e.1 = newF
        · simp only [he, if_true] at hfile
          rcases hn with hn | hn
          · -- not yet renamed: rename it back
            have h1 : acctFile l ≠ e.1 ∧ ino cur.names (acctFile l) = none := by
              rw [hfile, he, hn]; exact ⟨hon, hold⟩
            rw [if_pos h1]
            have : apply cur (.rename e.1 (acctFile l)) = { cur with names := renN fs.names newF oldF } := by
              rw [hfile, he]
              simp [apply, hn, hi0, Ne.symm hon, hold]
            rw [this]
            exact ⟨hd, Or.inr rfl, fun _ => rfl⟩
          · have h1 : ¬ (acctFile l ≠ e.1 ∧ ino cur.names (acctFile l) = none) := by
              rw [hfile, hn, ino_renN_new _ _ _ (Ne.symm hon) hold, hi0]; simp
            rw [if_neg h1]
            exact ⟨hd, Or.inr hn, fun _ => hn⟩
        · simp only [he, if_false] at hfile
          have h1 : ¬ (acctFile l ≠ e.1 ∧ ino cur.names (acctFile l) = none) := by
            rw [hfile]; simp
          rw [if_neg h1]
          refine ⟨hd, hn, ?_⟩
          intro h; rcases h with h | h
          · exact h
          · exact absurd h he
      obtain ⟨s1, s2, s3⟩ := hstep
      have := ih (fun x hx => hL x (by simp [hx])) (repairStep loginOf cur e) s1 s2
      simp only [List.foldl_cons]
      refine ⟨this.1, this.2.1, ?_⟩
      intro h
      apply this.2.2
      rcases h with h | ⟨x, hx, hxn⟩
      · exact Or.inl (s3 (Or.inl h))
      · simp only [List.mem_cons] at hx
        rcases hx with rfl | hx
        · exact Or.inl (s3 (Or.inr hxn))
        · exact Or.inr ⟨x, hx, hxn⟩
  have hL : ∀ e ∈ fs.names.filter (fun e => isYaml e.1), e ∈ fs.names ∧ isYaml e.1 = true := by
    intro e he; exact List.mem_filter.mp he
  have hres := key _ hL fs rfl (Or.inl rfl)
  have hin : ∃ e ∈ fs.names.filter (fun e => isYaml e.1), e.1 = newF :=
    ⟨(newF, i0), List.mem_filter.mpr ⟨ino_mem _ _ _ hi0, hy⟩, rfl⟩
  exact ⟨hres.2.2 (Or.inr hin), hres.1⟩

end Mobius.Crash
