import MobiusModel.Bytes
/-!
  Drain: the offset-tracking `io.Reader` every encoder in package hotline implements.

  `Read(p)`:  if off ≥ |buf| then (0, EOF) else n := copy(p, buf[off:]); off += n; (n, nil)
  `drain buf sizes off` calls `Read` with buffers of the scripted sizes until the script ends or EOF.
-/
namespace Mobius

theorem take_length_take {α} (l : List α) (n : Nat) : l.take (l.take n).length = l.take n := by
  induction l generalizing n with
  | nil => simp
  | cons a l ih => cases n <;> simp [*]

theorem drop_length_take {α} (l : List α) (n : Nat) : l.drop (l.take n).length = l.drop n := by
  induction l generalizing n with
  | nil => simp
  | cons a l ih => cases n <;> simp [*]

structure DrainRes where
  out : Bytes
  off : Nat
  eof : Bool
deriving Repr, DecidableEq

def drain (buf : Bytes) : List Nat → Nat → DrainRes
  | [], off => ⟨[], off, false⟩
  | n :: ns, off =>
    if buf.length ≤ off then ⟨[], off, true⟩
    else
      let chunk := (buf.drop off).take n
      let r := drain buf ns (off + chunk.length)
      ⟨chunk ++ r.out, r.off, r.eof⟩

/-- Whatever the script, the bytes delivered are exactly `buf[off₀ .. off]`. -/
theorem drain_prefix_exact (buf : Bytes) (ns : List Nat) (off : Nat) (h : off ≤ buf.length) :
    buf.take off ++ (drain buf ns off).out = buf.take (drain buf ns off).off ∧
    (drain buf ns off).off ≤ buf.length := by
  induction ns generalizing off with
  | nil => simp [drain, h]
  | cons n ns ih =>
    unfold drain
    split
    · simp [h]
    · rename_i hlt
      have hlen : ((buf.drop off).take n).length ≤ buf.length - off := by
        simp [List.length_take]; omega
      have h' : off + ((buf.drop off).take n).length ≤ buf.length := by omega
      have ⟨ih1, ih2⟩ := ih (off + ((buf.drop off).take n).length) h'
      refine ⟨?_, ih2⟩
      simp only
      rw [← ih1, ← List.append_assoc]
      congr 1
      rw [List.take_add, take_length_take]

/-- For every script of buffer sizes ≥ 1 that is long enough, draining delivers exactly `buf`
    and ends with EOF. -/
theorem drain_complete_from (buf : Bytes) (ns : List Nat) (off : Nat)
    (h1 : ∀ n ∈ ns, 1 ≤ n) (hoff : off ≤ buf.length) (h2 : buf.length - off < ns.length) :
    drain buf ns off = ⟨buf.drop off, buf.length, true⟩ := by
  induction ns generalizing off with
  | nil => simp at h2
  | cons n ns ih =>
    unfold drain
    split
    · rename_i hle
      have : off = buf.length := by omega
      subst this; simp
    · rename_i hlt
      have hn : 1 ≤ n := h1 n (by simp)
      have hlen : ((buf.drop off).take n).length = min n (buf.length - off) := by
        simp [List.length_take]
      have hpos : 1 ≤ ((buf.drop off).take n).length := by rw [hlen]; omega
      have hle' : off + ((buf.drop off).take n).length ≤ buf.length := by rw [hlen]; omega
      have := ih (off + ((buf.drop off).take n).length) (fun m hm => h1 m (by simp [hm])) hle'
        (by simp at h2 ⊢; omega)
      simp only [this]
      congr 1
      rw [← List.drop_drop, drop_length_take]
      exact List.take_append_drop n (buf.drop off)

theorem drain_complete (buf : Bytes) (ns : List Nat) (h1 : ∀ n ∈ ns, 1 ≤ n) (h2 : buf.length < ns.length) :
    drain buf ns 0 = ⟨buf, buf.length, true⟩ := by
  simpa using drain_complete_from buf ns 0 h1 (by omega) (by omega)

/-- Number of `Read` calls until EOF is reported is at most |buf| + 1 when every size is ≥ 1 —
    stated through `drain_complete`: a script of length |buf|+1 always suffices. -/
theorem drain_terminates (buf : Bytes) (ns : List Nat) (h1 : ∀ n ∈ ns, 1 ≤ n) (h2 : ns.length = buf.length + 1) :
    (drain buf ns 0).eof = true ∧ (drain buf ns 0).out = buf := by
  rw [drain_complete buf ns h1 (by omega)]; simp

end Mobius
