import MobiusModel.Wire
import MobiusModel.WireLemmas
import MobiusModel.WireLemmas3
/-!
  Downloads out of a namespace that contains ALIASES (symbolic links made by the Make-Alias handler; an alias
  of an alias is a chain).

  The file wrapper of a path `p` (`NewFileWrapper`) takes
    * the name, the `.rsrc_` side file and the type / creator codes from `p` ITSELF (the alias's own base name
      and folder), and
    * the data fork size and modification time from `FileStore.Stat(p)`, the data bytes from
      `FileStore.Open(p)` — both FOLLOW aliases to the end of the chain.
  That the size written into the DATA fork header / the download reply and the bytes streamed after the header
  come from the SAME resolution is what makes every size prefix agree with the bytes that follow it (C01) for
  aliases too.  `download` is the model (both through `resolve`); `downloadLstat` is the contrasting one whose
  size comes from the link itself, the witness that the theorems in `Props/C01` are not vacuous.

  (Self-contained on top of `Wire`: the download model of C08, `Transfers.lean`, cannot be imported next to
  `WireLemmas3`; the few header lemmas needed are proved here.)
-/
namespace Mobius.AliasNS

/-- What a path contributes by itself: base name, type / creator codes (from the extension), the stored
    `.rsrc_` side file next to it (`none` = no such file), modification time (8 bytes). -/
structure Own where
  name : Bytes
  ty : Bytes := [0x54, 0x45, 0x58, 0x54]
  creator : Bytes := [0x54, 0x54, 0x58, 0x54]
  rsrc : Option Bytes := none
  mtime : Bytes := List.replicate 8 0
deriving Repr

/-- A node of the file namespace.  Paths are abstract identifiers. -/
inductive Node where
  | file (own : Own) (data : Bytes)
  | alias (own : Own) (target : Nat)
  | dir

abbrev NS := List (Nat × Node)

def lookup (ns : NS) (p : Nat) : Option Node := (ns.find? (·.1 == p)).map (·.2)

/-- `os.Stat` / `os.Open`: follow aliases to the file at the end of the chain (`fuel` bounds the chain: a cycle
    or a dangling alias resolves to nothing): its modification time and data. -/
def resolve : Nat → NS → Nat → Option (Bytes × Bytes)
  | 0, _, _ => none
  | fuel + 1, ns, p =>
    match lookup ns p with
    | some (.file own d) => some (own.mtime, d)
    | some (.alias _ t) => resolve fuel ns t
    | _ => none

def ownOf (ns : NS) (p : Nat) : Option Own :=
  match lookup ns p with
  | some (.file own _) => some own
  | some (.alias own _) => some own
  | _ => none

/-- `FileStore.Stat(p)`: (modification time, size).  `FileStore.Open(p)` + read: the bytes. -/
def stat (ns : NS) (p : Nat) : Option (Bytes × Nat) := (resolve (ns.length + 1) ns p).map fun r => (r.1, r.2.length)
def openData (ns : NS) (p : Nat) : Option Bytes := (resolve (ns.length + 1) ns p).map (·.2)

/-- The information fork synthesised when no `.info_` side file exists. -/
def defaultInfo (own : Own) (mtime : Bytes) : InfoFork :=
  { platform := [0x41, 0x4D, 0x41, 0x43], ty := own.ty, creator := own.creator, flags := [0, 0, 0, 0],
    platformFlags := [0, 0, 1, 0], rsvd := List.replicate 32 0, createDate := mtime, modifyDate := mtime,
    script := [0, 0], name := own.name, comment := [] }

def rsrcLen (own : Own) : Nat := (own.rsrc.getD []).length

structure Reply where
  transferSize : Nat  -- field 108
  fileSize : Nat      -- field 207
deriving Repr, DecidableEq

/-- `HandleDownloadFile` + `DownloadHandler` for path `p` (no stored information fork, no preview); `k` = the
    resume offset (`none` = whole file).  Sizes from `stat`, bytes from `openData`. -/
def download (ns : NS) (p : Nat) (k : Option Nat) : Option (Reply × Bytes) :=
  match ownOf ns p, stat ns p, openData ns p with
  | some own, some (mtime, size), some data =>
    let info := defaultInfo own mtime
    let off := k.getD 0
    if off > size then none else
    let hdr := ffoHeader 2 info size
    let tail := (if k.isSome then [] else forkHeader macr (rsrcLen own)) ++ own.rsrc.getD []
    some (⟨(size - off) + rsrcLen own + (56 + info.size), size - off⟩, hdr ++ (data.drop off ++ tail))
  | _, _, _ => none

/-- `Stat` and `Open` resolve alike: the size is the length of the bytes. -/
theorem stat_open (ns : NS) (p : Nat) (m : Bytes) (n : Nat) (h : stat ns p = some (m, n)) :
    ∃ d, openData ns p = some d ∧ d.length = n := by
  unfold stat at h; unfold openData
  cases hr : resolve (ns.length + 1) ns p with
  | none => simp [hr] at h
  | some r =>
    simp only [hr, Option.map_some, Option.some.injEq, Prod.mk.injEq] at h
    exact ⟨r.2, rfl, h.2⟩

-- ---------------------------------------------------------------- the flattened header, decomposed

theorem ffoHeader_length (fc : Nat) (i : InfoFork) (ds : Nat) (h : i.fixedWF) :
    (ffoHeader fc i ds).length = 56 + i.size := by
  have := InfoFork.encode_length i h
  simp [ffoHeader, InfoFork.size, this]; omega

theorem ffoHeader_drop_dsize (fc : Nat) (i : InfoFork) (ds : Nat) (rest : Bytes) (h : i.fixedWF) :
    (ffoHeader fc i ds ++ rest).drop (52 + i.size) = be32 ds ++ rest := by
  have hl := InfoFork.encode_length i h
  have e : ffoHeader fc i ds ++ rest =
      ([0x46, 0x49, 0x4C, 0x50] ++ be16 1 ++ List.replicate 16 0 ++ be16 fc ++
        [0x49, 0x4E, 0x46, 0x4F] ++ [0, 0, 0, 0] ++ [0, 0, 0, 0] ++ be32 i.size ++ i.encode ++
        [0x44, 0x41, 0x54, 0x41] ++ [0, 0, 0, 0] ++ [0, 0, 0, 0]) ++ (be32 ds ++ rest) := by
    simp [ffoHeader]
  rw [e]
  apply List.drop_left'
  simp [InfoFork.size, hl]; omega

theorem ffoHeader_drop_all (fc : Nat) (i : InfoFork) (ds : Nat) (rest : Bytes) (h : i.fixedWF) :
    (ffoHeader fc i ds ++ rest).drop (56 + i.size) = rest :=
  List.drop_left' (ffoHeader_length fc i ds h)

theorem defaultInfo_fixedWF (own : Own) (mtime : Bytes) (hm : mtime.length = 8) (ht : own.ty.length = 4)
    (hc : own.creator.length = 4) : (defaultInfo own mtime).fixedWF := by
  simp [defaultInfo, InfoFork.fixedWF, hm, ht, hc]

/-- The contrasting wrapper: size from the link itself (`Lstat`: for an alias the length of the target path,
    here `linkLen`), bytes from the resolved file. -/
def downloadLstat (ns : NS) (p : Nat) (linkLen : Nat) : Option (Nat × Bytes) :=
  match lookup ns p, openData ns p with
  | some (.alias _ _), some d => some (linkLen, d)
  | some (.file _ _), some d => some (d.length, d)
  | _, _ => none

/-- A chain: a 5-byte file at path 0, an alias of it at path 1, an alias of the alias at path 2. -/
def demoNS : NS :=
  [(0, .file { name := [102] } [1, 2, 3, 4, 5]),
   (1, .alias { name := [102] } 0),
   (2, .alias { name := [102], rsrc := some [9, 9] } 1)]

end Mobius.AliasNS
