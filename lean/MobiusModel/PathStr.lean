import MobiusModel.PathAlg
/-!
  PathStr: the *string level* of the path algebra (DESIGN §6.6).

  * `splitSlash` / `renderAbs`: byte string ↔ component list;
  * `cleanStr` / `joinStr`: `path/filepath.Clean` and `Join` on byte strings (Unix), mirroring Go;
  * `readPathRaw`: `hotline.ReadPath` before the Mac-Roman decode, written with `joinStr` exactly as
    the Go code is written; theorem `readPathRaw_eq`: it renders the component-level
    `PathAlg.readPath`, for ALL item / name byte strings;
  * the 128-entry Mac-Roman table (`charmap.Macintosh`), `decodeStr` (the decoder applied by
    `ReadPath` to the joined path), `encStr` (the encoder applied to names in the file list), the
    `decide`d table facts (no high byte decodes to an ASCII byte — in particular not to `/`, `.`
    or NUL — and ASCII is fixed), and their consequences: decoding commutes with splitting on `/`,
    keeps `Normal` components `Normal`, and `decodeStr (encStr n) = n`.
-/
namespace Mobius.PathStr
open Mobius.PathAlg

-- ---------------------------------------------------------------- split / render

theorem splitSlash_ne_nil (s : Bytes) : splitSlash s ≠ [] := by
  cases s with
  | nil => simp [splitSlash]
  | cons b bs =>
    unfold splitSlash
    split
    · simp
    · split <;> simp

theorem splitSlash_slash (b : Bytes) : splitSlash (slash :: b) = [] :: splitSlash b := by
  rw [splitSlash]; simp

/-- The non-slash branch of `splitSlash`. -/
def consHead (x : UInt8) : List Comp → List Comp
  | [] => [[x]]
  | c :: cs => (x :: c) :: cs

theorem splitSlash_cons_ne (x : UInt8) (a : Bytes) (hx : x ≠ slash) :
    splitSlash (x :: a) = consHead x (splitSlash a) := by
  rw [splitSlash]
  simp only [hx, if_false]
  cases splitSlash a <;> rfl

theorem splitSlash_append (a b : Bytes) :
    splitSlash (a ++ slash :: b) = splitSlash a ++ splitSlash b := by
  induction a with
  | nil => simp [splitSlash]
  | cons x a ih =>
    by_cases hx : x = slash
    · subst hx
      simp only [List.cons_append, splitSlash_slash, ih]
    · rw [List.cons_append, splitSlash_cons_ne x _ hx, splitSlash_cons_ne x a hx, ih]
      cases h : splitSlash a with
      | nil => exact absurd h (splitSlash_ne_nil a)
      | cons c cs => simp [consHead]

theorem splitSlash_noslash (c : Comp) (h : slash ∉ c) : splitSlash c = [c] := by
  induction c with
  | nil => simp [splitSlash]
  | cons x c ih =>
    have hx : x ≠ slash := fun e => h (by simp [e])
    have hc : slash ∉ c := fun e => h (by simp [e])
    rw [splitSlash]; simp [hx, ih hc]

/-- `/c1/c2/…` without the special case for the empty list. -/
def renderTail (cs : List Comp) : Bytes := (cs.map (slash :: ·)).flatten

/-- An absolute path string from its components: `/` for the empty list, `/c1/c2/…` otherwise. -/
def renderAbs (cs : List Comp) : Bytes := if cs = [] then [slash] else renderTail cs

theorem splitSlash_comp_tail (c : Comp) (cs : List Comp) (hc : slash ∉ c) (hcs : ∀ x ∈ cs, slash ∉ x) :
    splitSlash (c ++ renderTail cs) = c :: cs := by
  induction cs generalizing c with
  | nil => simp [renderTail, splitSlash_noslash c hc]
  | cons d ds ih =>
    have : c ++ renderTail (d :: ds) = c ++ slash :: (d ++ renderTail ds) := by simp [renderTail]
    rw [this, splitSlash_append, splitSlash_noslash c hc,
      ih d (hcs d (by simp)) (fun x hx => hcs x (by simp [hx]))]
    simp

theorem splitSlash_renderAbs (cs : List Comp) (hcs : ∀ x ∈ cs, slash ∉ x) :
    splitSlash (renderAbs cs) = if cs = [] then [[], []] else [] :: cs := by
  cases cs with
  | nil => simp [renderAbs, splitSlash]
  | cons c cs =>
    have : renderAbs (c :: cs) = slash :: (c ++ renderTail cs) := by simp [renderAbs, renderTail]
    rw [this, splitSlash_slash, splitSlash_comp_tail c cs (hcs c (by simp)) (fun x hx => hcs x (by simp [hx]))]
    simp

theorem step_nil (st : List Comp) : step st [] = st := by simp [step]

/-- Cleaning the split of a rendered component list = cleaning the components themselves. -/
theorem foldl_step_renderAbs (cs st : List Comp) (hcs : ∀ x ∈ cs, slash ∉ x) :
    (splitSlash (renderAbs cs)).foldl step st = cs.foldl step st := by
  rw [splitSlash_renderAbs cs hcs]
  by_cases h : cs = []
  · subst h; simp [step_nil]
  · simp [h, step_nil]

theorem normal_noslash {c : Comp} (h : Normal c) : slash ∉ c := h.2.2.2

-- ---------------------------------------------------------------- Clean / Join on strings

def intercalateSlash : List Bytes → Bytes
  | [] => []
  | [a] => a
  | a :: b :: rest => a ++ slash :: intercalateSlash (b :: rest)

/-- One step of lexical cleaning of a RELATIVE path: `..` that cannot pop is kept (counted). -/
def relStep (st : Nat × List Comp) (c : Comp) : Nat × List Comp :=
  if c = [] ∨ c = dot then st
  else if c = dotdot then (if st.2 = [] then (st.1 + 1, []) else (st.1, st.2.dropLast))
  else (st.1, st.2 ++ [c])

def renderRel (cs : List Comp) : Bytes := if cs = [] then dot else intercalateSlash cs

/-- `filepath.Clean` (Unix). -/
def cleanStr (s : Bytes) : Bytes :=
  if s = [] then dot
  else if s.head? = some slash then renderAbs ((splitSlash s).foldl step [])
  else
    let st := (splitSlash s).foldl relStep (0, [])
    renderRel (List.replicate st.1 dotdot ++ st.2)

/-- `filepath.Join` (Unix): empty elements before the first non-empty one are skipped, the rest is
    joined with `/` and cleaned; all-empty gives `""`. -/
def joinStr (elems : List Bytes) : Bytes :=
  match elems.dropWhile (fun e => e.isEmpty) with
  | [] => []
  | es => cleanStr (intercalateSlash es)

theorem cleanStr_rooted (s : Bytes) : cleanStr (slash :: s) = renderAbs ((splitSlash (slash :: s)).foldl step []) := by
  simp [cleanStr]

/-- The relative cleaner followed by a rooted join is the rooted cleaner (`Join("/", Join(segs…))` =
    rooted clean of all segments): the kept `..` are dropped at the root. -/
theorem relStep_snd (p : Nat × List Comp) (c : Comp) : (relStep p c).2 = step p.2 c := by
  unfold relStep step
  by_cases h1 : c = [] ∨ c = dot
  · simp only [h1, if_true]
  · simp only [h1, if_false]
    by_cases h2 : c = dotdot
    · simp only [h2, if_true]
      by_cases h3 : p.2 = []
      · simp [h3]
      · simp [h3]
    · simp only [h2, if_false]

theorem relStep_step (cs : List Comp) (p : Nat × List Comp) :
    (cs.foldl relStep p).2 = cs.foldl step p.2 := by
  induction cs generalizing p with
  | nil => rfl
  | cons c cs ih =>
    simp only [List.foldl_cons]
    rw [ih (relStep p c), relStep_snd]

-- ---------------------------------------------------------------- ReadPath on strings

/-- `subPath = filepath.Join("/", subPath, item)`. -/
def joinRootedStr (acc item : Bytes) : Bytes := joinStr [[slash], acc, item]

def subPathStr (items : List Bytes) : Bytes := items.foldl joinRootedStr []

/-- `hotline.ReadPath` up to (not including) the Mac-Roman decode, as written in Go:
    `Join(root, subPath, Join("/", name))`. -/
def readPathRaw (root : Bytes) (items : List Bytes) (name : Bytes) : Bytes :=
  joinStr [root, subPathStr items, joinStr [[slash], name]]

/-- `s` is a sub-path string as `ReadPath` builds it: `""` before the first item, else a rendering. -/
def SubRep (s : Bytes) (cs : List Comp) : Prop :=
  (s = [] ∧ cs = []) ∨ (s = renderAbs cs ∧ ∀ c ∈ cs, Normal c)

theorem SubRep.fold {s : Bytes} {cs : List Comp} (h : SubRep s cs) (st : List Comp) :
    (splitSlash s).foldl step st = st ++ cs := by
  rcases h with ⟨rfl, rfl⟩ | ⟨rfl, hn⟩
  · simp [splitSlash, step_nil]
  · rw [foldl_step_renderAbs cs st (fun x hx => normal_noslash (hn x hx)), foldl_step_of_normal _ _ hn]

theorem joinRootedStr_eq (acc item : Bytes) (cs : List Comp) (h : SubRep acc cs) :
    joinRootedStr acc item = renderAbs (joinRooted cs item) := by
  have e : joinStr [[slash], acc, item] = cleanStr (slash :: slash :: (acc ++ slash :: item)) := by
    simp [joinStr, intercalateSlash]
  unfold joinRootedStr
  rw [e, cleanStr_rooted, splitSlash_slash, splitSlash_slash, splitSlash_append]
  simp only [List.foldl_cons, List.foldl_append, step_nil]
  rw [h.fold []]
  simp [joinRooted]

theorem joinRootedStr_rep (acc item : Bytes) (cs : List Comp) (h : SubRep acc cs) :
    SubRep (joinRootedStr acc item) (joinRooted cs item) := by
  refine Or.inr ⟨joinRootedStr_eq acc item cs h, ?_⟩
  apply joinRooted_normal
  rcases h with ⟨_, rfl⟩ | ⟨_, hn⟩
  · simp
  · exact hn

theorem subPathStr_rep (items : List Bytes) (acc : Bytes) (cs : List Comp) (h : SubRep acc cs) :
    SubRep (items.foldl joinRootedStr acc) (items.foldl joinRooted cs) := by
  induction items generalizing acc cs with
  | nil => simpa using h
  | cons i is ih => simp only [List.foldl_cons]; exact ih _ _ (joinRootedStr_rep acc i cs h)

theorem renderAbs_cons (cs : List Comp) : ∃ t, renderAbs cs = slash :: t := by
  cases cs with
  | nil => exact ⟨[], by simp [renderAbs]⟩
  | cons c cs => exact ⟨c ++ renderTail cs, by simp [renderAbs, renderTail]⟩

/-- String level = component level, for ALL item and name byte strings: the Go expression
    `Join(root, subPath, Join("/", name))` with per-item `Join("/", subPath, item)` renders
    `PathAlg.readPath` of the root's components. -/
theorem readPathRaw_eq (rc : List Comp) (hr : ∀ c ∈ rc, Normal c) (items : List Bytes) (name : Bytes) :
    readPathRaw (renderAbs rc) items name = renderAbs (readPath rc items name) := by
  have hsub := subPathStr_rep items [] [] (Or.inl ⟨rfl, rfl⟩)
  have hnm : SubRep (joinStr [[slash], name]) (joinRooted [] name) := by
    have := joinRootedStr_rep [] name [] (Or.inl ⟨rfl, rfl⟩)
    have e : joinStr [[slash], name] = joinRootedStr [] name := by
      simp [joinRootedStr, joinStr, intercalateSlash, cleanStr, splitSlash_slash, step_nil, splitSlash]
    rw [e]; exact this
  obtain ⟨t, ht⟩ := renderAbs_cons rc
  have hroot : SubRep (renderAbs rc) rc := Or.inr ⟨rfl, hr⟩
  unfold readPathRaw subPathStr
  have e : joinStr [renderAbs rc, items.foldl joinRootedStr [], joinStr [[slash], name]] =
      cleanStr (renderAbs rc ++ slash :: (items.foldl joinRootedStr [] ++ slash :: joinStr [[slash], name])) := by
    simp [joinStr, intercalateSlash, ht]
  rw [e]
  have e2 : cleanStr (renderAbs rc ++ slash :: (items.foldl joinRootedStr [] ++ slash :: joinStr [[slash], name])) =
      renderAbs ((splitSlash (renderAbs rc ++ slash :: (items.foldl joinRootedStr [] ++ slash :: joinStr [[slash], name]))).foldl step []) := by
    rw [ht]; simp [cleanStr]
  rw [e2, splitSlash_append, splitSlash_append]
  simp only [List.foldl_append]
  rw [hroot.fold [], hsub.fold, hnm.fold]
  have hall : ∀ c ∈ items.foldl joinRooted [] ++ joinRooted [] name, Normal c := by
    intro c hc
    rcases List.mem_append.mp hc with h | h
    · exact items_normal items [] (by simp) c h
    · exact joinRooted_normal [] name (by simp) c h
  simp only [readPath]
  rw [foldl_step_of_normal _ _ hall]
  simp

/-- The same for a root STRING in any absolute form (trailing slash, doubled slash, `.` / `..`
    components): `ReadPath` cleans the root along with the rest, the result is the rendering of
    `readPath` over the root's cleaned components. -/
theorem readPathRaw_any_root (root t : Bytes) (hs : root = slash :: t) (items : List Bytes) (name : Bytes) :
    readPathRaw root items name = renderAbs (readPath ((splitSlash root).foldl step []) items name) := by
  have hsub := subPathStr_rep items [] [] (Or.inl ⟨rfl, rfl⟩)
  have hnm : SubRep (joinStr [[slash], name]) (joinRooted [] name) := by
    have := joinRootedStr_rep [] name [] (Or.inl ⟨rfl, rfl⟩)
    have e : joinStr [[slash], name] = joinRootedStr [] name := by
      simp [joinRootedStr, joinStr, intercalateSlash, cleanStr, splitSlash_slash, step_nil, splitSlash]
    rw [e]; exact this
  have hrn : ∀ c ∈ (splitSlash root).foldl step [], Normal c :=
    foldl_step_normal _ _ (by simp) (splitSlash_no_slash root)
  unfold readPathRaw subPathStr
  have e : joinStr [root, items.foldl joinRootedStr [], joinStr [[slash], name]] =
      cleanStr (root ++ slash :: (items.foldl joinRootedStr [] ++ slash :: joinStr [[slash], name])) := by
    simp [joinStr, intercalateSlash, hs]
  rw [e]
  have e2 : cleanStr (root ++ slash :: (items.foldl joinRootedStr [] ++ slash :: joinStr [[slash], name])) =
      renderAbs ((splitSlash (root ++ slash :: (items.foldl joinRootedStr [] ++ slash :: joinStr [[slash], name]))).foldl step []) := by
    rw [hs]; simp [cleanStr]
  rw [e2, splitSlash_append, splitSlash_append]
  simp only [List.foldl_append]
  rw [hsub.fold, hnm.fold]
  have hall : ∀ c ∈ items.foldl joinRooted [] ++ joinRooted [] name, Normal c := by
    intro c hc
    rcases List.mem_append.mp hc with h | h
    · exact items_normal items [] (by simp) c h
    · exact joinRooted_normal [] name (by simp) c h
  simp only [readPath]
  rw [foldl_step_of_normal _ _ hall]
  simp

example : readPathRaw [47, 70, 47, 46, 47, 47, 71, 47] [[46, 46]] [120] = [47, 70, 47, 71, 47, 120] := by decide

-- ---------------------------------------------------------------- Mac-Roman (charmap.Macintosh)

/-- Code points of the bytes 0x80..0xFF in `golang.org/x/text/encoding/charmap.Macintosh`
    (compared entry by entry with the library by the harness on every run). -/
def macRomanHigh : List Nat := [
  196, 197, 199, 201, 209, 214, 220, 225, 224, 226, 228, 227, 229, 231, 233, 232,
  234, 235, 237, 236, 238, 239, 241, 243, 242, 244, 246, 245, 250, 249, 251, 252,
  8224, 176, 162, 163, 167, 8226, 182, 223, 174, 169, 8482, 180, 168, 8800, 198, 216,
  8734, 177, 8804, 8805, 165, 181, 8706, 8721, 8719, 960, 8747, 170, 186, 937, 230, 248,
  191, 161, 172, 8730, 402, 8776, 8710, 171, 187, 8230, 160, 192, 195, 213, 338, 339,
  8211, 8212, 8220, 8221, 8216, 8217, 247, 9674, 255, 376, 8260, 8364, 8249, 8250, 64257, 64258,
  8225, 183, 8218, 8222, 8240, 194, 202, 193, 203, 200, 205, 206, 207, 204, 211, 212,
  63743, 210, 218, 219, 217, 305, 710, 732, 175, 728, 729, 730, 184, 733, 731, 711]

/-- UTF-8 of a code point below 0x10000 (all table entries are). -/
def utf8 (n : Nat) : Bytes :=
  if n < 128 then [b8 n]
  else if n < 2048 then [b8 (192 + n / 64), b8 (128 + n % 64)]
  else [b8 (224 + n / 4096), b8 (128 + (n / 64) % 64), b8 (128 + n % 64)]

def highTable : List Bytes := macRomanHigh.map utf8

def replacement : Bytes := [239, 191, 189]

/-- The decoder on one byte: ASCII is fixed, a high byte becomes the UTF-8 of its code point. -/
def decodeByte (b : UInt8) : Bytes :=
  if b.toNat < 128 then [b] else highTable.getD (b.toNat - 128) replacement

/-- `txtDecoder.String` (never fails: every byte is defined). -/
def decodeStr (s : Bytes) : Bytes := s.flatMap decodeByte

def highOK (t : Bytes) : Bool := !t.isEmpty && t.all (fun x => decide (128 ≤ x.toNat))

/-- Table fact (by evaluation of all 128 rows): a high byte decodes to a non-empty string of bytes
    ≥ 0x80 — never to `/`, `.`, NUL or any other ASCII byte. -/
theorem highTable_ok : highTable.all highOK = true := by decide +kernel

theorem highTable_length : highTable.length = 128 := by decide +kernel

theorem replacement_ok : highOK replacement = true := by decide

theorem decodeByte_high (b : UInt8) (h : ¬ b.toNat < 128) : highOK (decodeByte b) = true := by
  simp only [decodeByte, h, if_false]
  rw [List.getD_eq_getElem?_getD]
  cases hg : highTable[b.toNat - 128]? with
  | none => simpa using replacement_ok
  | some t =>
    have hm : t ∈ highTable := List.mem_of_getElem? hg
    simpa using (List.all_eq_true.mp highTable_ok) t hm

theorem decodeByte_ascii (b : UInt8) (h : b.toNat < 128) : decodeByte b = [b] := by
  simp [decodeByte, h]

theorem decodeByte_ne_nil (b : UInt8) : decodeByte b ≠ [] := by
  by_cases h : b.toNat < 128
  · simp [decodeByte_ascii b h]
  · have := decodeByte_high b h
    intro e; simp [highOK, e] at this

/-- Every byte produced from a high byte is ≥ 0x80. -/
theorem decodeByte_high_mem (b : UInt8) (h : ¬ b.toNat < 128) : ∀ x ∈ decodeByte b, 128 ≤ x.toNat := by
  have := decodeByte_high b h
  simp only [highOK, Bool.and_eq_true, List.all_eq_true, decide_eq_true_eq] at this
  exact this.2

theorem decodeStr_nil : decodeStr [] = [] := rfl
theorem decodeStr_cons (b : UInt8) (s : Bytes) : decodeStr (b :: s) = decodeByte b ++ decodeStr s := by
  simp [decodeStr]
theorem decodeStr_append (a b : Bytes) : decodeStr (a ++ b) = decodeStr a ++ decodeStr b := by
  simp [decodeStr]

/-- An ASCII byte in the output comes from the same ASCII byte in the input. -/
theorem mem_decodeStr_ascii (s : Bytes) (x : UInt8) (hx : x.toNat < 128) : x ∈ decodeStr s ↔ x ∈ s := by
  induction s with
  | nil => simp [decodeStr]
  | cons b s ih =>
    rw [decodeStr_cons, List.mem_append, ih, List.mem_cons]
    by_cases hb : b.toNat < 128
    · rw [decodeByte_ascii b hb]; simp
    · constructor
      · rintro (h | h)
        · have := decodeByte_high_mem b hb x h; omega
        · exact Or.inr h
      · rintro (h | h)
        · subst h; exact absurd hx hb
        · exact Or.inr h

/-- If the decoded string is pure ASCII, the input was that same string. -/
theorem decodeStr_ascii_inv (s : Bytes) (h : ∀ x ∈ decodeStr s, x.toNat < 128) : decodeStr s = s := by
  induction s with
  | nil => rfl
  | cons b s ih =>
    rw [decodeStr_cons] at h ⊢
    have hb : b.toNat < 128 := by
      apply Classical.byContradiction
      intro hb
      obtain ⟨y, hy⟩ := List.exists_mem_of_ne_nil _ (decodeByte_ne_nil b)
      have h1 := decodeByte_high_mem b hb y hy
      have h2 := h y (by simp [hy])
      omega
    rw [decodeByte_ascii b hb] at h ⊢
    rw [ih (fun x hx => h x (by simp [hx]))]
    rfl

theorem decodeStr_eq_nil (s : Bytes) : decodeStr s = [] ↔ s = [] := by
  cases s with
  | nil => simp [decodeStr]
  | cons b s =>
    rw [decodeStr_cons]
    simp [decodeByte_ne_nil b]

theorem slash_lt : slash.toNat < 128 := by decide

/-- Decoding keeps a `Normal` component `Normal` and creates none: component boundaries and the
    special names `""`, `.`, `..` are untouched by the Mac-Roman decode. -/
theorem normal_decodeStr (c : Comp) : Normal (decodeStr c) ↔ Normal c := by
  have asc : ∀ (t : Bytes), (∀ x ∈ t, x.toNat < 128) → (decodeStr c = t ↔ c = t) := by
    intro t ht
    constructor
    · intro e
      have := decodeStr_ascii_inv c (by rw [e]; exact ht)
      rw [← this, e]
    · intro e
      subst e
      exact decodeStr_ascii_inv c (by
        intro x hx
        -- an ASCII-only input decodes to itself
        have : decodeStr c = c := by
          clear hx
          induction c with
          | nil => rfl
          | cons b s ih =>
            rw [decodeStr_cons, decodeByte_ascii b (ht b (by simp)), ih (fun x hx => ht x (by simp [hx]))]
            rfl
        rw [this] at hx; exact ht x hx)
  unfold Normal
  rw [mem_decodeStr_ascii c slash slash_lt]
  have h1 : decodeStr c ≠ [] ↔ c ≠ [] := not_congr (decodeStr_eq_nil c)
  have h2 : decodeStr c ≠ dot ↔ c ≠ dot := not_congr (asc dot (by decide))
  have h3 : decodeStr c ≠ dotdot ↔ c ≠ dotdot := not_congr (asc dotdot (by decide))
  rw [h1, h2, h3]

/-- Decoding commutes with rendering: decoding the joined path string (what `ReadPath` does) =
    decoding each component. -/
theorem decodeStr_renderAbs (cs : List Comp) : decodeStr (renderAbs cs) = renderAbs (cs.map decodeStr) := by
  have hs : decodeByte slash = [slash] := decodeByte_ascii slash slash_lt
  have ht : ∀ l : List Comp, decodeStr (renderTail l) = renderTail (l.map decodeStr) := by
    intro l
    induction l with
    | nil => rfl
    | cons c l ih =>
      have : renderTail (c :: l) = slash :: (c ++ renderTail l) := by simp [renderTail]
      rw [this, decodeStr_cons, decodeStr_append, hs, ih]
      simp [renderTail]
  unfold renderAbs
  by_cases h : cs = []
  · subst h; simp [decodeStr, hs]
  · simp [h, ht]

-- ---------------------------------------------------------------- encoder (file list names)

/-- First table row that is a prefix of `s` (UTF-8 is prefix-free, so at most one is). -/
def findPre (s : Bytes) : List Bytes → Nat → Option (Nat × Bytes)
  | [], _ => none
  | t :: ts, i => if t.isPrefixOf s then some (i, t) else findPre s ts (i + 1)

theorem findPre_spec (s : Bytes) (ts : List Bytes) (i j : Nat) (t : Bytes) (h : findPre s ts i = some (j, t)) :
    i ≤ j ∧ ts[j - i]? = some t ∧ t.isPrefixOf s = true := by
  induction ts generalizing i with
  | nil => simp [findPre] at h
  | cons u us ih =>
    unfold findPre at h
    by_cases hp : u.isPrefixOf s = true
    · simp only [hp, if_true, Option.some.injEq, Prod.mk.injEq] at h
      obtain ⟨rfl, rfl⟩ := h
      simp [hp]
    · simp only [hp] at h
      obtain ⟨h1, h2, h3⟩ := ih (i + 1) h
      refine ⟨by omega, ?_, h3⟩
      have : j - i = (j - (i + 1)) + 1 := by omega
      rw [this]; simpa using h2

/-- `txtEncoder.String` on a UTF-8 name: ASCII is fixed, a table character becomes its byte,
    anything else (other characters, invalid UTF-8) is an error (`none`).  `fuel` ≥ |s| suffices. -/
def encAux : Nat → Bytes → Option Bytes
  | _, [] => some []
  | 0, _ :: _ => none
  | f + 1, b :: rest =>
    if b.toNat < 128 then (encAux f rest).map (b :: ·)
    else match findPre (b :: rest) highTable 0 with
      | some (i, t) => (encAux f ((b :: rest).drop t.length)).map (b8 (128 + i) :: ·)
      | none => none

def encStr (s : Bytes) : Option Bytes := encAux (s.length + 1) s

theorem isPrefixOf_split {t s : Bytes} (h : t.isPrefixOf s = true) : s = t ++ s.drop t.length := by
  have := List.isPrefixOf_iff_prefix.mp h
  obtain ⟨r, rfl⟩ := this
  simp

/-- dec ∘ enc = id: a name the list encoder accepts is recovered exactly by the path decoder. -/
theorem decodeStr_encAux (f : Nat) (n m : Bytes) (h : encAux f n = some m) : decodeStr m = n := by
  induction f generalizing n m with
  | zero =>
    cases n with
    | nil => simp [encAux] at h; subst h; rfl
    | cons b r => simp [encAux] at h
  | succ f ih =>
    cases n with
    | nil => simp [encAux] at h; subst h; rfl
    | cons b r =>
      unfold encAux at h
      by_cases hb : b.toNat < 128
      · simp only [hb, if_true, Option.map_eq_some_iff] at h
        obtain ⟨m', hm', rfl⟩ := h
        rw [decodeStr_cons, decodeByte_ascii b hb, ih r m' hm']; rfl
      · simp only [hb, if_false] at h
        cases hf : findPre (b :: r) highTable 0 with
        | none => simp [hf] at h
        | some p =>
          obtain ⟨i, t⟩ := p
          simp only [hf, Option.map_eq_some_iff] at h
          obtain ⟨m', hm', rfl⟩ := h
          obtain ⟨_, hget, hpre⟩ := findPre_spec _ _ _ _ _ hf
          simp only [Nat.sub_zero] at hget
          have hi : i < 128 := by
            have := (List.getElem?_eq_some_iff.mp hget).1
            rw [highTable_length] at this; exact this
          have hbyte : decodeByte (b8 (128 + i)) = t := by
            have e : (b8 (128 + i)).toNat = 128 + i := by simp; omega
            simp only [decodeByte, e]
            have : ¬ (128 + i < 128) := by omega
            simp only [this, if_false]
            rw [List.getD_eq_getElem?_getD]
            have : 128 + i - 128 = i := by omega
            rw [this, hget]; rfl
          rw [decodeStr_cons, hbyte, ih _ m' hm']
          exact (isPrefixOf_split hpre).symm

theorem decodeStr_encStr (n m : Bytes) (h : encStr n = some m) : decodeStr m = n :=
  decodeStr_encAux _ n m h

/-- A listed name (the encoder's output for a `Normal` directory entry) is itself one `Normal`
    component: `ReadPath` appends exactly it, and the decode gives the entry's name back. -/
theorem encStr_normal (n m : Bytes) (h : encStr n = some m) (hn : Normal n) : Normal m := by
  have := decodeStr_encStr n m h
  rw [← this] at hn
  exact (normal_decodeStr m).mp hn

example : encStr [0x61, 0xC3, 0xA9, 0x2E, 0x74] = some [0x61, 0x8E, 0x2E, 0x74] := by decide
example : decodeStr [0x61, 0x8E, 0x2E, 0x74] = [0x61, 0xC3, 0xA9, 0x2E, 0x74] := by decide
example : encStr [0xE4, 0xB8, 0xAD] = none := by decide

end Mobius.PathStr
