import MobiusModel.Bytes
/-! PathAlg: lexical path cleaning on component lists; `ReadPath` containment (DESIGN §6.6, A.3). -/
namespace Mobius.PathAlg
abbrev Comp := List UInt8

def slash : UInt8 := 47
def dot : Comp := [46]
def dotdot : Comp := [46, 46]

/-- split on '/' (like strings.Split(s, "/")) -/
def splitSlash : Bytes → List Comp
  | [] => [[]]
  | b :: bs =>
    if b = slash then [] :: splitSlash bs
    else match splitSlash bs with
      | [] => [[b]]
      | c :: cs => (b :: c) :: cs

theorem splitSlash_no_slash (bs : Bytes) : ∀ c ∈ splitSlash bs, slash ∉ c := by
  induction bs with
  | nil => simp [splitSlash]
  | cons b bs ih =>
    unfold splitSlash
    split
    · intro c hc
      simp at hc
      rcases hc with rfl | hc
      · simp
      · exact ih c hc
    · rename_i hb
      split
      · intro c hc; simp at hc; subst hc; simp; exact fun h => hb h.symm
      · rename_i c cs heq
        intro x hx
        simp at hx
        rcases hx with rfl | hx
        · have := ih c (by rw [heq]; simp)
          simp; exact ⟨fun h => hb h.symm, this⟩
        · exact ih x (by rw [heq]; simp [hx])

/-- A component that path.Clean keeps as is. -/
def Normal (c : Comp) : Prop := c ≠ [] ∧ c ≠ dot ∧ c ≠ dotdot ∧ slash ∉ c

/-- One step of lexical cleaning of a ROOTED path, on a stack of components. -/
def step (st : List Comp) (c : Comp) : List Comp :=
  if c = [] ∨ c = dot then st
  else if c = dotdot then st.dropLast
  else st ++ [c]

theorem step_normal (st : List Comp) (c : Comp) (hst : ∀ x ∈ st, Normal x) (hc : slash ∉ c) :
    ∀ x ∈ step st c, Normal x := by
  unfold step
  split
  · exact hst
  · rename_i h1
    split
    · intro x hx; exact hst x (List.dropLast_subset st hx)
    · rename_i h2
      intro x hx
      simp at hx
      rcases hx with hx | rfl
      · exact hst x hx
      · simp at h1
        exact ⟨h1.1, h1.2, h2, hc⟩

theorem foldl_step_normal (cs : List Comp) (st : List Comp) (hst : ∀ x ∈ st, Normal x)
    (hcs : ∀ c ∈ cs, slash ∉ c) : ∀ x ∈ cs.foldl step st, Normal x := by
  induction cs generalizing st with
  | nil => simpa using hst
  | cons c cs ih =>
    simp only [List.foldl_cons]
    exact ih _ (step_normal st c hst (hcs c (by simp))) (fun c' h => hcs c' (by simp [h]))

theorem step_of_normal (st : List Comp) (c : Comp) (h : Normal c) : step st c = st ++ [c] := by
  unfold step
  have ⟨h1, h2, h3, _⟩ := h
  simp [h1, h2, h3]

theorem foldl_step_of_normal (cs st : List Comp) (h : ∀ c ∈ cs, Normal c) : cs.foldl step st = st ++ cs := by
  induction cs generalizing st with
  | nil => simp
  | cons c cs ih =>
    simp only [List.foldl_cons]
    rw [step_of_normal st c (h c (by simp)), ih _ (fun c' hc' => h c' (by simp [hc']))]
    simp

/-- filepath.Join("/", acc, name) for an already-clean rooted `acc`. -/
def joinRooted (acc : List Comp) (name : Bytes) : List Comp := (splitSlash name).foldl step acc

/-- ReadPath on components: per-item rooted join, rooted join of the file name, final Join with the root. -/
def readPath (root : List Comp) (items : List Bytes) (name : Bytes) : List Comp :=
  let sub := items.foldl joinRooted []
  let nm := joinRooted [] name
  (sub ++ nm).foldl step root

theorem joinRooted_normal (acc : List Comp) (name : Bytes) (h : ∀ x ∈ acc, Normal x) :
    ∀ x ∈ joinRooted acc name, Normal x :=
  foldl_step_normal _ _ h (splitSlash_no_slash name)

theorem items_normal (items : List Bytes) (acc : List Comp) (h : ∀ x ∈ acc, Normal x) :
    ∀ x ∈ items.foldl joinRooted acc, Normal x := by
  induction items generalizing acc with
  | nil => simpa using h
  | cons i is ih => simp only [List.foldl_cons]; exact ih _ (joinRooted_normal acc i h)

/-- C07 core: for ALL byte strings used as path items and name, the result stays under the root. -/
theorem readPath_under_root (root : List Comp) (items : List Bytes) (name : Bytes) :
    root <+: readPath root items name := by
  unfold readPath
  have hsub := items_normal items [] (by simp)
  have hnm := joinRooted_normal [] name (by simp)
  rw [foldl_step_of_normal _ _ (by
    intro c hc; simp at hc; rcases hc with hc | hc
    · exact hsub c hc
    · exact hnm c hc)]
  exact List.prefix_append _ _

/-- The unsanitised join used by folder-upload item paths and by file rename today: NOT contained. -/
def joinRaw (base : List Comp) (segs : List Comp) : List Comp := segs.foldl step base

theorem joinRaw_escapes : ∃ base segs, ¬ (base <+: joinRaw base segs) :=
  ⟨[[70]], [dotdot, [120]], by decide⟩
end Mobius.PathAlg
