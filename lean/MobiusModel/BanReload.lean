import MobiusModel.BanGate
/-!
  BanReload (C04): the ban gate across configuration reloads.

  `BanFile.Load` (run by SIGHUP and by `/api/v1/reload`) replaces the in-memory ban list by what the
  file holds: `Lock; banList = {}; open + decode the file into banList; Unlock` — ONE critical
  section.  `IsBanned` (the check at the door of every new connection) and `Add` take the same
  mutex.  The model splits `Load` into its three steps so that every interleaving with connection
  attempts, further bans and operator edits of the file can be stated; the mutex is "held by the
  loader" between `loadLock` and `loadUnlock`, and steps that need the mutex are not enabled then
  (the goroutine waits — in the harness: the connection is decided after the reload finished).

  Assumed: the file decodes (an undecodable file leaves the list EMPTY and `Load` only reports an
  error — operator error, outside the property); the YAML codec is the identity on ban maps
  (BanGate.Codec's round trip, exercised by the harness).
-/
set_option linter.unusedVariables false
set_option linter.unusedSimpArgs false
namespace Mobius.BanReload
open Mobius.BanGate

inductive LoadPc where
  | idle      -- no reload in progress: the mutex is free
  | cleared   -- Load holds the mutex, the list has been replaced by an empty map, the file is not yet decoded
  | loaded    -- Load holds the mutex, the file has been decoded into the list
deriving DecidableEq, Repr

structure St where
  mem : Store
  disk : Store       -- what the file currently decodes to
  loader : LoadPc
deriving DecidableEq, Repr

inductive Ev where
  | loadLock
  | loadRead
  | loadUnlock
  | check (a : Bytes) (now : Nat)      -- a connection from `a` reaches the ban check at instant `now`
  | add (a : Bytes) (e : Entry)        -- `BanFile.Add` (the disconnect handler's ban): list and file
  | edit (d : Store)                   -- the operator replaces Banlist.yaml
deriving Repr

/-- What a check observed. -/
structure Obs where
  addr : Bytes
  now : Nat
  refused : Bool
deriving DecidableEq, Repr

/-- One event.  `lockedGate = true` is the code that exists (a check needs the mutex);
    `lockedGate = false` is the variant in which `Load` releases the mutex after clearing the list
    (kept only to show that the theorem below is about the critical section, see `unlocked_clear_admits`). -/
def step (lockedGate : Bool) (s : St) : Ev → Option (St × Option Obs)
  | .loadLock => if s.loader = .idle then some (⟨Store.empty, s.disk, .cleared⟩, none) else none
  | .loadRead => if s.loader = .cleared then some (⟨s.disk, s.disk, .loaded⟩, none) else none
  | .loadUnlock => if s.loader = .loaded then some (⟨s.mem, s.disk, .idle⟩, none) else none
  | .check a now =>
    if s.loader = .idle ∨ (lockedGate = false ∧ s.loader = .cleared) then
      some (s, some ⟨a, now, refused s.mem a now⟩) else none
  | .add a e => if s.loader = .idle then some (⟨s.mem.add a e, s.mem.add a e, .idle⟩, none) else none
  | .edit d => some (⟨s.mem, d, s.loader⟩, none)

def run (lockedGate : Bool) : St → List Ev → Option (St × List Obs)
  | s, [] => some (s, [])
  | s, ev :: rest =>
    match step lockedGate s ev with
    | none => none
    | some (s', o) =>
      match run lockedGate s' rest with
      | none => none
      | some (s'', os) => some (s'', o.toList ++ os)

/-- The gate's decision for an address whose entry is `e`. -/
def decisionOf (e : Entry) (now : Nat) : Bool :=
  match e with
  | none => true
  | some u => decide (now < u)

theorem refused_of_lookup (s : Store) (a : Bytes) (e : Entry) (now : Nat) (h : s.lookup a = some e) :
    refused s a now = decisionOf e now := by
  cases e <;> simp [refused, decisionOf, h]

/-- An event that does not change what is recorded for address `a` (entry `e`): bans of other
    addresses, a repeated ban of `a` with the same entry, operator edits that keep `a`'s line. -/
def Keeps (a : Bytes) (e : Entry) : Ev → Prop
  | .add b e' => b = a → e' = e
  | .edit d => d.lookup a = some e
  | _ => True

/-- `a` is recorded with entry `e` wherever an observer can look: in the file, and in memory
    whenever the mutex is free (or the loader has finished decoding). -/
def Inv (a : Bytes) (e : Entry) (s : St) : Prop :=
  s.disk.lookup a = some e ∧ (s.loader ≠ .cleared → s.mem.lookup a = some e)

theorem inv_step (a : Bytes) (e : Entry) (s s' : St) (ev : Ev) (o : Option Obs)
    (h : Inv a e s) (hk : Keeps a e ev) (hs : step true s ev = some (s', o)) :
    Inv a e s' ∧ ∀ ob, o = some ob → ob.addr = a → ob.refused = decisionOf e ob.now := by
  obtain ⟨hd, hm⟩ := h
  cases ev with
  | loadLock =>
    simp only [step] at hs
    split at hs
    · injection hs with hs; injection hs with h1 h2; subst h1; subst h2
      exact ⟨⟨hd, fun hne => absurd rfl hne⟩, fun ob hob => by cases hob⟩
    · cases hs
  | loadRead =>
    simp only [step] at hs
    split at hs
    · injection hs with hs; injection hs with h1 h2; subst h1; subst h2
      exact ⟨⟨hd, fun _ => hd⟩, fun ob hob => by cases hob⟩
    · cases hs
  | loadUnlock =>
    simp only [step] at hs
    split at hs
    · rename_i hl
      injection hs with hs; injection hs with h1 h2; subst h1; subst h2
      exact ⟨⟨hd, fun _ => hm (by rw [hl]; decide)⟩, fun ob hob => by cases hob⟩
    · cases hs
  | check b now =>
    simp only [step] at hs
    split at hs
    · rename_i hl
      injection hs with hs; injection hs with h1 h2; subst h1; subst h2
      refine ⟨⟨hd, hm⟩, ?_⟩
      intro ob hob hab
      injection hob with hob; subst hob
      simp only at hab ⊢
      subst hab
      have hidle : s.loader = .idle := by
        rcases hl with h | h
        · exact h
        · exact absurd h.1 (by decide)
      exact refused_of_lookup s.mem b e now (hm (by rw [hidle]; decide))
    · cases hs
  | add b e' =>
    simp only [step] at hs
    split at hs
    · rename_i hl
      injection hs with hs; injection hs with h1 h2; subst h1; subst h2
      have hmem : s.mem.lookup a = some e := hm (by rw [hl]; decide)
      have : (s.mem.add b e').lookup a = some e := by
        by_cases hb : b = a
        · subst hb; rw [lookup_add_same, hk rfl]
        · rw [lookup_add_other _ _ _ _ (Ne.symm hb)]; exact hmem
      exact ⟨⟨this, fun _ => this⟩, fun ob hob => by cases hob⟩
    · cases hs
  | edit d =>
    simp only [step] at hs
    injection hs with hs; injection hs with h1 h2; subst h1; subst h2
    exact ⟨⟨hk, hm⟩, fun ob hob => by cases hob⟩

/-- **A reload never admits a banned address.**  For every schedule of reload steps, connection
    attempts, further bans and operator edits that the mutex allows, in which nothing changes what
    is recorded for `a`: every check of `a` takes the decision its entry calls for — the list is
    never observable as empty in between. -/
theorem gate_stable_across_reloads (a : Bytes) (e : Entry) (evs : List Ev) (s s' : St) (obs : List Obs)
    (h : Inv a e s) (hk : ∀ ev ∈ evs, Keeps a e ev) (hr : run true s evs = some (s', obs)) :
    Inv a e s' ∧ ∀ ob ∈ obs, ob.addr = a → ob.refused = decisionOf e ob.now := by
  induction evs generalizing s obs with
  | nil =>
    simp only [run] at hr
    injection hr with hr; injection hr with h1 h2; subst h1; subst h2
    exact ⟨h, fun ob hob => by cases hob⟩
  | cons ev rest ih =>
    simp only [run] at hr
    cases hst : step true s ev with
    | none => rw [hst] at hr; cases hr
    | some p =>
      obtain ⟨s1, o⟩ := p
      rw [hst] at hr
      simp only at hr
      cases hrr : run true s1 rest with
      | none => rw [hrr] at hr; cases hr
      | some q =>
        obtain ⟨s2, os⟩ := q
        rw [hrr] at hr
        simp only at hr
        injection hr with hr; injection hr with h1 h2; subst h1; subst h2
        obtain ⟨hi1, ho1⟩ := inv_step a e s s1 ev o h (hk ev (by simp)) hst
        obtain ⟨hi2, ho2⟩ := ih s1 os hi1 (fun x hx => hk x (by simp [hx])) hrr
        refine ⟨hi2, ?_⟩
        intro ob hob
        rcases List.mem_append.mp hob with hm | hm
        · cases o with
          | none => cases hm
          | some ob' =>
            simp only [Option.toList, List.mem_singleton] at hm
            subst hm
            exact ho1 ob rfl
        · exact ho2 ob hm

/-- A check is never answered while a reload is between its first and its last step: the connection waits. -/
theorem check_waits_for_reload (s : St) (a : Bytes) (now : Nat) (h : s.loader ≠ .idle) :
    step true s (.check a now) = none := by
  simp [step, h]

/-- Why the critical section matters: if `Load` released the mutex after clearing the list, a
    permanently banned address connecting before the file has been decoded would be admitted. -/
theorem unlocked_clear_admits (a : Bytes) (now : Nat) :
    let s0 : St := ⟨⟨[(a, none)]⟩, ⟨[(a, none)]⟩, .idle⟩
    Inv a none s0 ∧
    run false s0 [.loadLock, .check a now, .loadRead, .loadUnlock, .check a now] =
      some (s0, [⟨a, now, false⟩, ⟨a, now, true⟩]) := by
  simp [Inv, run, step, Store.lookup, Store.empty, refused, List.lookup]

end Mobius.BanReload
