import MobiusModel.Bytes
/-!
  Wire: every protocol object the library serialises.

  For each object: a structure, the *Hotline layout* encoder written from docs/HLProtocol (field
  tables in the comments; this is the independent reference the Go encoders are compared with
  byte for byte), and for the objects the server decodes a decoder mirroring the Go
  `Write`/`UnmarshalBinary` — including its slice-bounds panics as an explicit `.panic` result.
  Go's truncating conversions (`uint16(len x)`, `uint8(len x)`, `uint32(n)`) are `% 2^k` here, so
  a prefix/payload disagreement outside the well-formedness bound is visible, not defined away.
-/
namespace Mobius

/-- Result of a decoder that can fail the way the Go code does. -/
inductive Res (α : Type) where
  | ok (a : α)
  | err          -- the Go function returns a non-nil error
  | panic        -- the Go function panics (slice bounds / index out of range)
deriving Repr, DecidableEq

-- ---------------------------------------------------------------- Field (hotline/field.go)

/-- Field: type id (2 bytes), size (2 bytes), data. -/
structure Field where
  ty : Nat
  data : Bytes
deriving Repr, DecidableEq

/-- Hotline layout of a field.  `NewField` stores `uint16(len data)` as the size. -/
def Field.encode (f : Field) : Bytes := be16 f.ty ++ be16 f.data.length ++ f.data

def Field.WF (f : Field) : Prop := f.ty < 65536 ∧ f.data.length < 65536

instance (f : Field) : Decidable f.WF := by unfold Field.WF; infer_instance

/-- `Field.Write`: needs 4 bytes, then `size` more; returns the field and the bytes consumed. -/
def Field.decode (p : Bytes) : Res (Field × Nat) :=
  if p.length < 4 then .err
  else
    let sz := rd16 (p.drop 2)
    if p.length < 4 + sz then .err
    else .ok (⟨rd16 p, (p.drop 4).take sz⟩, 4 + sz)

/-- `FieldScanner` as a split function on the pending data: `none` = need more. -/
def fieldSplit (d : Bytes) : Option (Nat × Bytes) :=
  if d.length < 4 then none
  else
    let need := 4 + rd16 (d.drop 2)
    if need > d.length then none else some (need, d.take need)

-- ---------------------------------------------------------------- Transaction (hotline/transaction.go)

structure Transaction where
  flags : UInt8
  isReply : UInt8
  ty : Nat      -- 2 bytes
  id : Nat      -- 4 bytes
  err : Nat     -- 4 bytes
  fields : List Field
deriving Repr, DecidableEq

def fieldsEncode (fs : List Field) : Bytes := (fs.map Field.encode).flatten

/-- `Transaction.Size`: 2 (param count) + Σ (4 + |data|), as uint32. -/
def Transaction.payloadSize (t : Transaction) : Nat :=
  2 + (t.fields.map fun f => 4 + f.data.length).sum

/-- Hotline layout: flags, isReply, type, id, error, totalSize, dataSize, paramCount, fields. -/
def Transaction.encode (t : Transaction) : Bytes :=
  [t.flags, t.isReply] ++ be16 t.ty ++ be32 t.id ++ be32 t.err ++
  be32 t.payloadSize ++ be32 t.payloadSize ++ be16 t.fields.length ++ fieldsEncode t.fields

/-- Maximum token of a `bufio.Scanner` with the default buffer (64 KiB). -/
def maxTok : Nat := 65536

/-- Token limit of the inner field scanner of `Transaction.Write` (`scanner.Buffer(nil, 4+65535)`). -/
def fieldTokMax : Nat := 65539

def Transaction.WF (t : Transaction) : Prop :=
  t.ty < 65536 ∧ t.id < 4294967296 ∧ t.err < 4294967296 ∧
  (∀ f ∈ t.fields, f.WF) ∧ t.fields.length < 65536 ∧ t.payloadSize + 20 < 4294967296

/-- Decode `n` fields with the inner scanner of `Transaction.Write`: each `Scan` must yield a
    whole field. -/
def parseFields : Nat → Bytes → Res (List Field)
  | 0, _ => .ok []
  | n + 1, d =>
    match fieldSplit (d.take fieldTokMax) with
    | none => .err
    | some (adv, tok) =>
      match Field.decode tok with
      | .ok (f, _) =>
        match parseFields n (d.drop adv) with
        | .ok fs => .ok (f :: fs)
        | .err => .err
        | .panic => .panic
      | .err => .err
      | .panic => .panic

/-- `Transaction.Write`. -/
def Transaction.decode (p : Bytes) : Res Transaction :=
  if p.length < 22 then .err
  else
    let total := rd32 (p.drop 12)
    let tranLen := (20 + total) % 4294967296
    if tranLen < 22 ∨ tranLen > p.length then .panic
    else
      match parseFields (rd16 (p.drop 20)) ((p.take tranLen).drop 22) with
      | .ok fs => .ok ⟨p.headD 0, (p.drop 1).headD 0, rd16 (p.drop 2), rd32 (p.drop 4), rd32 (p.drop 8), fs⟩
      | .err => .err
      | .panic => .panic

/-- `transactionScanner` on pending data (with the uint32 wrap of `20 + totalSize`). -/
def tranSplit (d : Bytes) : Option (Nat × Bytes) :=
  if d.length < 16 then none
  else
    let tranLen := (20 + rd32 (d.drop 12)) % 4294967296
    if tranLen > d.length then none else some (tranLen, d.take tranLen)

/-- Parse a stream that is a concatenation of whole transactions (fuel = remaining length). -/
def parseStreamAux : Nat → Bytes → Res (List Transaction)
  | 0, d => if d = [] then .ok [] else .err
  | fuel + 1, d =>
    if d = [] then .ok [] else
    match tranSplit d with
    | none => .err
    | some (adv, tok) =>
      if adv = 0 then .err else
      match Transaction.decode tok with
      | .ok t =>
        match parseStreamAux fuel (d.drop adv) with
        | .ok ts => .ok (t :: ts)
        | r => r
      | .err => .err
      | .panic => .panic

def parseStream (d : Bytes) : Res (List Transaction) := parseStreamAux d.length d

-- ---------------------------------------------------------------- handshake / transfer preamble

/-- Client handshake: "TRTP" "HOTL" version(2) subversion(2) = 12 bytes. -/
def handshakeBytes (ver sub : Nat) : Bytes :=
  [0x54, 0x52, 0x54, 0x50, 0x48, 0x4F, 0x54, 0x4C] ++ be16 ver ++ be16 sub

/-- `handshake.Valid` on the 12 bytes read. -/
def handshakeValid (p : Bytes) : Bool := p.take 8 == [0x54, 0x52, 0x54, 0x50, 0x48, 0x4F, 0x54, 0x4C]

/-- Server reply: "TRTP" + 4 zero bytes (error code 0). -/
def handshakeReply : Bytes := [0x54, 0x52, 0x54, 0x50, 0, 0, 0, 0]

/-- Transfer preamble: "HTXF" ref(4) dataSize(4) rsvd(4) = 16 bytes. -/
def transferPreamble (ref size : Nat) : Bytes :=
  [0x48, 0x54, 0x58, 0x46] ++ be32 ref ++ be32 size ++ [0, 0, 0, 0]

/-- `transfer.Write` on exactly the bytes handed over: error unless ≥16 bytes starting "HTXF". -/
def transferDecode (p : Bytes) : Res (Nat × Nat) :=
  if p.length < 16 then .err
  else if p.take 4 != [0x48, 0x54, 0x58, 0x46] then .err
  else .ok (rd32 (p.drop 4), rd32 (p.drop 8))

-- ---------------------------------------------------------------- User (hotline/user.go)

/-- User name with info (field 300): id(2) icon(2) flags(2) nameLen(2) name. -/
structure User where
  id : Nat
  icon : Nat
  flags : Nat
  name : Bytes
deriving Repr, DecidableEq

def User.encode (u : User) : Bytes := be16 u.id ++ be16 u.icon ++ be16 u.flags ++ be16 u.name.length ++ u.name

def User.WF (u : User) : Prop := u.id < 65536 ∧ u.icon < 65536 ∧ u.flags < 65536 ∧ u.name.length < 65536

/-- `User.Write` (no length checks in the Go code: short input panics). -/
def User.decode (p : Bytes) : Res (User × Nat) :=
  if p.length < 8 then .panic
  else
    let nl := rd16 (p.drop 6)
    if p.length < 8 + nl then .panic
    else .ok (⟨rd16 p, rd16 (p.drop 2), rd16 (p.drop 4), (p.drop 8).take nl⟩, 8 + nl)

-- ---------------------------------------------------------------- Account record (list-users payload)

/-- What `Account.Read` emits: fieldCount(2) then fields name(102), login(105, obfuscated),
    access(110) and, when the account has a non-empty password, password(106) = "x". -/
structure AccountRec where
  name : Bytes
  login : Bytes
  access : Bytes   -- 8 bytes
  hasPassword : Bool
deriving Repr, DecidableEq

def obfuscate (b : Bytes) : Bytes := b.map fun x => 255 - x

def AccountRec.fields (a : AccountRec) : List Field :=
  [⟨102, a.name⟩, ⟨105, obfuscate a.login⟩, ⟨110, a.access⟩] ++
  (if a.hasPassword then [⟨106, [120]⟩] else [])

def AccountRec.encode (a : AccountRec) : Bytes := be16 a.fields.length ++ fieldsEncode a.fields

-- ---------------------------------------------------------------- FileNameWithInfo (field 200)

/-- type(4) creator(4) fileSize(4) rsvd(4) nameScript(2) nameSize(2) name. -/
structure FileNameWithInfo where
  ty : Bytes       -- 4
  creator : Bytes  -- 4
  size : Nat
  rsvd : Bytes     -- 4
  script : Nat
  name : Bytes
deriving Repr, DecidableEq

def FileNameWithInfo.encode (f : FileNameWithInfo) : Bytes :=
  f.ty ++ f.creator ++ be32 f.size ++ f.rsvd ++ be16 f.script ++ be16 f.name.length ++ f.name

def FileNameWithInfo.WF (f : FileNameWithInfo) : Prop :=
  f.ty.length = 4 ∧ f.creator.length = 4 ∧ f.rsvd.length = 4 ∧ f.size < 4294967296 ∧ f.script < 65536 ∧ f.name.length < 65536

/-- `FileNameWithInfo.Write`: binary.Read of the 20-byte header (error if short), then the name slice (panics if short). -/
def FileNameWithInfo.decode (p : Bytes) : Res FileNameWithInfo :=
  if p.length < 20 then .err
  else
    let nl := rd16 (p.drop 18)
    if p.length < 20 + nl then .panic
    else .ok ⟨p.take 4, (p.drop 4).take 4, rd32 (p.drop 8), (p.drop 12).take 4, rd16 (p.drop 16), (p.drop 20).take nl⟩

-- ---------------------------------------------------------------- flattened file object

/-- Information fork: platform(4) type(4) creator(4) flags(4) platformFlags(4) rsvd(32)
    createDate(8) modifyDate(8) nameScript(2) nameSize(2) name commentSize(2) comment. -/
structure InfoFork where
  platform : Bytes      -- 4
  ty : Bytes            -- 4
  creator : Bytes       -- 4
  flags : Bytes         -- 4
  platformFlags : Bytes -- 4
  rsvd : Bytes          -- 32
  createDate : Bytes    -- 8
  modifyDate : Bytes    -- 8
  script : Bytes        -- 2
  name : Bytes
  comment : Bytes
deriving Repr, DecidableEq

def InfoFork.fixedWF (i : InfoFork) : Prop :=
  i.platform.length = 4 ∧ i.ty.length = 4 ∧ i.creator.length = 4 ∧ i.flags.length = 4 ∧
  i.platformFlags.length = 4 ∧ i.rsvd.length = 32 ∧ i.createDate.length = 8 ∧ i.modifyDate.length = 8 ∧
  i.script.length = 2

def InfoFork.WF (i : InfoFork) : Prop := i.fixedWF ∧ i.name.length < 65536 ∧ i.comment.length < 65536

def InfoFork.encode (i : InfoFork) : Bytes :=
  i.platform ++ i.ty ++ i.creator ++ i.flags ++ i.platformFlags ++ i.rsvd ++ i.createDate ++ i.modifyDate ++
  i.script ++ be16 i.name.length ++ i.name ++ be16 i.comment.length ++ i.comment

/-- `FlatFileInformationFork.DataSize`: 74 + |name| + |comment|. -/
def InfoFork.size (i : InfoFork) : Nat := 74 + i.name.length + i.comment.length

/-- `FlatFileInformationFork.Write` / `UnmarshalBinary` (the comment size may be omitted entirely). -/
def InfoFork.decode (p : Bytes) : Res InfoFork :=
  if p.length < 72 then .panic
  else
    let nl := rd16 (p.drop 70)
    let total := 72 + nl
    -- `total` is uint16 arithmetic in Go: 72 + bs wraps at 65536
    let total16 := total % 65536
    if total16 < 72 ∨ p.length < total16 then .panic
    else
      let base : InfoFork := ⟨p.take 4, (p.drop 4).take 4, (p.drop 8).take 4, (p.drop 12).take 4, (p.drop 16).take 4,
        (p.drop 20).take 32, (p.drop 52).take 8, (p.drop 60).take 8, (p.drop 68).take 2, (p.drop 72).take (total16 - 72), []⟩
      if p.length > total16 then
        if total16 + 2 ≥ 65536 ∨ p.length < total16 + 2 then .panic
        else
          let cl := rd16 (p.drop total16)
          if p.length < total16 + 2 + cl then .panic
          else .ok { base with comment := (p.drop (total16 + 2)).take cl }
      else .ok base

/-- The flattened-file header a download starts with:
    "FILP" version(2)=1 rsvd(16) forkCount(2) | "INFO" compression(4) rsvd(4) size(4) | info fork |
    "DATA" compression(4) rsvd(4) dataSize(4). -/
def ffoHeader (forkCount : Nat) (i : InfoFork) (dataSize : Nat) : Bytes :=
  [0x46, 0x49, 0x4C, 0x50] ++ be16 1 ++ List.replicate 16 0 ++ be16 forkCount ++
  [0x49, 0x4E, 0x46, 0x4F] ++ [0, 0, 0, 0] ++ [0, 0, 0, 0] ++ be32 i.size ++
  i.encode ++
  [0x44, 0x41, 0x54, 0x41] ++ [0, 0, 0, 0] ++ [0, 0, 0, 0] ++ be32 dataSize

/-- The all-zero information fork a `flattenedFileObject` holds before anything is written to it. -/
def InfoFork.zero : InfoFork :=
  ⟨[0, 0, 0, 0], [0, 0, 0, 0], [0, 0, 0, 0], [0, 0, 0, 0], [0, 0, 0, 0], List.replicate 32 0,
   List.replicate 8 0, List.replicate 8 0, [0, 0], [], []⟩

/-- `flattenedFileObject.ReadFrom` on exactly the bytes `p` (the parser an upload goes through):
    24-byte header, 16-byte INFO fork header, `DataSize` bytes handed to `InfoFork.decode` in ONE
    `Write` call (none when the size is 0), 16-byte DATA fork header.  A short stream is an error.
    Result: fork count (low 16 bits at offset 22), information fork, declared data size. -/
def ffoDecode (p : Bytes) : Res (Nat × InfoFork × Nat) :=
  if p.length < 40 then .err
  else
    let dl := rd32 (p.drop 36)
    if p.length < 40 + dl then .err
    else
      match (if dl = 0 then Res.ok InfoFork.zero else InfoFork.decode ((p.drop 40).take dl)) with
      | .ok i =>
        if p.length < 40 + dl + 16 then .err
        else .ok (rd16 (p.drop 22), i, rd32 (p.drop (40 + dl + 12)))
      | .err => .err
      | .panic => .panic

/-- Fork header: type(4) compression(4) rsvd(4) size(4). -/
def forkHeader (ty : Bytes) (size : Nat) : Bytes := ty ++ [0, 0, 0, 0] ++ [0, 0, 0, 0] ++ be32 size

def macr : Bytes := [0x4D, 0x41, 0x43, 0x52]

-- ---------------------------------------------------------------- FileResumeData (field 203)

/-- "RFLT" version(2)=1 rsvd(34) forkCount(2) then per fork: type(4) offset(4) rsvd(4) rsvd(4). -/
structure ForkInfo where
  fork : Bytes  -- 4
  offset : Nat
deriving Repr, DecidableEq

def ForkInfo.encode (f : ForkInfo) : Bytes := f.fork ++ be32 f.offset ++ [0, 0, 0, 0, 0, 0, 0, 0]

def resumeEncode (forks : List ForkInfo) : Bytes :=
  [0x52, 0x46, 0x4C, 0x54] ++ be16 1 ++ List.replicate 34 0 ++ [0, b8 forks.length] ++
  (forks.map ForkInfo.encode).flatten

/-- `FileResumeData.UnmarshalBinary`: indexes b[0..41] then `b[42+16i : 58+16i]` for i < b[41]. -/
def resumeDecodeForks : Nat → Nat → Bytes → Res (List ForkInfo)
  | 0, _, _ => .ok []
  | n + 1, i, b =>
    let start := 42 + i * 16
    if b.length < start + 16 then .panic
    else
      match resumeDecodeForks n (i + 1) b with
      | .ok fs => .ok (⟨(b.drop start).take 4, rd32 (b.drop (start + 4))⟩ :: fs)
      | r => r

def resumeDecode (b : Bytes) : Res (List ForkInfo) :=
  if b.length < 42 then .panic else resumeDecodeForks ((b.drop 41).headD 0).toNat 0 b

-- ---------------------------------------------------------------- file paths

/-- Encoded file path (field 202): count(2) then per item: 0,0 len(1) name. -/
def pathEncode (items : List Bytes) : Bytes :=
  be16 items.length ++ (items.map fun n => [0, 0, b8 n.length] ++ n).flatten

/-- Split on '/' like `strings.Split(s, "/")`. -/
def splitSlash : Bytes → List Bytes
  | [] => [[]]
  | b :: bs =>
    if b = 47 then [] :: splitSlash bs
    else match splitSlash bs with
      | [] => [[b]]
      | c :: cs => (b :: c) :: cs

/-- `EncodeFilePath`. -/
def encodeFilePath (p : Bytes) : Bytes := pathEncode (splitSlash p)

/-- Folder item header (`FileHeader`): size(2) = 2 + |path|, type(2) (1 = folder), encoded path. -/
def fileHeader (path : Bytes) (isDir : Bool) : Bytes :=
  let ep := encodeFilePath path
  be16 (ep.length + 2) ++ be16 (if isDir then 1 else 0) ++ ep

/-- First buffer of a `bufio.Scanner` (startBufSize): slicing a token beyond it panics. -/
def scanBufCap : Nat := 4096

/-- `FilePath.Write` item loop, for path data of at most `scanBufCap` bytes (one scanner buffer):
    `count` scans of `fileItemScanner`, each followed by `FilePathItem.Write` on a copy of the token.
    `fileItemScanner` never checks the declared length against the data: a declared length that
    overruns the data makes the scanner fail with ErrAdvanceTooFar (`Scan` returns false → error), or
    panics when the token slice would exceed the buffer capacity.  `pos` = bytes consumed. -/
def pathDecodeItems (d : Bytes) : Nat → Nat → Res (List Bytes)
  | 0, _ => .ok []
  | n + 1, pos =>
    let rem := d.length - pos
    if rem < 3 then .err      -- no token at EOF
    else
      let l := ((d.drop (pos + 2)).headD 0).toNat
      if 3 + l ≤ rem then
        let name := (d.drop (pos + 3)).take l
        match pathDecodeItems d n (pos + 3 + l) with
        | .ok is => .ok (name :: is)
        | r => r
      else if pos + 3 + l > scanBufCap then .panic
      else .err

/-- `FilePath.Write`: fewer than 2 bytes: EOF is swallowed (0 items; 1 byte is ErrUnexpectedEOF = error). -/
def pathDecode (b : Bytes) : Res (List Bytes) :=
  if b.length = 0 then .ok []
  else if b.length < 2 then .err
  else pathDecodeItems (b.drop 2) (rd16 b) 0

-- ---------------------------------------------------------------- news records

/-- News article list entry: id(4) timestamp(8) parent(4) flags(4) flavorCount(2)=1
    titleLen(1) title posterLen(1) poster flavorLen(1)=10 "text/plain" articleSize(2). -/
structure ArtEntry where
  id : Nat
  date : Bytes    -- 8
  parent : Nat
  title : Bytes
  poster : Bytes
  size : Nat
deriving Repr, DecidableEq

def textPlain : Bytes := [116, 101, 120, 116, 47, 112, 108, 97, 105, 110]

def ArtEntry.encode (a : ArtEntry) : Bytes :=
  be32 a.id ++ a.date ++ be32 a.parent ++ [0, 0, 0, 0] ++ be16 1 ++
  [b8 a.title.length] ++ a.title ++ [b8 a.poster.length] ++ a.poster ++ [10] ++ textPlain ++ be16 a.size

def ArtEntry.WF (a : ArtEntry) : Prop :=
  a.id < 4294967296 ∧ a.date.length = 8 ∧ a.parent < 4294967296 ∧ a.title.length < 256 ∧ a.poster.length < 256 ∧ a.size < 65536

/-- News article list data (field 321): id(4) count(4) nameLen(1) name descLen(1) desc entries. -/
def artListEncode (id count : Nat) (name desc : Bytes) (entries : Bytes) : Bytes :=
  be32 id ++ be32 count ++ [b8 name.length] ++ name ++ [b8 desc.length] ++ desc ++ entries

/-- Reference parser of one article-list entry (what a client does). -/
def ArtEntry.parse (p : Bytes) : Option (ArtEntry × Bytes) :=
  if p.length < 23 then none else
  let tl := ((p.drop 22).headD 0).toNat
  if p.length < 23 + tl + 1 then none else
  let pl := ((p.drop (23 + tl)).headD 0).toNat
  let q := p.drop (24 + tl + pl)
  if p.length < 24 + tl + pl + 13 then none else
  if rd16 (p.drop 20) != 1 ∨ q.take 11 != [10] ++ textPlain then none else
  some (⟨rd32 p, (p.drop 4).take 8, rd32 (p.drop 12), (p.drop 23).take tl, (p.drop (24 + tl)).take pl, rd16 (q.drop 11)⟩,
        q.drop 13)

def parseArtEntries : Nat → Bytes → Option (List ArtEntry)
  | 0, d => if d = [] then some [] else none
  | n + 1, d =>
    match ArtEntry.parse d with
    | none => none
    | some (a, rest) =>
      match parseArtEntries n rest with
      | none => none
      | some as => some (a :: as)

/-- News category list entry 1.5 (field 323):
    bundle: type(2)=2 count(2) nameLen(1) name;
    category: type(2)=3 count(2) guid(16) addSN(4) delSN(4) nameLen(1) name. -/
def newsCatEncode (isCategory : Bool) (count : Nat) (name : Bytes) : Bytes :=
  (if isCategory then be16 3 ++ be16 count ++ List.replicate 24 0 else be16 2 ++ be16 count) ++
  [b8 name.length] ++ name

/-- News path (field 325): count(2) then per item: 0,0 len(1) name — `DecodeNewsPath` runs
    `newsPathScanner` through a `bufio.Scanner` and ignores scan failures: a failed scan appends
    the previous token again (or "" when there is none).  Same buffer mechanics as `pathDecodeItems`. -/
def newsPathDecodeItems (d : Bytes) : Nat → Nat → Bytes → Res (List Bytes)
  | 0, _, _ => .ok []
  | n + 1, pos, prev =>
    let rem := d.length - pos
    if rem < 3 then
      -- at EOF the token is reset to nil: ""
      match newsPathDecodeItems d n pos [] with
      | .ok is => .ok ([] :: is)
      | r => r
    else
      let l := ((d.drop (pos + 2)).headD 0).toNat
      if 3 + l ≤ rem then
        let name := (d.drop (pos + 3)).take l
        match newsPathDecodeItems d n (pos + 3 + l) name with
        | .ok is => .ok (name :: is)
        | r => r
      else if pos + 3 + l > scanBufCap then .panic
      else
        match newsPathDecodeItems d n pos prev with
        | .ok is => .ok (prev :: is)
        | r => r

def newsPathDecode (b : Bytes) : Res (List Bytes) :=
  if b.length = 0 then .ok []
  else if b.length < 2 then .panic
  else newsPathDecodeItems (b.drop 2) (rd16 b) 0 []

-- ---------------------------------------------------------------- tracker registration

/-- 0,1 port(2) userCount(2) 0,0 passID(4) nameLen(1) name descLen(1) desc passLen(1) password. -/
def trackerRegEncode (port users : Nat) (passID name desc pass : Bytes) : Bytes :=
  [0, 1] ++ be16 port ++ be16 users ++ [0, 0] ++ passID ++ [b8 name.length] ++ name ++
  [b8 desc.length] ++ desc ++ [b8 pass.length] ++ pass

-- ---------------------------------------------------------------- DecodeInt

/-- `Field.DecodeInt`: 2 or 4 bytes, else error. -/
def decodeInt (d : Bytes) : Res Nat :=
  if d.length = 2 then .ok (rd16 d) else if d.length = 4 then .ok (rd32 d) else .err

-- ---------------------------------------------------------------- Time

/-- `hotline.Time`: year(2) millis(2)=0 secondsIntoYear(4). -/
def timeEncode (year secs : Nat) : Bytes := be16 year ++ [0, 0] ++ be32 secs

end Mobius
