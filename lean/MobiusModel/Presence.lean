import MobiusModel.Chat
/-!
  Presence: who is online, as the server lists it and as the notifications describe it.

  Mirrors, over the client table of `Registry`:
  * the two login flows of `handleNewConnection` (1.5+: registered, announced later by `Agreed`;
    1.2.3: name in the login request, announced at once to the others),
  * `HandleTranAgreed`, `HandleSetClientUserInfo`, `HandleSetUser`, `ClientConn.Disconnect`,
    `HandleGetUserNameList`, `HandleSendInstantMsg`.

  Every output carries, next to its wire form, a ghost `Note`: what a client that keeps a roster
  learns from it (`noteOf` decodes the same thing from the bytes).  The world keeps the delivery log
  `(connection, note)` in emission order; a client's roster is the fold of its part of the log
  (`rosterOf`): the last fetched list, then every user-change (301) upserted and every user-left
  (302) removed.
-/
namespace Mobius

/-- A roster entry: (id, name, icon, flags) as a client sees them. -/
structure Entry where
  id : Nat
  name : Bytes
  icon : Bytes
  flags : Nat
deriving Repr, DecidableEq

/-- The icon as the user list carries it: a 4-byte icon is listed by its last two bytes. -/
def normIcon (i : Bytes) : Bytes := if i.length = 4 then i.drop 2 else i

def entryOf (c : Client) : Entry := ⟨c.id, c.name, normIcon c.icon, c.flags % 65536⟩

inductive Note where
  | list (es : List Entry)       -- reply to GetUserNameList
  | change (e : Entry)           -- NotifyChangeUser (301)
  | left (id : Nat)              -- NotifyDeleteUser (302)
  | other
deriving Repr, DecidableEq

/-- Insert or replace by id, keeping the roster sorted by id. -/
def upsert (e : Entry) (r : List Entry) : List Entry :=
  r.filter (fun x => x.id < e.id) ++ e :: r.filter (fun x => e.id < x.id)

def applyNote : Option (List Entry) → Note → Option (List Entry)
  | _, .list es => some es
  | some r, .change e => some (upsert e r)
  | some r, .left i => some (r.filter (fun x => x.id != i))
  | s, _ => s

/-- Fold a client's received notes: nothing until the first fetched list. -/
def rosterOf (notes : List Note) : Option (List Entry) := notes.foldl applyNote none

structure PresWorld where
  reg : Registry
  log : List (Nat × Note)        -- (connection serial, note), in emission order
deriving Repr, DecidableEq

def PresWorld.init : PresWorld := ⟨Registry.init, []⟩

def PresWorld.inbox (w : PresWorld) (k : Nat) : List Note := (w.log.filter (·.1 == k)).map (·.2)

/-- The roster connection `k` holds. -/
def PresWorld.view (w : PresWorld) (k : Nat) : Option (List Entry) := rosterOf (w.inbox k)

/-- The server's current user list. -/
def PresWorld.userList (w : PresWorld) : List Entry := w.reg.clients.map entryOf

inductive PresEv where
  /-- 1.5+ login: authenticated and registered; name comes later with `Agreed`. -/
  | connect (login acctName access icon : Bytes)
  /-- 1.2.3 login: user name in the login request; announced to the others at once. -/
  | loginNamed (login acctName access name icon : Bytes)
  | agreed (actor req : Nat) (name icon : Option Bytes) (opts : Nat) (auto : Option Bytes)      -- 121
  | setInfo (actor req : Nat) (name icon : Option Bytes) (opts : Option Nat) (auto : Option Bytes)  -- 304
  | setUser (actor req : Nat) (login : Bytes) (found : Bool) (access : Bytes)                   -- 353
  | disconnect (actor : Nat)
  | fetch (actor req : Nat)                                                                     -- 300
  | sendIM (actor req target : Nat) (msg : Bytes) (quote : Option Bytes)                        -- 108
  /-- `keepaliveHandler`: the user has been idle for more than 300 s and is not yet marked away. -/
  | away (actor : Nat)
  /-- the tail of `handleTransaction` for any request other than a keep-alive: an away user is back. -/
  | wake (actor : Nat)
deriving Repr, DecidableEq

/-- The four presence fields in the order of the login / agreed notification. -/
def changeFieldsA (c : Client) : List Field := [⟨102, c.name⟩, ⟨103, be16 c.id⟩, ⟨104, c.icon⟩, ⟨112, be16 c.flags⟩]
/-- … in the order HandleSetClientUserInfo uses. -/
def changeFieldsB (c : Client) : List Field := [⟨103, be16 c.id⟩, ⟨104, c.icon⟩, ⟨112, be16 c.flags⟩, ⟨102, c.name⟩]
/-- … in the order SendAll(TranNotifyChangeUser …) uses (set-user, idle). -/
def changeFieldsC (c : Client) : List Field := [⟨103, be16 c.id⟩, ⟨112, be16 c.flags⟩, ⟨102, c.name⟩, ⟨104, c.icon⟩]

def optFlags (flags opts : Nat) : Nat :=
  setFlag (setFlag flags 2 (flagBit opts 0)) 3 (flagBit opts 1)

abbrev POut := Out × Note

/-- `sendTransaction` for every output on the current client table; what a roster keeper records
    are the presence notes (list / change / left). -/
def route (r : Registry) (outs : List POut) : List (Nat × Note) :=
  outs.filterMap fun p => if p.2 = Note.other then none else (deliver r p.1).map fun k => (k, p.2)

/-- Hand a batch of outputs to the outbox: they reach whoever holds the addressed ids now. -/
def PresWorld.emit (w : PresWorld) (outs : List POut) : PresWorld := { w with log := w.log ++ route w.reg outs }

def changeTo (ty : Nat) (fs : Client → List Field) (c : Client) (d : Client) : POut :=
  (mkTran ty d.id (fs c), Note.change (entryOf c))

def presLogin (w : PresWorld) (mk : Client) (announce : Bool) : PresWorld × List POut :=
  match w.reg.add mk with
  | none => (w, [])
  | some (r', c) =>
    let w1 : PresWorld := { w with reg := r' }
    let outs : List POut :=
      if announce then (r'.clients.filter (·.id != c.id)).map (changeTo 301 changeFieldsA c) else []
    (w1.emit outs, outs)

def agreedClient (c : Client) (name icon : Option Bytes) (opts : Nat) (auto : Option Bytes) : Client :=
  { c with name := (match name with
                    | some n => if accessBit c.access 26 then n else c.acctName
                    | none => c.name),
           icon := icon.getD [], flags := optFlags c.flags opts,
           autoReply := if flagBit opts 2 then auto.getD [] else c.autoReply, announced := true }

def presAgreed (w : PresWorld) (c : Client) (req : Nat) (name icon : Option Bytes) (opts : Nat) (auto : Option Bytes) :
    PresWorld × List POut :=
  let c' := agreedClient c name icon opts auto
  let w1 : PresWorld := { w with reg := w.reg.modify c.id (fun _ => c') }
  let outs := (w1.reg.clients.filter (·.id != c.id)).map (changeTo 301 changeFieldsA c') ++ [(mkReply c' req [], Note.other)]
  (w1.emit outs, outs)

def infoClient (c : Client) (name icon : Option Bytes) (opts : Option Nat) (auto : Option Bytes) : Client :=
  let ic := icon.getD []
  let c1 := { c with icon := if ic.length = 4 then ic.drop 2 else ic,
                     name := if accessBit c.access 26 then name.getD [] else c.name }
  match opts with
  | some o => { c1 with flags := optFlags c1.flags o, autoReply := if flagBit o 2 then auto.getD [] else [] }
  | none => c1

def presSetInfo (w : PresWorld) (c : Client) (name icon : Option Bytes) (opts : Option Nat) (auto : Option Bytes) :
    PresWorld × List POut :=
  let c' := infoClient c name icon opts auto
  let w1 : PresWorld := { w with reg := w.reg.modify c.id (fun _ => c') }
  let outs := w1.reg.clients.map (changeTo 301 changeFieldsB c')
  (w1.emit outs, outs)

def touchedClient (c : Client) (newAccess : Bytes) : Client :=
  { c with flags := setFlag c.flags 1 (accessBit c.access 22), access := newAccess }

/-- One iteration of HandleSetUser's loop for the connected client `id`: the admin flag follows the
    access the client had *before* this update, then the new access is stored and everybody is told
    (`SendAll`, straight onto the outbox). -/
def presTouch (newAccess : Bytes) (st : PresWorld × List POut) (id : Nat) : PresWorld × List POut :=
  match st.1.reg.get id with
  | none => st
  | some c =>
    let c' := touchedClient c newAccess
    let w1 : PresWorld := { st.1 with reg := st.1.reg.modify id (fun _ => c') }
    let outs := w1.reg.clients.map (changeTo 301 changeFieldsC c')
    (w1.emit outs, st.2 ++ outs)

def presSetUser (w : PresWorld) (c : Client) (req : Nat) (login : Bytes) (found : Bool) (access : Bytes) :
    PresWorld × List POut :=
  if !accessBit c.access 17 then (w, [(mkErr c req "You are not allowed to modify accounts.", Note.other)]) else
  if !found then (w, [(mkErr c req "Account not found.", Note.other)]) else
  let targets := (w.reg.clients.filter (·.login == login)).map (·.id)
  let st := targets.foldl (presTouch access) (w, [])
  (st.1, st.2 ++ targets.map (fun i => (mkTran 354 i [⟨110, access⟩], Note.other)) ++ [(mkReply c req [], Note.other)])

def presDisconnect (w : PresWorld) (c : Client) : PresWorld × List POut :=
  let w1 : PresWorld := { w with reg := w.reg.delete c.id }
  let outs : List POut := w1.reg.clients.map fun d => (mkTran 302 d.id [⟨103, be16 c.id⟩], Note.left c.id)
  (w1.emit outs, outs)

def presFetch (w : PresWorld) (c : Client) (req : Nat) : PresWorld × List POut :=
  let outs : List POut := [(mkReply c req (w.reg.clients.map fun d => ⟨300, userRecord d⟩), Note.list w.userList)]
  (w.emit outs, outs)

def imFields (msg : Bytes) (from_ : Client) (opt : Nat) : List Field :=
  [⟨101, msg⟩, ⟨102, from_.name⟩, ⟨103, be16 from_.id⟩, ⟨113, be16 opt⟩]

def presSendIM (w : PresWorld) (c : Client) (req target : Nat) (msg : Bytes) (quote : Option Bytes) :
    PresWorld × List POut :=
  if !accessBit c.access 40 then (w, [(mkErr c req "You are not allowed to send private messages.", Note.other)]) else
  match w.reg.get target with
  | none => (w, [])
  | some t =>
    let first :=
      if flagBit t.flags 2 then mkTran 104 c.id (imFields (t.name ++ str " does not accept private messages.") t 2)
      else mkTran 104 target (imFields msg c 1 ++ match quote with | some q => [⟨214, q⟩] | none => [])
    let autoR := if t.autoReply.length > 0 then [mkTran 104 c.id (imFields t.autoReply t 1)] else []
    (w, (([first] ++ autoR ++ [mkReply c req []]).map fun o => (o, Note.other)))

/-- `keepaliveHandler` for one client: set the away flag and tell everybody (`SendAll`), unless already away. -/
def presAway (w : PresWorld) (c : Client) : PresWorld × List POut :=
  if flagBit c.flags 0 then (w, []) else
  let c' := { c with flags := setFlag c.flags 0 true }
  let w1 : PresWorld := { w with reg := w.reg.modify c.id (fun _ => c') }
  let outs := w1.reg.clients.map (changeTo 301 changeFieldsC c')
  (w1.emit outs, outs)

/-- `handleTransaction` after a non-keep-alive request of an away user: clear the flag and tell everybody. -/
def presWake (w : PresWorld) (c : Client) : PresWorld × List POut :=
  if !flagBit c.flags 0 then (w, []) else
  let c' := { c with flags := setFlag c.flags 0 false }
  let w1 : PresWorld := { w with reg := w.reg.modify c.id (fun _ => c') }
  let outs := w1.reg.clients.map (changeTo 301 changeFieldsC c')
  (w1.emit outs, outs)

def newPresClient (login acctName access name icon : Bytes) (announced : Bool) : Client :=
  { id := 0, conn := 0, login := login, acctName := acctName, access := access, name := name, icon := icon,
    flags := if accessBit access 22 then 2 else 0, autoReply := [], announced := announced }

/-- One event: new world (client table and delivery log) and the handler's outputs. -/
def PresWorld.step (w : PresWorld) (e : PresEv) : PresWorld × List POut :=
  match e with
  | .connect l an ac ic => presLogin w (newPresClient l an ac [] ic false) false
  | .loginNamed l an ac nm ic =>
    let n := if accessBit ac 26 then nm else an
    presLogin w (newPresClient l an ac n ic (n.length != 0)) (n.length != 0)
  | .agreed a r nm ic o au => match w.reg.get a with | none => (w, []) | some c => presAgreed w c r nm ic o au
  | .setInfo a _ nm ic o au => match w.reg.get a with | none => (w, []) | some c => presSetInfo w c nm ic o au
  | .setUser a r l f ac => match w.reg.get a with | none => (w, []) | some c => presSetUser w c r l f ac
  | .disconnect a => match w.reg.get a with | none => (w, []) | some c => presDisconnect w c
  | .fetch a r => match w.reg.get a with | none => (w, []) | some c => presFetch w c r
  | .sendIM a r t m q => match w.reg.get a with | none => (w, []) | some c => presSendIM w c r t m q
  | .away a => match w.reg.get a with | none => (w, []) | some c => presAway w c
  | .wake a => match w.reg.get a with | none => (w, []) | some c => presWake w c

def PresWorld.after (w : PresWorld) (es : List PresEv) : PresWorld := es.foldl (fun w e => (w.step e).1) w

def PresWorld.run (w : PresWorld) : List PresEv → PresWorld × List (List POut)
  | [] => (w, [])
  | e :: es => (((w.step e).1.run es).1, (w.step e).2 :: ((w.step e).1.run es).2)

-- ------------------------------------------------------------------ decoding notes from the wire form

def getField (fs : List Field) (ty : Nat) : Option Bytes := (fs.find? (·.ty == ty)).map (·.data)

/-- `User.Write` on a field-300 record (icon is two bytes in a listed record). -/
def decodeUserRecord (b : Bytes) : Entry :=
  ⟨rd16 b, ((b.drop 8).take (rd16 (b.drop 6))), (b.drop 2).take 2, rd16 (b.drop 4)⟩

/-- What a roster-keeping client reads off a transaction. -/
def noteOf (o : Out) : Note :=
  if o.isReply then
    if o.err = 0 ∧ o.fields ≠ [] ∧ o.fields.all (·.ty == 300) then .list (o.fields.map fun f => decodeUserRecord f.data) else .other
  else if o.ty = 301 then
    .change ⟨rd16 ((getField o.fields 103).getD []), (getField o.fields 102).getD [],
             normIcon ((getField o.fields 104).getD []), rd16 ((getField o.fields 112).getD [])⟩
  else if o.ty = 302 then .left (rd16 ((getField o.fields 103).getD []))
  else .other

end Mobius

namespace Mobius

-- ------------------------------------------------------------------ rosters

def RosterSorted (r : List Entry) : Prop := r.Pairwise (fun a b => a.id < b.id)

theorem mem_upsert {e x : Entry} {r : List Entry} : x ∈ upsert e r ↔ x = e ∨ (x ∈ r ∧ x.id ≠ e.id) := by
  simp only [upsert, List.mem_append, List.mem_cons, List.mem_filter, decide_eq_true_eq]
  constructor
  · rintro (⟨h, hlt⟩ | rfl | ⟨h, hlt⟩)
    · exact Or.inr ⟨h, by omega⟩
    · exact Or.inl rfl
    · exact Or.inr ⟨h, by omega⟩
  · rintro (rfl | ⟨h, hne⟩)
    · exact Or.inr (Or.inl rfl)
    · by_cases hlt : x.id < e.id
      · exact Or.inl ⟨h, hlt⟩
      · exact Or.inr (Or.inr ⟨h, by omega⟩)

theorem RosterSorted.upsert {e : Entry} {r : List Entry} (h : RosterSorted r) : RosterSorted (upsert e r) := by
  unfold RosterSorted Mobius.upsert at *
  rw [List.pairwise_append]
  refine ⟨h.filter _, ?_, ?_⟩
  · rw [List.pairwise_cons]
    refine ⟨?_, h.filter _⟩
    intro b hb
    simpa using (List.mem_filter.mp hb).2
  · intro a ha b hb
    have ha' : a.id < e.id := by simpa using (List.mem_filter.mp ha).2
    rcases List.mem_cons.mp hb with rfl | hb
    · exact ha'
    · have : e.id < b.id := by simpa using (List.mem_filter.mp hb).2
      omega

/-- Two lists strictly sorted by a key with the same elements are equal. -/
theorem eq_of_sorted_of_mem_iff {α : Type} (key : α → Nat) :
    ∀ (l1 l2 : List α), l1.Pairwise (fun a b => key a < key b) → l2.Pairwise (fun a b => key a < key b) →
      (∀ x, x ∈ l1 ↔ x ∈ l2) → l1 = l2
  | [], [], _, _, _ => rfl
  | [], b :: u, _, _, h => absurd ((h b).mpr (by simp)) (by simp)
  | a :: t, [], _, _, h => absurd ((h a).mp (by simp)) (by simp)
  | a :: t, b :: u, h1, h2, h => by
    have h1' := List.pairwise_cons.mp h1
    have h2' := List.pairwise_cons.mp h2
    have hab : a = b := by
      have ha : a ∈ b :: u := (h a).mp (by simp)
      have hb : b ∈ a :: t := (h b).mpr (by simp)
      rcases List.mem_cons.mp ha with rfl | ha'
      · rfl
      · rcases List.mem_cons.mp hb with rfl | hb'
        · rfl
        · have := h2'.1 a ha'
          have := h1'.1 b hb'
          omega
    subst hab
    have htu : ∀ x, x ∈ t ↔ x ∈ u := by
      intro x
      constructor
      · intro hx
        rcases List.mem_cons.mp ((h x).mp (by simp [hx])) with rfl | hx'
        · have := h1'.1 x hx; omega
        · exact hx'
      · intro hx
        rcases List.mem_cons.mp ((h x).mpr (by simp [hx])) with rfl | hx'
        · have := h2'.1 x hx; omega
        · exact hx'
    rw [eq_of_sorted_of_mem_iff key t u h1'.2 h2'.2 htu]

/-- What a fetched-and-folded roster must satisfy with respect to the client table. -/
structure ViewOK (reg : Registry) (r : List Entry) : Prop where
  sorted : RosterSorted r
  sound : ∀ e ∈ r, ∃ d ∈ reg.clients, entryOf d = e
  complete : ∀ d ∈ reg.clients, d.announced = true → entryOf d ∈ r

@[simp] theorem entryOf_id (c : Client) : (entryOf c).id = c.id := rfl

theorem userList_sorted {reg : Registry} (h : reg.Inv) : RosterSorted (reg.clients.map entryOf) := by
  unfold RosterSorted
  rw [List.pairwise_map]
  exact h.sorted

/-- A sound and complete roster of a fully announced table *is* the user list. -/
theorem ViewOK.eq_userList {reg : Registry} {r : List Entry} (hreg : reg.Inv) (h : ViewOK reg r)
    (hall : ∀ d ∈ reg.clients, d.announced = true) : r = reg.clients.map entryOf := by
  apply eq_of_sorted_of_mem_iff (fun e : Entry => e.id) r _ h.sorted (userList_sorted hreg)
  intro x
  constructor
  · intro hx
    obtain ⟨d, hd, rfl⟩ := h.sound x hx
    exact List.mem_map.mpr ⟨d, hd, rfl⟩
  · intro hx
    obtain ⟨d, hd, rfl⟩ := List.mem_map.mp hx
    exact h.complete d hd (hall d hd)

-- ------------------------------------------------------------------ what an emission does to a view

theorem rosterOf_append (a b : List Note) : rosterOf (a ++ b) = b.foldl applyNote (rosterOf a) := by
  unfold rosterOf; rw [List.foldl_append]

theorem PresWorld.view_emit (w : PresWorld) (outs : List POut) (k : Nat) :
    (w.emit outs).view k = (((route w.reg outs).filter (·.1 == k)).map (·.2)).foldl applyNote (w.view k) := by
  unfold PresWorld.view PresWorld.inbox PresWorld.emit
  simp only [List.filter_append, List.map_append]
  rw [rosterOf_append]

theorem route_append (r : Registry) (a b : List POut) : route r (a ++ b) = route r a ++ route r b := by
  unfold route; rw [List.filterMap_append]

theorem route_other (r : Registry) (l : List POut) (h : ∀ p ∈ l, p.2 = Note.other) : route r l = [] := by
  unfold route
  apply List.filterMap_eq_nil_iff.mpr
  intro p hp
  simp [h p hp]

/-- A batch addressed to the clients `L` of the table, all carrying the same presence note. -/
theorem route_broadcast (r : Registry) (hr : r.Inv) (L : List Client) (hL : ∀ d ∈ L, d ∈ r.clients) (n : Note)
    (hn : n ≠ Note.other) (f : Client → Out) (hf : ∀ d, (f d).to = d.id) :
    route r (L.map fun d => (f d, n)) = L.map fun d => (d.conn, n) := by
  unfold route
  rw [List.filterMap_map]
  induction L with
  | nil => rfl
  | cons d L ih =>
    have hd := hL d (by simp)
    have hg : deliver r (f d) = some d.conn := by
      simp only [deliver, hf]
      rw [Registry.get_of_mem hr.sorted hd]; rfl
    simp only [List.filterMap_cons, Function.comp, hn, if_false, hg, Option.map_some, List.map_cons]
    rw [← ih (fun x hx => hL x (by simp [hx]))]

theorem notes_broadcast (L : List Client) (hnd : (L.map (·.conn)).Nodup) (n : Note) (k : Nat) :
    ((L.map fun d => (d.conn, n)).filter (·.1 == k)).map (·.2) = if k ∈ L.map (·.conn) then [n] else [] := by
  induction L with
  | nil => simp
  | cons d L ih =>
    rw [List.map_cons, List.nodup_cons] at hnd
    simp only [List.map_cons, List.filter_cons]
    by_cases hk : d.conn = k
    · subst hk
      have hnot : d.conn ∉ L.map (·.conn) := hnd.1
      have ih' := ih hnd.2
      rw [if_neg hnot] at ih'
      simp only [beq_self_eq_true, if_true, List.map_cons, ih', List.mem_cons, true_or]
    · have hk' : (d.conn == k) = false := by simpa using hk
      simp only [hk', Bool.false_eq_true, if_false]
      rw [ih hnd.2]
      have : (k ∈ d.conn :: L.map (·.conn)) ↔ k ∈ L.map (·.conn) := by
        simp only [List.mem_cons]
        constructor
        · rintro (h | h)
          · exact absurd h.symm hk
          · exact h
        · exact Or.inr
      by_cases h2 : k ∈ L.map (·.conn)
      · rw [if_pos h2, if_pos (this.mpr h2)]
      · rw [if_neg h2, if_neg (fun h => h2 (this.mp h))]

/-- The view of connection `k` after a broadcast of note `n` to the clients `L`. -/
theorem PresWorld.view_broadcast (w : PresWorld) (hr : w.reg.Inv) (L : List Client) (hL : L.Sublist w.reg.clients)
    (n : Note) (hn : n ≠ Note.other) (f : Client → Out) (hf : ∀ d, (f d).to = d.id) (tail : List POut)
    (htail : ∀ p ∈ tail, p.2 = Note.other) (k : Nat) :
    (w.emit ((L.map fun d => (f d, n)) ++ tail)).view k =
      if k ∈ L.map (·.conn) then applyNote (w.view k) n else w.view k := by
  rw [PresWorld.view_emit, route_append, route_other _ tail htail, List.append_nil,
    route_broadcast w.reg hr L (fun d hd => hL.subset hd) n hn f hf,
    notes_broadcast L (hr.connsNodup.sublist (hL.map _)) n k]
  split <;> rfl

end Mobius

namespace Mobius

-- ------------------------------------------------------------------ the invariant behind convergence

structure PresWorld.Inv (w : PresWorld) : Prop where
  reg : w.reg.Inv
  logConns : ∀ p ∈ w.log, p.1 < w.reg.serial
  views : ∀ c ∈ w.reg.clients, ∀ r, w.view c.conn = some r → ViewOK w.reg r

theorem PresWorld.view_none_of_fresh {w : PresWorld} (h : ∀ p ∈ w.log, p.1 < w.reg.serial) {k : Nat}
    (hk : w.reg.serial ≤ k) : w.view k = none := by
  unfold PresWorld.view PresWorld.inbox
  have : w.log.filter (·.1 == k) = [] := by
    apply List.filter_eq_nil_iff.mpr
    intro p hp
    have := h p hp
    simp only [beq_iff_eq]
    omega
  rw [this]; rfl

theorem route_conns {r : Registry} {outs : List POut} {p : Nat × Note} (hp : p ∈ route r outs) :
    ∃ c ∈ r.clients, c.conn = p.1 := by
  unfold route at hp
  obtain ⟨q, _, hq⟩ := List.mem_filterMap.mp hp
  split at hq
  · cases hq
  · unfold deliver at hq
    cases hg : r.get q.1.to with
    | none => simp [hg] at hq
    | some c =>
      simp [hg] at hq
      exact ⟨c, (Registry.get_some hg).1, by rw [← hq]⟩

theorem PresWorld.emit_logConns {w : PresWorld} (hr : w.reg.Inv) (h : ∀ p ∈ w.log, p.1 < w.reg.serial) (outs : List POut) :
    ∀ p ∈ (w.emit outs).log, p.1 < (w.emit outs).reg.serial := by
  intro p hp
  unfold PresWorld.emit at hp ⊢
  simp only [List.mem_append] at hp
  rcases hp with hp | hp
  · exact h p hp
  · obtain ⟨c, hc, hcn⟩ := route_conns hp
    rw [← hcn]; exact hr.conns c hc

theorem applyNote_change_some {v : Option (List Entry)} {e : Entry} {r' : List Entry}
    (h : applyNote v (.change e) = some r') : ∃ r, v = some r ∧ r' = upsert e r := by
  cases v with
  | none => simp [applyNote] at h
  | some r => simp only [applyNote, Option.some.injEq] at h; exact ⟨r, rfl, h.symm⟩

theorem applyNote_left_some {v : Option (List Entry)} {i : Nat} {r' : List Entry}
    (h : applyNote v (.left i) = some r') : ∃ r, v = some r ∧ r' = r.filter (fun x => x.id != i) := by
  cases v with
  | none => simp [applyNote] at h
  | some r => simp only [applyNote, Option.some.injEq] at h; exact ⟨r, rfl, h.symm⟩

/-- Two clients of a well-formed table with the same connection serial are the same client. -/
theorem Registry.Inv.eq_of_conn {r : Registry} (h : r.Inv) {a b : Client} (ha : a ∈ r.clients) (hb : b ∈ r.clients)
    (hab : a.conn = b.conn) : a = b := eq_of_nodup_map h.connsNodup ha hb hab

theorem mem_filter_conn_iff {r : Registry} (h : r.Inv) (sel : Client → Bool) {x : Client} (hx : x ∈ r.clients) :
    x.conn ∈ (r.clients.filter sel).map (·.conn) ↔ sel x = true := by
  constructor
  · intro hm
    obtain ⟨y, hy, hyc⟩ := List.mem_map.mp hm
    have hy' := List.mem_filter.mp hy
    have : y = x := h.eq_of_conn hy'.1 hx hyc
    rw [← this]; exact hy'.2
  · intro hs
    exact List.mem_map.mpr ⟨x, List.mem_filter.mpr ⟨hx, hs⟩, rfl⟩

/-- The roster step for a change of client `c` into `c'`: upserting the new entry keeps a roster
    sound and complete for the modified table. -/
theorem ViewOK.upsert_modify {reg : Registry} {c c' : Client} (hc : c ∈ reg.clients)
    (hid : c'.id = c.id) {r : List Entry} (h : ViewOK reg r) :
    ViewOK (reg.modify c.id (fun _ => c')) (upsert (entryOf c') r) := by
  refine ⟨h.sorted.upsert, ?_, ?_⟩
  · intro e he
    rcases mem_upsert.mp he with rfl | ⟨her, hne⟩
    · exact ⟨c', Registry.mem_modify hc |>.mpr (Or.inl rfl), rfl⟩
    · obtain ⟨d, hd, rfl⟩ := h.sound e her
      simp only [entryOf_id] at hne
      exact ⟨d, Registry.mem_modify hc |>.mpr (Or.inr ⟨hd, by rw [← hid]; exact hne⟩), rfl⟩
  · intro d hd hann
    rcases (Registry.mem_modify hc).mp hd with rfl | ⟨hd', hne⟩
    · exact mem_upsert.mpr (Or.inl rfl)
    · exact mem_upsert.mpr (Or.inr ⟨h.complete d hd' hann, by simp only [entryOf_id]; rw [hid]; exact hne⟩)

/-- P1: the record of a connected client changes (same id, same connection) and the change is sent to
    the clients selected by `sel`; anybody not selected holds no roster yet. -/
theorem PresWorld.Inv.modify_broadcast {w : PresWorld} (h : w.Inv) {c c' : Client} (hc : c ∈ w.reg.clients)
    (hid : c'.id = c.id) (hcn : c'.conn = c.conn) (sel : Client → Bool)
    (hsel : ∀ d ∈ (w.reg.modify c.id (fun _ => c')).clients, sel d = false → w.view d.conn = none)
    (f : Client → Out) (hf : ∀ d, (f d).to = d.id) (tail : List POut) (htail : ∀ p ∈ tail, p.2 = Note.other) :
    (PresWorld.emit { w with reg := w.reg.modify c.id (fun _ => c') }
      (((w.reg.modify c.id (fun _ => c')).clients.filter sel).map (fun d => (f d, Note.change (entryOf c'))) ++ tail)).Inv := by
  have hreg1 : (w.reg.modify c.id (fun _ => c')).Inv :=
    h.reg.modify c.id _ (by
      intro d hd hdid
      have : d = c := h.reg.sorted.eq_of_id hd hc hdid
      subst this; exact ⟨hid, hcn⟩)
  have hser : (w.reg.modify c.id (fun _ => c')).serial = w.reg.serial := rfl
  refine ⟨hreg1, ?_, ?_⟩
  · exact PresWorld.emit_logConns (w := { w with reg := w.reg.modify c.id (fun _ => c') }) hreg1 (by
      intro p hp; rw [hser]; exact h.logConns p hp) _
  · intro x hx r' hv
    have hx1 : x ∈ (w.reg.modify c.id (fun _ => c')).clients := hx
    rw [PresWorld.view_broadcast { w with reg := w.reg.modify c.id (fun _ => c') } hreg1 _ List.filter_sublist
      (Note.change (entryOf c')) (by intro hh; cases hh) f hf tail htail x.conn] at hv
    have hwv : PresWorld.view { w with reg := w.reg.modify c.id (fun _ => c') } x.conn = w.view x.conn := rfl
    rw [hwv] at hv
    -- the old record behind the same connection
    have hold : ∃ x0 ∈ w.reg.clients, x0.conn = x.conn := by
      rcases (Registry.mem_modify hc).mp hx1 with rfl | ⟨hx0, _⟩
      · exact ⟨c, hc, hcn.symm⟩
      · exact ⟨x, hx0, rfl⟩
    obtain ⟨x0, hx0, hx0c⟩ := hold
    by_cases hs : sel x = true
    · rw [if_pos ((mem_filter_conn_iff hreg1 sel hx1).mpr hs)] at hv
      obtain ⟨r, hr, rfl⟩ := applyNote_change_some hv
      have hok := h.views x0 hx0 r (by rw [hx0c]; exact hr)
      exact hok.upsert_modify hc hid
    · have hs' : sel x = false := by simpa using hs
      rw [if_neg (fun hm => hs ((mem_filter_conn_iff hreg1 sel hx1).mp hm))] at hv
      rw [hsel x hx1 hs'] at hv
      cases hv

end Mobius

namespace Mobius

/-- P2: a new connection is registered; when `announce` the others are told. -/
theorem PresWorld.Inv.add_broadcast {w : PresWorld} (h : w.Inv) {mk cnew : Client} {r' : Registry}
    (ha : w.reg.add mk = some (r', cnew)) (announce : Bool) (hann : cnew.announced = true → announce = true)
    (f : Client → Out) (hf : ∀ d, (f d).to = d.id) :
    (PresWorld.emit { w with reg := r' }
      (if announce then (r'.clients.filter (·.id != cnew.id)).map (fun d => (f d, Note.change (entryOf cnew))) else [])).Inv := by
  obtain ⟨hreg1, hne0, hlt, hfresh, hconn, _, hcl, hser, hmem⟩ := Registry.add_spec h.reg ha
  have hlog1 : ∀ p ∈ (PresWorld.mk r' w.log).log, p.1 < (PresWorld.mk r' w.log).reg.serial := by
    intro p hp
    have := h.logConns p hp
    show p.1 < r'.serial
    omega
  refine ⟨hreg1, PresWorld.emit_logConns (w := { w with reg := r' }) hreg1 hlog1 _, ?_⟩
  intro x hx r1 hv
  have hx1 : x ∈ r'.clients := hx
  have hwv : PresWorld.view { w with reg := r' } x.conn = w.view x.conn := rfl
  have hsub : ∀ d ∈ w.reg.clients, d ∈ r'.clients := fun d hd => (hmem d).mpr (Or.inr hd)
  have hidne : ∀ d ∈ w.reg.clients, d.id ≠ cnew.id := by
    intro d hd heq
    exact hfresh (List.mem_map.mpr ⟨d, hd, heq⟩)
  cases announce with
  | false =>
    simp only [Bool.false_eq_true, if_false] at hv
    have : (PresWorld.emit { w with reg := r' } []).view x.conn = w.view x.conn := by
      rw [PresWorld.view_emit]; rfl
    rw [this] at hv
    rcases (hmem x).mp hx1 with rfl | hx0
    · rw [PresWorld.view_none_of_fresh h.logConns (by omega)] at hv; cases hv
    · have hok := h.views x hx0 r1 hv
      refine ⟨hok.sorted, ?_, ?_⟩
      · intro e he
        obtain ⟨d, hd, rfl⟩ := hok.sound e he
        exact ⟨d, hsub d hd, rfl⟩
      · intro d hd hda
        rcases (hmem d).mp hd with rfl | hd0
        · have := hann hda; cases this
        · exact hok.complete d hd0 hda
  | true =>
    simp only [if_true] at hv
    have hb := PresWorld.view_broadcast { w with reg := r' } hreg1 (r'.clients.filter (·.id != cnew.id)) List.filter_sublist
      (Note.change (entryOf cnew)) (by intro hh; cases hh) f hf [] (by intro p hp; cases hp) x.conn
    rw [List.append_nil] at hb
    rw [hb, hwv] at hv
    rcases (hmem x).mp hx1 with rfl | hx0
    · have hnot : x.conn ∉ (r'.clients.filter (·.id != x.id)).map (·.conn) := by
        intro hm
        have := (mem_filter_conn_iff hreg1 (·.id != x.id) hx1).mp hm
        simp at this
      rw [if_neg hnot, PresWorld.view_none_of_fresh h.logConns (by omega)] at hv
      cases hv
    · have hin : x.conn ∈ (r'.clients.filter (·.id != cnew.id)).map (·.conn) :=
        (mem_filter_conn_iff hreg1 (·.id != cnew.id) hx1).mpr (by simpa using hidne x hx0)
      rw [if_pos hin] at hv
      obtain ⟨r, hr, rfl⟩ := applyNote_change_some hv
      have hok := h.views x hx0 r hr
      refine ⟨hok.sorted.upsert, ?_, ?_⟩
      · intro e he
        rcases mem_upsert.mp he with rfl | ⟨her, _⟩
        · exact ⟨cnew, (hmem cnew).mpr (Or.inl rfl), rfl⟩
        · obtain ⟨d, hd, rfl⟩ := hok.sound e her
          exact ⟨d, hsub d hd, rfl⟩
      · intro d hd hda
        rcases (hmem d).mp hd with rfl | hd0
        · exact mem_upsert.mpr (Or.inl rfl)
        · exact mem_upsert.mpr (Or.inr ⟨hok.complete d hd0 hda, by simpa using hidne d hd0⟩)

/-- P3: a client leaves the table and everybody remaining is told. -/
theorem PresWorld.Inv.delete_broadcast {w : PresWorld} (h : w.Inv) (id : Nat) (f : Client → Out) (hf : ∀ d, (f d).to = d.id) :
    (PresWorld.emit { w with reg := w.reg.delete id } ((w.reg.delete id).clients.map (fun d => (f d, Note.left id)))).Inv := by
  have hreg1 : (w.reg.delete id).Inv := h.reg.delete id
  refine ⟨hreg1, PresWorld.emit_logConns (w := { w with reg := w.reg.delete id }) hreg1 h.logConns _, ?_⟩
  intro x hx r1 hv
  have hx1 : x ∈ (w.reg.delete id).clients := hx
  have hx0 : x ∈ w.reg.clients ∧ x.id ≠ id := by
    have := List.mem_filter.mp hx1
    exact ⟨this.1, by simpa using this.2⟩
  have hb := PresWorld.view_broadcast { w with reg := w.reg.delete id } hreg1 (w.reg.delete id).clients (List.Sublist.refl _)
    (Note.left id) (by intro hh; cases hh) f hf [] (by intro p hp; cases hp) x.conn
  rw [List.append_nil] at hb
  rw [hb, if_pos (List.mem_map.mpr ⟨x, hx1, rfl⟩)] at hv
  have hwv : PresWorld.view { w with reg := w.reg.delete id } x.conn = w.view x.conn := rfl
  rw [hwv] at hv
  obtain ⟨r, hr, rfl⟩ := applyNote_left_some hv
  have hok := h.views x hx0.1 r hr
  refine ⟨List.Pairwise.filter _ hok.sorted, ?_, ?_⟩
  · intro e he
    have he' := List.mem_filter.mp he
    obtain ⟨d, hd, rfl⟩ := hok.sound e he'.1
    refine ⟨d, List.mem_filter.mpr ⟨hd, ?_⟩, rfl⟩
    simpa using he'.2
  · intro d hd hda
    have hd' := List.mem_filter.mp hd
    exact List.mem_filter.mpr ⟨hok.complete d hd'.1 hda, by simpa using hd'.2⟩

/-- P4: a client fetches the user list. -/
theorem PresWorld.Inv.fetch {w : PresWorld} (h : w.Inv) {c : Client} (hc : c ∈ w.reg.clients) (o : Out) (ho : o.to = c.id) :
    (w.emit [(o, Note.list w.userList)]).Inv := by
  refine ⟨h.reg, PresWorld.emit_logConns h.reg h.logConns _, ?_⟩
  intro x hx r1 hv
  have hx0 : x ∈ w.reg.clients := hx
  have hroute : route w.reg [(o, Note.list w.userList)] = [(c.conn, Note.list w.userList)] := by
    simp [route, deliver, ho, Registry.get_of_mem h.reg.sorted hc]
  rw [PresWorld.view_emit, hroute] at hv
  by_cases hk : c.conn = x.conn
  · simp only [List.filter_cons, hk, beq_self_eq_true, if_true, List.filter_nil, List.map_cons, List.map_nil, List.foldl_cons,
      List.foldl_nil] at hv
    have : r1 = w.userList := by
      cases hvv : w.view x.conn <;> simp [applyNote] at hv <;> exact hv.symm
    subst this
    exact ⟨userList_sorted h.reg, fun e he => by
      obtain ⟨d, hd, rfl⟩ := List.mem_map.mp he; exact ⟨d, hd, rfl⟩,
      fun d hd _ => List.mem_map.mpr ⟨d, hd, rfl⟩⟩
  · have hk' : (c.conn == x.conn) = false := by simpa using hk
    simp only [List.filter_cons, hk', Bool.false_eq_true, if_false, List.filter_nil, List.map_nil, List.foldl_nil] at hv
    exact h.views x hx0 r1 hv

theorem PresWorld.Inv.init : PresWorld.init.Inv :=
  ⟨Registry.Inv.init, (by intro p hp; cases hp), (by intro c hc; cases hc)⟩

end Mobius

namespace Mobius

/-- The only restriction on histories: a client sends `Agreed` before it fetches its user list (the
    server announces an `Agreed` to the *other* users only, so a client that re-sent it after fetching
    would not learn its own change). -/
def PresEv.ok (w : PresWorld) : PresEv → Prop
  | .agreed a _ _ _ _ _ => ∀ c, w.reg.get a = some c → w.view c.conn = none
  | _ => True

/-- Decidable form of `ok`. -/
def PresEv.okb (w : PresWorld) : PresEv → Bool
  | .agreed a _ _ _ _ _ => match w.reg.get a with
    | some c => (w.view c.conn).isNone
    | none => true
  | _ => true

theorem PresEv.ok_of_okb {w : PresWorld} {e : PresEv} (h : e.okb w = true) : e.ok w := by
  cases e with
  | agreed a r nm ic o au =>
    intro c hc
    simp only [PresEv.okb, hc] at h
    cases hv : w.view c.conn with
    | none => rfl
    | some r => rw [hv] at h; cases h
  | _ => trivial

theorem infoClient_id (c : Client) (nm ic : Option Bytes) (o : Option Nat) (au : Option Bytes) :
    (infoClient c nm ic o au).id = c.id := by unfold infoClient; cases o <;> rfl

theorem infoClient_conn (c : Client) (nm ic : Option Bytes) (o : Option Nat) (au : Option Bytes) :
    (infoClient c nm ic o au).conn = c.conn := by unfold infoClient; cases o <;> rfl

theorem PresWorld.touch_inv (ac : Bytes) (st : PresWorld × List POut) (id : Nat) (h : st.1.Inv) :
    (presTouch ac st id).1.Inv := by
  unfold presTouch
  split
  · exact h
  · rename_i c hg
    have hc := Registry.get_some hg
    have hcid : c.id = id := hc.2
    simp only
    have := h.modify_broadcast (c := c) (c' := touchedClient c ac) hc.1 rfl rfl (fun _ => true)
      (by intro d _ hs; cases hs) (fun d => mkTran 301 d.id (changeFieldsC (touchedClient c ac))) (fun _ => rfl) []
      (by intro p hp; cases hp)
    rw [List.append_nil, List.filter_eq_self.mpr (fun _ _ => rfl), hcid] at this
    exact this

theorem PresWorld.touches_inv (ac : Bytes) (ids : List Nat) (st : PresWorld × List POut) (h : st.1.Inv) :
    (ids.foldl (presTouch ac) st).1.Inv := by
  induction ids generalizing st with
  | nil => exact h
  | cons i ids ih => exact ih _ (PresWorld.touch_inv ac st i h)

theorem PresWorld.step_inv {w : PresWorld} (h : w.Inv) (e : PresEv) (hok : e.ok w) : (w.step e).1.Inv := by
  cases e with
  | away a =>
    simp only [PresWorld.step]
    split
    · exact h
    · rename_i c hg
      have hc := Registry.get_some hg
      simp only [presAway]
      split
      · exact h
      · have := h.modify_broadcast (c := c) (c' := { c with flags := setFlag c.flags 0 true }) hc.1 rfl rfl (fun _ => true)
          (by intro d _ hs; cases hs) (fun d => mkTran 301 d.id (changeFieldsC { c with flags := setFlag c.flags 0 true }))
          (fun _ => rfl) [] (by intro p hp; cases hp)
        rw [List.append_nil, List.filter_eq_self.mpr (fun _ _ => rfl)] at this
        exact this
  | wake a =>
    simp only [PresWorld.step]
    split
    · exact h
    · rename_i c hg
      have hc := Registry.get_some hg
      simp only [presWake]
      split
      · exact h
      · have := h.modify_broadcast (c := c) (c' := { c with flags := setFlag c.flags 0 false }) hc.1 rfl rfl (fun _ => true)
          (by intro d _ hs; cases hs) (fun d => mkTran 301 d.id (changeFieldsC { c with flags := setFlag c.flags 0 false }))
          (fun _ => rfl) [] (by intro p hp; cases hp)
        rw [List.append_nil, List.filter_eq_self.mpr (fun _ _ => rfl)] at this
        exact this
  | connect l an ac ic =>
    simp only [PresWorld.step, presLogin]
    split
    · exact h
    · rename_i r' c ha
      exact h.add_broadcast ha false (by
        intro hann
        have := (Registry.add_spec h.reg ha).2.2.2.2.2.1
        rw [this] at hann
        simp [newPresClient] at hann) (fun d => mkTran 301 d.id (changeFieldsA c)) (fun _ => rfl)
  | loginNamed l an ac nm ic =>
    simp only [PresWorld.step, presLogin]
    split
    · exact h
    · rename_i r' c ha
      exact h.add_broadcast ha _ (by
        intro hann
        have := (Registry.add_spec h.reg ha).2.2.2.2.2.1
        rw [this] at hann
        simpa [newPresClient] using hann) (fun d => mkTran 301 d.id (changeFieldsA c)) (fun _ => rfl)
  | agreed a r nm ic o au =>
    simp only [PresWorld.step]
    split
    · exact h
    · rename_i c hg
      have hc := Registry.get_some hg
      have hnone : w.view c.conn = none := hok c hg
      simp only [presAgreed]
      refine h.modify_broadcast (c := c) (c' := agreedClient c nm ic o au) hc.1 rfl rfl (·.id != c.id) ?_
        (fun d => mkTran 301 d.id (changeFieldsA (agreedClient c nm ic o au))) (fun _ => rfl) _ ?_
      · intro d hd hs
        have hdid : d.id = c.id := by simpa using hs
        rcases (Registry.mem_modify hc.1).mp hd with rfl | ⟨_, hne⟩
        · exact hnone
        · exact absurd hdid hne
      · intro p hp
        simp only [List.mem_singleton] at hp
        rw [hp]
  | setInfo a r nm ic o au =>
    simp only [PresWorld.step]
    split
    · exact h
    · rename_i c hg
      have hc := Registry.get_some hg
      simp only [presSetInfo]
      have := h.modify_broadcast (c := c) (c' := infoClient c nm ic o au) hc.1
        (infoClient_id c nm ic o au) (infoClient_conn c nm ic o au) (fun _ => true)
        (by intro d _ hs; cases hs) (fun d => mkTran 301 d.id (changeFieldsB (infoClient c nm ic o au))) (fun _ => rfl) []
        (by intro p hp; cases hp)
      rw [List.append_nil, List.filter_eq_self.mpr (fun _ _ => rfl)] at this
      exact this
  | setUser a r l f ac =>
    simp only [PresWorld.step]
    split
    · exact h
    · simp only [presSetUser]
      split
      · exact h
      · split
        · exact h
        · exact PresWorld.touches_inv ac _ (w, []) h
  | disconnect a =>
    simp only [PresWorld.step]
    split
    · exact h
    · rename_i c hg
      exact h.delete_broadcast c.id (fun d => mkTran 302 d.id [⟨103, be16 c.id⟩]) (fun _ => rfl)
  | fetch a r =>
    simp only [PresWorld.step]
    split
    · exact h
    · rename_i c hg
      have hc := Registry.get_some hg
      exact h.fetch hc.1 _ rfl
  | sendIM a r t m q =>
    simp only [PresWorld.step]
    split
    · exact h
    · simp only [presSendIM]
      split
      · exact h
      · split <;> exact h

/-- Histories in which every `Agreed` precedes its sender's first fetch. -/
inductive PresWorld.Reach : PresWorld → Prop where
  | init : PresWorld.Reach PresWorld.init
  | step (w : PresWorld) (e : PresEv) : PresWorld.Reach w → e.ok w → PresWorld.Reach (w.step e).1

theorem PresWorld.Reach.inv {w : PresWorld} (h : w.Reach) : w.Inv := by
  induction h with
  | init => exact PresWorld.Inv.init
  | step w e _ hok ih => exact PresWorld.step_inv ih e hok

end Mobius

namespace Mobius

-- ------------------------------------------------------------------ the ghost notes are what the bytes say

theorem noteOf_change (to : Nat) (c : Client) (hid : c.id < 65536) :
    noteOf (mkTran 301 to (changeFieldsA c)) = .change (entryOf c) ∧
    noteOf (mkTran 301 to (changeFieldsB c)) = .change (entryOf c) ∧
    noteOf (mkTran 301 to (changeFieldsC c)) = .change (entryOf c) := by
  have e1 : rd16 (be16 c.id) = c.id := by rw [rd16_be16]; omega
  have e2 : rd16 (be16 c.flags) = c.flags % 65536 := rd16_be16 _
  refine ⟨?_, ?_, ?_⟩ <;>
    simp [noteOf, mkTran, changeFieldsA, changeFieldsB, changeFieldsC, getField, List.find?, entryOf, e1, e2]

theorem noteOf_left (to i : Nat) (hi : i < 65536) : noteOf (mkTran 302 to [⟨103, be16 i⟩]) = .left i := by
  have e1 : rd16 (be16 i) = i := by rw [rd16_be16]; omega
  simp [noteOf, mkTran, getField, e1]

/-- A listed record decodes to the entry of its client (2-byte icon after normalisation, name below 64 KiB). -/
theorem decode_userRecord (d : Client) (hid : d.id < 65536) (hic : (normIcon d.icon).length = 2) (hnm : d.name.length < 65536) :
    decodeUserRecord (userRecord d) = entryOf d := by
  have hrec : userRecord d = be16 d.id ++ normIcon d.icon ++ be16 d.flags ++ be16 d.name.length ++ d.name := rfl
  obtain ⟨i0, i1, hi⟩ : ∃ i0 i1, normIcon d.icon = [i0, i1] := by
    match h : normIcon d.icon, hic with
    | [a, b], _ => exact ⟨a, b, rfl⟩
  rw [hrec, hi]
  have e1 : rd16 (be16 d.id ++ [i0, i1] ++ be16 d.flags ++ be16 d.name.length ++ d.name) = d.id := by
    have : be16 d.id ++ [i0, i1] ++ be16 d.flags ++ be16 d.name.length ++ d.name =
        be16 d.id ++ ([i0, i1] ++ be16 d.flags ++ be16 d.name.length ++ d.name) := by simp
    rw [this, rd16_be16_append]; omega
  have d2 : (be16 d.id ++ [i0, i1] ++ be16 d.flags ++ be16 d.name.length ++ d.name).drop 2 =
      [i0, i1] ++ (be16 d.flags ++ (be16 d.name.length ++ d.name)) := by simp [be16]
  have d4 : (be16 d.id ++ [i0, i1] ++ be16 d.flags ++ be16 d.name.length ++ d.name).drop 4 =
      be16 d.flags ++ (be16 d.name.length ++ d.name) := by simp [be16]
  have d6 : (be16 d.id ++ [i0, i1] ++ be16 d.flags ++ be16 d.name.length ++ d.name).drop 6 =
      be16 d.name.length ++ d.name := by simp [be16]
  have d8 : (be16 d.id ++ [i0, i1] ++ be16 d.flags ++ be16 d.name.length ++ d.name).drop 8 = d.name := by simp [be16]
  unfold decodeUserRecord
  rw [e1, d2, d4, d6, d8, rd16_be16_append, rd16_be16_append]
  have : d.name.length % 65536 = d.name.length := by omega
  rw [this, List.take_length]
  simp [entryOf, hi]

end Mobius
