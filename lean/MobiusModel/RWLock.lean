/-!
  RWLock (C03): Go's `sync.RWMutex` as its callers see it, and why a method that holds a read lock
  must not call another method of the same receiver that takes the read lock again.

  `sync.RWMutex` prefers writers: once a goroutine is inside `Lock()` (it has announced itself and
  waits for the active readers to leave) every further `RLock()` blocks until that writer has had its
  turn.  A goroutine that already holds a read lock and asks for it again (`Stats.Values` calling
  `Stats.Get` under `RLock`) therefore waits for the writer, which waits for it: neither ever
  moves again, and — the mutex never becoming free — every later reader and writer of the same
  state (every login, every disconnect, every transfer, every statistics request) blocks too.
  The process does not crash and logs nothing; the server is wedged for good.

  The regenerated fact `Generated.selfLockedCalls = []` (obligation `generated_no_self_locked_calls`
  in Props/C03) asserts that the source contains no such call; the theorems below are the reason
  the obligation is asked for.
-/
set_option linter.unusedVariables false
namespace Mobius.RWLock

/-- The mutex.  `readers`: one entry per read lock held (a goroutine that nests appears twice);
    `writer`: the goroutine holding the write lock; `waiting`: goroutines inside `Lock()`, announced
    and not yet admitted. -/
structure S where
  readers : List Nat
  writer : Option Nat
  waiting : List Nat
deriving DecidableEq, Repr

def init : S := ⟨[], none, []⟩

inductive Act where
  | rlock      -- RLock() returns
  | runlock    -- RUnlock()
  | lockReq    -- Lock() is entered: the writer announces itself
  | lockGrant  -- Lock() returns
  | unlock     -- Unlock()
deriving DecidableEq, Repr

/-- One step of goroutine `t`; `none` = the call does not return in this state (blocked) or is not
    an action the goroutine can take (releasing what it does not hold). -/
def step (s : S) (t : Nat) : Act → Option S
  | .rlock => if s.writer = none ∧ s.waiting = [] then some { s with readers := t :: s.readers } else none
  | .runlock => if t ∈ s.readers then some { s with readers := s.readers.erase t } else none
  | .lockReq => if t ∈ s.waiting then none else some { s with waiting := s.waiting ++ [t] }
  | .lockGrant => if t ∈ s.waiting ∧ s.writer = none ∧ s.readers = [] then
      some { s with writer := some t, waiting := s.waiting.erase t } else none
  | .unlock => if s.writer = some t then some { s with writer := none } else none

def run (s : S) : List (Nat × Act) → Option S
  | [] => some s
  | (t, a) :: rest => match step s t a with
    | some s' => run s' rest
    | none => none

/-- The reader holds a read lock, the writer is inside `Lock()`. -/
def Stuck (s : S) (r w : Nat) : Prop := r ∈ s.readers ∧ w ∈ s.waiting

/-- In such a state the reader's nested `RLock()` does not return and the writer's `Lock()` does not return. -/
theorem stuck_blocks_both (s : S) (r w : Nat) (h : Stuck s r w) :
    step s r .rlock = none ∧ step s w .lockGrant = none := by
  obtain ⟨hr, hw⟩ := h
  constructor
  · simp only [step]
    have : s.waiting ≠ [] := by intro e; rw [e] at hw; cases hw
    simp [this]
  · simp only [step]
    have : s.readers ≠ [] := by intro e; rw [e] at hr; cases hr
    simp [this]

/-- … and nobody else gets the mutex either: every `RLock()` and every `Lock()` of any goroutine blocks. -/
theorem stuck_blocks_everyone (s : S) (r w : Nat) (h : Stuck s r w) (t : Nat) :
    step s t .rlock = none ∧ step s t .lockGrant = none := by
  obtain ⟨hr, hw⟩ := h
  have h1 : s.waiting ≠ [] := by intro e; rw [e] at hw; cases hw
  have h2 : s.readers ≠ [] := by intro e; rw [e] at hr; cases hr
  constructor <;> simp [step, h1, h2]

/-- One step by a goroutine other than the stuck reader and writer keeps them stuck. -/
theorem stuck_step (s s' : S) (r w t : Nat) (a : Act) (h : Stuck s r w) (htr : t ≠ r) (htw : t ≠ w)
    (hs : step s t a = some s') : Stuck s' r w := by
  obtain ⟨hr, hw⟩ := h
  have h2 : s.readers ≠ [] := by intro e; rw [e] at hr; cases hr
  cases a with
  | rlock =>
    simp only [step] at hs
    split at hs
    · injection hs with hs; subst hs; exact ⟨List.mem_cons_of_mem _ hr, hw⟩
    · cases hs
  | runlock =>
    simp only [step] at hs
    split at hs
    · injection hs with hs; subst hs
      exact ⟨(List.mem_erase_of_ne (Ne.symm htr)).mpr hr, hw⟩
    · cases hs
  | lockReq =>
    simp only [step] at hs
    split at hs
    · cases hs
    · injection hs with hs; subst hs; exact ⟨hr, List.mem_append_left _ hw⟩
  | lockGrant =>
    simp only [step] at hs
    split at hs
    · rename_i hc; exact absurd hc.2.2 h2
    · cases hs
  | unlock =>
    simp only [step] at hs
    split at hs
    · injection hs with hs; subst hs; exact ⟨hr, hw⟩
    · cases hs

/-- **Nested read lock + waiting writer = deadlock for good.**  From a state in which `r` holds a
    read lock and `w` is inside `Lock()`, take ANY continuation the mutex allows in which `r`'s only
    possible action is its nested `RLock()` and `w`'s only possible action is the return of its
    `Lock()` (program order: both are inside a blocking call).  Then neither of them ever takes a
    step, and at the end they are still stuck — so (`stuck_blocks_everyone`) every other goroutine
    that asks for the mutex blocks as well. -/
theorem nested_rlock_deadlocks (sched : List (Nat × Act)) (s s' : S) (r w : Nat)
    (h : Stuck s r w)
    (hprog : ∀ ta ∈ sched, (ta.1 = r → ta.2 = .rlock) ∧ (ta.1 = w → ta.2 = .lockGrant))
    (hrun : run s sched = some s') :
    Stuck s' r w ∧ ∀ ta ∈ sched, ta.1 ≠ r ∧ ta.1 ≠ w := by
  induction sched generalizing s with
  | nil =>
    simp only [run] at hrun
    injection hrun with hrun
    subst hrun
    exact ⟨h, fun _ hm => by cases hm⟩
  | cons ta rest ih =>
    obtain ⟨t, a⟩ := ta
    simp only [run] at hrun
    cases hst : step s t a with
    | none => rw [hst] at hrun; cases hrun
    | some s1 =>
      rw [hst] at hrun
      have hp := hprog (t, a) (by simp)
      have htr : t ≠ r := by
        intro e
        have ha : a = .rlock := hp.1 e
        subst e; subst ha
        rw [(stuck_blocks_both s t w h).1] at hst
        cases hst
      have htw : t ≠ w := by
        intro e
        have ha : a = .lockGrant := hp.2 e
        subst e; subst ha
        rw [(stuck_blocks_both s r t h).2] at hst
        cases hst
      have h1 := stuck_step s s1 r w t a h htr htw hst
      obtain ⟨hs', hall⟩ := ih s1 h1 (fun x hx => hprog x (List.mem_cons_of_mem _ hx)) hrun
      refine ⟨hs', ?_⟩
      intro x hx
      rcases List.mem_cons.mp hx with e | hx
      · subst e; exact ⟨htr, htw⟩
      · exact hall x hx

/-- How the stuck state arises: a reader takes the read lock, a writer enters `Lock()` — one step each. -/
theorem stuck_after_reader_then_writer (r w : Nat) :
    ∃ s, run init [(r, .rlock), (w, .lockReq)] = some s ∧ Stuck s r w := by
  refine ⟨⟨[r], none, [w]⟩, ?_, ?_⟩
  · simp [run, step, init]
  · simp [Stuck]

/-- Without a writer in between, the nested read lock goes through — which is why single-threaded
    use and tests that never read the statistics concurrently do not show the defect. -/
theorem nested_rlock_without_writer_returns (r : Nat) :
    run init [(r, .rlock), (r, .rlock), (r, .runlock), (r, .runlock)] = some init := by
  simp [run, step, init]

/-- The discipline the source follows (every holder's next action on the mutex is its release —
    obligations `generated_locks_released` and `generated_no_self_locked_calls`) cannot wedge:
    in EVERY state some holder can release, or nobody holds the mutex and the first waiting writer
    is admitted, or the mutex is free for any reader. -/
theorem progress_when_holders_release (s : S) :
    (∃ t, t ∈ s.readers ∧ (step s t .runlock).isSome) ∨
    (∃ t, s.writer = some t ∧ (step s t .unlock).isSome) ∨
    (∃ t, t ∈ s.waiting ∧ (step s t .lockGrant).isSome) ∨
    (∀ t, (step s t .rlock).isSome) := by
  cases hr : s.readers with
  | cons t rest =>
    exact Or.inl ⟨t, by simp, by simp [step, hr]⟩
  | nil =>
    cases hw : s.writer with
    | some t => exact Or.inr (Or.inl ⟨t, rfl, by simp [step, hw]⟩)
    | none =>
      cases hq : s.waiting with
      | cons t rest => exact Or.inr (Or.inr (Or.inl ⟨t, by simp, by simp [step, hq, hw, hr]⟩))
      | nil => exact Or.inr (Or.inr (Or.inr (fun t => by simp [step, hq, hw])))

end Mobius.RWLock
