import MobiusModel.Accounts
/-!
  Accounts under a failing persist (C15 / C16, wave d).

  `Fault.tmpBlocked`: while a request is served the account store cannot write its temporary file
  `Users/.account.tmp` (full disk, I/O error, something un-removable occupying the name).  `Create` and
  `Update` write the complete file under that name first, so:

  * `Create` fails before anything is linked or stored — nothing changes;
  * `Update` without a login change fails before the rename onto the account file and before the table is
    assigned — nothing changes;
  * `Update` WITH a login change has already renamed the file and switched the table when the write fails:
    the request is refused, memory holds the renamed account with its new contents, the file (under its new
    name) still holds the old login and contents.  This is the code as it is (finding reported with wave d:
    `rename_with_failing_write_breaks_agreement` below is its witness); the invariant theorem therefore
    excludes rename records from the requests served under the fault (`NoRename`);
  * `Delete` does not use the temporary file.

  `stepF` is `step` under a fault; `.none` is `step` itself (`stepF_none`).
-/
namespace Mobius.Accounts
variable {H : Type}

inductive Fault where
  | none
  | tmpBlocked
deriving DecidableEq, Repr

def createF (flt : Fault) (env : Env H) (a : Account H) (st : State H) : Bool × State H :=
  if flt = .tmpBlocked then (false, st) else create env a st

def updateF (flt : Fault) (env : Env H) (a : Account H) (newLogin : Login) (st : State H) : Bool × State H :=
  if flt = .tmpBlocked then
    if a.login ≠ newLogin then
      if (st.mem.get newLogin).isSome then (false, st) else
      match st.disk.get (fileU a.login) with
      | none => (false, st)
      | some old =>
        if !nameOK env (fileU newLogin) then (false, st) else
        let a' : Account H := { a with login := newLogin }
        -- file renamed, table switched; the write of the new contents fails
        (false, ⟨(st.mem.set newLogin a').del a.login, (st.disk.del (fileU a.login)).set (fileU newLogin) old⟩)
    else (false, st)
  else update env a newLogin st

def handleNewUserF (flt : Fault) (env : Env H) (fs : List Field) (st : State H) : State H × Out H :=
  let login := obfuscate (fieldData 105 fs)
  if (st.mem.get login).isSome then (st, .errReply) else
  let a : Account H := ⟨login, fieldData 102 fs, env.hash (fieldData 106 fs), copyAccess zeros8 (fieldData 110 fs)⟩
  match createF flt env a st with
  | (true, st') => (st', .done)
  | (false, _) => (st, .errReply)

def handleSetUserF (flt : Fault) (env : Env H) (fs : List Field) (st : State H) : State H × Out H :=
  let login := obfuscate (fieldData 105 fs)
  match st.mem.get login with
  | none => (st, .errReply)
  | some acc =>
    let a : Account H := { acc with
      name := fieldData 102 fs,
      access := copyAccess acc.access (fieldData 110 fs),
      hash := pwUpdate env acc.hash (getField 106 fs) }
    ((updateF flt env a a.login st).2, .done)

def updateRecF (flt : Fault) (env : Env H) (fs : List Field) (st : State H) : State H × Option (Out H) :=
  if fs.length = 1 then
    match getField 101 fs with
    | none => (st, some .panic)
    | some d =>
      match delete env (obfuscate d) st with
      | (true, st') => (st', none)
      | (false, _) => (st, some .silent)
  else
    match getField 105 fs with
    | none => (st, some .panic)
    | some lg =>
      let userLogin := obfuscate lg
      match st.mem.get (accountToUpdate fs userLogin) with
      | some acc =>
        match getField 102 fs with
        | none => (st, some .panic)
        | some nm =>
          let a : Account H := { acc with
            hash := pwUpdate env acc.hash (getField 106 fs),
            access := match getField 110 fs with
              | some ac => copyAccess acc.access ac
              | none => acc.access,
            name := nm }
          match updateF flt env a userLogin st with
          | (true, st') => (st', none)
          | (false, st') => (st', some .silent)
      | none =>
        match getField 110 fs, getField 102 fs, getField 106 fs with
        | some ac, some nm, some pw =>
          match createF flt env ⟨userLogin, nm, env.hash pw, copyAccess zeros8 ac⟩ st with
          | (true, st') => (st', none)
          | (false, _) => (st, some .errReply)
        | _, _, _ => (st, some .panic)

def handleUpdateUserF (flt : Fault) (env : Env H) : List (List Field) → State H → State H × Out H
  | [], st => (st, .done)
  | fs :: rest, st =>
    match updateRecF flt env fs st with
    | (st', none) => handleUpdateUserF flt env rest st'
    | (st', some o) => (st', o)

/-- one operation, served while `flt` holds -/
def stepF (env : Env H) (st : State H) : Fault × Op → State H × Out H
  | (flt, .newUser fs) => handleNewUserF flt env fs st
  | (flt, .setUser fs) => handleSetUserF flt env fs st
  | (flt, .updateUser recs) => handleUpdateUserF flt env recs st
  | (_, op) => step env st op

def runF (env : Env H) (st : State H) (ops : List (Fault × Op)) : State H :=
  ops.foldl (fun s o => (stepF env s o).1) st

-- ---------------------------------------------------------------- without a fault it is `step`

theorem createF_none (env : Env H) : createF .none env = create env := by
  funext a st; simp [createF]

theorem updateF_none (env : Env H) : updateF .none env = update env := by
  funext a n st; simp [updateF]

theorem updateRecF_none (env : Env H) (fs : List Field) (st : State H) : updateRecF .none env fs st = updateRec env fs st := by
  unfold updateRecF updateRec
  rw [createF_none, updateF_none]
  rfl

theorem handleUpdateUserF_none (env : Env H) (recs : List (List Field)) (st : State H) :
    handleUpdateUserF .none env recs st = handleUpdateUser env recs st := by
  induction recs generalizing st with
  | nil => rfl
  | cons fs rest ih =>
    unfold handleUpdateUserF handleUpdateUser
    rw [updateRecF_none]
    cases updateRec env fs st with
    | mk st' o => cases o with
      | none => exact ih st'
      | some o => rfl

theorem stepF_none (env : Env H) (st : State H) (op : Op) : stepF env st (.none, op) = step env st op := by
  cases op with
  | newUser fs => show handleNewUserF .none env fs st = handleNewUser env fs st; unfold handleNewUserF handleNewUser; rw [createF_none]; rfl
  | setUser fs => show handleSetUserF .none env fs st = handleSetUser env fs st; unfold handleSetUserF handleSetUser; rw [updateF_none]; rfl
  | updateUser recs => exact handleUpdateUserF_none env recs st
  | deleteUser fs => rfl
  | getUser fs => rfl
  | listUsers => rfl
  | login l pw => rfl
  | restart => rfl

-- ---------------------------------------------------------------- a failing persist changes nothing

theorem createF_blocked (env : Env H) (a : Account H) (st : State H) : createF .tmpBlocked env a st = (false, st) := by
  simp [createF]

theorem updateF_blocked_same (env : Env H) (a : Account H) (st : State H) :
    updateF .tmpBlocked env a a.login st = (false, st) := by
  simp [updateF]

/-- new-user while the temporary file cannot be written: refused, nothing changes. -/
theorem handleNewUserF_blocked (env : Env H) (fs : List Field) (st : State H) :
    handleNewUserF .tmpBlocked env fs st = (st, .errReply) := by
  unfold handleNewUserF
  simp only [createF_blocked]
  split <;> rfl

/-- set-user while the temporary file cannot be written: nothing changes (the handler only logs the error). -/
theorem handleSetUserF_blocked (env : Env H) (fs : List Field) (st : State H) :
    (handleSetUserF .tmpBlocked env fs st).1 = st := by
  unfold handleSetUserF
  simp only
  split
  · rfl
  · rename_i acc _
    exact congrArg Prod.snd (updateF_blocked_same env
      { acc with name := fieldData 102 fs, access := copyAccess acc.access (fieldData 110 fs),
                 hash := pwUpdate env acc.hash (getField 106 fs) } st)

/-- A sub-record that does not change the login: the login field names the account that is looked up. -/
def NoRename (fs : List Field) : Prop :=
  ∀ lg, getField 105 fs = some lg → accountToUpdate fs (obfuscate lg) = obfuscate lg

instance (fs : List Field) : Decidable (NoRename fs) := by
  unfold NoRename
  cases h : getField 105 fs with
  | none => exact isTrue (fun lg e => by cases e)
  | some lg =>
    by_cases e : accountToUpdate fs (obfuscate lg) = obfuscate lg
    · exact isTrue (fun lg' e' => by cases e'; exact e)
    · exact isFalse (fun hh => e (hh lg rfl))

/-- A create or modify sub-record while the temporary file cannot be written changes nothing and ends the
    request (a delete sub-record does not need the temporary file and is applied). -/
theorem updateRecF_blocked (env : Env H) (fs : List Field) (st : State H) (hi : Inv st)
    (hn1 : fs.length ≠ 1) (hnr : NoRename fs) :
    (updateRecF .tmpBlocked env fs st).1 = st ∧ (updateRecF .tmpBlocked env fs st).2 ≠ none := by
  unfold updateRecF
  rw [if_neg hn1]
  split
  · exact ⟨rfl, by simp⟩
  · rename_i lg hlg
    simp only
    split
    · rename_i acc hacc
      split
      · exact ⟨rfl, by simp⟩
      · rename_i nm _
        rw [hnr lg hlg] at hacc
        have hl : acc.login = obfuscate lg := (hi.mem_ok _ _ hacc).1
        have : updateF .tmpBlocked env { acc with
            hash := pwUpdate env acc.hash (getField 106 fs),
            access := match getField 110 fs with
              | some ac => copyAccess acc.access ac
              | none => acc.access,
            name := nm } acc.login st = (false, st) := updateF_blocked_same env { acc with
            hash := pwUpdate env acc.hash (getField 106 fs),
            access := match getField 110 fs with
              | some ac => copyAccess acc.access ac
              | none => acc.access,
            name := nm } st
        rw [← hl, this]
        exact ⟨rfl, by simp⟩
    · split
      · simp [createF_blocked]
      · exact ⟨rfl, by simp⟩

-- ---------------------------------------------------------------- the invariant with failing steps

theorem createF_inv (flt : Fault) (env : Env H) (a : Account H) (st : State H) (h : Inv st) (hl : LegalLogin a.login) :
    Inv (createF flt env a st).2 := by
  unfold createF
  split
  · exact h
  · exact create_inv env a st h hl

theorem updateF_inv (flt : Fault) (env : Env H) (a : Account H) (n : Login) (st : State H) (h : Inv st)
    (ha : LegalLogin a.login) (hn : LegalLogin n) (hsafe : flt = .tmpBlocked → a.login = n) :
    Inv (updateF flt env a n st).2 := by
  unfold updateF
  split
  · rename_i hf
    rw [if_neg (by simpa using hsafe hf)]
    exact h
  · exact update_inv env a n st h ha hn

theorem updateRecF_inv (flt : Fault) (env : Env H) (fs : List Field) (st : State H) (h : Inv st) (hl : RecLegal fs)
    (hsafe : flt = .tmpBlocked → NoRename fs) : Inv (updateRecF flt env fs st).1 := by
  obtain ⟨hlg, hdel⟩ := hl
  unfold updateRecF
  split
  · rename_i h1
    split
    · exact h
    · rename_i d hdd
      have := delete_inv env (obfuscate d) st h (optAll_some (p := fun d => LegalLogin (obfuscate d)) (hdel h1) hdd)
      split
      · rename_i st' heq; rw [heq] at this; exact this
      · exact h
  · simp only
    split
    · exact h
    · rename_i lg hlg'
      have hul : LegalLogin (obfuscate lg) := optAll_some (p := fun d => LegalLogin (obfuscate d)) hlg hlg'
      split
      · rename_i acc hacc
        obtain ⟨h1, h2, _⟩ := h.mem_ok _ _ hacc
        split
        · exact h
        · rename_i nm _
          have := updateF_inv flt env { acc with
              hash := pwUpdate env acc.hash (getField 106 fs),
              access := match getField 110 fs with
                | some ac => copyAccess acc.access ac
                | none => acc.access,
              name := nm } (obfuscate lg) st h (by simp only; rw [h1]; exact h2) hul
              (fun hf => by simp only; rw [h1]; exact hsafe hf lg hlg')
          split
          · rename_i st' heq; rw [heq] at this; exact this
          · rename_i st' heq; rw [heq] at this; exact this
      · split
        · rename_i ac nm pw _ _ _
          have := createF_inv flt env ⟨obfuscate lg, nm, env.hash pw, copyAccess zeros8 ac⟩ st h hul
          split
          · rename_i st' heq; rw [heq] at this; exact this
          · exact h
        · exact h

theorem handleUpdateUserF_inv (flt : Fault) (env : Env H) (recs : List (List Field)) (st : State H) (h : Inv st)
    (hl : ∀ fs ∈ recs, RecLegal fs) (hsafe : flt = .tmpBlocked → ∀ fs ∈ recs, NoRename fs) :
    Inv (handleUpdateUserF flt env recs st).1 := by
  induction recs generalizing st with
  | nil => exact h
  | cons fs rest ih =>
    unfold handleUpdateUserF
    have h1 := updateRecF_inv flt env fs st h (hl fs (by simp)) (fun hf => hsafe hf fs (by simp))
    split
    · rename_i st' heq
      rw [heq] at h1
      exact ih st' h1 (fun g hg => hl g (by simp [hg])) (fun hf g hg => hsafe hf g (by simp [hg]))
    · rename_i st' o heq
      rw [heq] at h1; exact h1

/-- a request that may be served under the fault: legal logins, and no rename record while the temporary
    file cannot be written (see the header: that case is the reported finding) -/
def FLegal : Fault × Op → Prop
  | (flt, .updateUser recs) => (∀ fs ∈ recs, RecLegal fs) ∧ (flt = .tmpBlocked → ∀ fs ∈ recs, NoRename fs)
  | (_, op) => op.Legal

instance (o : Fault × Op) : Decidable (FLegal o) := by
  obtain ⟨flt, op⟩ := o
  cases op <;> unfold FLegal <;> infer_instance

theorem stepF_inv (env : Env H) (st : State H) (o : Fault × Op) (h : Inv st) (hl : FLegal o) : Inv (stepF env st o).1 := by
  obtain ⟨flt, op⟩ := o
  cases op with
  | newUser fs =>
    show Inv (handleNewUserF flt env fs st).1
    unfold handleNewUserF
    simp only
    split
    · exact h
    · have := createF_inv flt env ⟨obfuscate (fieldData 105 fs), fieldData 102 fs, env.hash (fieldData 106 fs),
        copyAccess zeros8 (fieldData 110 fs)⟩ st h hl
      split
      · rename_i st' heq; rw [heq] at this; exact this
      · exact h
  | setUser fs =>
    show Inv (handleSetUserF flt env fs st).1
    unfold handleSetUserF
    simp only
    split
    · exact h
    · rename_i acc hacc
      obtain ⟨h1, h2, _⟩ := h.mem_ok _ _ hacc
      apply updateF_inv flt env _ _ st h
      · simp only; rw [h1]; exact h2
      · show LegalLogin acc.login; rw [h1]; exact h2
      · intro _; rfl
  | updateUser recs => exact handleUpdateUserF_inv flt env recs st h hl.1 hl.2
  | deleteUser fs => exact step_inv env st (.deleteUser fs) h hl
  | getUser fs => exact step_inv env st (.getUser fs) h hl
  | listUsers => exact h
  | login l pw => exact h
  | restart => exact restart_inv st h

theorem runF_inv (env : Env H) (ops : List (Fault × Op)) (st : State H) (h : Inv st) (hl : ∀ o ∈ ops, FLegal o) :
    Inv (runF env st ops) := by
  induction ops generalizing st with
  | nil => exact h
  | cons o rest ih =>
    simp only [runF, List.foldl_cons]
    exact ih _ (stepF_inv env st o h (hl o (by simp))) (fun p hp => hl p (by simp [hp]))

end Mobius.Accounts
