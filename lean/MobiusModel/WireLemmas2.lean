import MobiusModel.WireLemmas
/-! Round-trip lemmas for further wire objects (User, FileNameWithInfo, file paths). -/
namespace Mobius

theorem User.encode_length (u : User) : u.encode.length = 8 + u.name.length := by
  simp [User.encode]; omega

theorem User.decode_encode' (u : User) (h : u.WF) : User.decode u.encode = .ok (u, 8 + u.name.length) := by
  obtain ⟨hid, hic, hfl, hn⟩ := h
  have hl := User.encode_length u
  have e0 : u.encode = be16 u.id ++ (be16 u.icon ++ (be16 u.flags ++ (be16 u.name.length ++ u.name))) := by
    simp [User.encode]
  have d2 : u.encode.drop 2 = be16 u.icon ++ (be16 u.flags ++ (be16 u.name.length ++ u.name)) := by
    simp [User.encode, be16]
  have d4 : u.encode.drop 4 = be16 u.flags ++ (be16 u.name.length ++ u.name) := by
    simp [User.encode, be16]
  have d6 : u.encode.drop 6 = be16 u.name.length ++ u.name := by
    simp [User.encode, be16]
  have d8 : u.encode.drop 8 = u.name := by
    simp [User.encode, be16]
  unfold User.decode
  rw [d6, rd16_be16_append, d2, d4, d8, rd16_be16_append, rd16_be16_append]
  rw [e0, rd16_be16_append, ← e0]
  have m1 : u.name.length % 65536 = u.name.length := by omega
  have m2 : u.id % 65536 = u.id := by omega
  have m3 : u.icon % 65536 = u.icon := by omega
  have m4 : u.flags % 65536 = u.flags := by omega
  rw [m1, m2, m3, m4]
  have c1 : ¬ (u.encode.length < 8) := by omega
  have c2 : ¬ (u.encode.length < 8 + u.name.length) := by omega
  simp [c1, c2]

/-- encoded path items -/
def itemsEncode (items : List Bytes) : Bytes := (items.map fun n => [0, 0, b8 n.length] ++ n).flatten

theorem pathEncode_eq (items : List Bytes) : pathEncode items = be16 items.length ++ itemsEncode items := rfl

theorem itemsEncode_cons (it : Bytes) (items : List Bytes) :
    itemsEncode (it :: items) = [0, 0, b8 it.length] ++ it ++ itemsEncode items := by
  simp [itemsEncode]

theorem pathDecodeItems_succ (d : Bytes) (n pos : Nat) :
    pathDecodeItems d (n + 1) pos =
      (let rem := d.length - pos
       if rem < 3 then .err
       else
         let l := ((d.drop (pos + 2)).headD 0).toNat
         if 3 + l ≤ rem then
           let name := (d.drop (pos + 3)).take l
           match pathDecodeItems d n (pos + 3 + l) with
           | .ok is => .ok (name :: is)
           | r => r
         else if pos + 3 + l > scanBufCap then .panic
         else .err) := rfl

theorem pathDecodeItems_encode (items : List Bytes) (h : ∀ it ∈ items, it.length < 256)
    (pre : Bytes) :
    pathDecodeItems (pre ++ itemsEncode items) items.length pre.length = .ok items := by
  induction items generalizing pre with
  | nil => simp [pathDecodeItems]
  | cons it items ih =>
    have hit : it.length < 256 := h it (by simp)
    rw [itemsEncode_cons, List.length_cons, pathDecodeItems_succ]
    have hlen : (pre ++ ([0, 0, b8 it.length] ++ it ++ itemsEncode items)).length - pre.length
        = 3 + it.length + (itemsEncode items).length := by simp; omega
    have hd2 : (pre ++ ([0, 0, b8 it.length] ++ it ++ itemsEncode items)).drop (pre.length + 2)
        = b8 it.length :: (it ++ itemsEncode items) := by
      rw [List.drop_append]
      simp
    have hd3 : (pre ++ ([0, 0, b8 it.length] ++ it ++ itemsEncode items)).drop (pre.length + 3)
        = it ++ itemsEncode items := by
      rw [List.drop_append]
      simp
    dsimp only
    rw [hlen, hd2, hd3]
    have hb : (b8 it.length).toNat = it.length := by simp; omega
    simp only [List.headD_cons, hb]
    have c1 : ¬ (3 + it.length + (itemsEncode items).length < 3) := by omega
    have c2 : 3 + it.length ≤ 3 + it.length + (itemsEncode items).length := by omega
    simp only [c1, c2, if_false, if_true]
    have htake : (it ++ itemsEncode items).take it.length = it := by simp
    rw [htake]
    have hpre : pre ++ ([0, 0, b8 it.length] ++ it ++ itemsEncode items)
        = (pre ++ [0, 0, b8 it.length] ++ it) ++ itemsEncode items := by simp
    have hpl : pre.length + 3 + it.length = (pre ++ [0, 0, b8 it.length] ++ it).length := by simp; omega
    rw [hpre, hpl, ih (fun x hx => h x (by simp [hx]))]

/-- `FilePath.Write` on an encoded path yields the items. -/
theorem pathDecode_encode (items : List Bytes) (h : ∀ it ∈ items, it.length < 256) (hn : items.length < 65536) :
    pathDecode (pathEncode items) = .ok items := by
  unfold pathDecode
  rw [pathEncode_eq]
  have hl : (be16 items.length ++ itemsEncode items).length = 2 + (itemsEncode items).length := by simp
  have c1 : ¬ ((be16 items.length ++ itemsEncode items).length = 0) := by omega
  have c2 : ¬ ((be16 items.length ++ itemsEncode items).length < 2) := by omega
  simp only [c1, c2, if_false]
  rw [rd16_be16_append]
  have : items.length % 65536 = items.length := by omega
  rw [this]
  have hd : (be16 items.length ++ itemsEncode items).drop 2 = itemsEncode items := by simp [be16]
  rw [hd]
  have := pathDecodeItems_encode items h []
  simpa using this

end Mobius

namespace Mobius

theorem FileNameWithInfo.encode_length (f : FileNameWithInfo) (h : f.WF) : f.encode.length = 20 + f.name.length := by
  obtain ⟨h1, h2, h3, _, _, _⟩ := h
  simp [FileNameWithInfo.encode, h1, h2, h3]; omega

/-- `FileNameWithInfo.Write` on an emitted record yields the record. -/
theorem FileNameWithInfo.decode_encode' (f : FileNameWithInfo) (h : f.WF) :
    FileNameWithInfo.decode f.encode = .ok f := by
  have hl := FileNameWithInfo.encode_length f h
  cases f with
  | mk ty cr sz rs sc nm =>
  obtain ⟨h1, h2, h3, hs, hsc, hn⟩ := h
  simp only at h1 h2 h3 hs hsc hn hl
  match ty, h1, cr, h2, rs, h3 with
  | [t0, t1, t2, t3], _, [c0, c1, c2, c3], _, [r0, r1, r2, r3], _ =>
    have e : (FileNameWithInfo.mk [t0, t1, t2, t3] [c0, c1, c2, c3] sz [r0, r1, r2, r3] sc nm).encode
        = [t0, t1, t2, t3] ++ ([c0, c1, c2, c3] ++ (be32 sz ++ ([r0, r1, r2, r3] ++ (be16 sc ++ (be16 nm.length ++ nm))))) := by
      simp [FileNameWithInfo.encode]
    unfold FileNameWithInfo.decode
    rw [e] at hl ⊢
    have c1' : ¬ (([t0, t1, t2, t3] ++ ([c0, c1, c2, c3] ++ (be32 sz ++ ([r0, r1, r2, r3] ++ (be16 sc ++ (be16 nm.length ++ nm)))))).length < 20) := by
      omega
    simp only [c1', if_false]
    have d18 : ([t0, t1, t2, t3] ++ ([c0, c1, c2, c3] ++ (be32 sz ++ ([r0, r1, r2, r3] ++ (be16 sc ++ (be16 nm.length ++ nm)))))).drop 18
        = be16 nm.length ++ nm := by simp [be32, be16]
    have d8 : ([t0, t1, t2, t3] ++ ([c0, c1, c2, c3] ++ (be32 sz ++ ([r0, r1, r2, r3] ++ (be16 sc ++ (be16 nm.length ++ nm)))))).drop 8
        = be32 sz ++ ([r0, r1, r2, r3] ++ (be16 sc ++ (be16 nm.length ++ nm))) := by simp
    have d16 : ([t0, t1, t2, t3] ++ ([c0, c1, c2, c3] ++ (be32 sz ++ ([r0, r1, r2, r3] ++ (be16 sc ++ (be16 nm.length ++ nm)))))).drop 16
        = be16 sc ++ (be16 nm.length ++ nm) := by simp [be32]
    have d20 : ([t0, t1, t2, t3] ++ ([c0, c1, c2, c3] ++ (be32 sz ++ ([r0, r1, r2, r3] ++ (be16 sc ++ (be16 nm.length ++ nm)))))).drop 20
        = nm := by simp [be32, be16]
    have d4 : (([t0, t1, t2, t3] ++ ([c0, c1, c2, c3] ++ (be32 sz ++ ([r0, r1, r2, r3] ++ (be16 sc ++ (be16 nm.length ++ nm)))))).drop 4).take 4
        = [c0, c1, c2, c3] := by simp
    have d12 : (([t0, t1, t2, t3] ++ ([c0, c1, c2, c3] ++ (be32 sz ++ ([r0, r1, r2, r3] ++ (be16 sc ++ (be16 nm.length ++ nm)))))).drop 12).take 4
        = [r0, r1, r2, r3] := by simp [be32]
    have t4 : ([t0, t1, t2, t3] ++ ([c0, c1, c2, c3] ++ (be32 sz ++ ([r0, r1, r2, r3] ++ (be16 sc ++ (be16 nm.length ++ nm)))))).take 4
        = [t0, t1, t2, t3] := by simp
    rw [d18, rd16_be16_append]
    have m1 : nm.length % 65536 = nm.length := by omega
    rw [m1]
    have c2' : ¬ (([t0, t1, t2, t3] ++ ([c0, c1, c2, c3] ++ (be32 sz ++ ([r0, r1, r2, r3] ++ (be16 sc ++ (be16 nm.length ++ nm)))))).length < 20 + nm.length) := by
      omega
    simp only [c2', if_false]
    rw [t4, d4, d8, rd32_be32_append, d12, d16, rd16_be16_append, d20]
    have m2 : sz % 4294967296 = sz := by omega
    have m3 : sc % 65536 = sc := by omega
    rw [m2, m3]
    simp

end Mobius

namespace Mobius

def ForkInfo.WF (f : ForkInfo) : Prop := f.fork.length = 4 ∧ f.offset < 4294967296

theorem ForkInfo.encode_length (f : ForkInfo) (h : f.WF) : f.encode.length = 16 := by
  simp [ForkInfo.encode, h.1]

def forksEncode (fs : List ForkInfo) : Bytes := (fs.map ForkInfo.encode).flatten

theorem forksEncode_length (fs : List ForkInfo) (h : ∀ f ∈ fs, f.WF) : (forksEncode fs).length = 16 * fs.length := by
  induction fs with
  | nil => rfl
  | cons f fs ih =>
    have := ForkInfo.encode_length f (h f (by simp))
    simp only [forksEncode, List.map_cons, List.flatten_cons, List.length_append, List.length_cons] at ih ⊢
    rw [this, ih (fun g hg => h g (by simp [hg]))]; omega

theorem resumeDecodeForks_succ (n i : Nat) (b : Bytes) :
    resumeDecodeForks (n + 1) i b =
      (let start := 42 + i * 16
       if b.length < start + 16 then .panic
       else
         match resumeDecodeForks n (i + 1) b with
         | .ok fs => .ok (⟨(b.drop start).take 4, rd32 (b.drop (start + 4))⟩ :: fs)
         | r => r) := rfl

/-- Decoding the fork list: `hdr` is any 42-byte header, `pre` the forks already passed. -/
theorem resumeDecodeForks_encode (hdr : Bytes) (hh : hdr.length = 42) (pre rest : List ForkInfo)
    (hp : ∀ f ∈ pre, f.WF) (hr : ∀ f ∈ rest, f.WF) :
    resumeDecodeForks rest.length pre.length (hdr ++ forksEncode pre ++ forksEncode rest) = .ok rest := by
  induction rest generalizing pre with
  | nil => simp [resumeDecodeForks]
  | cons f rest ih =>
    have hf := hr f (by simp)
    have hfl := ForkInfo.encode_length f hf
    have hpl := forksEncode_length pre hp
    have hrl := forksEncode_length rest (fun g hg => hr g (by simp [hg]))
    rw [List.length_cons, resumeDecodeForks_succ]
    have hcons : forksEncode (f :: rest) = f.encode ++ forksEncode rest := by simp [forksEncode]
    have hlen : (hdr ++ forksEncode pre ++ forksEncode (f :: rest)).length = 42 + 16 * pre.length + 16 + 16 * rest.length := by
      rw [hcons]; simp [hh, hpl, hfl, hrl]; omega
    dsimp only
    have c1 : ¬ ((hdr ++ forksEncode pre ++ forksEncode (f :: rest)).length < 42 + pre.length * 16 + 16) := by
      rw [hlen]; omega
    simp only [c1, if_false]
    -- the recursive call sees `pre ++ [f]` as passed
    have hpre' : hdr ++ forksEncode pre ++ forksEncode (f :: rest) = hdr ++ forksEncode (pre ++ [f]) ++ forksEncode rest := by
      simp [forksEncode, List.append_assoc]
    have ih' := ih (pre ++ [f]) (by
      intro g hg
      rcases List.mem_append.mp hg with h | h
      · exact hp g h
      · simp at h; subst h; exact hf) (fun g hg => hr g (by simp [hg]))
    rw [List.length_append, List.length_singleton] at ih'
    rw [hpre', ih']
    simp only
    -- the fork read at this position is `f`
    have hdrop : (hdr ++ forksEncode (pre ++ [f]) ++ forksEncode rest).drop (42 + pre.length * 16)
        = f.encode ++ forksEncode rest := by
      rw [← hpre', hcons]
      have : (hdr ++ forksEncode pre).length = 42 + pre.length * 16 := by simp [hh, hpl]; omega
      exact List.drop_left' this
    have hdrop4 : (hdr ++ forksEncode (pre ++ [f]) ++ forksEncode rest).drop (42 + pre.length * 16 + 4)
        = be32 f.offset ++ ([0, 0, 0, 0, 0, 0, 0, 0] ++ forksEncode rest) := by
      rw [← List.drop_drop, hdrop]
      simp only [ForkInfo.encode, List.append_assoc]
      exact List.drop_left' hf.1
    rw [hdrop, hdrop4, rd32_be32_append]
    have : f.offset % 4294967296 = f.offset := by have := hf.2; omega
    rw [this]
    have htake : (f.encode ++ forksEncode rest).take 4 = f.fork := by
      simp only [ForkInfo.encode, List.append_assoc]
      exact List.take_left' hf.1
    rw [htake]

/-- `FileResumeData.UnmarshalBinary` on `BinaryMarshal` output yields the fork list. -/
theorem resumeDecode_encode (forks : List ForkInfo) (h : ∀ f ∈ forks, f.WF) (hn : forks.length < 256) :
    resumeDecode (resumeEncode forks) = .ok forks := by
  unfold resumeDecode resumeEncode
  have hfl := forksEncode_length forks h
  have hhdr : ([0x52, 0x46, 0x4C, 0x54] ++ be16 1 ++ List.replicate 34 0 ++ [0, b8 forks.length] : Bytes).length = 42 := by
    simp
  have hlen : ¬ (([0x52, 0x46, 0x4C, 0x54] ++ be16 1 ++ List.replicate 34 0 ++ [0, b8 forks.length] ++
      (forks.map ForkInfo.encode).flatten : Bytes).length < 42) := by
    rw [List.length_append, hhdr]; omega
  simp only [hlen, if_false]
  have h41 : ((([0x52, 0x46, 0x4C, 0x54] ++ be16 1 ++ List.replicate 34 0 ++ [0, b8 forks.length] ++
      (forks.map ForkInfo.encode).flatten : Bytes).drop 41).headD 0).toNat = forks.length := by
    simp [be16]; omega
  rw [h41]
  have := resumeDecodeForks_encode ([0x52, 0x46, 0x4C, 0x54] ++ be16 1 ++ List.replicate 34 0 ++ [0, b8 forks.length])
    hhdr [] forks (by simp) h
  simpa [forksEncode] using this

end Mobius
