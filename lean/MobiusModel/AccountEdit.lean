import MobiusModel.Props.C15
/-!
  The privilege bytes of an account edit (C16, wave d): from the bytes of an update-user request through both
  parsers into memory and the account file.  Helper lemmas for `Props/C16.lean`.
-/
namespace Mobius.Accounts
variable {H : Type}

/-- One modify / rename sub-record, sent as BYTES inside a data field: whatever the order of its sub-fields and
    however large the others are, the 8 privilege bytes it carries are the account's privileges afterwards, in
    memory and in the file. -/
theorem edit_bytes_reach_memory_and_file (env : Env H) (fs : List Field) (st : State H) (hi : Inv st)
    (hwf : ∀ f ∈ fs, f.WF) (hcnt : fs.length < 65536)
    (hn1 : fs.length ≠ 1) (lg nm ac : Bytes) (hlg : getField 105 fs = some lg) (hnm : getField 102 fs = some nm)
    (hac : getField 110 fs = some ac) (h8 : ac.length = 8)
    (acc : Account H) (hacc : st.mem.get (accountToUpdate fs (obfuscate lg)) = some acc) (hold : acc.access.length ≤ 8)
    (hleg : LegalLogin (obfuscate lg)) (hlen : (obfuscate lg ++ yamlExt).length ≤ env.nameMax)
    (hfree : acc.login ≠ obfuscate lg → st.mem.get (obfuscate lg) = none) :
    let r := updateUserWire env [recField fs] st
    ∃ a', r.1.mem.get (obfuscate lg) = some a' ∧ r.1.disk.get (obfuscate lg ++ yamlExt) = some a' ∧ a'.access = ac := by
  intro r
  obtain ⟨h2, hm, hd, _, _⟩ := C15.update_user_record_effect env fs st hi hn1 lg nm hlg hnm acc hacc hleg hlen hfree
  have hr : r.1 = (updateRec env fs st).1 := by
    show (updateUserWire env [recField fs] st).1 = _
    have := updateUserWire_encode env [fs] st (by
      intro g hg
      simp only [List.mem_singleton] at hg
      subst hg
      exact ⟨hwf, hcnt⟩)
    simp only [List.map_cons, List.map_nil] at this
    rw [this]
    unfold handleUpdateUser
    cases hu : updateRec env fs st with
    | mk s o =>
      rw [hu] at h2
      simp only at h2
      subst h2
      simp [handleUpdateUser]
  refine ⟨_, by rw [hr]; exact hm, by rw [hr]; exact hd, ?_⟩
  show (match getField 110 fs with
    | some ac => copyAccess acc.access ac
    | none => acc.access) = ac
  rw [hac]
  exact copyAccess_eight _ _ hold h8

/-- Memory and file hold the same privileges for every account after any history in which any step may have
    been served under a failing persist. -/
theorem access_mem_eq_disk (env : Env H) (st : State H) (h0 : Inv st) (ops : List (Fault × Op))
    (hl : ∀ o ∈ ops, FLegal o) (l : Login) (a : Account H) (hm : (runF env st ops).mem.get l = some a) :
    (∃ d, (runF env st ops).disk.get (l ++ yamlExt) = some d ∧ d.access = a.access) ∧
    ((load (runF env st ops).disk).get l).map (·.access) = some a.access := by
  have hi := runF_inv env ops st h0 hl
  refine ⟨⟨a, (hi.mem_ok l a hm).2.2, rfl⟩, ?_⟩
  rw [load_eq_mem _ hi l, hm]
  rfl

end Mobius.Accounts
