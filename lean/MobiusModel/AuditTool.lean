import Lean
/-! `#audit_module M`: list every theorem declared in module `M` with the axioms it depends on. -/
open Lean Elab Command

elab "#audit_module " id:ident : command => do
  let env ← getEnv
  let modName := id.getId
  let some modIdx := env.getModuleIdx? modName | throwError "unknown module {modName}"
  let decls := env.header.moduleData[modIdx.toNat]!.constNames
  for n in decls do
    if let some (.thmInfo _) := env.find? n then
      if !n.isInternalDetail then
        let axs ← Lean.collectAxioms n
        IO.println s!"THEOREM {n} AXIOMS {axs.toList}"
