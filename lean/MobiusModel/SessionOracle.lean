import MobiusModel.Hex
import MobiusModel.Session
import MobiusModel.SessionTransfer
/-!
  Line-protocol front end for the Session / BanGate / readFull / Scan definitions, shared by the
  oracle executables of C02, C04 and C17 (not part of any theorem).  The functions evaluated are the
  definitions the theorems are about; this file only parses arguments and prints results.
-/
namespace Mobius.SessionOracle
open Mobius.Session

def num (s : String) : Nat := s.toNat?.getD 0
def hexb (s : String) : Bytes := (fromHex s).getD []

def statusStr : Scan.Status → String
  | .eof => "eof"
  | .tooLong => "tooLong"
  | .noProgress => "noProgress"

/-- tokens are contiguous slices of the stream: report status and token lengths -/
def scanStr (r : Scan.Result) : String :=
  s!"{statusStr r.status} {r.tokens.length}" ++ String.join (r.tokens.map fun t => s!" {t.length}")

/-- `tokens <stream>`: the specification on the concatenated stream. -/
def tokensOp : List String → String
  | [d] => scanStr (Scan.tokensOf Scan.tranScanner maxTok (hexb d))
  | [] => scanStr (Scan.tokensOf Scan.tranScanner maxTok [])
  | _ => "bad-op"

/-- `scan <chunk>*`: the operational scanner over the chunks. -/
def scanOp (a : List String) : String := scanStr (Scan.scan Scan.tranScanner maxTok [] (a.map hexb))

/-- `readfull <n> <chunk>*`: delivered bytes and the concatenation of what is left. -/
def readFullOp : List String → String
  | n :: cs => let r := readFull (cs.map hexb) (num n); s!"{toHex r.1} {toHex r.2.flatten}"
  | _ => "bad-op"

/-- `xpreamble <chunk>*`: the transfer preamble over the chunks. -/
def preambleOp (a : List String) : String :=
  let r := TransferSession.preamble (a.map hexb)
  match r.1 with
  | .ok (ref, size) => s!"ok {ref} {size} {toHex r.2.flatten}"
  | .err => "err"
  | .panic => "panic"

def parsePairs : Nat → List String → List (Bytes × Bytes) × List String
  | 0, rest => ([], rest)
  | n + 1, l :: h :: rest => let r := parsePairs n rest; ((hexb l, hexb h) :: r.1, r.2)
  | _, rest => ([], rest)

def parseBans : Nat → List String → List (Bytes × BanGate.Entry) × List String
  | 0, rest => ([], rest)
  | n + 1, ip :: k :: u :: rest =>
    let r := parseBans n rest
    ((hexb ip, if k == "p" then none else some (num u)) :: r.1, r.2)
  | _, rest => ([], rest)

def endStr : EndReason → String
  | .eof => "eof"
  | .tooLong => "tooLong"
  | .noProgress => "noProgress"
  | .decodeErr => "decodeErr"
  | .decodePanic => "decodePanic"

def outcomeStr : Outcome → String
  | .hsShort => "hsShort"
  | .hsInvalid => "hsInvalid"
  | .banned true => "bannedP"
  | .banned false => "bannedT"
  | .loginUndecodable => "loginUndecodable"
  | .loginPanic => "loginPanic"
  | .loginRejected => "loginRejected"
  | .ended e => "ended-" ++ endStr e

/-- The environment of the oracle.  A stored "hash" is a tagged byte string: `1 :: p` stands for a
    well-formed bcrypt hash of the password bytes `p` (`verify` accepts exactly `p`: the assumed
    bcrypt behaviour), anything else (tag 0) for a value that is not a bcrypt hash at all (empty,
    plaintext, truncated): `verify` accepts nothing.  World = number of handler invocations. -/
def mkEnv (addr : Bytes) (now noticeId : Nat) (accts : List (Bytes × Bytes)) (bans : List (Bytes × BanGate.Entry)) :
    Env Nat Nat where
  verify := fun h p => h == (1 :: p)
  accts := fun l => accts.lookup l
  bans := ⟨bans⟩
  addr := addr
  now := now
  noticeId := noticeId
  onLogin := fun w _ t => (w + 1, [t.id])
  handle := fun w t => (w + 1, [t.id])
  onDisconnect := fun w => (w + 1, [])

def resultStr (r : Result Nat Nat) : String :=
  let login := match r.loginTran with
    | some t => toHex (loginOf t)
    | none => "none"
  let lid := match r.loginTran with
    | some t => toString t.id
    | none => "none"
  s!"outcome={outcomeStr r.outcome} in={if r.loggedIn then 1 else 0} peer={toHex r.toPeer} login={login} lid={lid} world={r.world} outs={r.outs.length} disp={r.dispatched.length}" ++
    String.join (r.dispatched.map fun t => s!" {t.ty}.{t.id}")

/-- `session addr now noticeId nAcct (login hash)* nBans (ip p|t until)* chunk*` -/
def sessionOp : List String → String
  | addr :: now :: nid :: na :: rest =>
    let (accts, rest1) := parsePairs (num na) rest
    match rest1 with
    | nb :: rest2 =>
      let (bans, chunks) := parseBans (num nb) rest2
      resultStr (Session.run (mkEnv (hexb addr) (num now) (num nid) accts bans) 0 (chunks.map hexb))
    | [] => "bad-op"
  | _ => "bad-op"

/-- `sessionflat …` same arguments, one chunk: the specification `runStream`. -/
def sessionFlatOp : List String → String
  | addr :: now :: nid :: na :: rest =>
    let (accts, rest1) := parsePairs (num na) rest
    match rest1 with
    | nb :: rest2 =>
      let (bans, chunks) := parseBans (num nb) rest2
      resultStr (Session.runStream (mkEnv (hexb addr) (num now) (num nid) accts bans) 0 (chunks.map hexb).flatten)
    | [] => "bad-op"
  | _ => "bad-op"

/-- `gate nBans (ip p|t until)* addr now` → refused / permanent. -/
def gateOp : List String → String
  | nb :: rest =>
    let (bans, rest1) := parseBans (num nb) rest
    match rest1 with
    | [addr, now] =>
      let ip := BanGate.ipOf (hexb addr)
      s!"refused={if BanGate.refused ⟨bans⟩ ip (num now) then 1 else 0} perm={if BanGate.permanent ⟨bans⟩ ip then 1 else 0} ip={toHex ip}"
    | _ => "bad-op"
  | _ => "bad-op"

/-- history ops: `a <ip> p|t <until>` = BanFile.Add, `d <ip> <opt|none> <now>` = the ban part of the
    disconnect handler, `r` = restart. Folded with the reference `specStore` semantics
    (restarts erased — `C17.restart_preserves_decisions`). -/
def histFold : BanGate.Store → List String → BanGate.Store
  | s, "a" :: ip :: k :: u :: rest => histFold (s.add (hexb ip) (if k == "p" then none else some (num u))) rest
  | s, "d" :: ip :: opt :: now :: rest =>
    histFold (BanGate.disconnectBan s (if opt == "none" then none else some (num opt)) (num now) (hexb ip)) rest
  | s, "r" :: rest => histFold s rest
  | s, _ => s

/-- `banhist <addr> <now> ops…` → decision for addr at now after the history. -/
def banHistOp : List String → String
  | addr :: now :: ops =>
    let s := histFold BanGate.Store.empty ops
    let ip := BanGate.ipOf (hexb addr)
    let e := match s.lookup ip with
      | none => "unlisted"
      | some none => "permanent"
      | some (some u) => s!"until:{u}"
    s!"refused={if BanGate.refused s ip (num now) then 1 else 0} entry={e}"
  | _ => "bad-op"

def itemStr : FolderUpload.Item → String
  | .folder p => s!"d:{toHex p}"
  | .skipped p => s!"k:{toHex p}"
  | .sent p b => s!"s:{toHex p}:{toHex b.data}:{toHex b.rsrc}"
  | .resumed p b => s!"r:{toHex p}:{toHex b.data}:{toHex b.rsrc}"

/-- `folderup <itemCount> <actions: digits 1/2/3, or -> <chunk>*`: the folder-upload item loop. -/
def folderUpOp : List String → String
  | n :: acts :: chunks =>
    let actions := if acts == "-" then [] else acts.toList.map fun ch => ch.toNat - 48
    let r := FolderUpload.run (num n) actions (chunks.map hexb)
    match r.1 with
    | .ok items => s!"ok {items.length}" ++ String.join (items.map fun i => " " ++ itemStr i) ++ s!" rest={toHex r.2.flatten}"
    | .err => "err"
    | .panic => "panic"
  | _ => "bad-op"

def handlers : List (String × (List String → String)) := [
  ("tokens", tokensOp), ("scan", scanOp), ("readfull", readFullOp), ("xpreamble", preambleOp),
  ("folderup", folderUpOp),
  ("session", sessionOp), ("sessionflat", sessionFlatOp), ("gate", gateOp), ("banhist", banHistOp),
  ("errreply", fun a => match a with
    | [id] => toHex (errReply (num id)).encode
    | _ => "bad-op"),
  ("bannotice", fun a => match a with
    | [id, p] => toHex (banNotice (num id) (p == "1")).encode
    | _ => "bad-op"),
  ("banduration", fun _ => toString BanGate.banDuration)
]

end Mobius.SessionOracle
