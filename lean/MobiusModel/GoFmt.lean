import MobiusModel.Bytes
/-!
  GoFmt: the two `fmt` verbs the chat handler uses on byte slices.

  `fmt.Sprintf("%13.13s", b)` for `b []byte` (fmt/format.go `fmtBs` → `truncate`, `pad`):
  * precision 13: keep the bytes of the first 13 *runes*, where a rune is what `utf8.DecodeRune`
    accepts and every byte that does not start a valid encoding counts as one rune of width 1
    (the bytes themselves are copied through unchanged);
  * width 13: left-pad with spaces to 13 runes, counted by `utf8.RuneCount` (same rule).
  `%s` copies the bytes unchanged.  The model is compared with the real `fmt.Sprintf` on every run
  (harness family `gofmt`).
-/
namespace Mobius

def isCont (b : UInt8) : Bool := 0x80 ≤ b.toNat && b.toNat ≤ 0xBF

/-- Width in bytes of the rune `utf8.DecodeRune` reads at the head of `s` (1 for an invalid byte). -/
def runeWidth : Bytes → Nat
  | [] => 0
  | b0 :: rest =>
    let n := b0.toNat
    if n < 0x80 then 1
    else if 0xC2 ≤ n ∧ n ≤ 0xDF then
      match rest with
      | b1 :: _ => if isCont b1 then 2 else 1
      | _ => 1
    else if 0xE0 ≤ n ∧ n ≤ 0xEF then
      match rest with
      | b1 :: b2 :: _ =>
        let lo := if n = 0xE0 then 0xA0 else 0x80
        let hi := if n = 0xED then 0x9F else 0xBF
        if lo ≤ b1.toNat ∧ b1.toNat ≤ hi ∧ isCont b2 then 3 else 1
      | _ => 1
    else if 0xF0 ≤ n ∧ n ≤ 0xF4 then
      match rest with
      | b1 :: b2 :: b3 :: _ =>
        let lo := if n = 0xF0 then 0x90 else 0x80
        let hi := if n = 0xF4 then 0x8F else 0xBF
        if lo ≤ b1.toNat ∧ b1.toNat ≤ hi ∧ isCont b2 ∧ isCont b3 then 4 else 1
      | _ => 1
    else 1

/-- Split `s` into runes (fuel = length; every step consumes ≥ 1 byte). -/
def runesAux : Nat → Bytes → List Bytes
  | 0, _ => []
  | _ + 1, [] => []
  | fuel + 1, s@(_ :: _) =>
    let w := runeWidth s
    s.take w :: runesAux fuel (s.drop w)

def runes (s : Bytes) : List Bytes := runesAux s.length s

/-- `utf8.RuneCount`. -/
def runeCount (s : Bytes) : Nat := (runes s).length

/-- `%13.13s`: first 13 runes, left-padded with spaces to 13 runes. -/
def pad13 (s : Bytes) : Bytes :=
  let t := (runes s).take 13
  List.replicate (13 - t.length) 0x20 ++ t.flatten

theorem runeWidth_pos (a : UInt8) (s : Bytes) : 1 ≤ runeWidth (a :: s) := by
  unfold runeWidth
  dsimp only
  repeat' split
  all_goals omega

theorem runeWidth_le (s : Bytes) : runeWidth s ≤ s.length := by
  unfold runeWidth
  split
  · simp
  · dsimp only
    repeat' split
    all_goals simp_all <;> omega

/-- The runes of a string concatenate back to it (nothing is dropped or rewritten). -/
theorem runesAux_flatten (fuel : Nat) (s : Bytes) (h : s.length ≤ fuel) : (runesAux fuel s).flatten = s := by
  induction fuel generalizing s with
  | zero =>
    have : s = [] := List.eq_nil_of_length_eq_zero (by omega)
    subst this; simp [runesAux]
  | succ fuel ih =>
    cases s with
    | nil => simp [runesAux]
    | cons a s =>
      unfold runesAux
      dsimp only
      rw [List.flatten_cons, ih _ (by
        have := runeWidth_pos a s
        simp only [List.length_drop, List.length_cons] at *
        omega)]
      exact List.take_append_drop _ _

theorem runes_flatten (s : Bytes) : (runes s).flatten = s := runesAux_flatten _ s (Nat.le_refl _)

/-- `%13.13s` always yields exactly 13 runes' worth of pieces: padding plus at most 13 runes of the name,
    and the name part is a prefix of the name. -/
theorem pad13_shape (s : Bytes) :
    ∃ k pre, k ≤ 13 ∧ pad13 s = List.replicate k 0x20 ++ pre ∧ pre <+: s := by
  refine ⟨13 - ((runes s).take 13).length, ((runes s).take 13).flatten, by omega, rfl, ?_⟩
  have h := runes_flatten s
  conv => rhs; rw [← h]
  rw [← List.take_append_drop 13 (runes s), List.flatten_append]
  rw [List.take_append_drop]
  exact List.prefix_append _ _

end Mobius
