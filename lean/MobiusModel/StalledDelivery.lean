import MobiusModel.Chat
/-!
  Delivery when some recipients do not read (C12, wave d).

  `processOutbox` takes one transaction after the other off the outbox and starts a goroutine for each
  (`go func() { s.sendTransaction(t) }`); `sendTransaction` looks the addressee up, serialises and makes
  ONE `Connection.Write`.  A `Write` to a connection whose peer does not read blocks (TCP: window and
  socket buffers full) until the peer reads again.  The model: a `Net` holds the goroutines that have not
  returned from their `Write` (`pending`), the writes that completed, in order (`delivered`), and the
  connections that currently do not read (`stalled`).  Events: `spawn` (the dispatcher starts a
  goroutine), `fire i` (the scheduler runs the i-th pending goroutine's `Write`: it completes iff its OWN
  connection reads — nothing else is consulted, each send is its own process), `stall k` / `resume k`.

  Proved for every event list (any schedule, any pattern of stalls): nothing is lost or duplicated
  (`Net.conservation`); once nothing deliverable is pending (`Quiet` — reachable from every state by
  firing alone, `Net.exists_quiet_schedule`, so non-readers cannot prevent it), every reading connection
  has been handed exactly the transactions addressed to it, each once (`Net.reader_inbox_exact`),
  whatever other connections do (`Net.inbox_independent_of_non_readers`).  `LockNet` is the same
  dispatcher with ONE server-wide lock held across the `Write`: there a single non-reader starves
  everybody for ever (`LockNet.stuck`) — the behaviour the regenerated fact on `sendTransaction`
  (Props/C12 `generated_send_holds_no_lock`) excludes.
-/
namespace Mobius

/-- One goroutine started by `processOutbox`: a transaction routed to connection `to`. -/
structure Send (α : Type) where
  to : Nat
  item : α
deriving Repr, DecidableEq

inductive NetEv (α : Type) where
  | spawn (s : Send α)
  | fire (i : Nat)
  | stall (k : Nat)
  | resume (k : Nat)
deriving Repr

structure Net (α : Type) where
  pending : List (Send α) := []
  delivered : List (Send α) := []
  stalled : List Nat := []
deriving Repr

namespace Net
variable {α : Type}

def reads (n : Net α) (k : Nat) : Bool := !n.stalled.contains k

def step (n : Net α) : NetEv α → Net α
  | .spawn s => { n with pending := n.pending ++ [s] }
  | .fire i =>
    match n.pending[i]? with
    | some s => if n.reads s.to then { n with pending := n.pending.eraseIdx i, delivered := n.delivered ++ [s] } else n
    | none => n
  | .stall k => { n with stalled := k :: n.stalled }
  | .resume k => { n with stalled := n.stalled.filter (· != k) }

def run (n : Net α) (evs : List (NetEv α)) : Net α := evs.foldl step n

/-- What connection `k` has been handed, in order. -/
def inbox (n : Net α) (k : Nat) : List α := (n.delivered.filter (·.to == k)).map (·.item)

/-- The goroutines an event list starts. -/
def spawned : List (NetEv α) → List (Send α)
  | [] => []
  | .spawn s :: es => s :: spawned es
  | _ :: es => spawned es

/-- Nothing deliverable is pending: every goroutine still blocked writes to a connection that does not read. -/
def Quiet (n : Net α) : Prop := ∀ s ∈ n.pending, n.reads s.to = false

theorem perm_eraseIdx_cons {β : Type} : ∀ (l : List β) (i : Nat) (x : β), l[i]? = some x → l.Perm (x :: l.eraseIdx i)
  | [], i, x, h => by simp at h
  | a :: t, 0, x, h => by
    simp only [List.getElem?_cons_zero, Option.some.injEq] at h
    subst h; exact List.Perm.refl _
  | a :: t, i + 1, x, h => by
    simp only [List.getElem?_cons_succ] at h
    have ih := perm_eraseIdx_cons t i x h
    simp only [List.eraseIdx_cons_succ]
    exact (List.Perm.cons a ih).trans (List.Perm.swap x a _)

/-- One event: the goroutines (completed ++ blocked) afterwards are those before plus the one it started. -/
theorem step_conservation (n : Net α) (e : NetEv α) :
    ((n.step e).delivered ++ (n.step e).pending).Perm (n.delivered ++ n.pending ++ spawned [e]) := by
  cases e with
  | spawn s => simp [step, spawned]
  | fire i =>
    simp only [step, spawned, List.append_nil]
    cases hp : n.pending[i]? with
    | none => exact List.Perm.refl _
    | some s =>
      simp only
      split
      · simp only [List.append_assoc, List.singleton_append]
        exact List.Perm.append_left _ (perm_eraseIdx_cons n.pending i s hp).symm
      · exact List.Perm.refl _
  | stall k => simp [step, spawned]
  | resume k => simp [step, spawned]

theorem spawned_cons (e : NetEv α) (es : List (NetEv α)) : spawned (e :: es) = spawned [e] ++ spawned es := by
  cases e <;> simp [spawned]

/-- **Nothing is lost, nothing is duplicated**, under every schedule and every pattern of stalls. -/
theorem conservation (n : Net α) (evs : List (NetEv α)) :
    ((n.run evs).delivered ++ (n.run evs).pending).Perm (n.delivered ++ n.pending ++ spawned evs) := by
  induction evs generalizing n with
  | nil => simp [run, spawned]
  | cons e es ih =>
    have h1 := ih (n.step e)
    have h2 := step_conservation n e
    show (((n.step e).run es).delivered ++ ((n.step e).run es).pending).Perm _
    rw [spawned_cons]
    exact h1.trans (by
      rw [← List.append_assoc]
      exact List.Perm.append_right _ h2)

/-- **A reading connection has been handed exactly its transactions, each once**: after any event list
    from the empty net that ends with nothing deliverable pending, the inbox of every connection that
    reads (at the end) is a permutation of the items of the goroutines started for it. -/
theorem reader_inbox_exact (evs : List (NetEv α)) (k : Nat)
    (hq : (run {} evs).Quiet) (hk : (run {} evs).reads k = true) :
    ((run {} evs).inbox k).Perm (((spawned evs).filter (·.to == k)).map (·.item)) := by
  have hc := conservation ({} : Net α) evs
  simp only [List.append_nil, List.nil_append] at hc
  have hf := (hc.filter (·.to == k))
  rw [List.filter_append] at hf
  have hp : (run ({} : Net α) evs).pending.filter (·.to == k) = [] := by
    rw [List.filter_eq_nil_iff]
    intro s hs hto
    have := hq s hs
    have hto' : s.to = k := by simpa using hto
    rw [hto', hk] at this
    cases this
  rw [hp, List.append_nil] at hf
  exact hf.map _

/-- **Delivery to each recipient is independent of the others**: two runs that start the same goroutines
    (in any order) — under different schedules, with different connections not reading, for different
    stretches — hand a connection that reads at the end of both the same transactions the same number of
    times.  In particular: what a reading client receives does not depend on whether another recipient
    ever reads. -/
theorem inbox_independent_of_non_readers (evs evs' : List (NetEv α)) (k : Nat)
    (hs : (spawned evs).Perm (spawned evs'))
    (hq : (run {} evs).Quiet) (hk : (run {} evs).reads k = true)
    (hq' : (run {} evs').Quiet) (hk' : (run {} evs').reads k = true) :
    ((run {} evs).inbox k).Perm ((run {} evs').inbox k) :=
  (reader_inbox_exact evs k hq hk).trans
    (((hs.filter (·.to == k)).map (·.item)).trans (reader_inbox_exact evs' k hq' hk').symm)

/-- Whether a pending goroutine's write completes depends on its own connection only. -/
theorem fire_enabled (n : Net α) (i : Nat) (s : Send α) (hp : n.pending[i]? = some s) (hr : n.reads s.to = true) :
    n.step (.fire i) = { n with pending := n.pending.eraseIdx i, delivered := n.delivered ++ [s] } := by
  simp [step, hp, hr]

/-- A write to a connection that does not read does not complete (the goroutine stays blocked; nobody else is affected). -/
theorem fire_blocked (n : Net α) (i : Nat) (s : Send α) (hp : n.pending[i]? = some s) (hr : n.reads s.to = false) :
    n.step (.fire i) = n := by
  simp [step, hp, hr]

theorem exists_enabled {β : Type} (p : β → Bool) : ∀ (l : List β), (∃ x ∈ l, p x = true) →
    ∃ i x, l[i]? = some x ∧ p x = true ∧ ((l.eraseIdx i).filter p).length < (l.filter p).length
  | [], h => by obtain ⟨x, hx, _⟩ := h; cases hx
  | a :: t, h => by
    by_cases ha : p a = true
    · exact ⟨0, a, rfl, ha, by simp [ha]⟩
    · obtain ⟨x, hx, hpx⟩ := h
      have hxt : x ∈ t := by
        rcases List.mem_cons.mp hx with rfl | hxt
        · exact absurd hpx ha
        · exact hxt
      obtain ⟨i, y, hy, hpy, hlt⟩ := exists_enabled p t ⟨x, hxt, hpx⟩
      refine ⟨i + 1, y, by simpa using hy, hpy, ?_⟩
      simp only [List.eraseIdx_cons_succ]
      have ha' : p a = false := by simpa using ha
      simp [ha', hlt]

/-- **Non-readers cannot prevent delivery**: from every state, firing alone (no cooperation of the stalled
    connections, no new events) reaches a state with nothing deliverable pending. -/
theorem exists_quiet_schedule (n : Net α) : ∃ fs : List Nat, (n.run (fs.map .fire)).Quiet ∧
    (n.run (fs.map .fire)).stalled = n.stalled := by
  generalize hm : (n.pending.filter (fun s => n.reads s.to)).length = m
  induction m using Nat.strongRecOn generalizing n with
  | _ m ih =>
    by_cases hex : ∃ s ∈ n.pending, n.reads s.to = true
    · obtain ⟨i, s, hp, hr, hlt⟩ := exists_enabled (fun s => n.reads s.to) n.pending hex
      have hstep := fire_enabled n i s hp hr
      have hst : (n.step (.fire i)).stalled = n.stalled := by rw [hstep]
      have hreads : (fun (s : Send α) => (n.step (.fire i)).reads s.to) = (fun s => n.reads s.to) := by
        funext x; simp [reads, hst]
      have hlt' : ((n.step (.fire i)).pending.filter (fun s => (n.step (.fire i)).reads s.to)).length < m := by
        rw [hreads, hstep, ← hm]; exact hlt
      obtain ⟨fs, hq, hs⟩ := ih _ hlt' (n.step (.fire i)) rfl
      exact ⟨i :: fs, hq, by rw [← hst]; exact hs⟩
    · refine ⟨[], ?_, rfl⟩
      intro s hs
      show n.reads s.to = false
      cases hr : n.reads s.to with
      | false => rfl
      | true => exact absurd ⟨s, hs, hr⟩ hex

end Net

-- ---------------------------------------------------------------- the same dispatcher with ONE lock around the Write

/-- `sendTransaction` with a server-wide mutex held across `Connection.Write`: a goroutine whose write
    blocks keeps the lock (`holder`); every other goroutine waits at `Lock()`. -/
structure LockNet (α : Type) where
  net : Net α := {}
  holder : Option (Send α) := none

namespace LockNet
variable {α : Type}

def fire (l : LockNet α) (i : Nat) : LockNet α :=
  match l.holder with
  | some _ => l
  | none =>
    match l.net.pending[i]? with
    | some s =>
      if l.net.reads s.to then { l with net := l.net.step (.fire i) }
      else { net := { l.net with pending := l.net.pending.eraseIdx i }, holder := some s }
    | none => l

/-- Once a goroutine sits in a blocked `Write` with the lock, no schedule delivers anything to anybody. -/
theorem stuck (l : LockNet α) (s : Send α) (h : l.holder = some s) (fs : List Nat) : fs.foldl fire l = l := by
  induction fs with
  | nil => rfl
  | cons i fs ih =>
    have : l.fire i = l := by unfold fire; rw [h]
    rw [List.foldl_cons, this, ih]

end LockNet

-- ---------------------------------------------------------------- the chat handlers' outputs as goroutines

/-- The goroutines a chat history gives rise to: every output of every event, routed through the client
    table of the state after the event (`sendTransaction`'s lookup); outputs addressed to an id nobody
    holds are dropped there. -/
def chatSends (w : ChatWorld) : List ChatEv → List (Send Out)
  | [] => []
  | e :: es =>
    let r := w.step e
    (r.2.filterMap fun o => (deliver r.1.reg o).map fun k => (⟨k, o⟩ : Send Out)) ++ chatSends r.1 es

theorem chatSends_append (w : ChatWorld) (es es' : List ChatEv) :
    chatSends w (es ++ es') = chatSends w es ++ chatSends (w.after es) es' := by
  induction es generalizing w with
  | nil => rfl
  | cons e es ih =>
    show _ ++ chatSends (w.step e).1 (es ++ es') = (_ ++ chatSends (w.step e).1 es) ++ chatSends ((w.step e).1.after es) es'
    rw [ih, List.append_assoc]

end Mobius
