import MobiusModel.Session
/-!
  LoginHistory (C04): the account table a login attempt is checked against, after an administrator's
  batched account edit (`HandleUpdateUser`, transaction 349 of the v1.5+ multi-user editor).

  The login gate (`Session.authenticate`) reads `accts : login ↦ stored hash`.  One TranUpdateUser
  carries any number of records; each record is a list of sub-fields of its own:

  * exactly one sub-field                → delete the account named by the (obfuscated) data field 101;
  * data field 101 present and non-empty → the account of that login is edited and renamed to the login field 105;
  * otherwise                            → the account named by the login field 105 is edited, or created when absent.

  Password rule of an edit: field 106 absent → the empty password is stored; the single zero byte →
  the stored hash is kept; anything else → that value is hashed and stored.  The handler processes
  the records in order, each with ITS OWN sub-fields, stops at the first record that fails (earlier
  ones stay applied, no success reply) and answers with a success reply only after the last one.

  Abstractions: bcrypt is the parameter `hash` (and `verify` of `Session.Env`); the editor holds
  every account privilege (authorisation is C05/C06); logins are legal file names (the file level —
  temp files, renames, NAME_MAX — is C15's `Accounts` model).
-/
set_option linter.unusedVariables false
set_option linter.unusedSimpArgs false
namespace Mobius.LoginHistory
open Mobius

abbrev Table := Bytes → Option Bytes

def Table.set (t : Table) (l h : Bytes) : Table := fun k => if k = l then some h else t k
def Table.del (t : Table) (l : Bytes) : Table := fun k => if k = l then none else t k

/-- a table given by an association list (what the oracle and the examples use) -/
def ofList (l : List (Bytes × Bytes)) : Table := fun k => l.lookup k

theorem set_same (t : Table) (l h : Bytes) : (t.set l h) l = some h := by simp [Table.set]
theorem set_other (t : Table) (l h k : Bytes) (hk : k ≠ l) : (t.set l h) k = t k := by simp [Table.set, hk]
theorem del_same (t : Table) (l : Bytes) : (t.del l) l = none := by simp [Table.del]
theorem del_other (t : Table) (l k : Bytes) (hk : k ≠ l) : (t.del l) k = t k := by simp [Table.del, hk]

/-- `hotline.GetField(id, &subFields)`: the first sub-field of that type OF THIS RECORD. -/
def getF (id : Nat) (fs : List Field) : Option Bytes := (fs.find? fun f => f.ty = id).map (·.data)

/-- The password rule of an edit. -/
def pwUpdate (hash : Bytes → Bytes) (old : Bytes) : Option Bytes → Bytes
  | none => hash []
  | some p => if p = [0] then old else hash p

/-- `loginToRename`: the de-obfuscated data field, "" when absent. -/
def renameSrc (fs : List Field) : Bytes :=
  match getF 101 fs with
  | some d => obfuscate d
  | none => []

/-- One record.  The flag says whether the handler goes on to the next record (`false`: it returned —
    with an error reply, with nothing, or through a contained panic on a missing sub-field). -/
def applyRec (hash : Bytes → Bytes) (fs : List Field) (t : Table) : Table × Bool :=
  if fs.length = 1 then
    match getF 101 fs with
    | none => (t, false)
    | some d =>
      match t (obfuscate d) with
      | some _ => (t.del (obfuscate d), true)
      | none => (t, false)
  else
    match getF 105 fs with
    | none => (t, false)
    | some lg =>
      let target := if renameSrc fs ≠ [] then renameSrc fs else obfuscate lg
      match t target with
      | some h =>
        match getF 102 fs with
        | none => (t, false)
        | some _ =>
          if target ≠ obfuscate lg then
            match t (obfuscate lg) with
            | some _ => (t, false)
            | none => ((t.del target).set (obfuscate lg) (pwUpdate hash h (getF 106 fs)), true)
          else (t.set (obfuscate lg) (pwUpdate hash h (getF 106 fs)), true)
      | none =>
        match getF 110 fs, getF 102 fs, getF 106 fs with
        | some _, some _, some pw =>
          match t (obfuscate lg) with
          | some _ => (t, false)
          | none => (t.set (obfuscate lg) (hash pw), true)
        | _, _, _ => (t, false)

/-- `HandleUpdateUser`: the records in order, each with its own sub-fields; the flag = the request
    was acknowledged with a success reply (every record went through). -/
def applyBatch (hash : Bytes → Bytes) : List (List Field) → Table → Table × Bool
  | [], t => (t, true)
  | fs :: rest, t =>
    if (applyRec hash fs t).2 = true then applyBatch hash rest (applyRec hash fs t).1 else applyRec hash fs t

/-- The same records sent as one request each (acknowledgements ignored). -/
def applySingles (hash : Bytes → Bytes) (recs : List (List Field)) (t : Table) : Table :=
  recs.foldl (fun s r => (applyBatch hash [r] s).1) t

/-- A record "touches" a login when it names it as rename source / deletion target or in its login field. -/
def touches (fs : List Field) (l : Bytes) : Prop :=
  renameSrc fs = l ∨ ∃ lg, getF 105 fs = some lg ∧ obfuscate lg = l

theorem applyBatch_single (hash : Bytes → Bytes) (fs : List Field) (t : Table) :
    (applyBatch hash [fs] t).1 = (applyRec hash fs t).1 := by
  by_cases hb : (applyRec hash fs t).2 = true <;> simp [applyBatch, hb]

/-- An acknowledged batch is the fold of its records. -/
theorem applyBatch_eq_singles (hash : Bytes → Bytes) (recs : List (List Field)) (t : Table)
    (h : (applyBatch hash recs t).2 = true) :
    (applyBatch hash recs t).1 = applySingles hash recs t := by
  induction recs generalizing t with
  | nil => rfl
  | cons fs rest ih =>
    simp only [applySingles, List.foldl_cons]
    rw [applyBatch_single]
    by_cases hb : (applyRec hash fs t).2 = true
    · simp only [applyBatch, hb, if_true] at h ⊢
      exact ih _ h
    · simp only [applyBatch, hb] at h
      exact absurd h hb

theorem applyBatch_append (hash : Bytes → Bytes) (a b : List (List Field)) (t : Table) :
    applyBatch hash (a ++ b) t =
      if (applyBatch hash a t).2 = true then applyBatch hash b (applyBatch hash a t).1 else applyBatch hash a t := by
  induction a generalizing t with
  | nil => simp [applyBatch]
  | cons fs rest ih =>
    by_cases hb : (applyRec hash fs t).2 = true
    · simp only [List.cons_append, applyBatch, hb, if_true]
      exact ih _
    · simp [applyBatch, hb]

theorem applyBatch_ack_prefix (hash : Bytes → Bytes) (a b : List (List Field)) (t : Table)
    (h : (applyBatch hash (a ++ b) t).2 = true) : (applyBatch hash a t).2 = true := by
  rw [applyBatch_append] at h
  cases ha : (applyBatch hash a t).2 with
  | true => rfl
  | false => rw [ha] at h; simp at h; rw [ha] at h; cases h

/-- A record changes the entries of the logins it names only. -/
theorem applyRec_untouched (hash : Bytes → Bytes) (fs : List Field) (t : Table) (l : Bytes)
    (h : ¬ touches fs l) : (applyRec hash fs t).1 l = t l := by
  have h1 : renameSrc fs ≠ l := fun e => h (Or.inl e)
  unfold applyRec
  split
  · -- deletion
    cases hd : getF 101 fs with
    | none => rfl
    | some d =>
      simp only
      have hl : l ≠ obfuscate d := by
        intro e; apply h1; simp [renameSrc, hd, e]
      cases t (obfuscate d) with
      | none => rfl
      | some _ => exact del_other t _ l hl
  · cases hg : getF 105 fs with
    | none => rfl
    | some lg =>
      have h2 : l ≠ obfuscate lg := fun e => h (Or.inr ⟨lg, hg, e.symm⟩)
      simp only
      generalize htg : (if renameSrc fs ≠ [] then renameSrc fs else obfuscate lg) = target
      have h3 : l ≠ target := by
        rw [← htg]
        split
        · exact Ne.symm h1
        · exact h2
      cases t target with
      | some hh =>
        simp only
        cases getF 102 fs with
        | none => rfl
        | some _ =>
          simp only
          split
          · cases t (obfuscate lg) with
            | some _ => rfl
            | none => simp only; rw [set_other _ _ _ _ h2, del_other _ _ _ h3]
          · exact set_other _ _ _ _ h2
      | none =>
        simp only
        split
        · cases t (obfuscate lg) with
          | some _ => rfl
          | none => exact set_other _ _ _ _ h2
        · rfl

theorem applyBatch_untouched (hash : Bytes → Bytes) (recs : List (List Field)) (t : Table) (l : Bytes)
    (h : ∀ fs ∈ recs, ¬ touches fs l) : (applyBatch hash recs t).1 l = t l := by
  induction recs generalizing t with
  | nil => rfl
  | cons fs rest ih =>
    have h0 := applyRec_untouched hash fs t l (h fs (by simp))
    by_cases hb : (applyRec hash fs t).2 = true
    · simp only [applyBatch, hb, if_true]
      rw [ih _ (fun x hx => h x (by simp [hx]))]; exact h0
    · simp only [applyBatch, hb]; exact h0

/-- **The last record naming a login decides its entry**: in an acknowledged batch `pre ++ fs :: post`
    where no record of `post` names `l`, the entry of `l` afterwards is what the record `fs` — applied
    with its own sub-fields to the table the records before it produced — made of it. -/
theorem batch_last_edit_decides (hash : Bytes → Bytes) (pre post : List (List Field)) (fs : List Field) (t : Table) (l : Bytes)
    (hack : (applyBatch hash (pre ++ fs :: post) t).2 = true)
    (hpost : ∀ r ∈ post, ¬ touches r l) :
    (applyBatch hash (pre ++ fs :: post) t).1 l = (applyRec hash fs (applyBatch hash pre t).1).1 l := by
  have hpre := applyBatch_ack_prefix hash pre (fs :: post) t hack
  rw [applyBatch_append, if_pos hpre] at hack ⊢
  by_cases hb : (applyRec hash fs (applyBatch hash pre t).1).2 = true
  · simp only [applyBatch, hb, if_true] at hack ⊢
    exact applyBatch_untouched hash post _ l hpost
  · simp only [applyBatch, hb] at hack
    exact absurd hack hb

-- ---------------------------------------------------------------- what single records do

/-- A password change of an existing account (no rename): the entry becomes the hash of the new value. -/
theorem applyRec_set_password (hash : Bytes → Bytes) (fs : List Field) (t : Table) (lg p h nm : Bytes)
    (hlen : fs.length ≠ 1) (hl : getF 105 fs = some lg) (hd : getF 101 fs = none)
    (hex : t (obfuscate lg) = some h) (hn : getF 102 fs = some nm) (hp : getF 106 fs = some p) (hp0 : p ≠ [0]) :
    applyRec hash fs t = (t.set (obfuscate lg) (hash p), true) := by
  simp [applyRec, hlen, hl, renameSrc, hd, hex, hn, hp, pwUpdate, hp0]

/-- A deletion of an existing account: the entry is gone and the handler goes on. -/
theorem applyRec_delete (hash : Bytes → Bytes) (d h : Bytes) (t : Table) (hex : t (obfuscate d) = some h) :
    applyRec hash [⟨101, d⟩] t = (t.del (obfuscate d), true) := by
  simp [applyRec, getF, hex]

/-- A creation: the login is absent, access / name / password sub-fields present. -/
theorem applyRec_create (hash : Bytes → Bytes) (fs : List Field) (t : Table) (lg ac nm pw : Bytes)
    (hlen : fs.length ≠ 1) (hl : getF 105 fs = some lg) (hd : getF 101 fs = none)
    (hex : t (obfuscate lg) = none) (ha : getF 110 fs = some ac) (hn : getF 102 fs = some nm) (hp : getF 106 fs = some pw) :
    applyRec hash fs t = (t.set (obfuscate lg) (hash pw), true) := by
  simp [applyRec, hlen, hl, renameSrc, hd, hex, ha, hn, hp]

/-- A rename (data field = old login, login field = new login, new login free): the old login is
    gone, the new one holds the entry with the password rule applied. -/
theorem applyRec_rename (hash : Bytes → Bytes) (fs : List Field) (t : Table) (lg d h nm : Bytes)
    (hlen : fs.length ≠ 1) (hl : getF 105 fs = some lg) (hd : getF 101 fs = some d) (hd0 : obfuscate d ≠ [])
    (hne : obfuscate d ≠ obfuscate lg) (hex : t (obfuscate d) = some h) (hfree : t (obfuscate lg) = none)
    (hn : getF 102 fs = some nm) :
    applyRec hash fs t = ((t.del (obfuscate d)).set (obfuscate lg) (pwUpdate hash h (getF 106 fs)), true) := by
  simp [applyRec, hlen, hl, renameSrc, hd, hd0, hne, hex, hfree, hn]

-- ---------------------------------------------------------------- the gate after a batch

/-- The environment of a login attempt made after the batch was processed. -/
def envAfter {W O : Type} (env : Session.Env W O) (hash : Bytes → Bytes) (recs : List (List Field)) : Session.Env W O :=
  { env with accts := (applyBatch hash recs env.accts).1 }

/-- The login decision after a batch, for a login whose last naming record is `fs`. -/
theorem authenticate_after_batch {W O : Type} (env : Session.Env W O) (hash : Bytes → Bytes)
    (pre post : List (List Field)) (fs : List Field) (tr : Transaction)
    (hack : (applyBatch hash (pre ++ fs :: post) env.accts).2 = true)
    (hpost : ∀ r ∈ post, ¬ touches r (loginOf tr)) :
    Session.authenticate (envAfter env hash (pre ++ fs :: post)) tr =
      match (applyRec hash fs (applyBatch hash pre env.accts).1).1 (loginOf tr) with
      | some h => env.verify h (pwOf tr)
      | none => false := by
  simp only [Session.authenticate, envAfter]
  rw [batch_last_edit_decides hash pre post fs env.accts (loginOf tr) hack hpost]
  rfl

end Mobius.LoginHistory
