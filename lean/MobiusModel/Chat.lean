import MobiusModel.Registry
import MobiusModel.GoFmt
/-!
  Chat: public chat, private chats (`hotline/chat.go` `MemChatManager`) and the chat handlers of
  `internal/mobius/transaction_handlers.go` (HandleChatSend, HandleInviteNewChat,
  HandleInviteToChat, HandleRejectChatInvite, HandleJoinChat, HandleLeaveChat,
  HandleSetChatSubject), over the client table of `Registry`.

  A private chat is `chat id ↦ (subject, members)` with `members : map[ClientID]*ClientConn`; the
  member map is modelled as a list of `(client id, connection serial)` sorted by client id (what
  `Members()` returns after its sort), a key occurring at most once.  The code never removes a
  disconnected member from the map: the entry keeps pointing at the dead `*ClientConn` (its data
  is kept in `gone`).  Outputs are the transactions a handler returns, addressed by client id;
  `deliver` is `sendTransaction`'s lookup of that id in the client table.
-/
namespace Mobius

/-- A transaction produced by the server, addressed to client id `to`. -/
structure Out where
  to : Nat
  isReply : Bool
  ty : Nat
  err : Nat
  reqId : Nat          -- replies: the id copied from the request; other transactions get a random id (0 here)
  fields : List Field
deriving Repr, DecidableEq

def mkTran (ty to : Nat) (fs : List Field) : Out := ⟨to, false, ty, 0, 0, fs⟩
/-- `cc.NewReply(t, fields…)`. -/
def mkReply (c : Client) (req : Nat) (fs : List Field) : Out := ⟨c.id, true, 0, 0, req, fs⟩
/-- An ASCII string literal as bytes. -/
def str (s : String) : Bytes := s.toList.map (fun c => UInt8.ofNat c.toNat)

/-- `cc.NewErrReply(t, msg)`. -/
def mkErr (c : Client) (req : Nat) (msg : String) : Out := ⟨c.id, true, 0, 1, req, [⟨100, str msg⟩]⟩

/-- `LimitChatMsg`. -/
def limitChatMsg : Nat := 8192

/-- The chat line HandleChatSend builds: `"\r%13.13s:  %s"` or, with options = 00 01, `"\r*** %s %s"`,
    cut to 8192 bytes. -/
def chatText (name : Bytes) (emote : Bool) (msg : Bytes) : Bytes :=
  let full := if emote then [0x0d] ++ str "*** " ++ name ++ [0x20] ++ msg
              else [0x0d] ++ pad13 name ++ str ":  " ++ msg
  full.take limitChatMsg

/-- What `io.ReadAll(&User{ID, Icon, Flags, Name})` emits (field 300). -/
def userRecord (c : Client) : Bytes :=
  be16 c.id ++ (if c.icon.length = 4 then c.icon.drop 2 else c.icon) ++ be16 c.flags ++ be16 c.name.length ++ c.name

structure PrivChat where
  id : Nat
  subject : Bytes
  members : List (Nat × Nat)     -- (client id, connection serial), sorted by client id
deriving Repr, DecidableEq

/-- `chat.ClientConn[cc.ID] = cc`. -/
def memInsert (e : Nat × Nat) (ms : List (Nat × Nat)) : List (Nat × Nat) :=
  ms.filter (fun m => m.1 < e.1) ++ e :: ms.filter (fun m => e.1 < m.1)

/-- `delete(chat.ClientConn, id)`. -/
def memDelete (i : Nat) (ms : List (Nat × Nat)) : List (Nat × Nat) := ms.filter (fun m => m.1 != i)

structure ChatWorld where
  reg : Registry
  gone : List Client          -- connection objects of users who disconnected
  chats : List PrivChat
deriving Repr, DecidableEq

def ChatWorld.init : ChatWorld := ⟨Registry.init, [], []⟩

def ChatWorld.chat (w : ChatWorld) (cid : Nat) : Option PrivChat := w.chats.find? (·.id == cid)

def ChatWorld.entries (w : ChatWorld) (cid : Nat) : List (Nat × Nat) :=
  match w.chat cid with
  | some ch => ch.members
  | none => []

/-- A map entry is *connected* when the client table holds its id for that very connection
    (`cc.Server.ClientMgr.Get(cc.ID) == cc`). -/
def ChatWorld.isConnected (w : ChatWorld) (m : Nat × Nat) : Bool := (w.reg.get m.1).map (·.conn) == some m.2

/-- `Members(id)` after fix 7d7f993: the map entries whose connection is still the holder of its id.
    A user who disconnected is no longer a member, even though its entry stays in the map. -/
def ChatWorld.members (w : ChatWorld) (cid : Nat) : List (Nat × Nat) := (w.entries cid).filter w.isConnected

def ChatWorld.memberIds (w : ChatWorld) (cid : Nat) : List Nat := (w.members cid).map (·.1)

/-- The ids the stored map of the chat is keyed by (connected or not). -/
def ChatWorld.entryIds (w : ChatWorld) (cid : Nat) : List Nat := (w.entries cid).map (·.1)

def ChatWorld.modifyChat (w : ChatWorld) (cid : Nat) (f : PrivChat → PrivChat) : ChatWorld :=
  { w with chats := w.chats.map fun ch => if ch.id = cid then { f ch with id := ch.id } else ch }

/-- The `*ClientConn` a member entry points at: a live client or a dead connection object. -/
def ChatWorld.connData (w : ChatWorld) (k : Nat) : Option Client :=
  match w.reg.clients.find? (·.conn == k) with
  | some c => some c
  | none => w.gone.find? (·.conn == k)

inductive ChatEv where
  /-- connect + successful login: the connection object is registered (`ClientMgr.Add`). -/
  | login (login acctName access name icon : Bytes)
  /-- the connection ends: `Disconnect()` = `Delete(id)` + user-left notices. -/
  | disconnect (actor : Nat)
  | inviteNew (actor req target cid : Nat)         -- 112; `cid` = the random id `ChatMgr.New` drew
  | invite (actor req target cid : Nat)            -- 113
  | join (actor req cid : Nat)                     -- 115
  | leave (actor req cid : Nat)                    -- 116
  | decline (actor req cid : Nat)                  -- 114
  | setSubject (actor req cid : Nat) (subject : Bytes)   -- 120
  /-- 105; `cid = none`: field absent or 00 00 00 00 (public chat); `opts`: field 109 if present. -/
  | send (actor req : Nat) (cid : Option Nat) (opts : Option Bytes) (msg : Bytes)
  /-- an administrator's `HandleSetUser` on an existing account: the session copy of the access bits of every
      connected client of that account follows the edit (the admin flag follows the access held before).  The
      handler's own outputs (354, 301, reply) are presence matters, modelled in `Presence.lean`. -/
  | accessEdit (login access : Bytes)
deriving Repr, DecidableEq

def ChatEv.actor : ChatEv → Option Nat
  | .login .. => none
  | .disconnect a => some a
  | .inviteNew a .. => some a
  | .invite a .. => some a
  | .join a .. => some a
  | .leave a .. => some a
  | .decline a .. => some a
  | .setSubject a .. => some a
  | .send a .. => some a
  | .accessEdit .. => none

def ChatEv.req : ChatEv → Nat
  | .login .. => 0
  | .disconnect _ => 0
  | .inviteNew _ r .. => r
  | .invite _ r .. => r
  | .join _ r .. => r
  | .leave _ r .. => r
  | .decline _ r .. => r
  | .setSubject _ r .. => r
  | .send _ r .. => r
  | .accessEdit .. => 0

/-- The fields "who I am" that invitations and join notices carry. -/
def whoFields (c : Client) : List Field := [⟨102, c.name⟩, ⟨103, be16 c.id⟩]
def whoFieldsFull (c : Client) : List Field :=
  [⟨102, c.name⟩, ⟨103, be16 c.id⟩, ⟨104, c.icon⟩, ⟨112, be16 c.flags⟩]

def newClient (login acctName access name icon : Bytes) : Client :=
  { id := 0, conn := 0, login := login, acctName := acctName, access := access, name := name, icon := icon,
    flags := if accessBit access 22 then 2 else 0, autoReply := [], announced := true }

def stepLogin (w : ChatWorld) (mk : Client) : ChatWorld × List Out :=
  match w.reg.add mk with
  | none => (w, [])
  | some (r', _) => ({ w with reg := r' }, [])

def stepDisconnect (w : ChatWorld) (c : Client) : ChatWorld × List Out :=
  let r' := w.reg.delete c.id
  ({ w with reg := r', gone := c :: w.gone }, r'.clients.map fun d => mkTran 302 d.id [⟨103, be16 c.id⟩])

def stepInviteNew (w : ChatWorld) (c : Client) (req target cid : Nat) : ChatWorld × List Out :=
  if !accessBit c.access 11 then (w, [mkErr c req "You are not allowed to request private chat."]) else
  let w' := { w with chats := ⟨cid, [], [(c.id, c.conn)]⟩ :: w.chats.filter (·.id != cid) }
  match w.reg.get target with
  | none => (w', [])       -- the Go handler dereferences a nil *ClientConn here (panic, recovered by the connection)
  | some t =>
    let first :=
      if flagBit t.flags 3 then
        mkTran 104 c.id [⟨101, t.name ++ str " does not accept private chats."⟩, ⟨102, t.name⟩, ⟨103, be16 t.id⟩, ⟨113, [0, 2]⟩]
      else mkTran 113 target ([⟨114, be32 cid⟩] ++ whoFields c)
    (w', [first, mkReply c req ([⟨114, be32 cid⟩] ++ whoFieldsFull c)])

def stepInvite (w : ChatWorld) (c : Client) (req target cid : Nat) : ChatWorld × List Out :=
  if !accessBit c.access 11 then (w, [mkErr c req "You are not allowed to request private chat."]) else
  (w, [mkTran 113 target ([⟨114, be32 cid⟩] ++ whoFields c), mkReply c req ([⟨114, be32 cid⟩] ++ whoFieldsFull c)])

def stepDecline (w : ChatWorld) (c : Client) (cid : Nat) : ChatWorld × List Out :=
  (w, (w.members cid).map fun m =>
    mkTran 106 m.1 [⟨114, be32 cid⟩, ⟨101, c.name ++ str " declined invitation to chat"⟩])

def stepJoin (w : ChatWorld) (c : Client) (req cid : Nat) : ChatWorld × List Out :=
  let notices := (w.members cid).map fun m => mkTran 117 m.1 ([⟨114, be32 cid⟩] ++ whoFieldsFull c)
  let w' := w.modifyChat cid fun ch => { ch with members := memInsert (c.id, c.conn) ch.members }
  let subject := match w'.chat cid with | some ch => ch.subject | none => []
  let users := (w'.members cid).filterMap fun m => (w'.connData m.2).map fun d => (⟨300, userRecord d⟩ : Field)
  (w', notices ++ [mkReply c req ([⟨115, subject⟩] ++ users)])

def stepLeave (w : ChatWorld) (c : Client) (cid : Nat) : ChatWorld × List Out :=
  let w' := w.modifyChat cid fun ch => { ch with members := memDelete c.id ch.members }
  (w', (w'.members cid).map fun m => mkTran 118 m.1 [⟨114, be32 cid⟩, ⟨103, be16 c.id⟩])

def stepSetSubject (w : ChatWorld) (cid : Nat) (subject : Bytes) : ChatWorld × List Out :=
  let w' := w.modifyChat cid fun ch => { ch with subject := subject }
  (w', (w'.members cid).map fun m => mkTran 119 m.1 [⟨114, be32 cid⟩, ⟨115, subject⟩])

def isEmote (opts : Option Bytes) : Bool := opts == some [0, 1]

def stepSend (w : ChatWorld) (c : Client) (req : Nat) (cid : Option Nat) (opts : Option Bytes) (msg : Bytes) :
    ChatWorld × List Out :=
  if !accessBit c.access 10 then (w, [mkErr c req "You are not allowed to participate in chat."]) else
  let text := chatText c.name (isEmote opts) msg
  match cid with
  | some id => (w, (w.members id).map fun m => mkTran 106 m.1 [⟨114, be32 id⟩, ⟨101, text⟩])
  | none => (w, (w.reg.clients.filter fun d => accessBit d.access 9).map fun d => mkTran 106 d.id [⟨101, text⟩])

def editClient (login access : Bytes) (d : Client) : Client :=
  if d.login == login then { d with flags := setFlag d.flags 1 (accessBit d.access 22), access := access } else d

theorem editClient_keys (login access : Bytes) (d : Client) :
    (editClient login access d).id = d.id ∧ (editClient login access d).conn = d.conn := by
  unfold editClient; split <;> exact ⟨rfl, rfl⟩

def stepAccessEdit (w : ChatWorld) (login access : Bytes) : ChatWorld × List Out :=
  ({ w with reg := w.reg.mapKeep (editClient login access) }, [])

/-- One event.  A request from an id nobody holds has no effect (there is no connection to send it). -/
def ChatWorld.step (w : ChatWorld) (e : ChatEv) : ChatWorld × List Out :=
  match e with
  | .login l an ac nm ic => stepLogin w (newClient l an ac nm ic)
  | .disconnect a => match w.reg.get a with | none => (w, []) | some c => stepDisconnect w c
  | .inviteNew a r t cid => match w.reg.get a with | none => (w, []) | some c => stepInviteNew w c r t cid
  | .invite a r t cid => match w.reg.get a with | none => (w, []) | some c => stepInvite w c r t cid
  | .join a r cid => match w.reg.get a with | none => (w, []) | some c => stepJoin w c r cid
  | .leave a _ cid => match w.reg.get a with | none => (w, []) | some c => stepLeave w c cid
  | .decline a _ cid => match w.reg.get a with | none => (w, []) | some c => stepDecline w c cid
  | .setSubject a _ cid s => match w.reg.get a with | none => (w, []) | some _ => stepSetSubject w cid s
  | .send a r cid o m => match w.reg.get a with | none => (w, []) | some c => stepSend w c r cid o m
  | .accessEdit l ac => stepAccessEdit w l ac

/-- Run a history; outputs are kept per event. -/
def ChatWorld.run (w : ChatWorld) : List ChatEv → ChatWorld × List (List Out)
  | [] => (w, [])
  | e :: es => (((w.step e).1.run es).1, (w.step e).2 :: ((w.step e).1.run es).2)

/-- The history as it is delivered: for every event the client table it was handled on and its outputs. -/
def ChatWorld.trace (w : ChatWorld) : List ChatEv → List (Registry × List Out)
  | [] => []
  | e :: es => (w.reg, (w.step e).2) :: (w.step e).1.trace es

def ChatWorld.after (w : ChatWorld) (es : List ChatEv) : ChatWorld := es.foldl (fun w e => (w.step e).1) w

/-- `sendTransaction`: the connection (if any) that holds the addressed id. -/
def deliver (r : Registry) (o : Out) : Option Nat := (r.get o.to).map (·.conn)

/-- The chat a transaction speaks for: chat lines, join / leave / subject notices carry field 114. -/
def Out.chatTraffic (o : Out) (cid : Nat) : Bool :=
  !o.isReply && (o.ty == 106 || o.ty == 117 || o.ty == 118 || o.ty == 119) &&
    (o.fields.any fun f => f.ty == 114 && f.data == be32 cid)

-- ------------------------------------------------------------------ member maps

def MemSorted (ms : List (Nat × Nat)) : Prop := ms.Pairwise (fun a b => a.1 < b.1)

theorem MemSorted.nodup_keys {ms : List (Nat × Nat)} (h : MemSorted ms) : (ms.map (·.1)).Nodup := by
  unfold MemSorted at h
  rw [List.Nodup, List.pairwise_map]
  exact h.imp (fun hab => Nat.ne_of_lt hab)

theorem mem_memInsert {e x : Nat × Nat} {ms : List (Nat × Nat)} :
    x ∈ memInsert e ms ↔ x = e ∨ (x ∈ ms ∧ x.1 ≠ e.1) := by
  simp only [memInsert, List.mem_append, List.mem_cons, List.mem_filter, decide_eq_true_eq]
  constructor
  · rintro (⟨h, hlt⟩ | rfl | ⟨h, hlt⟩)
    · exact Or.inr ⟨h, by omega⟩
    · exact Or.inl rfl
    · exact Or.inr ⟨h, by omega⟩
  · rintro (rfl | ⟨h, hne⟩)
    · exact Or.inr (Or.inl rfl)
    · by_cases hlt : x.1 < e.1
      · exact Or.inl ⟨h, hlt⟩
      · exact Or.inr (Or.inr ⟨h, by omega⟩)

theorem MemSorted.insert {e : Nat × Nat} {ms : List (Nat × Nat)} (h : MemSorted ms) : MemSorted (memInsert e ms) := by
  unfold MemSorted memInsert at *
  rw [List.pairwise_append]
  refine ⟨h.filter _, ?_, ?_⟩
  · rw [List.pairwise_cons]
    refine ⟨?_, h.filter _⟩
    intro b hb
    simpa using (List.mem_filter.mp hb).2
  · intro a ha b hb
    have ha' : a.1 < e.1 := by simpa using (List.mem_filter.mp ha).2
    rcases List.mem_cons.mp hb with rfl | hb
    · exact ha'
    · have : e.1 < b.1 := by simpa using (List.mem_filter.mp hb).2
      omega

theorem MemSorted.delete {i : Nat} {ms : List (Nat × Nat)} (h : MemSorted ms) : MemSorted (memDelete i ms) :=
  List.Pairwise.filter _ h

theorem mem_memDelete {i : Nat} {x : Nat × Nat} {ms : List (Nat × Nat)} :
    x ∈ memDelete i ms ↔ x ∈ ms ∧ x.1 ≠ i := by
  simp [memDelete]

end Mobius

namespace Mobius

-- ------------------------------------------------------------------ invariant over all histories

/-- Invariant of every reachable chat world: the client table is well formed and every member map
    is keyed by client id (sorted, a key at most once). -/
structure ChatWorld.Inv (w : ChatWorld) : Prop where
  reg : w.reg.Inv
  mem : ∀ ch ∈ w.chats, MemSorted ch.members

theorem ChatWorld.Inv.init : ChatWorld.init.Inv := ⟨Registry.Inv.init, by intro ch h; cases h⟩

theorem ChatWorld.Inv.modifyChat {w : ChatWorld} (h : w.Inv) (cid : Nat) (f : PrivChat → PrivChat)
    (hf : ∀ ch, MemSorted ch.members → MemSorted (f ch).members) : (w.modifyChat cid f).Inv := by
  refine ⟨h.reg, ?_⟩
  intro ch hch
  obtain ⟨ch0, h0, rfl⟩ := List.mem_map.mp hch
  split
  · exact hf ch0 (h.mem ch0 h0)
  · exact h.mem ch0 h0

theorem ChatWorld.step_inv {w : ChatWorld} (h : w.Inv) (e : ChatEv) : (w.step e).1.Inv := by
  cases e with
  | accessEdit l ac => exact ⟨h.reg.mapKeep _ (fun d => editClient_keys l ac d), h.mem⟩
  | login l an ac nm ic =>
    simp only [ChatWorld.step, stepLogin]
    split
    · exact h
    · rename_i r' c ha
      exact ⟨(Registry.add_spec h.reg ha).1, h.mem⟩
  | disconnect a =>
    simp only [ChatWorld.step]
    split
    · exact h
    · exact ⟨h.reg.delete _, h.mem⟩
  | inviteNew a r t cid =>
    simp only [ChatWorld.step]
    split
    · exact h
    · rename_i c _
      simp only [stepInviteNew]
      have hnew : ChatWorld.Inv { w with chats := ⟨cid, [], [(c.id, c.conn)]⟩ :: w.chats.filter (·.id != cid) } := by
        refine ⟨h.reg, ?_⟩
        intro ch hch
        rcases List.mem_cons.mp hch with rfl | hch
        · exact List.pairwise_singleton _ _
        · exact h.mem ch (List.mem_filter.mp hch).1
      split
      · exact h
      · split <;> exact hnew
  | invite a r t cid =>
    simp only [ChatWorld.step]
    split
    · exact h
    · simp only [stepInvite]; split <;> exact h
  | join a r cid =>
    simp only [ChatWorld.step]
    split
    · exact h
    · exact h.modifyChat cid _ (fun ch hs => hs.insert)
  | leave a r cid =>
    simp only [ChatWorld.step]
    split
    · exact h
    · exact h.modifyChat cid _ (fun ch hs => hs.delete)
  | decline a r cid =>
    simp only [ChatWorld.step]
    split <;> exact h
  | setSubject a r cid s =>
    simp only [ChatWorld.step]
    split
    · exact h
    · exact h.modifyChat cid _ (fun ch hs => hs)
  | send a r cid o m =>
    simp only [ChatWorld.step]
    split
    · exact h
    · simp only [stepSend]
      split
      · exact h
      · split <;> exact h

theorem ChatWorld.after_inv {w : ChatWorld} (h : w.Inv) (es : List ChatEv) : (w.after es).Inv := by
  induction es generalizing w with
  | nil => exact h
  | cons e es ih => exact ih (ChatWorld.step_inv h e)

theorem ChatWorld.Inv.entries_sorted {w : ChatWorld} (h : w.Inv) (cid : Nat) : MemSorted (w.entries cid) := by
  unfold ChatWorld.entries ChatWorld.chat
  split
  · rename_i ch hf
    exact h.mem ch (List.mem_of_find?_eq_some hf)
  · exact List.Pairwise.nil

end Mobius

namespace Mobius

-- ------------------------------------------------------------------ generic list lemmas

theorem filterMap_eq_filter_map {α β : Type} (l : List α) (f : α → Option β) (p : α → Bool) (g : α → β)
    (h : ∀ x ∈ l, f x = if p x then some (g x) else none) : l.filterMap f = (l.filter p).map g := by
  induction l with
  | nil => rfl
  | cons a l ih =>
    have ha := h a (by simp)
    have ih' := ih (fun x hx => h x (by simp [hx]))
    by_cases hp : p a
    · rw [hp] at ha; simp only [if_true] at ha
      rw [List.filterMap_cons, ha, List.filter_cons_of_pos hp, List.map_cons, ih']
    · have hp' : p a = false := by simpa using hp
      rw [hp'] at ha; simp only [Bool.false_eq_true, if_false] at ha
      rw [List.filterMap_cons, ha, List.filter_cons_of_neg (by simp [hp']), ih']

theorem eq_of_nodup_map {α β : Type} {l : List α} {f : α → β} (h : (l.map f).Nodup) {a b : α}
    (ha : a ∈ l) (hb : b ∈ l) (hab : f a = f b) : a = b := by
  induction l with
  | nil => cases ha
  | cons x l ih =>
    rw [List.map_cons, List.nodup_cons] at h
    rcases List.mem_cons.mp ha with rfl | ha' <;> rcases List.mem_cons.mp hb with rfl | hb'
    · rfl
    · exact absurd (List.mem_map.mpr ⟨b, hb', hab.symm⟩) h.1
    · exact absurd (List.mem_map.mpr ⟨a, ha', hab⟩) h.1
    · exact ih h.2 ha' hb'

theorem be32_inj {a b : Nat} (ha : a < 4294967296) (hb : b < 4294967296) (h : be32 a = be32 b) : a = b := by
  have h1 := rd32_be32 a
  have h2 := rd32_be32 b
  rw [h] at h1
  omega

-- ------------------------------------------------------------------ delivery to members

/-- No user id is held by a newcomer while a chat still lists the connection that held it before. -/
def ChatWorld.NoStaleReuse (w : ChatWorld) : Prop :=
  ∀ ch ∈ w.chats, ∀ m ∈ ch.members, ∀ c ∈ w.reg.clients, c.id = m.1 → c.conn = m.2

theorem ChatWorld.mem_entries {w : ChatWorld} {cid : Nat} {m : Nat × Nat} (h : m ∈ w.entries cid) :
    ∃ ch ∈ w.chats, m ∈ ch.members := by
  unfold ChatWorld.entries ChatWorld.chat at h
  split at h
  · rename_i ch hf
    exact ⟨ch, List.mem_of_find?_eq_some hf, h⟩
  · cases h

/-- Routing the transactions a handler addressed to the members of a chat through the client table
    reaches exactly the members' connections, in member order — no hypothesis on id reuse: a member
    is by definition the live holder of its id. -/
theorem ChatWorld.members_delivery (w : ChatWorld) (cid : Nat) (f : Nat × Nat → Out) (hf : ∀ m, (f m).to = m.1) :
    ((w.members cid).map f).filterMap (deliver w.reg) = (w.members cid).map (·.2) := by
  rw [List.filterMap_map]
  have h := filterMap_eq_filter_map (w.members cid) (deliver w.reg ∘ f) (fun _ => true) (·.2) (by
    intro m hm
    have hc : w.isConnected m = true := (List.mem_filter.mp hm).2
    simp only [Function.comp, deliver, hf, if_true]
    unfold ChatWorld.isConnected at hc
    simpa using hc)
  rw [h, List.filter_eq_self.mpr (fun _ _ => rfl)]

/-- The behaviour before fix 7d7f993 (one transaction per *map entry*): routed through the table it
    reaches the members' connections only under `NoStaleReuse`. -/
theorem ChatWorld.entries_delivery (w : ChatWorld) (hns : w.NoStaleReuse) (cid : Nat)
    (f : Nat × Nat → Out) (hf : ∀ m, (f m).to = m.1) :
    ((w.entries cid).map f).filterMap (deliver w.reg) = (w.members cid).map (·.2) := by
  rw [List.filterMap_map]
  unfold ChatWorld.members
  apply filterMap_eq_filter_map
  intro m hm
  obtain ⟨ch, hch, hmc⟩ := ChatWorld.mem_entries hm
  simp only [Function.comp, deliver, hf, ChatWorld.isConnected]
  have key : ∀ (o : Option Client), (∀ c, o = some c → c.conn = m.2) →
      o.map (·.conn) = if (o.map (·.conn) == some m.2) = true then some m.2 else none := by
    intro o ho
    cases o with
    | none => simp
    | some c => simp [ho c rfl]
  apply key
  intro c hg
  have hc := Registry.get_some hg
  exact hns ch hch m hmc c hc.1 hc.2

theorem ChatWorld.members_sorted (w : ChatWorld) (hw : w.Inv) (cid : Nat) : MemSorted (w.members cid) :=
  List.Pairwise.filter _ (hw.entries_sorted cid)

theorem ChatWorld.memberIds_subset (w : ChatWorld) (cid : Nat) {i : Nat} (h : i ∈ w.memberIds cid) : i ∈ w.entryIds cid := by
  obtain ⟨m, hm, rfl⟩ := List.mem_map.mp h
  exact List.mem_map.mpr ⟨m, (List.mem_filter.mp hm).1, rfl⟩

/-- A member's connection is what the table routes its id to. -/
theorem ChatWorld.deliver_member (w : ChatWorld) (cid : Nat) {m : Nat × Nat} (hm : m ∈ w.members cid) (o : Out)
    (ho : o.to = m.1) : deliver w.reg o = some m.2 := by
  have hc : w.isConnected m = true := (List.mem_filter.mp hm).2
  unfold ChatWorld.isConnected at hc
  simp only [deliver, ho]
  simpa using hc

/-- Each member is a distinct connection. -/
theorem ChatWorld.members_nodup_conns (w : ChatWorld) (hw : w.Inv) (cid : Nat) :
    ((w.members cid).map (·.2)).Nodup := by
  rw [List.Nodup, List.pairwise_map]
  have hs : (w.members cid).Pairwise (fun a b => a.1 < b.1) := w.members_sorted hw cid
  refine hs.imp_of_mem ?_
  intro a b ha hb hlt heq
  have hca : w.isConnected a = true := (List.mem_filter.mp ha).2
  have hcb : w.isConnected b = true := (List.mem_filter.mp hb).2
  unfold ChatWorld.isConnected at hca hcb
  cases hga : w.reg.get a.1 with
  | none => simp [hga] at hca
  | some ca =>
    cases hgb : w.reg.get b.1 with
    | none => simp [hgb] at hcb
    | some cb =>
      simp [hga] at hca
      simp [hgb] at hcb
      have ha' := Registry.get_some hga
      have hb' := Registry.get_some hgb
      have : ca = cb := eq_of_nodup_map hw.reg.connsNodup ha'.1 hb'.1 (by rw [hca, hcb, heq])
      have : a.1 = b.1 := by rw [← ha'.2, ← hb'.2, this]
      omega

theorem ChatWorld.chat_modifyChat (w : ChatWorld) (cid cid' : Nat) (f : PrivChat → PrivChat) :
    (w.modifyChat cid f).chat cid' = (w.chat cid').map (fun ch => if ch.id = cid then { f ch with id := ch.id } else ch) := by
  unfold ChatWorld.chat ChatWorld.modifyChat
  simp only
  rw [List.find?_map]
  have : ((fun x : PrivChat => x.id == cid') ∘ fun ch => if ch.id = cid then { f ch with id := ch.id } else ch) = (fun x => x.id == cid') := by
    funext ch
    simp only [Function.comp]
    split <;> rfl
  rw [this]

theorem ChatWorld.chat_id {w : ChatWorld} {cid : Nat} {ch : PrivChat} (h : w.chat cid = some ch) : ch.id = cid := by
  unfold ChatWorld.chat at h
  simpa using List.find?_some h

theorem ChatWorld.entries_modifyChat_other (w : ChatWorld) (cid cid' : Nat) (f : PrivChat → PrivChat)
    (hne : cid' ≠ cid) : (w.modifyChat cid f).entries cid' = w.entries cid' := by
  unfold ChatWorld.entries
  rw [ChatWorld.chat_modifyChat w cid cid' f]
  cases h : w.chat cid' with
  | none => rfl
  | some ch =>
    have := ChatWorld.chat_id h
    simp only [Option.map_some]
    rw [if_neg (by rw [this]; exact hne)]

theorem ChatWorld.entries_modifyChat_same (w : ChatWorld) (cid : Nat) (f : PrivChat → PrivChat) :
    (w.modifyChat cid f).entries cid = match w.chat cid with | some ch => (f ch).members | none => [] := by
  unfold ChatWorld.entries
  rw [ChatWorld.chat_modifyChat w cid cid f]
  cases h : w.chat cid with
  | none => rfl
  | some ch =>
    have := ChatWorld.chat_id h
    simp only [Option.map_some]
    rw [if_pos this]

end Mobius

namespace Mobius

theorem ChatWorld.members_modifyChat_mem (w : ChatWorld) (cid : Nat) (f : PrivChat → PrivChat) {m : Nat × Nat}
    (hm : m ∈ (w.modifyChat cid f).members cid) :
    w.isConnected m = true ∧ ∃ ch, w.chat cid = some ch ∧ m ∈ (f ch).members := by
  unfold ChatWorld.members at hm
  have h := List.mem_filter.mp hm
  refine ⟨h.2, ?_⟩
  have h1 := h.1
  rw [ChatWorld.entries_modifyChat_same w cid f] at h1
  split at h1
  · rename_i ch hch; exact ⟨ch, hch, h1⟩
  · cases h1

-- ------------------------------------------------------------------ who is addressed by chat traffic

/-- The chat an event names (if any). -/
def ChatEv.chatId : ChatEv → Option Nat
  | .inviteNew _ _ _ c => some c
  | .invite _ _ _ c => some c
  | .join _ _ c => some c
  | .leave _ _ c => some c
  | .decline _ _ c => some c
  | .setSubject _ _ c _ => some c
  | .send _ _ c _ _ => c
  | _ => none

/-- Chat ids are 4 bytes on the wire. -/
def ChatEv.WF (e : ChatEv) : Prop := ∀ c, e.chatId = some c → c < 4294967296

/-- The events that make client id `i` a member of chat `cid`. -/
def ChatEv.joins (e : ChatEv) (i cid : Nat) : Bool :=
  match e with
  | .join a _ c => a == i && c == cid
  | .inviteNew a _ _ c => a == i && c == cid
  | _ => false


theorem chatTraffic_mkTran {ty to : Nat} {fs : List Field} {cid : Nat} (h : (mkTran ty to fs).chatTraffic cid = true) :
    (ty = 106 ∨ ty = 117 ∨ ty = 118 ∨ ty = 119) ∧ ∃ f ∈ fs, f.ty = 114 ∧ f.data = be32 cid := by
  simp only [Out.chatTraffic, mkTran, Bool.not_false, Bool.true_and, Bool.and_eq_true, Bool.or_eq_true, beq_iff_eq,
    List.any_eq_true] at h
  obtain ⟨hty, f, hf, h1, h2⟩ := h
  exact ⟨by omega, f, hf, h1, h2⟩

theorem chatTraffic_reply {c : Client} {req : Nat} {fs : List Field} {cid : Nat} :
    (mkReply c req fs).chatTraffic cid = false := by
  simp [Out.chatTraffic, mkReply]

theorem chatTraffic_err {c : Client} {req : Nat} {msg : String} {cid : Nat} :
    (mkErr c req msg).chatTraffic cid = false := by
  simp [Out.chatTraffic, mkErr]

theorem find?_filter_ne (l : List PrivChat) (cid cid' : Nat) (hne : cid ≠ cid') :
    (l.filter (·.id != cid')).find? (·.id == cid) = l.find? (·.id == cid) := by
  rw [List.find?_filter]
  congr 1
  funext a
  by_cases h : a.id = cid
  · simp [h, hne]
  · simp [h]

/-- Chat traffic of chat `cid` produced by any event is addressed to ids that were in the member
    map of `cid` before the event. -/
theorem ChatWorld.traffic_to_members (w : ChatWorld) (e : ChatEv) (hwf : e.WF) (cid : Nat) (hcid : cid < 4294967296)
    (o : Out) (ho : o ∈ (w.step e).2) (ht : o.chatTraffic cid = true) : o.to ∈ w.memberIds cid := by
  have inj : ∀ c', e.chatId = some c' → be32 c' = be32 cid → c' = cid :=
    fun c' hc' hb => be32_inj (hwf c' hc') hcid hb
  cases e with
  | accessEdit l ac => simp only [ChatWorld.step, stepAccessEdit] at ho; cases ho
  | login l an ac nm ic =>
    simp only [ChatWorld.step, stepLogin] at ho
    split at ho <;> cases ho
  | disconnect a =>
    simp only [ChatWorld.step] at ho
    split at ho
    · cases ho
    · simp only [stepDisconnect, List.mem_map] at ho
      obtain ⟨d, _, rfl⟩ := ho
      have := (chatTraffic_mkTran ht).1
      omega
  | inviteNew a r t c' =>
    simp only [ChatWorld.step] at ho
    split at ho
    · cases ho
    · simp only [stepInviteNew] at ho
      split at ho
      · simp only [List.mem_singleton] at ho; subst ho; rw [chatTraffic_err] at ht; cases ht
      · split at ho
        · cases ho
        · simp only [List.mem_cons, List.not_mem_nil, or_false] at ho
          rcases ho with rfl | rfl
          · split at ht
            · have := (chatTraffic_mkTran ht).1; omega
            · have := (chatTraffic_mkTran ht).1; omega
          · rw [chatTraffic_reply] at ht; cases ht
  | invite a r t c' =>
    simp only [ChatWorld.step] at ho
    split at ho
    · cases ho
    · simp only [stepInvite] at ho
      split at ho
      · simp only [List.mem_singleton] at ho; subst ho; rw [chatTraffic_err] at ht; cases ht
      · simp only [List.mem_cons, List.not_mem_nil, or_false] at ho
        rcases ho with rfl | rfl
        · have := (chatTraffic_mkTran ht).1; omega
        · rw [chatTraffic_reply] at ht; cases ht
  | join a r c' =>
    simp only [ChatWorld.step] at ho
    split at ho
    · cases ho
    · simp only [stepJoin, List.mem_append, List.mem_map, List.mem_singleton] at ho
      rcases ho with ⟨m, hm, rfl⟩ | rfl
      · obtain ⟨_, f, hf, h1, h2⟩ := chatTraffic_mkTran ht
        simp only [whoFieldsFull, List.cons_append, List.nil_append, List.mem_cons, List.not_mem_nil, or_false] at hf
        rcases hf with rfl | rfl | rfl | rfl | rfl <;> simp at h1
        have := inj c' rfl h2
        subst this
        exact List.mem_map.mpr ⟨m, hm, rfl⟩
      · rw [chatTraffic_reply] at ht; cases ht
  | leave a r c' =>
    simp only [ChatWorld.step] at ho
    split at ho
    · cases ho
    · rename_i c _
      simp only [stepLeave, List.mem_map] at ho
      obtain ⟨m, hm, rfl⟩ := ho
      obtain ⟨_, f, hf, h1, h2⟩ := chatTraffic_mkTran ht
      simp only [List.mem_cons, List.not_mem_nil, or_false] at hf
      rcases hf with rfl | rfl <;> simp at h1
      have := inj c' rfl h2
      subst this
      obtain ⟨hc, ch, hch, hmc⟩ := ChatWorld.members_modifyChat_mem w c' _ hm
      refine List.mem_map.mpr ⟨m, List.mem_filter.mpr ⟨?_, hc⟩, rfl⟩
      unfold ChatWorld.entries; rw [hch]
      exact (mem_memDelete.mp hmc).1
  | decline a r c' =>
    simp only [ChatWorld.step] at ho
    split at ho
    · cases ho
    · simp only [stepDecline, List.mem_map] at ho
      obtain ⟨m, hm, rfl⟩ := ho
      obtain ⟨_, f, hf, h1, h2⟩ := chatTraffic_mkTran ht
      simp only [List.mem_cons, List.not_mem_nil, or_false] at hf
      rcases hf with rfl | rfl <;> simp at h1
      have := inj c' rfl h2
      subst this
      exact List.mem_map.mpr ⟨m, hm, rfl⟩
  | setSubject a r c' s =>
    simp only [ChatWorld.step] at ho
    split at ho
    · cases ho
    · simp only [stepSetSubject, List.mem_map] at ho
      obtain ⟨m, hm, rfl⟩ := ho
      obtain ⟨_, f, hf, h1, h2⟩ := chatTraffic_mkTran ht
      simp only [List.mem_cons, List.not_mem_nil, or_false] at hf
      rcases hf with rfl | rfl <;> simp at h1
      have := inj c' rfl h2
      subst this
      obtain ⟨hc, ch, hch, hmc⟩ := ChatWorld.members_modifyChat_mem w c' _ hm
      refine List.mem_map.mpr ⟨m, List.mem_filter.mpr ⟨?_, hc⟩, rfl⟩
      unfold ChatWorld.entries; rw [hch]
      exact hmc
  | send a r c' op msg =>
    simp only [ChatWorld.step] at ho
    split at ho
    · cases ho
    · simp only [stepSend] at ho
      split at ho
      · simp only [List.mem_singleton] at ho; subst ho; rw [chatTraffic_err] at ht; cases ht
      · split at ho
        · rename_i id
          simp only [List.mem_map] at ho
          obtain ⟨m, hm, rfl⟩ := ho
          obtain ⟨_, f, hf, h1, h2⟩ := chatTraffic_mkTran ht
          simp only [List.mem_cons, List.not_mem_nil, or_false] at hf
          rcases hf with rfl | rfl <;> simp at h1
          have := inj id rfl h2
          subst this
          exact List.mem_map.mpr ⟨m, hm, rfl⟩
        · simp only [List.mem_map] at ho
          obtain ⟨d, _, rfl⟩ := ho
          obtain ⟨_, f, hf, h1, h2⟩ := chatTraffic_mkTran ht
          simp only [List.mem_cons, List.not_mem_nil, or_false] at hf
          subst hf
          simp at h1

end Mobius

namespace Mobius

theorem ChatWorld.entries_congr {w w' : ChatWorld} (h : w'.chats = w.chats) (cid : Nat) : w'.entries cid = w.entries cid := by
  unfold ChatWorld.entries ChatWorld.chat; rw [h]

/-- Somebody who is not in the member map of `cid` stays out of it through every event that is not
    a join (or the creation of that very chat) by that id. -/
theorem ChatWorld.nonmember_preserved (w : ChatWorld) (e : ChatEv) (i cid : Nat) (hnot : i ∉ w.entryIds cid)
    (hj : e.joins i cid = false) : i ∉ (w.step e).1.entryIds cid := by
  unfold ChatWorld.entryIds at *
  cases e with
  | accessEdit l ac => exact hnot
  | login l an ac nm ic =>
    simp only [ChatWorld.step, stepLogin]
    split
    · exact hnot
    · exact hnot
  | disconnect a =>
    simp only [ChatWorld.step]
    split
    · exact hnot
    · exact hnot
  | inviteNew a r t c' =>
    simp only [ChatWorld.step]
    split
    · exact hnot
    · rename_i c hg
      have hcid := (Registry.get_some hg).2
      simp only [stepInviteNew]
      have hnew : i ∉ (ChatWorld.entries { w with chats := ⟨c', [], [(c.id, c.conn)]⟩ :: w.chats.filter (·.id != c') } cid).map (·.1) := by
        unfold ChatWorld.entries ChatWorld.chat
        simp only [List.find?_cons]
        by_cases hc : c' = cid
        · subst hc
          simp only [beq_self_eq_true, List.map_cons, List.map_nil, List.mem_singleton]
          intro hi
          simp only [ChatEv.joins, beq_self_eq_true, Bool.and_true, beq_eq_false_iff_ne] at hj
          exact hj (by rw [← hcid, hi])
        · have : (c' == cid) = false := by simpa using hc
          simp only [this]
          rw [find?_filter_ne _ _ _ (fun h => hc h.symm)]
          exact hnot
      split
      · exact hnot
      · split <;> exact hnew
  | invite a r t c' =>
    simp only [ChatWorld.step]
    split
    · exact hnot
    · simp only [stepInvite]; split <;> exact hnot
  | join a r c' =>
    simp only [ChatWorld.step]
    split
    · exact hnot
    · rename_i c hg
      have hcid := (Registry.get_some hg).2
      simp only [stepJoin]
      by_cases hc : c' = cid
      · subst hc
        rw [ChatWorld.entries_modifyChat_same w c' (fun ch => { ch with members := memInsert (c.id, c.conn) ch.members })]
        unfold ChatWorld.entries at hnot
        split
        · rename_i ch hch
          rw [hch] at hnot
          intro hi
          obtain ⟨m, hm, rfl⟩ := List.mem_map.mp hi
          rcases mem_memInsert.mp hm with rfl | ⟨hm', _⟩
          · simp only [ChatEv.joins, beq_self_eq_true, Bool.and_true, beq_eq_false_iff_ne] at hj
            exact hj hcid.symm
          · exact hnot (List.mem_map.mpr ⟨m, hm', rfl⟩)
        · simp
      · rw [ChatWorld.entries_modifyChat_other w c' cid _ (fun h => hc h.symm)]
        exact hnot
  | leave a r c' =>
    simp only [ChatWorld.step]
    split
    · exact hnot
    · rename_i c hg
      simp only [stepLeave]
      by_cases hc : c' = cid
      · subst hc
        rw [ChatWorld.entries_modifyChat_same w c' (fun ch => { ch with members := memDelete c.id ch.members })]
        unfold ChatWorld.entries at hnot
        split
        · rename_i ch hch
          rw [hch] at hnot
          intro hi
          obtain ⟨m, hm, rfl⟩ := List.mem_map.mp hi
          exact hnot (List.mem_map.mpr ⟨m, (mem_memDelete.mp hm).1, rfl⟩)
        · simp
      · rw [ChatWorld.entries_modifyChat_other w c' cid _ (fun h => hc h.symm)]
        exact hnot
  | decline a r c' =>
    simp only [ChatWorld.step]
    split <;> exact hnot
  | setSubject a r c' s =>
    simp only [ChatWorld.step]
    split
    · exact hnot
    · simp only [stepSetSubject]
      by_cases hc : c' = cid
      · subst hc
        rw [ChatWorld.entries_modifyChat_same w c' (fun ch => { ch with subject := s })]
        unfold ChatWorld.entries at hnot
        split
        · rename_i ch hch
          rw [hch] at hnot
          exact hnot
        · simp
      · rw [ChatWorld.entries_modifyChat_other w c' cid _ (fun h => hc h.symm)]
        exact hnot
  | send a r c' o m =>
    simp only [ChatWorld.step]
    split
    · exact hnot
    · simp only [stepSend]
      split
      · exact hnot
      · split <;> exact hnot

/-- After `leave` by a connected user the member map of that chat no longer lists its id, and the
    leave notices themselves are not addressed to it. -/
theorem ChatWorld.leave_removes (w : ChatWorld) (i r cid : Nat) (c : Client) (hg : w.reg.get i = some c) :
    i ∉ (w.step (.leave i r cid)).1.entryIds cid ∧ ∀ o ∈ (w.step (.leave i r cid)).2, o.to ≠ i := by
  have hcid := (Registry.get_some hg).2
  simp only [ChatWorld.step, hg, stepLeave]
  have hmem : ∀ m ∈ (w.modifyChat cid fun ch => { ch with members := memDelete c.id ch.members }).entries cid, m.1 ≠ i := by
    intro m hm
    rw [ChatWorld.entries_modifyChat_same w cid (fun ch => { ch with members := memDelete c.id ch.members })] at hm
    split at hm
    · rw [← hcid]; exact (mem_memDelete.mp hm).2
    · cases hm
  constructor
  · unfold ChatWorld.entryIds
    intro hi
    obtain ⟨m, hm, hmi⟩ := List.mem_map.mp hi
    exact hmem m hm hmi
  · intro o ho
    obtain ⟨m, hm, rfl⟩ := List.mem_map.mp ho
    exact hmem m (List.mem_filter.mp hm).1

end Mobius

namespace Mobius

-- ------------------------------------------------------------------ short histories never reissue an id

/-- While the 16-bit id space has not wrapped, ids are handed out in increasing order: every id a
    chat remembers is at most the counter, so the next id is new. -/
structure ChatWorld.Fresh (w : ChatWorld) : Prop where
  live : ∀ c ∈ w.reg.clients, c.id ≤ w.reg.counter
  mem : ∀ ch ∈ w.chats, ∀ m ∈ ch.members, m.1 ≤ w.reg.counter
  nsr : w.NoStaleReuse

theorem allocId_first {used : Nat → Bool} (fuel ctr : Nat) (h1 : ctr + 1 < 65536) (hfree : used (ctr + 1) = false) :
    allocId used (fuel + 1) ctr = some (ctr + 1, ctr + 1) := by
  unfold allocId
  have e1 : (ctr + 1) % 4294967296 = ctr + 1 := by omega
  have e2 : (ctr + 1) % 65536 = ctr + 1 := by omega
  simp only [e1, e2]
  rw [if_pos ⟨by omega, hfree⟩]

theorem ChatWorld.Fresh.init : ChatWorld.init.Fresh :=
  ⟨(by intro c h; cases h), (by intro ch h; cases h), (by intro ch h; cases h)⟩

theorem ChatWorld.Fresh.modifyChat {w : ChatWorld} (hf : w.Fresh) (hw : w.Inv) (cid : Nat) (f : PrivChat → PrivChat)
    (hm : ∀ ch ∈ w.chats, ∀ m ∈ (f ch).members, m ∈ ch.members ∨ ∃ c ∈ w.reg.clients, m = (c.id, c.conn)) :
    (w.modifyChat cid f).Fresh := by
  have key : ∀ ch' ∈ (w.modifyChat cid f).chats, ∀ m ∈ ch'.members,
      (∃ ch ∈ w.chats, m ∈ ch.members) ∨ ∃ c ∈ w.reg.clients, m = (c.id, c.conn) := by
    intro ch' hch' m hmm
    obtain ⟨ch, hch, rfl⟩ := List.mem_map.mp hch'
    split at hmm
    · rcases hm ch hch m hmm with h | h
      · exact Or.inl ⟨ch, hch, h⟩
      · exact Or.inr h
    · exact Or.inl ⟨ch, hch, hmm⟩
  refine ⟨hf.live, ?_, ?_⟩
  · intro ch' hch' m hmm
    rcases key ch' hch' m hmm with ⟨ch, hch, h⟩ | ⟨c, hc, rfl⟩
    · exact hf.mem ch hch m h
    · exact hf.live c hc
  · intro ch' hch' m hmm x hx hxid
    rcases key ch' hch' m hmm with ⟨ch, hch, h⟩ | ⟨c, hc, rfl⟩
    · exact hf.nsr ch hch m h x hx hxid
    · have : x = c := hw.reg.sorted.eq_of_id hx hc hxid
      rw [this]

theorem ChatWorld.step_fresh {w : ChatWorld} (hf : w.Fresh) (hw : w.Inv) (e : ChatEv) (hc : w.reg.counter + 1 < 65536) :
    (w.step e).1.Fresh ∧ (w.step e).1.reg.counter ≤ w.reg.counter + 1 := by
  cases e with
  | accessEdit l ac =>
    refine ⟨⟨?_, hf.mem, ?_⟩, Nat.le_succ _⟩
    · intro x hx
      obtain ⟨d, hd, rfl⟩ := List.mem_map.mp hx
      rw [(editClient_keys l ac d).1]; exact hf.live d hd
    · intro ch hch m hm x hx hxid
      obtain ⟨d, hd, rfl⟩ := List.mem_map.mp hx
      rw [(editClient_keys l ac d).1] at hxid
      rw [(editClient_keys l ac d).2]; exact hf.nsr ch hch m hm d hd hxid
  | login l an ac nm ic =>
    simp only [ChatWorld.step, stepLogin]
    have hfree : w.reg.used (w.reg.counter + 1) = false := by
      cases hu : w.reg.used (w.reg.counter + 1) with
      | false => rfl
      | true =>
        obtain ⟨c, hcm, hid⟩ := Registry.used_iff.mp hu
        have := hf.live c hcm
        omega
    have hal := allocId_first (used := w.reg.used) 65535 w.reg.counter hc hfree
    unfold Registry.add
    rw [hal]
    simp only
    refine ⟨⟨?_, ?_, ?_⟩, Nat.le_refl _⟩
    · intro x hx
      rcases mem_insertClient.mp hx with rfl | ⟨hx', _⟩
      · exact Nat.le_refl _
      · have := hf.live x hx'; simp only; omega
    · intro ch hch m hm
      have := hf.mem ch hch m hm; simp only; omega
    · intro ch hch m hm x hx hxid
      rcases mem_insertClient.mp hx with rfl | ⟨hx', _⟩
      · have := hf.mem ch hch m hm
        simp only at hxid
        omega
      · exact hf.nsr ch hch m hm x hx' hxid
  | disconnect a =>
    simp only [ChatWorld.step]
    split
    · exact ⟨hf, Nat.le_succ _⟩
    · simp only [stepDisconnect, Registry.delete]
      refine ⟨⟨?_, hf.mem, ?_⟩, by omega⟩
      · intro c hcm; exact hf.live c (List.mem_filter.mp hcm).1
      · intro ch hch m hm x hx hxid
        exact hf.nsr ch hch m hm x (List.mem_filter.mp hx).1 hxid
  | inviteNew a r t c' =>
    simp only [ChatWorld.step]
    split
    · exact ⟨hf, Nat.le_succ _⟩
    · rename_i c hg
      have hcm := (Registry.get_some hg).1
      simp only [stepInviteNew]
      have hnew : ChatWorld.Fresh { w with chats := ⟨c', [], [(c.id, c.conn)]⟩ :: w.chats.filter (·.id != c') } := by
        refine ⟨hf.live, ?_, ?_⟩
        · intro ch hch m hm
          rcases List.mem_cons.mp hch with rfl | hch
          · simp only [List.mem_singleton] at hm; subst hm; exact hf.live c hcm
          · exact hf.mem ch (List.mem_filter.mp hch).1 m hm
        · intro ch hch m hm x hx hxid
          rcases List.mem_cons.mp hch with rfl | hch
          · simp only [List.mem_singleton] at hm; subst hm
            have : x = c := hw.reg.sorted.eq_of_id hx hcm hxid
            rw [this]
          · exact hf.nsr ch (List.mem_filter.mp hch).1 m hm x hx hxid
      split
      · exact ⟨hf, Nat.le_succ _⟩
      · split <;> exact ⟨hnew, Nat.le_succ _⟩
  | invite a r t c' =>
    simp only [ChatWorld.step]
    split
    · exact ⟨hf, Nat.le_succ _⟩
    · simp only [stepInvite]; split <;> exact ⟨hf, Nat.le_succ _⟩
  | join a r c' =>
    simp only [ChatWorld.step]
    split
    · exact ⟨hf, Nat.le_succ _⟩
    · rename_i c hg
      have hcm := (Registry.get_some hg).1
      refine ⟨hf.modifyChat hw c' _ ?_, by simp only [stepJoin, ChatWorld.modifyChat]; omega⟩
      intro ch _ m hm
      rcases mem_memInsert.mp hm with rfl | ⟨h, _⟩
      · exact Or.inr ⟨c, hcm, rfl⟩
      · exact Or.inl h
  | leave a r c' =>
    simp only [ChatWorld.step]
    split
    · exact ⟨hf, Nat.le_succ _⟩
    · refine ⟨hf.modifyChat hw c' _ ?_, by simp only [stepLeave, ChatWorld.modifyChat]; omega⟩
      intro ch _ m hm
      exact Or.inl (mem_memDelete.mp hm).1
  | decline a r c' =>
    simp only [ChatWorld.step]
    split <;> exact ⟨hf, Nat.le_succ _⟩
  | setSubject a r c' s =>
    simp only [ChatWorld.step]
    split
    · exact ⟨hf, Nat.le_succ _⟩
    · refine ⟨hf.modifyChat hw c' _ ?_, by simp only [stepSetSubject, ChatWorld.modifyChat]; omega⟩
      intro ch _ m hm
      exact Or.inl hm
  | send a r c' o m =>
    simp only [ChatWorld.step]
    split
    · exact ⟨hf, Nat.le_succ _⟩
    · simp only [stepSend]
      split
      · exact ⟨hf, Nat.le_succ _⟩
      · split <;> exact ⟨hf, Nat.le_succ _⟩

theorem ChatWorld.after_fresh (es : List ChatEv) (w : ChatWorld) (hw : w.Inv) (hf : w.Fresh)
    (hlen : w.reg.counter + es.length < 65536) : (w.after es).Fresh := by
  induction es generalizing w with
  | nil => exact hf
  | cons e es ih =>
    simp only [List.length_cons] at hlen
    have hs := ChatWorld.step_fresh hf hw e (by omega)
    have h2 := hs.2
    exact ih (w.step e).1 (ChatWorld.step_inv hw e) hs.1 (by omega)

end Mobius

namespace Mobius

-- ------------------------------------------------------------------ replies

/-- At most one reply-flagged transaction, addressed to the requester with the request's id. -/
def ReplyOK (actor req : Nat) (outs : List Out) : Prop :=
  (outs.filter (·.isReply)).length ≤ 1 ∧ ∀ o ∈ outs, o.isReply = true → o.to = actor ∧ o.reqId = req

theorem filter_isReply_nil {l : List Out} (h : ∀ o ∈ l, o.isReply = false) : l.filter (·.isReply) = [] := by
  apply List.filter_eq_nil_iff.mpr
  intro o ho; simp [h o ho]

theorem ReplyOK.nonreplies {a r : Nat} {l : List Out} (h : ∀ o ∈ l, o.isReply = false) : ReplyOK a r l := by
  refine ⟨by rw [filter_isReply_nil h]; simp, ?_⟩
  intro o ho hr; rw [h o ho] at hr; cases hr

theorem ReplyOK.append_reply {a r : Nat} {l : List Out} {rep : Out} (h : ∀ o ∈ l, o.isReply = false)
    (h2 : rep.to = a) (h3 : rep.reqId = r) : ReplyOK a r (l ++ [rep]) := by
  refine ⟨?_, ?_⟩
  · rw [List.filter_append, filter_isReply_nil h]
    simp only [List.nil_append]
    exact Nat.le_trans (List.length_filter_le _ _) (by simp)
  · intro o ho hr
    rcases List.mem_append.mp ho with ho | ho
    · rw [h o ho] at hr; cases hr
    · simp only [List.mem_singleton] at ho; subst ho; exact ⟨h2, h3⟩

theorem ReplyOK.nil {a r : Nat} : ReplyOK a r [] := ReplyOK.nonreplies (by intro o h; cases h)

theorem isReply_map_mkTran {α : Type} (l : List α) (f : α → Nat × Nat × List Field) :
    ∀ o ∈ l.map (fun x => mkTran (f x).1 (f x).2.1 (f x).2.2), o.isReply = false := by
  intro o ho
  obtain ⟨x, _, rfl⟩ := List.mem_map.mp ho
  rfl

end Mobius

namespace Mobius

-- ------------------------------------------------------------------ entries remember which connection joined

/-- Every map entry was made by a connection that exists(ed) (serial below the counter of serials),
    and a connection never changes its id: whoever is connected under that serial holds that id. -/
def ChatWorld.EntOK (w : ChatWorld) : Prop :=
  ∀ ch ∈ w.chats, ∀ m ∈ ch.members, m.2 < w.reg.serial ∧ ∀ c ∈ w.reg.clients, c.conn = m.2 → c.id = m.1

theorem ChatWorld.EntOK.init : ChatWorld.init.EntOK := by intro ch h; cases h

theorem ChatWorld.EntOK.modifyChat {w : ChatWorld} (he : w.EntOK) (hw : w.Inv) (cid : Nat) (f : PrivChat → PrivChat)
    (hm : ∀ ch ∈ w.chats, ∀ m ∈ (f ch).members, m ∈ ch.members ∨ ∃ c ∈ w.reg.clients, m = (c.id, c.conn)) :
    (w.modifyChat cid f).EntOK := by
  intro ch' hch' m hmm
  obtain ⟨ch, hch, rfl⟩ := List.mem_map.mp hch'
  have old : ∀ m ∈ ch.members, m.2 < w.reg.serial ∧ ∀ c ∈ w.reg.clients, c.conn = m.2 → c.id = m.1 := he ch hch
  have live : ∀ c ∈ w.reg.clients, (c.id, c.conn).2 < w.reg.serial ∧ ∀ c' ∈ w.reg.clients, c'.conn = (c.id, c.conn).2 → c'.id = (c.id, c.conn).1 := by
    intro c hc
    refine ⟨hw.reg.conns c hc, ?_⟩
    intro c' hc' heq
    rw [eq_of_nodup_map hw.reg.connsNodup hc' hc heq]
  split at hmm
  · rcases hm ch hch m hmm with h | ⟨c, hc, rfl⟩
    · exact old m h
    · exact live c hc
  · exact old m hmm

theorem ChatWorld.step_entOK {w : ChatWorld} (hw : w.Inv) (he : w.EntOK) (e : ChatEv) : (w.step e).1.EntOK := by
  cases e with
  | accessEdit l ac =>
    intro ch hch m hm
    have ho := he ch hch m hm
    refine ⟨ho.1, ?_⟩
    intro x hx hxc
    obtain ⟨d, hd, rfl⟩ := List.mem_map.mp hx
    rw [(editClient_keys l ac d).2] at hxc
    rw [(editClient_keys l ac d).1]; exact ho.2 d hd hxc
  | login l an ac nm ic =>
    simp only [ChatWorld.step, stepLogin]
    split
    · exact he
    · rename_i r' c ha
      obtain ⟨_, _, _, _, hconn, _, _, hser, hmem⟩ := Registry.add_spec hw.reg ha
      intro ch hch m hm
      have ho := he ch hch m hm
      refine ⟨by show m.2 < r'.serial; omega, ?_⟩
      intro x hx hxc
      rcases (hmem x).mp hx with rfl | hx0
      · omega
      · exact ho.2 x hx0 hxc
  | disconnect a =>
    simp only [ChatWorld.step]
    split
    · exact he
    · intro ch hch m hm
      have ho := he ch hch m hm
      exact ⟨ho.1, fun x hx hxc => ho.2 x (List.mem_filter.mp hx).1 hxc⟩
  | inviteNew a r t c' =>
    simp only [ChatWorld.step]
    split
    · exact he
    · rename_i c hg
      have hcm := (Registry.get_some hg).1
      simp only [stepInviteNew]
      have hnew : ChatWorld.EntOK { w with chats := ⟨c', [], [(c.id, c.conn)]⟩ :: w.chats.filter (·.id != c') } := by
        intro ch hch m hm
        rcases List.mem_cons.mp hch with rfl | hch
        · simp only [List.mem_singleton] at hm; subst hm
          refine ⟨hw.reg.conns c hcm, ?_⟩
          intro x hx hxc
          rw [eq_of_nodup_map hw.reg.connsNodup hx hcm hxc]
        · exact he ch (List.mem_filter.mp hch).1 m hm
      split
      · exact he
      · split <;> exact hnew
  | invite a r t c' =>
    simp only [ChatWorld.step]
    split
    · exact he
    · simp only [stepInvite]; split <;> exact he
  | join a r c' =>
    simp only [ChatWorld.step]
    split
    · exact he
    · rename_i c hg
      have hcm := (Registry.get_some hg).1
      refine he.modifyChat hw c' _ ?_
      intro ch _ m hm
      rcases mem_memInsert.mp hm with rfl | ⟨h, _⟩
      · exact Or.inr ⟨c, hcm, rfl⟩
      · exact Or.inl h
  | leave a r c' =>
    simp only [ChatWorld.step]
    split
    · exact he
    · exact he.modifyChat hw c' _ (fun ch _ m hm => Or.inl (mem_memDelete.mp hm).1)
  | decline a r c' =>
    simp only [ChatWorld.step]
    split <;> exact he
  | setSubject a r c' s =>
    simp only [ChatWorld.step]
    split
    · exact he
    · exact he.modifyChat hw c' _ (fun ch _ m hm => Or.inl hm)
  | send a r c' o m =>
    simp only [ChatWorld.step]
    split
    · exact he
    · simp only [stepSend]
      split
      · exact he
      · split <;> exact he

theorem ChatWorld.after_entOK {w : ChatWorld} (hw : w.Inv) (he : w.EntOK) (es : List ChatEv) : (w.after es).EntOK := by
  induction es generalizing w with
  | nil => exact he
  | cons e es ih => exact ih (ChatWorld.step_inv hw e) (ChatWorld.step_entOK hw he e)

theorem ChatWorld.EntOK.entries {w : ChatWorld} (he : w.EntOK) {cid : Nat} {m : Nat × Nat} (hm : m ∈ w.entries cid) :
    m.2 < w.reg.serial ∧ ∀ c ∈ w.reg.clients, c.conn = m.2 → c.id = m.1 := by
  obtain ⟨ch, hch, hmc⟩ := ChatWorld.mem_entries hm
  exact he ch hch m hmc

-- ------------------------------------------------------------------ a connection that has not joined

/-- Connection `k` (which holds id `i` whenever it is connected) has no entry in the map of chat `cid`. -/
structure ChatWorld.Outside (w : ChatWorld) (k i cid : Nat) : Prop where
  noEntry : ∀ m ∈ w.entries cid, m.2 ≠ k
  holds : ∀ c ∈ w.reg.clients, c.conn = k → c.id = i
  known : k < w.reg.serial

/-- What an event can add to the map of a chat: only the entry of the connection that joins (or creates) it. -/
theorem ChatWorld.entries_step (w : ChatWorld) (e : ChatEv) (cid : Nat) {m : Nat × Nat}
    (hm : m ∈ (w.step e).1.entries cid) :
    m ∈ w.entries cid ∨ ∃ a c, w.reg.get a = some c ∧ m = (c.id, c.conn) ∧ e.joins a cid = true := by
  cases e with
  | accessEdit l ac => exact Or.inl hm
  | login l an ac nm ic =>
    simp only [ChatWorld.step, stepLogin] at hm
    split at hm <;> exact Or.inl hm
  | disconnect a =>
    simp only [ChatWorld.step] at hm
    split at hm <;> exact Or.inl hm
  | inviteNew a r t c' =>
    simp only [ChatWorld.step] at hm
    split at hm
    · exact Or.inl hm
    · rename_i c hg
      simp only [stepInviteNew] at hm
      have hnew : m ∈ ChatWorld.entries { w with chats := ⟨c', [], [(c.id, c.conn)]⟩ :: w.chats.filter (·.id != c') } cid →
          m ∈ w.entries cid ∨ ∃ a0 c, w.reg.get a0 = some c ∧ m = (c.id, c.conn) ∧ (ChatEv.inviteNew a r t c').joins a0 cid = true := by
        intro h
        unfold ChatWorld.entries ChatWorld.chat at h
        simp only [List.find?_cons] at h
        by_cases hc : c' = cid
        · subst hc
          simp only [beq_self_eq_true, List.mem_singleton] at h
          exact Or.inr ⟨a, c, hg, h, by simp [ChatEv.joins]⟩
        · have hb : (c' == cid) = false := by simpa using hc
          simp only [hb] at h
          rw [find?_filter_ne _ _ _ (fun hh => hc hh.symm)] at h
          exact Or.inl h
      split at hm
      · exact Or.inl hm
      · split at hm <;> exact hnew hm
  | invite a r t c' =>
    simp only [ChatWorld.step] at hm
    split at hm
    · exact Or.inl hm
    · simp only [stepInvite] at hm; split at hm <;> exact Or.inl hm
  | join a r c' =>
    simp only [ChatWorld.step] at hm
    split at hm
    · exact Or.inl hm
    · rename_i c hg
      simp only [stepJoin] at hm
      by_cases hc : c' = cid
      · subst hc
        rw [ChatWorld.entries_modifyChat_same w c' (fun ch => { ch with members := memInsert (c.id, c.conn) ch.members })] at hm
        split at hm
        · rename_i ch hch
          rcases mem_memInsert.mp hm with rfl | ⟨h, _⟩
          · exact Or.inr ⟨a, c, hg, rfl, by simp [ChatEv.joins]⟩
          · left; unfold ChatWorld.entries; rw [hch]; exact h
        · cases hm
      · rw [ChatWorld.entries_modifyChat_other w c' cid _ (fun h => hc h.symm)] at hm
        exact Or.inl hm
  | leave a r c' =>
    simp only [ChatWorld.step] at hm
    split at hm
    · exact Or.inl hm
    · rename_i c hg
      simp only [stepLeave] at hm
      by_cases hc : c' = cid
      · subst hc
        rw [ChatWorld.entries_modifyChat_same w c' (fun ch => { ch with members := memDelete c.id ch.members })] at hm
        split at hm
        · rename_i ch hch
          left; unfold ChatWorld.entries; rw [hch]; exact (mem_memDelete.mp hm).1
        · cases hm
      · rw [ChatWorld.entries_modifyChat_other w c' cid _ (fun h => hc h.symm)] at hm
        exact Or.inl hm
  | decline a r c' =>
    simp only [ChatWorld.step] at hm
    split at hm <;> exact Or.inl hm
  | setSubject a r c' s =>
    simp only [ChatWorld.step] at hm
    split at hm
    · exact Or.inl hm
    · simp only [stepSetSubject] at hm
      by_cases hc : c' = cid
      · subst hc
        rw [ChatWorld.entries_modifyChat_same w c' (fun ch => { ch with subject := s })] at hm
        split at hm
        · rename_i ch hch
          left; unfold ChatWorld.entries; rw [hch]; exact hm
        · cases hm
      · rw [ChatWorld.entries_modifyChat_other w c' cid _ (fun h => hc h.symm)] at hm
        exact Or.inl hm
  | send a r c' o msg =>
    simp only [ChatWorld.step] at hm
    split at hm
    · exact Or.inl hm
    · simp only [stepSend] at hm
      split at hm
      · exact Or.inl hm
      · split at hm <;> exact Or.inl hm

/-- What an event can do to the client table: a connected client keeps its id and connection (its other
    fields may be edited), or it is a new connection with the next serial. -/
theorem ChatWorld.clients_step (w : ChatWorld) (hw : w.Inv) (e : ChatEv) :
    w.reg.serial ≤ (w.step e).1.reg.serial ∧
    ∀ x ∈ (w.step e).1.reg.clients, (∃ y ∈ w.reg.clients, y.id = x.id ∧ y.conn = x.conn) ∨ x.conn = w.reg.serial := by
  have same : w.reg.serial ≤ w.reg.serial ∧
      ∀ x ∈ w.reg.clients, (∃ y ∈ w.reg.clients, y.id = x.id ∧ y.conn = x.conn) ∨ x.conn = w.reg.serial :=
    ⟨Nat.le_refl _, fun x hx => Or.inl ⟨x, hx, rfl, rfl⟩⟩
  cases e with
  | accessEdit l ac =>
    refine ⟨Nat.le_refl _, ?_⟩
    intro x hx
    obtain ⟨d, hd, rfl⟩ := List.mem_map.mp hx
    exact Or.inl ⟨d, hd, (editClient_keys l ac d).1.symm, (editClient_keys l ac d).2.symm⟩
  | login l an ac nm ic =>
    simp only [ChatWorld.step, stepLogin]
    split
    · exact same
    · rename_i r' c ha
      obtain ⟨_, _, _, _, hconn, _, _, hser, hmem⟩ := Registry.add_spec hw.reg ha
      refine ⟨by show w.reg.serial ≤ r'.serial; omega, ?_⟩
      intro x hx
      rcases (hmem x).mp hx with rfl | hx0
      · exact Or.inr hconn
      · exact Or.inl ⟨x, hx0, rfl, rfl⟩
  | disconnect a =>
    simp only [ChatWorld.step]
    split
    · exact same
    · exact ⟨Nat.le_refl _, fun x hx => Or.inl ⟨x, (List.mem_filter.mp hx).1, rfl, rfl⟩⟩
  | inviteNew a r t c' =>
    simp only [ChatWorld.step]
    split
    · exact same
    · simp only [stepInviteNew]
      split
      · exact same
      · split <;> exact same
  | invite a r t c' =>
    simp only [ChatWorld.step]
    split
    · exact same
    · simp only [stepInvite]; split <;> exact same
  | join a r c' =>
    simp only [ChatWorld.step]
    split <;> exact same
  | leave a r c' =>
    simp only [ChatWorld.step]
    split <;> exact same
  | decline a r c' =>
    simp only [ChatWorld.step]
    split <;> exact same
  | setSubject a r c' s =>
    simp only [ChatWorld.step]
    split <;> exact same
  | send a r c' o msg =>
    simp only [ChatWorld.step]
    split
    · exact same
    · simp only [stepSend]
      split
      · exact same
      · split <;> exact same

theorem ChatWorld.Outside.step {w : ChatWorld} (hw : w.Inv) {k i cid : Nat} (h : w.Outside k i cid) (e : ChatEv)
    (hj : e.joins i cid = false) : (w.step e).1.Outside k i cid := by
  obtain ⟨hser, hcl⟩ := w.clients_step hw e
  refine ⟨?_, ?_, by have := h.known; omega⟩
  · intro m hm
    rcases w.entries_step e cid hm with hold | ⟨a, c, hg, rfl, hja⟩
    · exact h.noEntry m hold
    · intro hk
      have hc := Registry.get_some hg
      have : c.id = i := h.holds c hc.1 hk
      rw [← hc.2, this, hj] at hja
      cases hja
  · intro x hx hxk
    rcases hcl x hx with ⟨y, hy, hyid, hyc⟩ | hnew
    · rw [← hyid]; exact h.holds y hy (by rw [hyc]; exact hxk)
    · have := h.known; omega

/-- Chat traffic of `cid` is never routed to a connection that has no entry in that chat's map. -/
theorem ChatWorld.Outside.not_reached {w : ChatWorld} {k i cid : Nat} (h : w.Outside k i cid) (e : ChatEv) (hwf : e.WF)
    (hcid : cid < 4294967296) (o : Out) (ho : o ∈ (w.step e).2) (ht : o.chatTraffic cid = true) :
    deliver w.reg o ≠ some k := by
  have hin := w.traffic_to_members e hwf cid hcid o ho ht
  obtain ⟨m, hm, hmo⟩ := List.mem_map.mp hin
  rw [w.deliver_member cid hm o hmo.symm]
  intro hk
  exact h.noEntry m (List.mem_filter.mp hm).1 (Option.some.inj hk)

end Mobius
