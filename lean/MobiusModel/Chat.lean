import MobiusModel.Registry
import MobiusModel.GoFmt
/-!
  Chat: public chat, private chats (`hotline/chat.go` `MemChatManager`) and the chat handlers of
  `internal/mobius/transaction_handlers.go` (HandleChatSend, HandleInviteNewChat,
  HandleInviteToChat, HandleRejectChatInvite, HandleJoinChat, HandleLeaveChat,
  HandleSetChatSubject), over the client table of `Registry`.

  A private chat is `chat id ↦ (subject, members)` with `members : map[ClientID]*ClientConn`; the
  member map is modelled as a list of `(client id, connection serial)` sorted by client id (what
  `Members()` returns after its sort), a key occurring at most once.  The code never removes a
  disconnected member from the map: the entry keeps pointing at the dead `*ClientConn` (its data
  is kept in `gone`).  Outputs are the transactions a handler returns, addressed by client id;
  `deliver` is `sendTransaction`'s lookup of that id in the client table.
-/
namespace Mobius

/-- A transaction produced by the server, addressed to client id `to`. -/
structure Out where
  to : Nat
  isReply : Bool
  ty : Nat
  err : Nat
  reqId : Nat          -- replies: the id copied from the request; other transactions get a random id (0 here)
  fields : List Field
deriving Repr, DecidableEq

def mkTran (ty to : Nat) (fs : List Field) : Out := ⟨to, false, ty, 0, 0, fs⟩
/-- `cc.NewReply(t, fields…)`. -/
def mkReply (c : Client) (req : Nat) (fs : List Field) : Out := ⟨c.id, true, 0, 0, req, fs⟩
/-- `cc.NewErrReply(t, msg)`. -/
def mkErr (c : Client) (req : Nat) (msg : String) : Out := ⟨c.id, true, 0, 1, req, [⟨100, msg.toUTF8.toList⟩]⟩

def str (s : String) : Bytes := s.toUTF8.toList

/-- `LimitChatMsg`. -/
def limitChatMsg : Nat := 8192

/-- The chat line HandleChatSend builds: `"\r%13.13s:  %s"` or, with options = 00 01, `"\r*** %s %s"`,
    cut to 8192 bytes. -/
def chatText (name : Bytes) (emote : Bool) (msg : Bytes) : Bytes :=
  let full := if emote then [0x0d] ++ str "*** " ++ name ++ [0x20] ++ msg
              else [0x0d] ++ pad13 name ++ str ":  " ++ msg
  full.take limitChatMsg

/-- What `io.ReadAll(&User{ID, Icon, Flags, Name})` emits (field 300). -/
def userRecord (c : Client) : Bytes :=
  be16 c.id ++ (if c.icon.length = 4 then c.icon.drop 2 else c.icon) ++ be16 c.flags ++ be16 c.name.length ++ c.name

structure PrivChat where
  id : Nat
  subject : Bytes
  members : List (Nat × Nat)     -- (client id, connection serial), sorted by client id
deriving Repr, DecidableEq

/-- `chat.ClientConn[cc.ID] = cc`. -/
def memInsert (e : Nat × Nat) (ms : List (Nat × Nat)) : List (Nat × Nat) :=
  ms.filter (fun m => m.1 < e.1) ++ e :: ms.filter (fun m => e.1 < m.1)

/-- `delete(chat.ClientConn, id)`. -/
def memDelete (i : Nat) (ms : List (Nat × Nat)) : List (Nat × Nat) := ms.filter (fun m => m.1 != i)

structure ChatWorld where
  reg : Registry
  gone : List Client          -- connection objects of users who disconnected
  chats : List PrivChat
deriving Repr, DecidableEq

def ChatWorld.init : ChatWorld := ⟨Registry.init, [], []⟩

def ChatWorld.chat (w : ChatWorld) (cid : Nat) : Option PrivChat := w.chats.find? (·.id == cid)

def ChatWorld.members (w : ChatWorld) (cid : Nat) : List (Nat × Nat) :=
  match w.chat cid with
  | some ch => ch.members
  | none => []

def ChatWorld.modifyChat (w : ChatWorld) (cid : Nat) (f : PrivChat → PrivChat) : ChatWorld :=
  { w with chats := w.chats.map fun ch => if ch.id = cid then f ch else ch }

/-- The `*ClientConn` a member entry points at: a live client or a dead connection object. -/
def ChatWorld.connData (w : ChatWorld) (k : Nat) : Option Client :=
  match w.reg.clients.find? (·.conn == k) with
  | some c => some c
  | none => w.gone.find? (·.conn == k)

inductive ChatEv where
  /-- connect + successful login: the connection object is registered (`ClientMgr.Add`). -/
  | login (login acctName access name icon : Bytes)
  /-- the connection ends: `Disconnect()` = `Delete(id)` + user-left notices. -/
  | disconnect (actor : Nat)
  | inviteNew (actor req target cid : Nat)         -- 112; `cid` = the random id `ChatMgr.New` drew
  | invite (actor req target cid : Nat)            -- 113
  | join (actor req cid : Nat)                     -- 115
  | leave (actor req cid : Nat)                    -- 116
  | decline (actor req cid : Nat)                  -- 114
  | setSubject (actor req cid : Nat) (subject : Bytes)   -- 120
  /-- 105; `cid = none`: field absent or 00 00 00 00 (public chat); `opts`: field 109 if present. -/
  | send (actor req : Nat) (cid : Option Nat) (opts : Option Bytes) (msg : Bytes)
deriving Repr, DecidableEq

def ChatEv.actor : ChatEv → Option Nat
  | .login .. => none
  | .disconnect a => some a
  | .inviteNew a .. => some a
  | .invite a .. => some a
  | .join a .. => some a
  | .leave a .. => some a
  | .decline a .. => some a
  | .setSubject a .. => some a
  | .send a .. => some a

def ChatEv.req : ChatEv → Nat
  | .login .. => 0
  | .disconnect _ => 0
  | .inviteNew _ r .. => r
  | .invite _ r .. => r
  | .join _ r .. => r
  | .leave _ r .. => r
  | .decline _ r .. => r
  | .setSubject _ r .. => r
  | .send _ r .. => r

/-- The fields "who I am" that invitations and join notices carry. -/
def whoFields (c : Client) : List Field := [⟨102, c.name⟩, ⟨103, be16 c.id⟩]
def whoFieldsFull (c : Client) : List Field :=
  [⟨102, c.name⟩, ⟨103, be16 c.id⟩, ⟨104, c.icon⟩, ⟨112, be16 c.flags⟩]

def newClient (login acctName access name icon : Bytes) : Client :=
  { id := 0, conn := 0, login := login, acctName := acctName, access := access, name := name, icon := icon,
    flags := if accessBit access 22 then 2 else 0, autoReply := [], announced := true }

def stepLogin (w : ChatWorld) (mk : Client) : ChatWorld × List Out :=
  match w.reg.add mk with
  | none => (w, [])
  | some (r', _) => ({ w with reg := r' }, [])

def stepDisconnect (w : ChatWorld) (c : Client) : ChatWorld × List Out :=
  let r' := w.reg.delete c.id
  ({ w with reg := r', gone := c :: w.gone }, r'.clients.map fun d => mkTran 302 d.id [⟨103, be16 c.id⟩])

def stepInviteNew (w : ChatWorld) (c : Client) (req target cid : Nat) : ChatWorld × List Out :=
  if !accessBit c.access 11 then (w, [mkErr c req "You are not allowed to request private chat."]) else
  let w' := { w with chats := ⟨cid, [], [(c.id, c.conn)]⟩ :: w.chats.filter (·.id != cid) }
  match w.reg.get target with
  | none => (w', [])       -- the Go handler dereferences a nil *ClientConn here (panic, recovered by the connection)
  | some t =>
    let first :=
      if flagBit t.flags 3 then
        mkTran 104 c.id [⟨101, t.name ++ str " does not accept private chats."⟩, ⟨102, t.name⟩, ⟨103, be16 t.id⟩, ⟨113, [0, 2]⟩]
      else mkTran 113 target ([⟨114, be32 cid⟩] ++ whoFields c)
    (w', [first, mkReply c req ([⟨114, be32 cid⟩] ++ whoFieldsFull c)])

def stepInvite (w : ChatWorld) (c : Client) (req target cid : Nat) : ChatWorld × List Out :=
  if !accessBit c.access 11 then (w, [mkErr c req "You are not allowed to request private chat."]) else
  (w, [mkTran 113 target ([⟨114, be32 cid⟩] ++ whoFields c), mkReply c req ([⟨114, be32 cid⟩] ++ whoFieldsFull c)])

def stepDecline (w : ChatWorld) (c : Client) (cid : Nat) : ChatWorld × List Out :=
  (w, (w.members cid).map fun m =>
    mkTran 106 m.1 [⟨114, be32 cid⟩, ⟨101, c.name ++ str " declined invitation to chat"⟩])

def stepJoin (w : ChatWorld) (c : Client) (req cid : Nat) : ChatWorld × List Out :=
  let notices := (w.members cid).map fun m => mkTran 117 m.1 ([⟨114, be32 cid⟩] ++ whoFieldsFull c)
  let w' := w.modifyChat cid fun ch => { ch with members := memInsert (c.id, c.conn) ch.members }
  let subject := match w'.chat cid with | some ch => ch.subject | none => []
  let users := (w'.members cid).filterMap fun m => (w'.connData m.2).map fun d => (⟨300, userRecord d⟩ : Field)
  (w', notices ++ [mkReply c req ([⟨115, subject⟩] ++ users)])

def stepLeave (w : ChatWorld) (c : Client) (cid : Nat) : ChatWorld × List Out :=
  let w' := w.modifyChat cid fun ch => { ch with members := memDelete c.id ch.members }
  (w', (w'.members cid).map fun m => mkTran 118 m.1 [⟨114, be32 cid⟩, ⟨103, be16 c.id⟩])

def stepSetSubject (w : ChatWorld) (cid : Nat) (subject : Bytes) : ChatWorld × List Out :=
  let w' := w.modifyChat cid fun ch => { ch with subject := subject }
  (w', (w'.members cid).map fun m => mkTran 119 m.1 [⟨114, be32 cid⟩, ⟨115, subject⟩])

def isEmote (opts : Option Bytes) : Bool := opts == some [0, 1]

def stepSend (w : ChatWorld) (c : Client) (req : Nat) (cid : Option Nat) (opts : Option Bytes) (msg : Bytes) :
    ChatWorld × List Out :=
  if !accessBit c.access 10 then (w, [mkErr c req "You are not allowed to participate in chat."]) else
  let text := chatText c.name (isEmote opts) msg
  match cid with
  | some id => (w, (w.members id).map fun m => mkTran 106 m.1 [⟨114, be32 id⟩, ⟨101, text⟩])
  | none => (w, (w.reg.clients.filter fun d => accessBit d.access 9).map fun d => mkTran 106 d.id [⟨101, text⟩])

/-- One event.  A request from an id nobody holds has no effect (there is no connection to send it). -/
def ChatWorld.step (w : ChatWorld) (e : ChatEv) : ChatWorld × List Out :=
  match e with
  | .login l an ac nm ic => stepLogin w (newClient l an ac nm ic)
  | .disconnect a => match w.reg.get a with | none => (w, []) | some c => stepDisconnect w c
  | .inviteNew a r t cid => match w.reg.get a with | none => (w, []) | some c => stepInviteNew w c r t cid
  | .invite a r t cid => match w.reg.get a with | none => (w, []) | some c => stepInvite w c r t cid
  | .join a r cid => match w.reg.get a with | none => (w, []) | some c => stepJoin w c r cid
  | .leave a _ cid => match w.reg.get a with | none => (w, []) | some c => stepLeave w c cid
  | .decline a _ cid => match w.reg.get a with | none => (w, []) | some c => stepDecline w c cid
  | .setSubject a _ cid s => match w.reg.get a with | none => (w, []) | some _ => stepSetSubject w cid s
  | .send a r cid o m => match w.reg.get a with | none => (w, []) | some c => stepSend w c r cid o m

/-- Run a history; outputs are kept per event. -/
def ChatWorld.run (w : ChatWorld) : List ChatEv → ChatWorld × List (List Out)
  | [] => (w, [])
  | e :: es =>
    let (w1, o) := w.step e
    let (w2, os) := w1.run es
    (w2, o :: os)

def ChatWorld.after (w : ChatWorld) (es : List ChatEv) : ChatWorld := es.foldl (fun w e => (w.step e).1) w

/-- `sendTransaction`: the connection (if any) that holds the addressed id. -/
def deliver (r : Registry) (o : Out) : Option Nat := (r.get o.to).map (·.conn)

/-- The chat a transaction speaks for: chat lines, join / leave / subject notices carry field 114. -/
def Out.chatTraffic (o : Out) (cid : Nat) : Bool :=
  !o.isReply && (o.ty == 106 || o.ty == 117 || o.ty == 118 || o.ty == 119) &&
    (o.fields.any fun f => f.ty == 114 && f.data == be32 cid)

-- ------------------------------------------------------------------ member maps

def MemSorted (ms : List (Nat × Nat)) : Prop := ms.Pairwise (fun a b => a.1 < b.1)

theorem MemSorted.nodup_keys {ms : List (Nat × Nat)} (h : MemSorted ms) : (ms.map (·.1)).Nodup := by
  unfold MemSorted at h
  rw [List.Nodup, List.pairwise_map]
  exact h.imp (fun hab => Nat.ne_of_lt hab)

theorem mem_memInsert {e x : Nat × Nat} {ms : List (Nat × Nat)} :
    x ∈ memInsert e ms ↔ x = e ∨ (x ∈ ms ∧ x.1 ≠ e.1) := by
  simp only [memInsert, List.mem_append, List.mem_cons, List.mem_filter, decide_eq_true_eq]
  constructor
  · rintro (⟨h, hlt⟩ | rfl | ⟨h, hlt⟩)
    · exact Or.inr ⟨h, by omega⟩
    · exact Or.inl rfl
    · exact Or.inr ⟨h, by omega⟩
  · rintro (rfl | ⟨h, hne⟩)
    · exact Or.inr (Or.inl rfl)
    · by_cases hlt : x.1 < e.1
      · exact Or.inl ⟨h, hlt⟩
      · exact Or.inr (Or.inr ⟨h, by omega⟩)

theorem MemSorted.insert {e : Nat × Nat} {ms : List (Nat × Nat)} (h : MemSorted ms) : MemSorted (memInsert e ms) := by
  unfold MemSorted memInsert at *
  rw [List.pairwise_append]
  refine ⟨h.filter _, ?_, ?_⟩
  · rw [List.pairwise_cons]
    refine ⟨?_, h.filter _⟩
    intro b hb
    simpa using (List.mem_filter.mp hb).2
  · intro a ha b hb
    have ha' : a.1 < e.1 := by simpa using (List.mem_filter.mp ha).2
    rcases List.mem_cons.mp hb with rfl | hb
    · exact ha'
    · have : e.1 < b.1 := by simpa using (List.mem_filter.mp hb).2
      omega

theorem MemSorted.delete {i : Nat} {ms : List (Nat × Nat)} (h : MemSorted ms) : MemSorted (memDelete i ms) :=
  List.Pairwise.filter _ h

theorem mem_memDelete {i : Nat} {x : Nat × Nat} {ms : List (Nat × Nat)} :
    x ∈ memDelete i ms ↔ x ∈ ms ∧ x.1 ≠ i := by
  simp [memDelete]

end Mobius

namespace Mobius

-- ------------------------------------------------------------------ invariant over all histories

/-- Invariant of every reachable chat world: the client table is well formed and every member map
    is keyed by client id (sorted, a key at most once). -/
structure ChatWorld.Inv (w : ChatWorld) : Prop where
  reg : w.reg.Inv
  mem : ∀ ch ∈ w.chats, MemSorted ch.members

theorem ChatWorld.Inv.init : ChatWorld.init.Inv := ⟨Registry.Inv.init, by intro ch h; cases h⟩

theorem ChatWorld.Inv.modifyChat {w : ChatWorld} (h : w.Inv) (cid : Nat) (f : PrivChat → PrivChat)
    (hf : ∀ ch, MemSorted ch.members → MemSorted (f ch).members) : (w.modifyChat cid f).Inv := by
  refine ⟨h.reg, ?_⟩
  intro ch hch
  obtain ⟨ch0, h0, rfl⟩ := List.mem_map.mp hch
  split
  · exact hf ch0 (h.mem ch0 h0)
  · exact h.mem ch0 h0

theorem ChatWorld.step_inv {w : ChatWorld} (h : w.Inv) (e : ChatEv) : (w.step e).1.Inv := by
  cases e with
  | login l an ac nm ic =>
    simp only [ChatWorld.step, stepLogin]
    split
    · exact h
    · rename_i r' c ha
      exact ⟨(Registry.add_spec h.reg ha).1, h.mem⟩
  | disconnect a =>
    simp only [ChatWorld.step]
    split
    · exact h
    · exact ⟨h.reg.delete _, h.mem⟩
  | inviteNew a r t cid =>
    simp only [ChatWorld.step]
    split
    · exact h
    · rename_i c _
      simp only [stepInviteNew]
      have hnew : ChatWorld.Inv { w with chats := ⟨cid, [], [(c.id, c.conn)]⟩ :: w.chats.filter (·.id != cid) } := by
        refine ⟨h.reg, ?_⟩
        intro ch hch
        rcases List.mem_cons.mp hch with rfl | hch
        · exact List.pairwise_singleton _ _
        · exact h.mem ch (List.mem_filter.mp hch).1
      split
      · exact h
      · split <;> exact hnew
  | invite a r t cid =>
    simp only [ChatWorld.step]
    split
    · exact h
    · simp only [stepInvite]; split <;> exact h
  | join a r cid =>
    simp only [ChatWorld.step]
    split
    · exact h
    · exact h.modifyChat cid _ (fun ch hs => hs.insert)
  | leave a r cid =>
    simp only [ChatWorld.step]
    split
    · exact h
    · exact h.modifyChat cid _ (fun ch hs => hs.delete)
  | decline a r cid =>
    simp only [ChatWorld.step]
    split <;> exact h
  | setSubject a r cid s =>
    simp only [ChatWorld.step]
    split
    · exact h
    · exact h.modifyChat cid _ (fun ch hs => hs)
  | send a r cid o m =>
    simp only [ChatWorld.step]
    split
    · exact h
    · simp only [stepSend]
      split
      · exact h
      · split <;> exact h

theorem ChatWorld.after_inv {w : ChatWorld} (h : w.Inv) (es : List ChatEv) : (w.after es).Inv := by
  induction es generalizing w with
  | nil => exact h
  | cons e es ih => exact ih (ChatWorld.step_inv h e)

theorem ChatWorld.Inv.members_sorted {w : ChatWorld} (h : w.Inv) (cid : Nat) : MemSorted (w.members cid) := by
  unfold ChatWorld.members ChatWorld.chat
  split
  · rename_i ch hf
    exact h.mem ch (List.mem_of_find?_eq_some hf)
  · exact List.Pairwise.nil

end Mobius

namespace Mobius

-- ------------------------------------------------------------------ generic list lemmas

theorem filterMap_eq_filter_map {α β : Type} (l : List α) (f : α → Option β) (p : α → Bool) (g : α → β)
    (h : ∀ x ∈ l, f x = if p x then some (g x) else none) : l.filterMap f = (l.filter p).map g := by
  induction l with
  | nil => rfl
  | cons a l ih =>
    have ha := h a (by simp)
    have ih' := ih (fun x hx => h x (by simp [hx]))
    by_cases hp : p a
    · rw [hp] at ha; simp only [if_true] at ha
      rw [List.filterMap_cons, ha, List.filter_cons_of_pos hp, List.map_cons, ih']
    · have hp' : p a = false := by simpa using hp
      rw [hp'] at ha; simp only [Bool.false_eq_true, if_false] at ha
      rw [List.filterMap_cons, ha, List.filter_cons_of_neg (by simp [hp']), ih']

theorem eq_of_nodup_map {α β : Type} {l : List α} {f : α → β} (h : (l.map f).Nodup) {a b : α}
    (ha : a ∈ l) (hb : b ∈ l) (hab : f a = f b) : a = b := by
  induction l with
  | nil => cases ha
  | cons x l ih =>
    rw [List.map_cons, List.nodup_cons] at h
    rcases List.mem_cons.mp ha with rfl | ha' <;> rcases List.mem_cons.mp hb with rfl | hb'
    · rfl
    · exact absurd (List.mem_map.mpr ⟨b, hb', hab.symm⟩) h.1
    · exact absurd (List.mem_map.mpr ⟨a, ha', hab⟩) h.1
    · exact ih h.2 ha' hb'

theorem be32_inj {a b : Nat} (ha : a < 4294967296) (hb : b < 4294967296) (h : be32 a = be32 b) : a = b := by
  have h1 := rd32_be32 a
  have h2 := rd32_be32 b
  rw [h] at h1
  omega

-- ------------------------------------------------------------------ delivery to members

/-- A member entry is *connected* when the client table holds its id for that very connection. -/
def ChatWorld.isConnected (w : ChatWorld) (m : Nat × Nat) : Bool := (w.reg.get m.1).map (·.conn) == some m.2

def ChatWorld.connectedMembers (w : ChatWorld) (cid : Nat) : List (Nat × Nat) :=
  (w.members cid).filter w.isConnected

/-- No user id is held by a newcomer while a chat still lists the connection that held it before. -/
def ChatWorld.NoStaleReuse (w : ChatWorld) : Prop :=
  ∀ ch ∈ w.chats, ∀ m ∈ ch.members, ∀ c ∈ w.reg.clients, c.id = m.1 → c.conn = m.2

theorem ChatWorld.mem_members {w : ChatWorld} {cid : Nat} {m : Nat × Nat} (h : m ∈ w.members cid) :
    ∃ ch ∈ w.chats, m ∈ ch.members := by
  unfold ChatWorld.members ChatWorld.chat at h
  split at h
  · rename_i ch hf
    exact ⟨ch, List.mem_of_find?_eq_some hf, h⟩
  · cases h

/-- Routing the transactions a handler addressed to the member ids of a chat through the client
    table reaches exactly the connected members' connections, in member order. -/
theorem ChatWorld.members_delivery (w : ChatWorld) (hns : w.NoStaleReuse) (cid : Nat)
    (f : Nat × Nat → Out) (hf : ∀ m, (f m).to = m.1) :
    ((w.members cid).map f).filterMap (deliver w.reg) = (w.connectedMembers cid).map (·.2) := by
  rw [List.filterMap_map]
  unfold ChatWorld.connectedMembers
  apply filterMap_eq_filter_map
  intro m hm
  obtain ⟨ch, hch, hmc⟩ := ChatWorld.mem_members hm
  simp only [Function.comp, deliver, hf, ChatWorld.isConnected]
  cases hg : w.reg.get m.1 with
  | none => simp
  | some c =>
    have hc := Registry.get_some hg
    have := hns ch hch m hmc c hc.1 hc.2
    simp [this]

/-- Each connected member is a distinct connection. -/
theorem ChatWorld.connectedMembers_nodup (w : ChatWorld) (hw : w.Inv) (cid : Nat) :
    ((w.connectedMembers cid).map (·.2)).Nodup := by
  rw [List.Nodup, List.pairwise_map]
  have hs : (w.connectedMembers cid).Pairwise (fun a b => a.1 < b.1) :=
    List.Pairwise.filter _ (hw.members_sorted cid)
  refine hs.imp_of_mem ?_
  intro a b ha hb hlt heq
  have hca : w.isConnected a = true := (List.mem_filter.mp ha).2
  have hcb : w.isConnected b = true := (List.mem_filter.mp hb).2
  unfold ChatWorld.isConnected at hca hcb
  cases hga : w.reg.get a.1 with
  | none => simp [hga] at hca
  | some ca =>
    cases hgb : w.reg.get b.1 with
    | none => simp [hgb] at hcb
    | some cb =>
      simp [hga] at hca
      simp [hgb] at hcb
      have ha' := Registry.get_some hga
      have hb' := Registry.get_some hgb
      have : ca = cb := eq_of_nodup_map hw.reg.connsNodup ha'.1 hb'.1 (by rw [hca, hcb, heq])
      have : a.1 = b.1 := by rw [← ha'.2, ← hb'.2, this]
      omega

theorem ChatWorld.members_modifyChat_other (w : ChatWorld) (cid cid' : Nat) (f : PrivChat → PrivChat)
    (hf : ∀ ch, (f ch).id = ch.id) (hne : cid' ≠ cid) : (w.modifyChat cid f).members cid' = w.members cid' := by
  unfold ChatWorld.members ChatWorld.chat ChatWorld.modifyChat
  simp only
  induction w.chats with
  | nil => rfl
  | cons ch chs ih =>
    simp only [List.map_cons, List.find?_cons]
    by_cases h1 : ch.id = cid
    · have : (f ch).id ≠ cid' := by rw [hf, h1]; exact fun h => hne h.symm
      have h2 : ch.id ≠ cid' := by rw [h1]; exact fun h => hne h.symm
      simp [h1, this, h2] at ih ⊢
      exact ih
    · by_cases h2 : ch.id = cid'
      · simp [h1, h2]
      · simp [h1, h2] at ih ⊢
        exact ih

theorem ChatWorld.members_modifyChat_same (w : ChatWorld) (cid : Nat) (f : PrivChat → PrivChat)
    (hf : ∀ ch, (f ch).id = ch.id) (g : List (Nat × Nat) → List (Nat × Nat)) (hg : ∀ ch, (f ch).members = g ch.members)
    (hnil : g [] = [] ∨ (w.chat cid).isSome) :
    (w.modifyChat cid f).members cid = if (w.chat cid).isSome then g (w.members cid) else [] := by
  unfold ChatWorld.members ChatWorld.chat ChatWorld.modifyChat
  simp only
  clear hnil
  induction w.chats with
  | nil => simp
  | cons ch chs ih =>
    simp only [List.map_cons, List.find?_cons]
    by_cases h1 : ch.id = cid
    · simp [h1, hf, hg]
    · simp [h1] at ih ⊢
      exact ih

end Mobius
