import MobiusModel.Session
/-!
  SessionTransfer: parsers that consume a connection through *exact-size reads* only
  (`io.ReadFull`, `binary.Read`, `io.CopyN` — each takes exactly `n` bytes off the stream, however
  many `Read` calls that needs), as everything after the 16-byte preamble of a transfer connection
  does: `flattenedFileObject.ReadFrom` / `receiveFile` (upload payload) and the item loop of
  `UploadFolderHandler` (item header, 4-byte transfer size, flattened file per item).

  `Prog α` is such a parser as a decision tree: read `n` bytes, continue depending on them.  `run`
  executes it over a chunked stream with `readFull`; `runFlat` over the concatenated stream.  The
  theorem `Prog.run_eq_runFlat` says that *every* such parser is segmentation independent; the
  folder-upload parser is one instance.  What the server decides from its file system (send /
  resume / skip per file item) is an input (`actions`).
-/
set_option linter.unusedVariables false
namespace Mobius

inductive Prog (α : Type) where
  | done : α → Prog α
  | read : Nat → (Bytes → Prog α) → Prog α

namespace Prog

/-- Operational: over the chunks the connection's `Read` calls return. -/
def run {α : Type} : Prog α → List Bytes → α × List Bytes
  | .done a, cs => (a, cs)
  | .read n k, cs => run (k (readFull cs n).1) (readFull cs n).2

/-- Specification: over the concatenated stream. -/
def runFlat {α : Type} : Prog α → Bytes → α × Bytes
  | .done a, s => (a, s)
  | .read n k, s => runFlat (k (s.take n)) (s.drop n)

/-- Every parser made of exact-size reads yields the same value and leaves the same bytes
    whatever the chunking. -/
theorem run_eq_runFlat {α : Type} (p : Prog α) (chunks : List Bytes) :
    (run p chunks).1 = (runFlat p chunks.flatten).1 ∧ (run p chunks).2.flatten = (runFlat p chunks.flatten).2 := by
  induction p generalizing chunks with
  | done a => exact ⟨rfl, rfl⟩
  | read n k ih =>
    obtain ⟨h1, h2⟩ := readFull_spec chunks n
    have := ih (readFull chunks n).1 (readFull chunks n).2
    simp only [run, runFlat]
    rw [h1] at this ⊢
    rw [h2] at this
    exact this

/-- Read exactly `n` bytes or fail (EOF / unexpected EOF from `io.ReadFull`). -/
def exactly {α : Type} (n : Nat) (k : Bytes → Prog (Res α)) : Prog (Res α) :=
  .read n (fun b => if b.length = n then k b else .done .err)

end Prog

namespace FolderUpload

/-- One received flattened file: data fork and resource fork bytes. -/
structure FileBody where
  data : Bytes
  rsrc : Bytes
deriving Repr, DecidableEq

/-- `receiveFile`: FILP header (24; fork count at 22), INFO fork header (16; size at 12), the
    information fork, DATA fork header (16; size at 12), the data, and — fork count 3 — a resource
    fork header and the resource fork. -/
def fileProg {α : Type} (k : FileBody → Prog (Res α)) : Prog (Res α) :=
  Prog.exactly 24 fun filp =>
  Prog.exactly 16 fun infoHdr =>
  Prog.exactly (rd32 (infoHdr.drop 12)) fun _info =>
  Prog.exactly 16 fun dataHdr =>
  Prog.exactly (rd32 (dataHdr.drop 12)) fun data =>
  if rd16 (filp.drop 22) = 3 then
    Prog.exactly 16 fun rsrcHdr =>
    Prog.exactly (rd32 (rsrcHdr.drop 12)) fun rsrc => k ⟨data, rsrc⟩
  else k ⟨data, []⟩

inductive Item where
  | folder (path : Bytes)
  | skipped (path : Bytes)                       -- file already complete: "next file"
  | sent (path : Bytes) (body : FileBody)        -- "send file"
  | resumed (path : Bytes) (body : FileBody)     -- "resume file": the body is appended to the partial file
deriving Repr, DecidableEq

/-- The item loop of `UploadFolderHandler` for `n` items; `actions` = what the server answers
    for the successive *file* items (1 send, 2 resume, 3 next), decided from its file system. -/
def itemsProg : Nat → List Nat → List Item → Prog (Res (List Item))
  | 0, _, acc => .done (.ok acc.reverse)
  | n + 1, actions, acc =>
    Prog.exactly 2 fun size =>
    Prog.exactly 2 fun isFolder =>
    Prog.exactly 2 fun count =>
    -- `make([]byte, DataSize-4)` with uint16 arithmetic
    Prog.exactly ((rd16 size + 65536 - 4) % 65536) fun path =>
    let p := count ++ path
    if rd16 isFolder = 1 then itemsProg n actions (.folder p :: acc)
    else
      match actions with
      | [] => .done .err
      | a :: rest =>
        if a = 3 then itemsProg n rest (.skipped p :: acc)
        else
          Prog.exactly 4 fun _transferSize =>
          fileProg fun body =>
            itemsProg n rest ((if a = 2 then Item.resumed p body else Item.sent p body) :: acc)

/-- The folder upload after the preamble, over a chunked stream. -/
def run (n : Nat) (actions : List Nat) (chunks : List Bytes) : Res (List Item) × List Bytes :=
  Prog.run (itemsProg n actions []) chunks

theorem run_segmentation_independent (n : Nat) (actions : List Nat) (c1 c2 : List Bytes)
    (h : c1.flatten = c2.flatten) :
    (run n actions c1).1 = (run n actions c2).1 ∧ (run n actions c1).2.flatten = (run n actions c2).2.flatten := by
  obtain ⟨a1, a2⟩ := Prog.run_eq_runFlat (itemsProg n actions []) c1
  obtain ⟨b1, b2⟩ := Prog.run_eq_runFlat (itemsProg n actions []) c2
  unfold run
  rw [a1, a2, b1, b2, h]
  exact ⟨rfl, rfl⟩

end FolderUpload
end Mobius
