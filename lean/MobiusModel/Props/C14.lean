import MobiusModel.Merge
import MobiusModel.Presence
import MobiusModel.Props.C01
import MobiusModel.Props.C12
import MobiusModel.Generated.Concurrency
import MobiusModel.Generated.Handlers
import MobiusModel.Generated.Outbox
import MobiusModel.Generated.Kick
import MobiusModel.KickTimer
/-!
  C14 — Each client receives whole, well-formed, correlated transactions.

  Property theorems only.  The outbox (`processOutbox`) starts one goroutine per transaction; each
  goroutine performs the `Write` calls of `sendTransaction` on the addressee's connection; one
  `Write` is atomic (trusted base: Go's fd write lock); the byte stream a client sees is therefore
  any `Merge` of the per-transaction `Write` sequences.  After fix e98cbb5 every sequence is a single
  `Write` (`singleWrite`; the extractor re-derives this shape from `sendTransaction`'s source on
  every run: `generated_send_shape`).  The chunked writer that `io.Copy` would be is kept as
  `copyWrite` together with the witness that it breaks framing.
-/
namespace Mobius.C14

/-- (a) If every transaction is put on the wire as ONE chunk, every interleaving of the writers is a
    concatenation of whole transactions: the stream parses to a permutation of what was sent. -/
theorem whole_transactions (ts : List Transaction) (hwf : ∀ t ∈ ts, t.WFdec) (out : List Bytes)
    (hm : Merge (ts.map singleWrite) out) :
    ∃ p : List Transaction, p.Perm ts ∧ parseStream out.flatten = .ok p := by
  have hp := hm.perm
  have hflat : ∀ l : List Transaction, (l.map singleWrite).flatten = l.map Transaction.encode := by
    intro l
    induction l with
    | nil => rfl
    | cons t l ih =>
      simp only [List.map_cons, List.flatten_cons, singleWrite, List.singleton_append]
      rw [← ih]
  rw [hflat] at hp
  obtain ⟨p, hp1, hp2⟩ := perm_map_inv Transaction.encode ts out hp
  refine ⟨p, hp1, ?_⟩
  rw [hp2]
  exact C01.stream_selfdelimiting p (fun t ht => hwf t (hp1.mem_iff.mp ht))

/-- The same for any writer that emits each transaction as a single chunk (DESIGN §11 shape). -/
theorem whole_transactions_of_writer (wr : Transaction → List Bytes) (ts : List Transaction)
    (hone : ∀ t ∈ ts, wr t = [t.encode]) (hwf : ∀ t ∈ ts, t.WFdec) (out : List Bytes)
    (hm : Merge (ts.map wr) out) :
    ∃ p : List Transaction, p.Perm ts ∧ parseStream out.flatten = .ok p := by
  have : ts.map wr = ts.map singleWrite := List.map_congr_left (fun t ht => by rw [hone t ht]; rfl)
  rw [this] at hm
  exact whole_transactions ts hwf out hm

/-- Nothing is lost, duplicated or invented: the received transactions are exactly those sent
    (same multiset), whatever the schedule. -/
theorem received_count (ts : List Transaction) (hwf : ∀ t ∈ ts, t.WFdec) (out : List Bytes)
    (hm : Merge (ts.map singleWrite) out) (t : Transaction) :
    ∃ p : List Transaction, parseStream out.flatten = .ok p ∧ p.count t = ts.count t := by
  obtain ⟨p, hp, hs⟩ := whole_transactions ts hwf out hm
  exact ⟨p, hs, hp.count t⟩

/-- The sequential schedule is among the merges (the statement is not vacuous for any `ts`). -/
theorem sequential_is_a_merge (ts : List Transaction) : Merge (ts.map singleWrite) (ts.map singleWrite).flatten :=
  Merge.sequential _

/-- A chunked writer sends the same bytes, so alone on the connection it is harmless … -/
theorem chunked_alone_is_whole (n : Nat) (t : Transaction) (h : t.WFdec) :
    parseStream (copyWrite n t).flatten = .ok [t] := by
  rw [copyWrite_flatten]
  simpa using C01.stream_selfdelimiting [t] (by intro u hu; simp at hu; rw [hu]; exact h)

private def witnessA : Transaction := ⟨0, 1, 0, 7, 0, [⟨101, [1, 2, 3, 4, 5, 6, 7, 8, 9, 10, 11, 12, 13, 14]⟩]⟩
private def witnessB : Transaction := ⟨0, 0, 106, 9, 0, [⟨101, [0x68, 0x69]⟩]⟩

/-- … but as soon as a transaction goes out in two chunks another writer's transaction can land
    between them, and the stream `[A₁, B, A₂]` no longer parses to {A, B} (the pre-fix behaviour of
    `sendTransaction`, `io.Copy` with 32 KiB chunks; here with a 32-byte buffer). -/
theorem two_chunk_interleaving_breaks_framing :
    ∃ (A B : Transaction) (out : List Bytes), A.WFdec ∧ B.WFdec ∧
      Merge [copyWrite 32 A, singleWrite B] out ∧
      ∀ p : List Transaction, p.Perm [A, B] → parseStream out.flatten ≠ .ok p := by
  refine ⟨witnessA, witnessB, [witnessA.encode.take 32, witnessB.encode, witnessA.encode.drop 32],
    by simp [Transaction.WFdec, Field.Scannable, Field.WF, witnessA, Transaction.payloadSize],
    by simp [Transaction.WFdec, Field.Scannable, Field.WF, witnessB, Transaction.payloadSize], ?_, ?_⟩
  · have e : copyWrite 32 witnessA = [witnessA.encode.take 32, witnessA.encode.drop 32] := by decide +kernel
    rw [e]
    refine Merge.step [] _ [witnessA.encode.drop 32] [singleWrite witnessB] _ ?_
    refine Merge.step [[witnessA.encode.drop 32]] witnessB.encode [] [] _ ?_
    refine Merge.step [] _ [] [[]] _ ?_
    exact Merge.done _ (by intro p hp; simp at hp; rcases hp with rfl | rfl <;> rfl)
  · intro p _ h
    have e : parseStream [witnessA.encode.take 32, witnessB.encode, witnessA.encode.drop 32].flatten = .err := by
      decide +kernel
    rw [e] at h
    cases h

/-- (c) `NewField`: the size prefix equals the number of data bytes, for every data of at most 65 535 bytes. -/
theorem field_prefix_law (f : Field) (h : f.WF) :
    rd16 (f.encode.drop 2) = (f.encode.drop 4).length ∧ f.encode.drop 4 = f.data :=
  C01.field_prefix f h

/-- (c') … and every size / count prefix of an emitted transaction equals what follows. -/
theorem transaction_prefix_law (t : Transaction) (h : t.WFdec) :
    t.encode.length = 20 + rd32 (t.encode.drop 12) ∧ rd32 (t.encode.drop 12) = rd32 (t.encode.drop 16) ∧
    rd16 (t.encode.drop 20) = t.fields.length ∧ parseFields t.fields.length (t.encode.drop 22) = .ok t.fields := by
  have := C01.transaction_prefixes t h
  exact ⟨this.1, this.2.1, this.2.2.2.1, this.2.2.2.2⟩

-- ------------------------------------------------------------------ (b) reply correlation

/-- Chat handlers: at most one reply-flagged transaction per request, addressed to the requester,
    carrying the request's id. -/
theorem chat_replies (w : ChatWorld) (e : ChatEv) :
    match e.actor with
    | some a => ReplyOK a e.req (w.step e).2
    | none => (w.step e).2 = [] :=
  C12.step_replies w e

/-- Presence / messaging handlers: the same. -/
theorem presence_replies (w : PresWorld) (a r : Nat) (c : Client) (hg : w.reg.get a = some c) :
    (∀ nm ic o au, ReplyOK a r ((w.step (.agreed a r nm ic o au)).2.map (·.1))) ∧
    (∀ nm ic o au, ReplyOK a r ((w.step (.setInfo a r nm ic o au)).2.map (·.1))) ∧
    (∀ l f ac, ReplyOK a r ((w.step (.setUser a r l f ac)).2.map (·.1))) ∧
    ReplyOK a r ((w.step (.fetch a r)).2.map (·.1)) ∧
    (∀ t m q, ReplyOK a r ((w.step (.sendIM a r t m q)).2.map (·.1))) ∧
    ReplyOK a r ((w.step (.disconnect a)).2.map (·.1)) := by
  have hid := (Registry.get_some hg).2
  refine ⟨?_, ?_, ?_, ?_, ?_, ?_⟩
  · intro nm ic o au
    simp only [PresWorld.step, hg, presAgreed, List.map_append, List.map_map, List.map_cons, List.map_nil]
    exact ReplyOK.append_reply (by intro x hx; obtain ⟨d, _, rfl⟩ := List.mem_map.mp hx; rfl) hid rfl
  · intro nm ic o au
    simp only [PresWorld.step, hg, presSetInfo, List.map_map]
    exact ReplyOK.nonreplies (by intro x hx; obtain ⟨d, _, rfl⟩ := List.mem_map.mp hx; rfl)
  · intro l f ac
    simp only [PresWorld.step, hg, presSetUser]
    split
    · exact ReplyOK.append_reply (l := []) (by intro o h; cases h) hid rfl
    · split
      · exact ReplyOK.append_reply (l := []) (by intro o h; cases h) hid rfl
      · simp only [List.map_append, List.map_map, List.map_cons, List.map_nil]
        refine ReplyOK.append_reply ?_ hid rfl
        intro x hx
        rcases List.mem_append.mp hx with hx | hx
        · -- the notices accumulated by the loop are all user-change notifications
          have key : ∀ (ids : List Nat) (st : PresWorld × List POut), (∀ p ∈ st.2, p.1.isReply = false) →
              ∀ p ∈ (ids.foldl (presTouch ac) st).2, p.1.isReply = false := by
            intro ids
            induction ids with
            | nil => intro st h; exact h
            | cons i ids ih =>
              intro st h
              apply ih
              unfold presTouch
              split
              · exact h
              · intro p hp
                rcases List.mem_append.mp hp with hp | hp
                · exact h p hp
                · obtain ⟨d, _, rfl⟩ := List.mem_map.mp hp; rfl
          obtain ⟨p, hp, rfl⟩ := List.mem_map.mp hx
          exact key _ _ (by intro p h; cases h) p hp
        · obtain ⟨i, _, rfl⟩ := List.mem_map.mp hx; rfl
  · simp only [PresWorld.step, hg, presFetch, List.map_cons, List.map_nil]
    exact ReplyOK.append_reply (l := []) (by intro o h; cases h) hid rfl
  · intro t m q
    simp only [PresWorld.step, hg, presSendIM]
    split
    · exact ReplyOK.append_reply (l := []) (by intro o h; cases h) hid rfl
    · split
      · exact ReplyOK.nil
      · rw [List.map_map]
        have hidf : ((fun x : POut => x.1) ∘ fun o : Out => (o, Note.other)) = id := rfl
        rw [hidf, List.map_id]
        refine ReplyOK.append_reply ?_ hid rfl
        intro x hx
        rcases List.mem_append.mp hx with hx | hx
        · simp only [List.mem_singleton] at hx; subst hx; split <;> rfl
        · split at hx
          · simp only [List.mem_singleton] at hx; subst hx; rfl
          · cases hx
  · simp only [PresWorld.step, hg, presDisconnect, List.map_map]
    exact ReplyOK.nonreplies (by intro x hx; obtain ⟨d, _, rfl⟩ := List.mem_map.mp hx; rfl)

/-! Obligations over the facts regenerated from /repo's source on every run. -/

/-- `sendTransaction` serialises the transaction and issues one `Write` (not `io.Copy`). -/
theorem generated_send_shape : Generated.sendShape = "single-Write" := by decide

/-- `processOutbox` receives a transaction and hands it to ONE new goroutine. -/
theorem generated_outbox_shape : Generated.outboxShape = "receive-then-go" := by decide

/-- exactly one `go` statement in `processOutbox` (two would deliver every transaction twice). -/
theorem generated_outbox_single_goroutine :
    (Generated.goStmts.filter fun g => g.1 == "hotline.Server.processOutbox").length = 1 := by decide

/-- `NewReply` / `NewErrReply` set the reply flag, copy the request's id and address the requester. -/
theorem generated_reply_ctors :
    Generated.replyCtors = [("NewReply", "IsReply=true ID=true ClientID=true"), ("NewErrReply", "IsReply=true ID=true ClientID=true")] := by
  decide

/-- `sendTransaction` makes exactly these calls: look the addressee up, serialise, ONE `Write` — no write
    deadline (a `Write` that can be abandoned half-way is a multi-chunk writer), no second write. -/
theorem generated_send_calls : Generated.sendCalls = ["ClientMgr.Get", "io.ReadAll", "Connection.Write"] := by decide

/-- Once a connection is registered with the client manager `handleNewConnection` writes nothing to it
    directly: the whole login sequence (reply, access, agreement) goes through the outbox, one `Write` each. -/
theorem generated_login_no_direct_writes : Generated.loginDirectWrites = [] := by decide

/-- Why a deadline on the `Write` matters: a transaction abandoned after a prefix, followed by the next
    transaction, is a stream that parses neither to the next transaction alone nor to both. -/
theorem abandoned_write_breaks_framing :
    ∃ (A B : Transaction) (k : Nat), A.WFdec ∧ B.WFdec ∧ 0 < k ∧ k < A.encode.length ∧
      ∀ p : List Transaction, (p = [B] ∨ p.Perm [A, B]) → parseStream (A.encode.take k ++ B.encode) ≠ .ok p := by
  refine ⟨witnessA, witnessB, 10,
    by simp [Transaction.WFdec, Field.Scannable, Field.WF, witnessA, Transaction.payloadSize],
    by simp [Transaction.WFdec, Field.Scannable, Field.WF, witnessB, Transaction.payloadSize], by decide, by decide +kernel, ?_⟩
  intro p _ h
  have e : parseStream (witnessA.encode.take 10 ++ witnessB.encode) = .err := by decide +kernel
  rw [e] at h
  cases h

-- ------------------------------------------------------------------ (d) replies are not dropped: the addressee stays registered

/-- `sendTransaction` looks the addressee up by id and silently drops the transaction when the table has nobody under
    that id.  For EVERY history of logins, own disconnects and delayed second disconnects (`timerFires`: the goroutine
    a kick / account deletion leaves behind) from the empty server — any number of users, also across the wrap of the
    16-bit id counter — a connection that has logged in and whose own `Disconnect` has not run is in the table under
    its own id: the lookup finds THIS connection, so its replies are neither dropped nor written to somebody else. -/
theorem addressee_registered_until_own_disconnect (es : List Kick.Ev) (conn i : Nat)
    (hb : (conn, i) ∈ (Kick.run Kick.St.init es).born) (hg : conn ∉ (Kick.run Kick.St.init es).gone) :
    ∃ d, (Kick.run Kick.St.init es).reg.get i = some d ∧ d.conn = conn :=
  Kick.registered_until_own_disconnect es conn i hb hg

/-- A disconnect — the connection's own or the delayed one — takes exactly the connection it is aimed at out of the
    table (or nobody, the second time); every other connection stays. -/
theorem disconnect_removes_only_its_target (es : List Kick.Ev) (conn : Nat) (e : Kick.Ev)
    (he : e = .leave conn ∨ e = .timerFires conn) :
    (∀ d, (Kick.step (Kick.run Kick.St.init es) e).2.removed = some d → d.conn = conn) ∧
    (∀ d ∈ (Kick.run Kick.St.init es).reg.clients, d.conn ≠ conn → d ∈ (Kick.step (Kick.run Kick.St.init es) e).1.reg.clients) :=
  (Kick.step_spec (Kick.Good.init.run es) e).2 conn he

/-- The negative witness (the code before fix d658b12, every `Disconnect` deleting by id): U logs in, 65 534
    connections come and go, U is kicked and hangs up, a newcomer is given U's id, the timer fires — and the
    newcomer, another connection object, is removed: every reply addressed to it is dropped from then on. -/
theorem stale_disconnect_before_fix_removes_newcomer :
    ∃ (r : Registry) (u n : Client),
      Registry.init.add Kick.blank = some (r, u) ∧ u.id = 1 ∧
      (Kick.spinN 65534 r).delete u.id = ⟨65535, 65535, []⟩ ∧
      Registry.add ⟨65535, 65535, []⟩ Kick.blank = some (⟨65537, 65536, [n]⟩, n) ∧
      n.id = u.id ∧ n.conn ≠ u.conn ∧
      (Kick.discById ⟨65537, 65536, [n]⟩ u.id).2.removed = some n ∧
      (Kick.discById ⟨65537, 65536, [n]⟩ u.id).1.clients = [] :=
  Kick.stale_timer_removes_newcomer_after_wrap

/-- … while before the wrap even that code was safe: as long as the counter has made fewer than 65 536 steps since a
    connection was registered, nobody else holds its id. -/
theorem before_fix_safe_inside_the_window (es : List Kick.Ev) (b : Kick.Birth) (hb : b ∈ (Kick.runById Kick.StById.init es).born)
    (hwin : (Kick.runById Kick.StById.init es).ticks < b.t + 65536) :
    Kick.NoReissue (Kick.runById Kick.StById.init es).reg b.conn b.id :=
  Kick.no_reissue_before_wrap (Kick.GoodById.init.run es) b hb hwin

/-- `ClientConn.Disconnect` runs its whole body (with the by-id `ClientMgr.Delete`) through a `sync.Once` of the
    connection — the shape `Kick.step` models; regenerated from source on every run. -/
theorem generated_disconnect_once : Generated.disconnectShape = "once-guarded" := by decide

/-- No method of `hotline.Stats` that takes `s.mu` calls a method of `Stats` (a nested `RLock` under a `RLock`
    deadlocks as soon as a login / logout waits for the write lock; every later connection then hangs in
    `Stats.Increment` right after its login reply and none of its requests is answered). -/
theorem generated_stats_no_nested_locking :
    ∀ m ∈ Generated.statsLocking, m.2.1 ≠ "none" → m.2.2 = [] := by decide

/-- … and the five methods the connection handler and the stats reader use are all there (the fact is not vacuous). -/
theorem generated_stats_methods :
    Generated.statsLocking.map (·.1) = ["Decrement", "Get", "Increment", "Set", "Values"] := by decide

-- a kicked user (connection 0) hangs up, a newcomer logs in, the timer fires: the newcomer is still registered
example : ((Kick.run Kick.St.init [.login Kick.blank, .login Kick.blank, .leave 0, .login Kick.blank, .timerFires 0]).reg.clients.map (·.conn)) = [1, 2] := by decide
example : (2, 3) ∈ (Kick.run Kick.St.init [.login Kick.blank, .login Kick.blank, .leave 0, .login Kick.blank, .timerFires 0]).born ∧
    2 ∉ (Kick.run Kick.St.init [.login Kick.blank, .login Kick.blank, .leave 0, .login Kick.blank, .timerFires 0]).gone := by decide

-- ------------------------------------------------------------------ non-vacuity

private def t1 : Transaction := ⟨0, 1, 0, 5, 0, [⟨101, [1, 2, 3]⟩]⟩
private def t2 : Transaction := ⟨0, 0, 106, 77, 0, [⟨101, [0x68, 0x69]⟩, ⟨114, [0, 0, 0, 9]⟩]⟩
example : t1.WFdec ∧ t2.WFdec := by
  constructor <;> simp [Transaction.WFdec, Field.Scannable, Field.WF, t1, t2, Transaction.payloadSize]
-- the merge in which the second writer wins the race
example : Merge ([t1, t2].map singleWrite) [t2.encode, t1.encode] := by
  refine Merge.step [singleWrite t1] t2.encode [] [] _ ?_
  refine Merge.step [] t1.encode [] [[]] _ ?_
  exact Merge.done _ (by intro p hp; simp at hp; rcases hp with rfl | rfl <;> rfl)
example : parseStream [t2.encode, t1.encode].flatten = .ok [t2, t1] := by decide +kernel

end Mobius.C14
