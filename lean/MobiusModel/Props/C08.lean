import MobiusModel.Transfers
import MobiusModel.DownloadRoots
import MobiusModel.DownloadNames
import MobiusModel.RWLockFlat
import MobiusModel.Generated.LockNesting
import MobiusModel.Generated.TransferRoots
import MobiusModel.Generated.Consts
/-!
  C08 — Downloads deliver exactly the file's bytes.

  Property theorems only (helper lemmas live in `Transfers`).  `downloadReply` / `downloadStream`
  mirror `HandleDownloadFile` / `DownloadHandler`; `ffoHeader`, `InfoFork.encode`, `forkHeader` are
  the reference Hotline layouts of `Wire.lean`; `splitDownload` is the reference client (it finds
  the data through the header's own INFO size field and the reply's file-size field).

  Reading (DESIGN §7 C08): the statement's "header + data, then the resource fork if one is stored"
  is about the first `transferSize` bytes; the 16-byte zero-length MACR fork header that follows the
  data when no resource fork is stored is not counted by the reply's transfer size.

  All statements are for every name, every content, every fork combination and every offset
  `0 ≤ k ≤ size` (hypothesis `StoredFile.WF`: the sizes fit the protocol's 16/32-bit fields).
-/
namespace Mobius.C08

/-- The data-fork offset a request asks for. -/
def off (rq : DlRequest) : Nat := rq.resume.getD 0

/-- Header consistency 1: the INFO fork header's size field equals the length of the information
    fork that follows it, and the information fork that follows is the layout of the file's
    (stored or synthesised) information. -/
theorem header_info_size_field (f : StoredFile) (k : Nat) (h : f.WF) :
    rd32 ((f.header k).drop 36) = f.effInfo.encode.length ∧
    ((f.header k).drop 40).take f.effInfo.encode.length = f.effInfo.encode := by
  obtain ⟨hf, hn, hc, hs⟩ := h
  have hl := InfoFork.encode_length _ hf
  have d36 := ffoHeader_drop36 f.forkCount f.effInfo (sub32 f.data.length k) []
  have d40 := ffoHeader_drop40 f.forkCount f.effInfo (sub32 f.data.length k) []
  simp only [List.append_nil] at d36 d40
  unfold StoredFile.header
  rw [d36, d40, rd32_be32_append, hl]
  constructor
  · simp only [StoredFile.hdrLen] at hs; omega
  · exact List.take_left' hl

/-- Header consistency 2: the name-size field equals the length of the name that follows it. -/
theorem header_name_size_field (f : StoredFile) (k : Nat) (h : f.WF) :
    rd16 ((f.header k).drop 110) = f.effInfo.name.length ∧
    ((f.header k).drop 112).take f.effInfo.name.length = f.effInfo.name := by
  obtain ⟨hf, hn, hc, hs⟩ := h
  have d40 := ffoHeader_drop40 f.forkCount f.effInfo (sub32 f.data.length k) []
  simp only [List.append_nil] at d40
  have h70 := InfoFork.fixed70_length _ hf
  have d110 : (f.header k).drop 110 = be16 f.effInfo.name.length ++ (f.effInfo.name ++
      (be16 f.effInfo.comment.length ++ f.effInfo.comment) ++ (dataPre ++ be32 (sub32 f.data.length k))) := by
    have : (f.header k).drop 110 = ((f.header k).drop 40).drop 70 := by rw [List.drop_drop]
    rw [this]; unfold StoredFile.header
    rw [d40, InfoFork.encode_eq]
    have : f.effInfo.fixed70 ++ (be16 f.effInfo.name.length ++ (f.effInfo.name ++ (be16 f.effInfo.comment.length ++ f.effInfo.comment)))
          ++ (dataPre ++ be32 (sub32 f.data.length k))
        = f.effInfo.fixed70 ++ (be16 f.effInfo.name.length ++ (f.effInfo.name ++
            (be16 f.effInfo.comment.length ++ f.effInfo.comment) ++ (dataPre ++ be32 (sub32 f.data.length k)))) := by simp
    rw [this]; exact List.drop_left' h70
  have d112 : (f.header k).drop 112 = f.effInfo.name ++
      ((be16 f.effInfo.comment.length ++ f.effInfo.comment) ++ (dataPre ++ be32 (sub32 f.data.length k))) := by
    have : (f.header k).drop 112 = ((f.header k).drop 110).drop 2 := by rw [List.drop_drop]
    rw [this, d110]
    have : be16 f.effInfo.name.length ++ (f.effInfo.name ++ (be16 f.effInfo.comment.length ++ f.effInfo.comment) ++
              (dataPre ++ be32 (sub32 f.data.length k)))
        = be16 f.effInfo.name.length ++ (f.effInfo.name ++ ((be16 f.effInfo.comment.length ++ f.effInfo.comment) ++
              (dataPre ++ be32 (sub32 f.data.length k)))) := by simp
    rw [this]; exact List.drop_left' (be16_length _)
  rw [d110, d112, rd16_be16_append]
  exact ⟨by omega, List.take_left' rfl⟩

/-- When no information fork is stored the name in the header is the file's own name. -/
theorem header_names_the_file (f : StoredFile) (h : f.info = none) : f.effInfo.name = f.name := by
  simp [StoredFile.effInfo, h, defaultInfo]

/-- The stream: header, then the data fork from the requested offset to its end, then the fork part
    (MACR fork header unless resuming, then the stored resource fork bytes); no error. -/
theorem stream_shape (f : StoredFile) (rq : DlRequest) (hp : rq.preview = false) (hk : off rq ≤ f.data.length) :
    downloadStream f rq = (f.header 0 ++ (f.data.drop (off rq) ++ f.forkPart rq.resume.isSome), false) := by
  unfold downloadStream off at *
  have : ¬ (rq.resume.getD 0 > f.data.length) := by omega
  simp [this, hp]

/-- What a reference client obtains: splitting the stream with the header's own INFO size field and
    the reply's file-size field yields the information fork, **exactly the data-fork bytes from the
    requested offset to the end**, and the fork part. -/
theorem client_recovers_data (f : StoredFile) (rq : DlRequest) (h : f.WF) (hp : rq.preview = false)
    (hk : off rq ≤ f.data.length) :
    splitDownload (downloadStream f rq).1 (downloadReply f rq).fileSize =
      some (f.effInfo.encode, f.data.drop (off rq), f.forkPart rq.resume.isSome) := by
  obtain ⟨hf, hn, hc, hs⟩ := h
  rw [stream_shape f rq hp hk]
  have hfs : (downloadReply f rq).fileSize = f.data.length - off rq := by
    unfold downloadReply off at *
    exact sub32_of_le _ _ hk (by omega)
  rw [hfs]
  unfold StoredFile.header
  have hisz : f.effInfo.size < 4294967296 := by simp only [StoredFile.hdrLen] at hs; omega
  rw [splitDownload_header _ _ _ _ (f.data.length - off rq) hf hisz (by simp)]
  have hl : (f.data.drop (off rq)).length = f.data.length - off rq := List.length_drop
  rw [← hl, List.take_left' rfl, List.drop_left' rfl]

/-- The bytes after the data fork: with no stored resource fork exactly the 16-byte zero-length MACR
    fork header (nothing at all on resume); with a stored fork the header announcing its length, then
    its bytes (on resume: its bytes only). -/
theorem trailing_part (f : StoredFile) :
    (f.rsrc = none → f.forkPart false = forkHeader macr 0 ∧ f.forkPart true = []) ∧
    (∀ r, f.rsrc = some r → f.forkPart false = forkHeader macr r.length ++ r ∧ f.forkPart true = r) := by
  constructor
  · intro h; simp [StoredFile.forkPart, StoredFile.rsrcSize, h]
  · intro r h; simp [StoredFile.forkPart, StoredFile.rsrcSize, h]

/-- Reply field 207 (file size) is the remaining data length. -/
theorem reply_file_size (f : StoredFile) (rq : DlRequest) (h : f.WF) (hk : off rq ≤ f.data.length) :
    (downloadReply f rq).fileSize = f.data.length - off rq := by
  unfold downloadReply off at *
  exact sub32_of_le _ _ hk (by have := h.2.2.2; omega)

/-- Reply field 108 (transfer size) = header + remaining data + stored resource fork bytes; in
    particular header + remaining data for a file without a stored resource fork. -/
theorem reply_transfer_size (f : StoredFile) (rq : DlRequest) (h : f.WF) (hp : rq.preview = false)
    (hk : off rq ≤ f.data.length) :
    (downloadReply f rq).transferSize = (f.header 0).length + (f.data.length - off rq) + f.rsrcSize ∧
    (f.rsrc = none → (downloadReply f rq).transferSize = (f.header 0).length + (f.data.length - off rq)) := by
  obtain ⟨hf, hn, hc, hs⟩ := h
  have hl : (f.header 0).length = f.hdrLen := by
    unfold StoredFile.header StoredFile.hdrLen; exact ffoHeader_length _ _ _ hf
  have hts : (downloadReply f rq).transferSize = f.hdrLen + (f.data.length - off rq) + f.rsrcSize := by
    unfold downloadReply StoredFile.transferSize off at *
    simp only [hp]
    rw [sub32_of_le _ _ hk (by omega)]
    simp; omega
  rw [hl]
  refine ⟨hts, fun hr => ?_⟩
  rw [hts]; simp [StoredFile.rsrcSize, hr]

/-- The announced transfer size against the bytes actually sent: the stream is longer by exactly the
    16 bytes of the MACR fork header (fresh download) and exactly as long on resume. -/
theorem stream_length_vs_transfer_size (f : StoredFile) (rq : DlRequest) (h : f.WF) (hp : rq.preview = false)
    (hk : off rq ≤ f.data.length) :
    (downloadStream f rq).1.length = (downloadReply f rq).transferSize + (if rq.resume.isSome then 0 else 16) := by
  rw [stream_shape f rq hp hk, (reply_transfer_size f rq h hp hk).1]
  simp only [List.length_append, List.length_drop, StoredFile.forkPart, StoredFile.rsrcSize]
  split <;> simp <;> omega

/-- Preview (field 204 present): no header at all; the transfer size is the remaining data length and
    the first `transferSize` bytes of the stream are the bare data from the offset. -/
theorem preview_bare_data (f : StoredFile) (rq : DlRequest) (h : f.WF) (hp : rq.preview = true)
    (hk : off rq ≤ f.data.length) :
    (downloadReply f rq).transferSize = f.data.length - off rq ∧
    (downloadStream f rq).1 = f.data.drop (off rq) ++ f.forkPart rq.resume.isSome ∧
    (downloadStream f rq).1.take (downloadReply f rq).transferSize = f.data.drop (off rq) := by
  have hts : (downloadReply f rq).transferSize = f.data.length - off rq := by
    unfold downloadReply off at *
    simp only [hp, if_true]
    exact sub32_of_le _ _ hk (by have := h.2.2.2; omega)
  have hst : (downloadStream f rq).1 = f.data.drop (off rq) ++ f.forkPart rq.resume.isSome := by
    unfold downloadStream off at *
    have : ¬ (rq.resume.getD 0 > f.data.length) := by omega
    simp [this, hp]
  refine ⟨hts, hst, ?_⟩
  rw [hst, hts]
  exact List.take_left' List.length_drop

/-- The fields of the reply, in wire order: reference number, waiting count, transfer size, file size. -/
theorem reply_fields (ref : Bytes) (f : StoredFile) (rq : DlRequest) :
    (downloadReplyFields ref f rq).map (·.ty) = [107, 116, 108, 207] ∧
    ((downloadReplyFields ref f rq).map (·.data)) =
      [ref, [0, 0], be32 (downloadReply f rq).transferSize, be32 (downloadReply f rq).fileSize] := by
  simp [downloadReplyFields]

/-! Obligations over the constants regenerated from /repo's source on every run. -/

/-- The side-file names the model's `info` / `rsrc` components stand for, and the transfer type. -/
theorem generated_fork_file_names :
    Generated.stringConsts.lookup "InfoForkNameTemplate" = some ".info_%s" ∧
    Generated.stringConsts.lookup "RsrcForkNameTemplate" = some ".rsrc_%s" ∧
    Generated.miscConsts.lookup "FileDownload" = some 0 := by decide

-- ---------------------------------------------------------------- non-vacuity

/-- "a b.txt", 5 data bytes, no side files. -/
def exPlain : StoredFile := { name := [97, 32, 98, 46, 116, 120, 116], data := [1, 2, 3, 4, 5] }

/-- the same with a stored information fork (comment "hi") and a 3-byte resource fork. -/
def exForks : StoredFile :=
  { exPlain with info := some { defaultInfo exPlain.name exPlain.mtime exPlain.ty exPlain.creator with comment := [104, 105] },
                 rsrc := some [9, 8, 7] }

example : exPlain.WF := by decide
example : exForks.WF := by decide
example : (downloadReply exPlain { resume := some 2 }) = { transferSize := 137 + 3, fileSize := 3 } := by decide
example : (downloadStream exPlain { resume := some 2 }).1.drop 137 = [3, 4, 5] := by decide
example : (downloadStream exPlain {}).1.drop 137 = [1, 2, 3, 4, 5] ++ forkHeader macr 0 := by decide
example : (downloadStream exForks {}).1.drop 139 = [1, 2, 3, 4, 5] ++ forkHeader macr 3 ++ [9, 8, 7] := by decide
example : (downloadReply exForks {}).transferSize = 139 + 5 + 3 := by decide
example : downloadStream exPlain { resume := some 5, preview := true } = ([], false) := by decide
example : (downloadStream exPlain { resume := some 6 }).2 = true := by decide

-- ---------------------------------------------------------------- wave d: per-account file roots (which file a download is about)

section Roots
open DlRoots

/-- `ClientConn.FileRoot()`: the account's own root when it has one, the server's otherwise. -/
theorem session_root_choice (s : Sess) :
    (s.acctRoot ≠ [] → s.root = s.acctRoot) ∧ (s.acctRoot = [] → s.root = s.serverRoot) := by
  unfold Sess.root
  constructor
  · intro h; simp [h]
  · intro h; simp [h]

/-- **Reply and stream describe the same file**, for every pair of configured roots, whatever any root holds:
    a granted request is answered from the file `f` stored under the SESSION's root, and the transfer connection
    that presents the registered entry streams that same `f` (so every clause above — `stream_shape`,
    `reply_file_size`, `reply_transfer_size`, `preview_bare_data` — speaks about one and the same file). -/
theorem reply_and_stream_same_file (st : Store) (s : Sess) (path : Bytes) (rq : DlRequest) (rep : DlReply) (p : Pending)
    (h : handleDownload st s path rq = some (rep, p)) :
    ∃ f, st s.root path = some f ∧ rep = downloadReply f rq ∧ serveTransfer st p = some (downloadStream f rq) ∧
      streamRoot p = replyRoot s := by
  obtain ⟨f, hf, hr, hp⟩ := handleDownload_some st s path rq rep p h
  refine ⟨f, hf, hr, ?_, ?_⟩
  · subst hp; simp [serveTransfer, hf]
  · subst hp; rfl

/-- What the reference client obtains from the transfer connection of a rooted session: exactly the data-fork bytes,
    from the requested offset, of the file under the session's root. -/
theorem rooted_client_recovers_data (st : Store) (s : Sess) (path : Bytes) (rq : DlRequest) (rep : DlReply) (p : Pending)
    (h : handleDownload st s path rq = some (rep, p)) (hp : rq.preview = false)
    (hwf : ∀ f, st s.root path = some f → f.WF ∧ off rq ≤ f.data.length) :
    ∃ f out, st s.root path = some f ∧ serveTransfer st p = some out ∧
      splitDownload out.1 rep.fileSize = some (f.effInfo.encode, f.data.drop (off rq), f.forkPart rq.resume.isSome) := by
  obtain ⟨f, hf, hr, hs, _⟩ := reply_and_stream_same_file st s path rq rep p h
  obtain ⟨hw, hk⟩ := hwf f hf
  exact ⟨f, _, hf, hs, by rw [hr]; exact client_recovers_data f rq hw hp hk⟩

/-- Frame over roots: two stores that agree under the session's root at the path give the same reply and the same
    stream (the server's root, other accounts' roots and everything else are irrelevant). -/
theorem other_roots_irrelevant (st st' : Store) (s : Sess) (path : Bytes) (rq : DlRequest)
    (hag : st s.root path = st' s.root path) :
    handleDownload st s path rq = handleDownload st' s path rq ∧
    ∀ rep p, handleDownload st s path rq = some (rep, p) → serveTransfer st p = serveTransfer st' p := by
  constructor
  · unfold handleDownload; rw [hag]
  · intro rep p h
    obtain ⟨f, _, _, hp⟩ := handleDownload_some st s path rq rep p h
    subst hp; simp [serveTransfer, hag]

/-- The server-wide table: the transfer connection that presents the reference number of a grant is served the file
    of the session that made the request, and the pending transfers of all other sessions are untouched. -/
theorem table_transfer_serves_its_request (st : Store) (t t' : Table) (ref : Bytes) (s : Sess) (path : Bytes)
    (rq : DlRequest) (rep : DlReply) (h : request st t ref s path rq = (t', some rep)) :
    (∃ f, st s.root path = some f ∧ rep = downloadReply f rq ∧ transfer st t' ref = some (downloadStream f rq)) ∧
    ∀ r, r ≠ ref → transfer st t' r = transfer st t r := by
  unfold request at h
  cases hd : handleDownload st s path rq with
  | none => rw [hd] at h; simp at h
  | some rp =>
    obtain ⟨rep0, p⟩ := rp
    rw [hd] at h
    simp only [Prod.mk.injEq, Option.some.injEq] at h
    obtain ⟨ht, hr⟩ := h
    subst ht; subst hr
    obtain ⟨f, hf, hrep, hs, _⟩ := reply_and_stream_same_file st s path rq rep0 p hd
    constructor
    · exact ⟨f, hf, hrep, by simp [transfer, Table.get_cons_self, hs]⟩
    · intro r hne
      simp [transfer, Table.get_cons_ne t ref r p (Ne.symm hne)]

/-- Regenerated from source on every run: the premise of the routing model — every transfer-granting handler uses
    ONE root expression, the session's `cc.FileRoot()`, both where it resolves the request (`ReadPath`) and where it
    registers the transfer (`NewFileTransfer`); the transfer connection resolves the registered root; and
    `ClientConn.FileRoot` prefers the account's own root (`Sess.root`). -/
theorem generated_transfer_roots_agree :
    (∀ e ∈ Generated.transferRootSites, e.2.2 = "cc.FileRoot()") ∧
    ("HandleDownloadFile", "register", "cc.FileRoot()") ∈ Generated.transferRootSites ∧
    ("HandleDownloadFile", "readpath", "cc.FileRoot()") ∈ Generated.transferRootSites ∧
    Generated.transferResolves = ["fileTransfer.FileRoot"] ∧
    Generated.sessionRootBody = ["if cc.Account.FileRoot != \"\" { return cc.Account.FileRoot }", "return cc.Server.Config.FileRoot"] := by
  decide

/-- two roots holding DIFFERENT files under the same path: "/srv" (the server's) and "/acct" (an account's own). -/
def exStore : Store := fun root path =>
  if path = [97] then
    if root = [47, 115, 114, 118] then some exPlain
    else if root = [47, 97, 99, 99, 116] then some { exForks with data := [7, 7, 7, 7, 7, 7, 7, 7, 7] }
    else none
  else none

def exAcctSess : Sess := { serverRoot := [47, 115, 114, 118], acctRoot := [47, 97, 99, 99, 116] }
def exPlainSess : Sess := { serverRoot := [47, 115, 114, 118] }

example : (handleDownload exStore exAcctSess [97] {}).map (·.1.fileSize) = some 9 := by decide
example : (handleDownload exStore exPlainSess [97] {}).map (·.1.fileSize) = some 5 := by decide
example : ((handleDownload exStore exAcctSess [97] { resume := some 4 }).bind fun r => serveTransfer exStore r.2).map
    (fun o => o.1.drop 139) = some ([7, 7, 7, 7, 7] ++ [9, 8, 7]) := by decide
example : (transfer exStore (request exStore (request exStore [] [0, 1] exPlainSess [97] {}).1 [0, 2] exAcctSess [97] {}).1 [0, 1]).map
    (fun o => o.1.drop 137) = some ([1, 2, 3, 4, 5] ++ forkHeader macr 0) := by decide

end Roots

-- ---------------------------------------------------------------- wave d: the statistics mutex cannot keep a granted download from being sent

section StatsLock
open RWFlat

/-- Regenerated from source on every run: no method calls a locking method of its own receiver while it holds the
    receiver's lock (so every call of a `Stats` method is ONE flat critical section), and the generator does see the
    methods in question (`Values` / `Get` under the read lock, `Increment` / `Decrement` / `Set` under the write lock). -/
theorem generated_lock_sections_are_flat :
    Generated.lockedSelfCalls = [] ∧
    ("Stats.Values", "R") ∈ Generated.lockingMethods ∧ ("Stats.Get", "R") ∈ Generated.lockingMethods ∧
    ("Stats.Increment", "W") ∈ Generated.lockingMethods ∧ ("Stats.Decrement", "W") ∈ Generated.lockingMethods ∧
    ("Stats.Set", "W") ∈ Generated.lockingMethods := by decide

/-- Any number of goroutines, each making any sequence of calls of such methods (`true` = a method under the write
    lock: what a transfer connection does before and after it sends; `false` = under the read lock: what a statistics
    reader does), in any schedule: no reachable state has work left and nobody able to move.  In particular the
    `Increment` a granted download waits for is never blocked for ever by readers polling `Values`. -/
theorem stats_goroutines_never_deadlock (calls : List (List Bool)) (s : State)
    (hr : Reach (initial (calls.map fun c => c.flatMap methodProg)) s) : stuck s = false := by
  apply no_deadlock _ _ s hr
  intro p hp
  simp only [List.mem_map] at hp
  obtain ⟨c, _, rfl⟩ := hp
  exact flat_of_calls c

/-- Why the premise is needed: ONE reader that takes the read lock again while holding it (`Values` calling `Get`)
    and one writer (`Increment`) reach a state in which nobody can ever move. -/
theorem reentrant_read_lock_deadlocks : ∃ s, Reach nestedExample s ∧ stuck s = true := nested_rlock_deadlocks

/-- three pollers and two transfers, all idle at the start: a flat system (non-vacuity of the hypothesis). -/
example : stuck (initial ([[false, false, false], [false], [false, false], [true, true], [true, true]].map fun c => c.flatMap methodProg)) = false := by decide
example : (initial [[true, true].flatMap methodProg]) = [{ prog := [.lock, .unlock, .lock, .unlock] }] := by decide

end StatsLock

/-! ### Wave e: the file a download serves for a LISTED name is the listed entry itself

  "All representable file names" includes the names whose Mac Roman wire bytes happen to be well-formed UTF-8
  (`√©` = C3 A9, `¬©` = C2 A9, `‚Äì` = E2 80 93 …), in folders that also hold an entry spelled like the UTF-8
  reading of those bytes.  The path decode is `decodeStr` for ALL byte strings (`DlNames.resolve`): there is no
  case distinction on what the bytes look like. -/
namespace Names
open DlNames PathStr

/-- Clause "the file" for listed names: in any folder with distinct entry names, the entry served for a name the
    file list handed out is the entry the list handed it out for — no hypothesis on the wire bytes. -/
theorem listed_name_serves_listed_entry (d : Dir) (hd : d.names.Nodup) (m : Bytes) (f : StoredFile)
    (h : (m, f) ∈ listed d) : serve d m = some f := by
  obtain ⟨n, hn, he⟩ := mem_listed d m f h
  unfold serve
  rw [resolve_listed n m he]
  exact lookup_of_mem d hd n f hn

/-- `dec (enc n) = n` at the level of entries, stated with the ambiguity spelled out: the wire bytes `m` of the
    entry `n` are well-formed UTF-8 AND the folder holds a decoy `g` whose on-disk name is those very bytes — the
    download still is about `f`. -/
theorem listed_name_ambiguous (d : Dir) (hd : d.names.Nodup) (n m : Bytes) (f g : StoredFile)
    (hn : (n, f) ∈ d) (he : encStr n = some m) (_hu : utf8Valid m = true) (_hg : (m, g) ∈ d) :
    serve d m = some f := by
  unfold serve
  rw [resolve_listed n m he]
  exact lookup_of_mem d hd n f hn

/-- Reply and stream for a listed name: the control request is granted with the reply computed from the listed
    entry, and the transfer connection carries the listed entry's stream (so every clause proved above for
    `downloadReply f` / `downloadStream f` holds with `f` = the listed entry). -/
theorem listed_name_download (root : Bytes) (d : Dir) (hd : d.names.Nodup) (m : Bytes) (f : StoredFile)
    (h : (m, f) ∈ listed d) (rq : DlRequest) :
    ∃ p, DlRoots.handleDownload (storeOf root d) { serverRoot := root } m rq = some (downloadReply f rq, p) ∧
      DlRoots.serveTransfer (storeOf root d) p = some (downloadStream f rq) := by
  have hs := listed_name_serves_listed_entry d hd m f h
  refine ⟨{ root := root, path := m, rq := rq }, ?_, ?_⟩
  · simp [DlRoots.handleDownload, DlRoots.Sess.root, storeOf, hs]
  · simp [DlRoots.serveTransfer, storeOf, hs]

/-- What the theorems exclude: a resolution that keeps names which "already are UTF-8" serves the DECOY whenever
    one exists (so it is not the code's resolution on any such folder with `g ≠ f`). -/
theorem skipping_resolution_serves_decoy (d : Dir) (hd : d.names.Nodup) (m : Bytes) (g : StoredFile)
    (hu : utf8Valid m = true) (hg : (m, g) ∈ d) : serveSkipping d m = some g := by
  unfold serveSkipping resolveSkipping
  rw [if_pos hu]
  exact lookup_of_mem d hd m g hg

/-- Non-vacuity on the bytes C3 A9: `√©` (E2 88 9A C2 A9 on disk) is listed as C3 A9, which is well-formed UTF-8
    (it reads `é`) and decodes back to `√©`. -/
example : encStr [0xE2, 0x88, 0x9A, 0xC2, 0xA9] = some [0xC3, 0xA9] := by decide
example : utf8Valid [0xC3, 0xA9] = true := by decide
example : resolve [0xC3, 0xA9] = [0xE2, 0x88, 0x9A, 0xC2, 0xA9] := by decide
example : utf8Valid [0x8E] = false ∧ utf8Valid [0xE2, 0x80, 0x93] = true ∧ utf8Valid [0xC3, 0x2E] = false ∧ utf8Valid [0xE0, 0x80, 0x80] = false := by decide

/-- The folder {`√©` ↦ 3 bytes, `é` ↦ 1 byte}: both are listed (as C3 A9 and 8E); the name C3 A9 serves the
    3-byte file under the code's resolution and the 1-byte decoy under the skipping one. -/
def exampleDir : Dir :=
  [([0xE2, 0x88, 0x9A, 0xC2, 0xA9], { name := [0xE2, 0x88, 0x9A, 0xC2, 0xA9], data := [1, 2, 3] }),
   ([0xC3, 0xA9], { name := [0xC3, 0xA9], data := [9] })]

example : exampleDir.names.Nodup := by decide
example : (listed exampleDir).map (·.1) = [[0xC3, 0xA9], [0x8E]] := by decide
example : (serve exampleDir [0xC3, 0xA9]).map (·.data) = some [1, 2, 3] := by decide
example : (serve exampleDir [0x8E]).map (·.data) = some [9] := by decide
example : (serveSkipping exampleDir [0xC3, 0xA9]).map (·.data) = some [9] := by decide

end Names

end Mobius.C08
