import MobiusModel.Transfers
import MobiusModel.UploadHistory
import MobiusModel.UploadDeclared
import MobiusModel.Generated.Consts
import MobiusModel.Generated.FileStore
/-!
  C09 — Uploads are exact, published atomically, resumable after any cut.

  Property theorems only (helper lemmas live in `Transfers`).  `receiveFile`, `uploadTransfer`,
  `uploadConn`, `handleUploadFile` mirror `hotline.receiveFile`, `UploadHandler`, the preamble read of
  `handleFileTransfer` and `HandleUploadFile`; `uploadStream` / `transferPreamble` are the reference
  layouts of what a client sends.  The state is the pair of names `<name>` / `<name>.incomplete`.

  A history is a list of attempts, each on a connection that dies after `cut` bytes (of the whole
  connection: 16-byte preamble, flattened-file header, data fork, optional resource fork), each
  continuing from the offset the server reports.  Nothing bounds the length of the history, the cut
  positions, or the sizes (beyond the protocol's 32-bit size fields).
-/
namespace Mobius.C09

variable (ref fc : Nat) (i : InfoFork) (d r : Bytes)

/-- **A cut at any byte of the upload stream** (inside the header included) leaves exactly the
    data-fork bytes that arrived, and the stream is reported complete iff all of it arrived. -/
theorem cut_leaves_exact_prefix (h : ClientOK fc i d r) (n : Nat) :
    (receiveFile ((uploadStream fc i d r).take n)).appended = d.take (n - (56 + i.size)) ∧
    (receiveFile ((uploadStream fc i d r).take n)).complete = decide ((uploadStream fc i d r).length ≤ n) :=
  receiveFile_prefix fc i d r n h.info h.fc h.data h.rsrc

/-- One attempt from a state holding the first `k` bytes: a cut inside the preamble changes nothing;
    otherwise the partial file grows by exactly the data bytes that arrived, and the file is
    published — with exactly the client's bytes — iff the whole connection's bytes arrived. -/
theorem attempt_step (h : ClientOK fc i d r) (k cut : Nat) (inc : Option Bytes)
    (hk : k ≤ d.length) (hinc : inc.getD [] = d.take k) :
    uploadAttempt ref fc i d r { final := none, inc := inc } cut =
      if cut < 16 then { final := none, inc := inc }
      else if 16 + (uploadStream fc i (d.drop k) r).length ≤ cut then { final := some d, inc := none }
      else { final := none, inc := some (d.take (k + (cut - 16 - (56 + i.size)))) } :=
  uploadAttempt_step ref fc i d r k cut inc h.info h.fc h.data h.rsrc hk hinc

/-- **Invariant over every history of cuts and resumes**: after any sequence of attempts, cut at any
    bytes, either nothing is published and the partial file holds exactly a prefix of the client's
    data, or the file is published with exactly the client's bytes and no partial file remains. -/
theorem invariant_all_histories (h : ClientOK fc i d r) (cuts : List Nat) :
    (uploadRun ref fc i d r cuts).Good d :=
  uploadRun_foldl_good ref fc i d r h cuts {} (UpState.good_init d)

/-- While unpublished, the final name does not exist (atomic publication): in every reachable state
    a final file, if present, is the complete data. -/
theorem final_is_never_partial (h : ClientOK fc i d r) (cuts : List Nat) (x : Bytes)
    (hx : (uploadRun ref fc i d r cuts).final = some x) : x = d := by
  rcases invariant_all_histories ref fc i d r h cuts with ⟨hf, _⟩ | ⟨hf, _⟩
  · rw [hf] at hx; cases hx
  · rw [hf] at hx; cases hx; rfl

/-- The offset the server reports on a resume request (field 203) is the size of the partial file,
    which is the number of data bytes it holds of the client's file. -/
theorem reported_offset (st : UpState) (p : Bytes) (hf : st.final = none) (hi : st.inc = some p)
    (hp : p.length < 4294967296) :
    handleUploadFile st true = .ok (some p.length) ∧ uploadResumeData p.length =
      [0x52, 0x46, 0x4C, 0x54] ++ be16 1 ++ List.replicate 34 0 ++ [0, 1] ++
      ([0x44, 0x41, 0x54, 0x41] ++ be32 p.length ++ [0, 0, 0, 0, 0, 0, 0, 0]) := by
  constructor
  · unfold handleUploadFile; rw [hf, hi]; simp; omega
  · simp [uploadResumeData, resumeEncode, ForkInfo.encode, b8]

/-- **Completion**: after any history, an attempt that is not cut publishes exactly the client's
    bytes and removes the partial file. -/
theorem uncut_attempt_completes (h : ClientOK fc i d r) (cuts : List Nat) (c : Nat)
    (hc : 16 + (uploadStream fc i d r).length ≤ c) :
    uploadRun ref fc i d r (cuts ++ [c]) = { final := some d, inc := none } := by
  unfold uploadRun
  rw [List.foldl_append]
  simp only [List.foldl_cons, List.foldl_nil]
  have hg := uploadRun_foldl_good ref fc i d r h cuts {} (UpState.good_init d)
  generalize cuts.foldl (uploadAttempt ref fc i d r) {} = st at hg
  rcases hg with ⟨hf, k, hk, hinc⟩ | ⟨hf, hinc⟩
  · have hst : st = { final := none, inc := st.inc } := by cases st; simp at hf; simp [hf]
    rw [hst, attempt_step ref fc i d r h k c st.inc hk hinc]
    have l1 := uploadStream_length fc i d r h.info.1
    have l2 := uploadStream_length fc i (d.drop k) r h.info.1
    have l3 : (d.drop k).length ≤ d.length := by rw [List.length_drop]; omega
    have e1 : ¬ (c < 16) := by omega
    have e2 : 16 + (uploadStream fc i (d.drop k) r).length ≤ c := by
      split at l1 <;> split at l2 <;> omega
    rw [if_neg e1, if_pos e2]
  · have hst : st = { final := some d, inc := none } := by cases st; simp at hf hinc; simp [hf, hinc]
    rw [hst]
    unfold uploadAttempt uploadConn uploadTransfer
    simp only
    split <;> rfl

/-- **Progress**: a resumed attempt that delivers at least one data byte strictly extends the
    partial file (so finitely many such attempts complete the upload). -/
theorem resumed_attempt_extends (h : ClientOK fc i d r) (k cut : Nat) (hk : k < d.length)
    (hcut : 16 + (56 + i.size) < cut) (hnc : ¬ 16 + (uploadStream fc i (d.drop k) r).length ≤ cut) :
    ∃ k', k < k' ∧ k' ≤ d.length ∧
      uploadAttempt ref fc i d r { final := none, inc := some (d.take k) } cut = { final := none, inc := some (d.take k') } := by
  have := attempt_step ref fc i d r h k cut (some (d.take k)) (by omega) rfl
  have e1 : ¬ (cut < 16) := by omega
  rw [if_neg e1, if_neg hnc] at this
  refine ⟨min (k + (cut - 16 - (56 + i.size))) d.length, by omega, Nat.min_le_right _ _, ?_⟩
  rw [this, ← List.take_take, List.take_length]

/-- **An existing file is never replaced**: the control request is refused, and a transfer
    connection that arrives anyway (the transfer handler re-checks) changes nothing, whatever it carries. -/
theorem existing_file_never_replaced (st : UpState) (x : Bytes) (hx : st.final = some x) :
    (∀ b, handleUploadFile st b = .refused) ∧ (∀ conn, uploadConn st conn = st) := by
  constructor
  · intro b; unfold handleUploadFile; rw [hx]
  · intro conn
    unfold uploadConn uploadTransfer
    rw [hx]; split <;> rfl

/-- **What was uploaded is what a later download returns**: once a history has published the file,
    a download of a stored file holding the published data fork (any name, any side files) hands the
    reference client exactly the client's bytes. -/
theorem download_returns_upload (h : ClientOK fc i d r) (cuts : List Nat) (x : Bytes)
    (hx : (uploadRun ref fc i d r cuts).final = some x)
    (f : StoredFile) (hf : f.WF) (hd : f.data = x) :
    ∃ info trailer, splitDownload (downloadStream f {}).1 (downloadReply f {}).fileSize = some (info, d, trailer) := by
  have hxd := final_is_never_partial ref fc i d r h cuts x hx
  obtain ⟨hfw, hn, hc, hs⟩ := hf
  refine ⟨f.effInfo.encode, f.forkPart false, ?_⟩
  have hst : downloadStream f {} = (f.header 0 ++ (f.data ++ f.forkPart false), false) := by
    simp [downloadStream]
  have hfs : (downloadReply f {}).fileSize = f.data.length := by
    simp only [downloadReply, Option.getD_none]
    rw [sub32_of_le _ _ (Nat.zero_le _) (by omega)]; rfl
  rw [hst, hfs]
  unfold StoredFile.header
  have hisz : f.effInfo.size < 4294967296 := by simp only [StoredFile.hdrLen] at hs; omega
  rw [splitDownload_header _ _ _ _ f.data.length hfw hisz (by simp)]
  rw [List.take_left' rfl, List.drop_left' rfl, hd, hxd]

-- ---------------------------------------------------------------- wave d: histories with time, the client ASKS

/-- **Every resume of every history reports exactly the bytes held.**  A history is any list of
    events — attempts cut at any byte, requests whose transfer never starts, idle periods of any length,
    modification times moved to anything — and the client continues from the offset in the server's
    REPLY.  Whenever a reply carries an offset (the first resume, the second, … the n-th; however long
    the partial file lay idle and however quickly the request follows the previous one), the resume
    option was asked, nothing is published, and the partial file holds exactly the client's first
    `off` bytes; before and after every request the two names satisfy the property's state predicate. -/
theorem every_resume_reports_bytes_held (h : ClientOK fc i d r) (evs : List UpEv) :
    ∀ o ∈ (upHistory ref fc i d r evs).trace,
      o.before.Good d ∧ o.after.Good d ∧
      ∀ off, o.reply = .ok (some off) →
        o.resumeAsked = true ∧ o.before.final = none ∧ off ≤ d.length ∧ o.before.inc = some (d.take off) :=
  foldl_step_trace ref fc i d r h evs {} (UpState.good_init d) (by intro o ho; cases ho)

/-- **Timing is irrelevant**: the two names after a timed history are the names after the plain run
    over its cuts (`uploadRun`, to which every theorem above applies) — idle periods, moved
    modification times and requests without a transfer change nothing, and continuing from the
    REPORTED offset is continuing from the size of the partial file. -/
theorem timing_is_irrelevant (h : ClientOK fc i d r) (evs : List UpEv) :
    (upHistory ref fc i d r evs).st = uploadRun ref fc i d r (cutsOf evs) :=
  foldl_step_st ref fc i d r h evs {} (UpState.good_init d)

/-- Hence every timed history satisfies the invariant, and one that ends with an uncut attempt has
    published exactly the client's bytes. -/
theorem timed_history_good (h : ClientOK fc i d r) (evs : List UpEv) : (upHistory ref fc i d r evs).st.Good d := by
  rw [timing_is_irrelevant ref fc i d r h]; exact invariant_all_histories ref fc i d r h _

theorem cutsOf_append (a b : List UpEv) : cutsOf (a ++ b) = cutsOf a ++ cutsOf b := by
  induction a with
  | nil => rfl
  | cons e es ih => cases e <;> simp [cutsOf, ih]

theorem timed_history_completes (h : ClientOK fc i d r) (evs : List UpEv) (c : Nat)
    (hc : 16 + (uploadStream fc i d r).length ≤ c) :
    (upHistory ref fc i d r (evs ++ [.attempt c])).st = { final := some d, inc := none } := by
  rw [timing_is_irrelevant ref fc i d r h, cutsOf_append]
  exact uncut_attempt_completes ref fc i d r h (cutsOf evs) c hc

/-- The reply to a request is a function of the two names alone: two worlds that agree on them — whatever
    their clocks, modification times and past — answer alike. -/
theorem reply_ignores_time (w w' : UpWorld) (hst : w.st = w'.st) (b : Bool) :
    ((w.step ref fc i d r (.ask b)).trace.getLast?).map (·.reply) = ((w'.step ref fc i d r (.ask b)).trace.getLast?).map (·.reply) := by
  simp [UpWorld.step, hst]

-- ---------------------------------------------------------------- wave e: the declared size, explicitly

/-- **For every declared data-fork size up to 2^32 − 1 and every cut before that many bytes arrived, nothing is
    published** and the partial file grows by exactly the bytes that arrived.  The declared size `ds` is the header's
    32-bit field read as an UNSIGNED number; it is a parameter of its own here (in `uploadAttempt` it is the length of
    the client's list), so 0x7FFFFFFF, 0x80000000, 0x80000001 and 0xFFFFFFFF are instances like any other. -/
theorem declared_size_cut_publishes_nothing (hi : i.WFup) (inc : Option Bytes) (ds : Nat) (sent : Bytes)
    (hds : ds ≤ 4294967295) (hcut : sent.length < ds) :
    (uploadDeclared ref fc i { final := none, inc := inc } ds sent).final = none ∧
    (uploadDeclared ref fc i { final := none, inc := inc } ds sent).inc = some (inc.getD [] ++ sent) := by
  rw [uploadDeclared_cut ref fc i inc ds sent hi hds hcut]; exact ⟨rfl, rfl⟩

/-- … and the next resume request reports exactly the bytes held. -/
theorem declared_size_resume_offset (hi : i.WFup) (inc : Option Bytes) (ds : Nat) (sent : Bytes)
    (hds : ds ≤ 4294967295) (hcut : sent.length < ds) (hsmall : (inc.getD []).length + sent.length < 4294967296) :
    handleUploadFile (uploadDeclared ref fc i { final := none, inc := inc } ds sent) true
      = .ok (some ((inc.getD []).length + sent.length)) :=
  uploadDeclared_resume_offset ref fc i inc ds sent hi hds hcut hsmall

/-- Any number of such attempts in a row, each declaring its own size: never published, the partial file is the
    concatenation of what arrived. -/
theorem declared_size_history (hi : i.WFup) (atts : List (Nat × Bytes))
    (hall : ∀ a ∈ atts, a.1 ≤ 4294967295 ∧ a.2.length < a.1) (hne : atts ≠ []) :
    declaredRun ref fc i {} atts = { final := none, inc := some ((atts.map (·.2)).flatten) } := by
  have := declaredRun_cut ref fc i hi atts hall none hne
  simpa using this

/-- The declared-size attempt IS the ordinary attempt when the client declares what it has: `uploadAttempt` cut after
    the header and `n` data bytes is `uploadDeclared` with `ds` = the remaining length and `sent` = those `n` bytes. -/
theorem declared_agrees_with_attempt (h : ClientOK fc i d r) (k n : Nat) (inc : Option Bytes)
    (hk : k ≤ d.length) (hinc : inc.getD [] = d.take k) (hn : k + n < d.length) :
    uploadDeclared ref fc i { final := none, inc := inc } (d.length - k) ((d.drop k).take n) =
    uploadAttempt ref fc i d r { final := none, inc := inc } (16 + (56 + i.size) + n) := by
  rw [uploadDeclared_cut ref fc i inc _ _ h.info (by have := h.data; omega)
        (by rw [List.length_take, List.length_drop]; omega)]
  rw [attempt_step ref fc i d r h k _ inc hk hinc]
  have l2 := uploadStream_length fc i (d.drop k) r h.info.1
  have l3 : (d.drop k).length = d.length - k := List.length_drop
  have e1 : ¬ (16 + (56 + i.size) + n < 16) := by omega
  have e2 : ¬ (16 + (uploadStream fc i (d.drop k) r).length ≤ 16 + (56 + i.size) + n) := by
    split at l2 <;> omega
  rw [if_neg e1, if_neg e2, hinc]
  have : 16 + (56 + i.size) + n - 16 - (56 + i.size) = n := by omega
  rw [this, List.take_add]

/-! Obligations over the constants regenerated from /repo's source on every run. -/

/-- The partial file's name is the final name plus this suffix (the model's `inc` component). -/
theorem generated_incomplete_suffix :
    Generated.stringConsts.lookup "IncompleteFileSuffix" = some ".incomplete" ∧
    Generated.miscConsts.lookup "FileUpload" = some 1 := by decide

/-- The production file store answers from the file system on every call: every method of `OSFileStore` is
    one `return os.F(<its parameters>)`, the struct has no fields and its file declares no package-level
    variable — no state between calls, so `Stat(<name>.incomplete)` in `HandleUploadFile` sees what
    `UploadHandler` appended through `os.OpenFile` (the premise of `upHistory`: a request reads the names
    themselves). -/
theorem generated_file_store_is_stateless :
    (∀ m ∈ Generated.osFileStoreMethods, m.2.1 = 1 ∧ m.2.2.1 = true) ∧
    Generated.osFileStoreMethods.lookup "Stat" = some (1, true, "os.Stat") ∧
    Generated.osFileStoreMethods.lookup "Rename" = some (1, true, "os.Rename") ∧
    Generated.osFileStoreFields = [] ∧ Generated.fileStoreVars = [] := by decide

-- ---------------------------------------------------------------- non-vacuity

def exInfo : InfoFork := defaultInfo [102, 46, 116, 120, 116] (List.replicate 8 0) [84, 69, 88, 84] [116, 116, 120, 116]
def exData : Bytes := [10, 11, 12, 13, 14, 15, 16, 17, 18, 19]

example : ClientOK 2 exInfo exData [] := ⟨by decide, by decide, by decide, by decide⟩
-- header is 56 + 79 = 135 bytes: cut inside the preamble, inside the header, 3 bytes into the data, then uncut
example : uploadRun 7 2 exInfo exData [] [9] = {} := by decide
example : uploadRun 7 2 exInfo exData [] [9, 16 + 40] = { inc := some [] } := by decide
example : uploadRun 7 2 exInfo exData [] [9, 16 + 40, 16 + 135 + 3] = { inc := some [10, 11, 12] } := by decide +kernel
example : uploadRun 7 2 exInfo exData [] [9, 16 + 40, 16 + 135 + 3, 16 + 135 + 2] = { inc := some [10, 11, 12, 13, 14] } := by decide +kernel
example : uploadRun 7 2 exInfo exData [] [9, 16 + 40, 16 + 135 + 3, 16 + 135 + 2, 1000] = { final := some exData } := by decide +kernel
example : handleUploadFile { inc := some [10, 11, 12] } true = .ok (some 3) := by decide
-- fork count 3: a cut inside the resource fork leaves the data complete but unpublished
example : uploadRun 7 3 exInfo exData [1, 2] [16 + 135 + 10 + 16 + 1] = { inc := some exData } := by decide +kernel
example : uploadRun 7 3 exInfo exData [1, 2] [16 + 135 + 10 + 16 + 1, 16 + 135 + 0 + 16 + 2] = { final := some exData } := by decide +kernel

-- wave d: cut 3 bytes into the data, the partial file lies idle for a minute, resume cut 2 bytes further, an
-- immediate second resume request (no transfer), an immediate third attempt: the replies carry 3, 5, 5
example : ((upHistory 7 2 exInfo exData [] [.attempt (16 + 135 + 3), .idle 60, .touch 0 0, .attempt (16 + 135 + 2), .ask true,
    .attempt 1000]).trace.map (·.reply)) = [.ok none, .ok (some 3), .ok (some 5), .ok (some 5)] := by decide +kernel
example : (upHistory 7 2 exInfo exData [] [.attempt (16 + 135 + 3), .idle 60, .touch 0 0, .attempt (16 + 135 + 2), .ask true,
    .attempt 1000]).st = { final := some exData } := by decide +kernel
example : cutsOf [.attempt 5, .idle 60, .touch 0 0, .attempt 7, .ask true] = [5, 7] := by decide

-- wave e: 0x80000001 bytes declared, ten sent, the connection dies: nothing published, the ten bytes held, offset 10
example : uploadDeclared 7 2 exInfo {} 0x80000001 exData = { final := none, inc := some exData } := by decide +kernel
example : exInfo.WFup ∧ (0x80000001 : Nat) ≤ 4294967295 ∧ exData.length < 0x80000001 := by decide
example : handleUploadFile (uploadDeclared 7 2 exInfo {} 0x80000001 exData) true = .ok (some 10) := by decide +kernel
example : declaredRun 7 3 exInfo {} [(0xFFFFFFFF, [10, 11]), (0x80000000, [12]), (0x7FFFFFFF, [])] = { inc := some [10, 11, 12] } := by
  decide +kernel
-- the signed reading (what the model does NOT do): a declared 0x80000001 becomes −2147483647, nothing is copied, "complete"
example : copyNSigned exData (signed32 0x80000001) = ([], true) := by decide

end Mobius.C09
