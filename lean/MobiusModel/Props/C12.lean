import MobiusModel.Chat
import MobiusModel.StalledDelivery
import MobiusModel.Dispatch
import MobiusModel.Generated.Consts
import MobiusModel.Generated.Outbox
import MobiusModel.Generated.SendShape
/-!
  C12 — Chat reaches exactly its audience.

  Property theorems only (the model and its lemmas are in `Registry`, `GoFmt`, `Chat`).  `ChatWorld`
  mirrors the chat handlers over the real client table and chat manager; the correspondence
  harness runs the same histories through the Go handlers and compares every output.

  Reading of "delivered": a handler returns transactions addressed to client ids; `deliver` is
  `sendTransaction`'s lookup of the id in the client table.  The member map of a chat keeps the
  entry of a member who disconnected (the code never removes it); such an entry is harmless unless
  its id is handed to a newcomer.  The delivery theorems therefore carry `NoStaleReuse`, which
  `short_history_no_stale_reuse` proves for every history of fewer than 65 536 events (ids are
  then never reissued); beyond that see docs/C12.md.
-/
namespace Mobius.C12

/-- Every reachable state satisfies the invariant (client table sorted by distinct ids, member maps
    keyed by id) — induction over ALL histories. -/
theorem reachable_inv (es : List ChatEv) : (ChatWorld.init.after es).Inv :=
  ChatWorld.after_inv ChatWorld.Inv.init es

/-- No two connected users share an id, in every reachable state. -/
theorem registry_ids_nodup (es : List ChatEv) : (ChatWorld.init.after es).reg.ids.Nodup :=
  (reachable_inv es).reg.ids_nodup

/-- No member map lists an id twice, in every reachable state. -/
theorem member_keys_nodup (es : List ChatEv) (cid : Nat) : ((ChatWorld.init.after es).entryIds cid).Nodup :=
  ((reachable_inv es).entries_sorted cid).nodup_keys

/-- Histories shorter than the id space never hand a remembered id to a newcomer. -/
theorem short_history_no_stale_reuse (es : List ChatEv) (h : es.length < 65536) :
    (ChatWorld.init.after es).NoStaleReuse :=
  (ChatWorld.after_fresh es ChatWorld.init ChatWorld.Inv.init ChatWorld.Fresh.init (by show 0 + es.length < 65536; omega)).nsr

-- ------------------------------------------------------------------ public chat

/-- A public line from a user who may send chat: one transaction of type 106 per connected user
    whose account has read-chat (bit 9), in listing order, nobody else, each carrying the formatted
    text; routed through the client table it reaches exactly those users' connections, each once. -/
theorem public_line_audience (w : ChatWorld) (hw : w.Inv) (a r : Nat) (c : Client) (opts : Option Bytes) (msg : Bytes)
    (hg : w.reg.get a = some c) (hsend : accessBit c.access 10 = true) :
    let outs := (w.step (.send a r none opts msg)).2
    let readers := w.reg.clients.filter (fun d => accessBit d.access 9)
    outs = readers.map (fun d => mkTran 106 d.id [⟨101, chatText c.name (isEmote opts) msg⟩]) ∧
    outs.map (·.to) = readers.map (·.id) ∧ (outs.map (·.to)).Nodup ∧
    outs.filterMap (deliver w.reg) = readers.map (·.conn) ∧ (readers.map (·.conn)).Nodup := by
  intro outs readers
  have houts : outs = readers.map (fun d => mkTran 106 d.id [⟨101, chatText c.name (isEmote opts) msg⟩]) := by
    show (w.step (.send a r none opts msg)).2 = _
    simp only [ChatWorld.step, hg, stepSend, hsend, Bool.not_true, Bool.false_eq_true, if_false]
    rfl
  have hsub : readers.Sublist w.reg.clients := List.filter_sublist
  refine ⟨houts, ?_, ?_, ?_, ?_⟩
  · rw [houts, List.map_map]; rfl
  · rw [houts, List.map_map]
    exact (hw.reg.ids_nodup).sublist (hsub.map _)
  · rw [houts, List.filterMap_map]
    rw [filterMap_eq_filter_map readers _ (fun _ => true) (·.conn)]
    · rw [List.filter_eq_self.mpr (fun _ _ => rfl)]
    · intro d hd
      have hd' : d ∈ w.reg.clients := (List.mem_filter.mp hd).1
      simp [Function.comp, deliver, mkTran, Registry.get_of_mem hw.reg.sorted hd']
  · exact hw.reg.connsNodup.sublist (hsub.map _)

/-- Without send-chat the only output is the error reply to the sender. -/
theorem public_line_denied (w : ChatWorld) (a r : Nat) (c : Client) (cid : Option Nat) (opts : Option Bytes) (msg : Bytes)
    (hg : w.reg.get a = some c) (hsend : accessBit c.access 10 = false) :
    w.step (.send a r cid opts msg) = (w, [mkErr c r "You are not allowed to participate in chat."]) := by
  simp [ChatWorld.step, hg, stepSend, hsend]

/-- A privilege change takes effect at once: after an administrator's edit of an account, the readers
    of public chat are judged by the account's new access for every connected client of that account
    (and by their unchanged access for everybody else). -/
theorem public_audience_follows_account_edit (w : ChatWorld) (login access : Bytes) :
    let w' := (w.step (.accessEdit login access)).1
    (w'.reg.clients.filter (fun d => accessBit d.access 9)).map (·.id) =
      (w.reg.clients.filter (fun d => accessBit (if d.login == login then access else d.access) 9)).map (·.id) := by
  intro w'
  show (((w.reg.clients.map (editClient login access)).filter (fun d => accessBit d.access 9)).map (·.id)) = _
  rw [List.filter_map, List.map_map]
  have h1 : ((fun d : Client => accessBit d.access 9) ∘ editClient login access) =
      (fun d => accessBit (if d.login == login then access else d.access) 9) := by
    funext d
    simp only [Function.comp, editClient]
    split <;> rfl
  have h2 : ((fun d : Client => d.id) ∘ editClient login access) = (·.id) := by
    funext d; exact (editClient_keys login access d).1
  rw [h1, h2]

-- ------------------------------------------------------------------ private chat

/-- A private line: one transaction of type 106 per member of the chat (= map entry whose connection
    still holds its id; distinct ids), carrying the chat id and the formatted text; routed through
    the client table it reaches exactly the members' connections, each once, and nobody else.  No
    hypothesis about id reuse (fix 7d7f993). -/
theorem private_line_audience (w : ChatWorld) (hw : w.Inv) (a r cid : Nat) (c : Client)
    (opts : Option Bytes) (msg : Bytes) (hg : w.reg.get a = some c) (hsend : accessBit c.access 10 = true) :
    let outs := (w.step (.send a r (some cid) opts msg)).2
    outs = (w.members cid).map (fun m => mkTran 106 m.1 [⟨114, be32 cid⟩, ⟨101, chatText c.name (isEmote opts) msg⟩]) ∧
    outs.map (·.to) = w.memberIds cid ∧ (w.memberIds cid).Nodup ∧
    outs.filterMap (deliver w.reg) = (w.members cid).map (·.2) ∧
    ((w.members cid).map (·.2)).Nodup := by
  intro outs
  have houts : outs = (w.members cid).map (fun m => mkTran 106 m.1 [⟨114, be32 cid⟩, ⟨101, chatText c.name (isEmote opts) msg⟩]) := by
    show (w.step (.send a r (some cid) opts msg)).2 = _
    simp only [ChatWorld.step, hg, stepSend, hsend, Bool.not_true, Bool.false_eq_true, if_false]
  refine ⟨houts, ?_, (w.members_sorted hw cid).nodup_keys, ?_, w.members_nodup_conns hw cid⟩
  · rw [houts, List.map_map]; rfl
  · rw [houts]; exact w.members_delivery cid _ (fun _ => rfl)

/-- Who the members are, in terms of connections: `k` is a member's connection iff the map has an
    entry `(i, k)` and the client table currently gives id `i` to connection `k`. -/
theorem member_iff (w : ChatWorld) (cid : Nat) (m : Nat × Nat) :
    m ∈ w.members cid ↔ m ∈ w.entries cid ∧ (w.reg.get m.1).map (·.conn) = some m.2 := by
  unfold ChatWorld.members ChatWorld.isConnected
  simp [List.mem_filter]

/-- A subject change is announced (type 119, chat id + new subject) to the members, each once. -/
theorem subject_audience (w : ChatWorld) (hw : w.Inv) (a r cid : Nat) (c : Client) (s : Bytes)
    (hg : w.reg.get a = some c) :
    let w' := (w.step (.setSubject a r cid s)).1
    let outs := (w.step (.setSubject a r cid s)).2
    w'.members cid = w.members cid ∧
    outs = (w.members cid).map (fun m => mkTran 119 m.1 [⟨114, be32 cid⟩, ⟨115, s⟩]) ∧
    outs.filterMap (deliver w.reg) = (w.members cid).map (·.2) ∧
    ((w.members cid).map (·.2)).Nodup := by
  intro w' outs
  have he : (w.modifyChat cid fun ch => { ch with subject := s }).entries cid = w.entries cid := by
    rw [ChatWorld.entries_modifyChat_same w cid (fun ch => { ch with subject := s })]
    unfold ChatWorld.entries
    cases w.chat cid <;> rfl
  have hmm : (w.modifyChat cid fun ch => { ch with subject := s }).members cid = w.members cid := by
    show ((w.modifyChat cid fun ch => { ch with subject := s }).entries cid).filter w.isConnected = _
    rw [he]; rfl
  have hm : w'.members cid = w.members cid := by
    show (w.step (.setSubject a r cid s)).1.members cid = _
    simp only [ChatWorld.step, hg, stepSetSubject]
    exact hmm
  have houts : outs = (w.members cid).map (fun m => mkTran 119 m.1 [⟨114, be32 cid⟩, ⟨115, s⟩]) := by
    show (w.step (.setSubject a r cid s)).2 = _
    simp only [ChatWorld.step, hg, stepSetSubject]
    rw [hmm]
  refine ⟨hm, houts, ?_, w.members_nodup_conns hw cid⟩
  rw [houts]; exact w.members_delivery cid _ (fun _ => rfl)

/-- A join is announced (type 117) to the members the chat had *before* the join, each once; the
    joiner gets the one reply. -/
theorem join_notice_audience (w : ChatWorld) (hw : w.Inv) (a r cid : Nat) (c : Client)
    (hg : w.reg.get a = some c) :
    let outs := (w.step (.join a r cid)).2
    ∃ reply, outs = (w.members cid).map (fun m => mkTran 117 m.1 ([⟨114, be32 cid⟩] ++ whoFieldsFull c)) ++ [reply] ∧
      reply.isReply = true ∧ reply.to = a ∧ reply.reqId = r ∧
      ((w.members cid).map (fun m => mkTran 117 m.1 ([⟨114, be32 cid⟩] ++ whoFieldsFull c))).filterMap (deliver w.reg)
        = (w.members cid).map (·.2) ∧
      ((w.members cid).map (·.2)).Nodup := by
  intro outs
  have hid := (Registry.get_some hg).2
  have houts : ∃ fs, outs = (w.members cid).map (fun m => mkTran 117 m.1 ([⟨114, be32 cid⟩] ++ whoFieldsFull c)) ++ [mkReply c r fs] := by
    show ∃ fs, (w.step (.join a r cid)).2 = _ ++ [mkReply c r fs]
    simp only [ChatWorld.step, hg, stepJoin]
    exact ⟨_, rfl⟩
  obtain ⟨fs, houts⟩ := houts
  exact ⟨mkReply c r fs, houts, rfl, hid, rfl, w.members_delivery cid _ (fun _ => rfl), w.members_nodup_conns hw cid⟩

/-- After a join by a connected user of an existing chat, that user's connection is a member. -/
theorem join_makes_member (w : ChatWorld) (a r cid : Nat) (c : Client) (ch : PrivChat)
    (hg : w.reg.get a = some c) (hch : w.chat cid = some ch) :
    (c.id, c.conn) ∈ (w.step (.join a r cid)).1.members cid := by
  simp only [ChatWorld.step, hg, stepJoin]
  show (c.id, c.conn) ∈ ((w.modifyChat cid fun ch => { ch with members := memInsert (c.id, c.conn) ch.members }).entries cid).filter w.isConnected
  rw [ChatWorld.entries_modifyChat_same w cid (fun ch => { ch with members := memInsert (c.id, c.conn) ch.members }), hch]
  refine List.mem_filter.mpr ⟨mem_memInsert.mpr (Or.inl rfl), ?_⟩
  have hid := (Registry.get_some hg).2
  simp [ChatWorld.isConnected, hid, hg]

/-- A leave removes the leaver first and is then announced (type 118) to the remaining members, each
    once — not to the leaver. -/
theorem leave_notice_audience (w : ChatWorld) (hw : w.Inv) (a r cid : Nat) (c : Client)
    (hg : w.reg.get a = some c) :
    let w' := (w.step (.leave a r cid)).1
    let outs := (w.step (.leave a r cid)).2
    outs = (w'.members cid).map (fun m => mkTran 118 m.1 [⟨114, be32 cid⟩, ⟨103, be16 c.id⟩]) ∧
    a ∉ w'.entryIds cid ∧ (∀ m, m ∈ w'.members cid ↔ m ∈ w.members cid ∧ m.1 ≠ a) ∧
    outs.filterMap (deliver w'.reg) = (w'.members cid).map (·.2) ∧
    ((w'.members cid).map (·.2)).Nodup := by
  intro w' outs
  have hid := (Registry.get_some hg).2
  have hw' : w'.Inv := ChatWorld.step_inv hw _
  have hent : ∀ m, m ∈ (w.modifyChat cid fun ch => { ch with members := memDelete c.id ch.members }).entries cid ↔
      m ∈ w.entries cid ∧ m.1 ≠ a := by
    intro m
    rw [ChatWorld.entries_modifyChat_same w cid (fun ch => { ch with members := memDelete c.id ch.members })]
    unfold ChatWorld.entries
    cases w.chat cid with
    | none => simp
    | some ch => simp only [mem_memDelete, hid]
  have hmem : ∀ m, m ∈ w'.members cid ↔ m ∈ w.members cid ∧ m.1 ≠ a := by
    intro m
    show m ∈ (w.step (.leave a r cid)).1.members cid ↔ _
    simp only [ChatWorld.step, hg, stepLeave]
    show m ∈ ((w.modifyChat cid fun ch => { ch with members := memDelete c.id ch.members }).entries cid).filter w.isConnected ↔
      m ∈ (w.entries cid).filter w.isConnected ∧ m.1 ≠ a
    rw [List.mem_filter, List.mem_filter, hent m]
    constructor
    · rintro ⟨⟨h1, h2⟩, h3⟩; exact ⟨⟨h1, h3⟩, h2⟩
    · rintro ⟨⟨h1, h3⟩, h2⟩; exact ⟨⟨h1, h2⟩, h3⟩
  have houts : outs = (w'.members cid).map (fun m => mkTran 118 m.1 [⟨114, be32 cid⟩, ⟨103, be16 c.id⟩]) := by
    show (w.step (.leave a r cid)).2 = ((w.step (.leave a r cid)).1.members cid).map _
    simp only [ChatWorld.step, hg, stepLeave]
  refine ⟨houts, (w.leave_removes a r cid c hg).1, hmem, ?_, w'.members_nodup_conns hw' cid⟩
  rw [houts]; exact w'.members_delivery cid _ (fun _ => rfl)

/-- A declined invitation is announced (type 106, "<name> declined invitation to chat") to the
    members, each once; the map is unchanged (the decliner is not added). -/
theorem decline_notice_audience (w : ChatWorld) (hw : w.Inv) (a r cid : Nat) (c : Client)
    (hg : w.reg.get a = some c) :
    (w.step (.decline a r cid)).1 = w ∧
    (w.step (.decline a r cid)).2 = (w.members cid).map (fun m =>
      mkTran 106 m.1 [⟨114, be32 cid⟩, ⟨101, c.name ++ str " declined invitation to chat"⟩]) ∧
    (w.step (.decline a r cid)).2.filterMap (deliver w.reg) = (w.members cid).map (·.2) ∧
    ((w.members cid).map (·.2)).Nodup := by
  have houts : (w.step (.decline a r cid)).2 = (w.members cid).map (fun m =>
      mkTran 106 m.1 [⟨114, be32 cid⟩, ⟨101, c.name ++ str " declined invitation to chat"⟩]) := by
    simp only [ChatWorld.step, hg, stepDecline]
  refine ⟨by simp only [ChatWorld.step, hg, stepDecline], houts, ?_, w.members_nodup_conns hw cid⟩
  rw [houts]; exact w.members_delivery cid _ (fun _ => rfl)

/-- A user who disconnected is no longer a member, although its entry stays in the map. -/
theorem disconnected_is_no_member (w : ChatWorld) (hw : w.Inv) (a cid : Nat) (c : Client) (hg : w.reg.get a = some c) :
    ∀ m ∈ (w.step (.disconnect a)).1.members cid, m.1 ≠ a := by
  intro m hm heq
  have hcm := Registry.get_some hg
  simp only [ChatWorld.step, hg, stepDisconnect] at hm
  have hc : ChatWorld.isConnected { w with reg := w.reg.delete c.id, gone := c :: w.gone } m = true := (List.mem_filter.mp hm).2
  unfold ChatWorld.isConnected at hc
  simp only at hc
  cases hgd : (w.reg.delete c.id).get m.1 with
  | none => simp [hgd] at hc
  | some d =>
    have hd := Registry.get_some hgd
    have := (List.mem_filter.mp hd.1).2
    simp only [bne_iff_ne, ne_eq] at this
    exact this (by rw [hd.2, heq, hcm.2])

-- ------------------------------------------------------------------ text

/-- The delivered text: CR, the name right-aligned / cut to 13 runes, ":  ", the message — or, with
    options = 00 01, CR "*** " name " " message — cut to 8192 bytes. -/
theorem chat_text_format (name msg : Bytes) :
    chatText name false msg = ([0x0d] ++ pad13 name ++ [0x3a, 0x20, 0x20] ++ msg).take 8192 ∧
    chatText name true msg = ([0x0d, 0x2a, 0x2a, 0x2a, 0x20] ++ name ++ [0x20] ++ msg).take 8192 ∧
    (∀ e, (chatText name e msg).length ≤ 8192) := by
  refine ⟨rfl, ?_, ?_⟩
  · unfold chatText
    simp only [if_true]
    rfl
  intro e
  unfold chatText
  simp only [limitChatMsg, List.length_take]
  omega

/-- `%13.13s`: up to 13 spaces followed by a prefix of the name (its first 13 runes). -/
theorem name_column (name : Bytes) : ∃ k pre, k ≤ 13 ∧ pad13 name = List.replicate k 0x20 ++ pre ∧ pre <+: name :=
  pad13_shape name

/-- Only options = 00 01 selects the emote form. -/
theorem emote_iff (opts : Option Bytes) : isEmote opts = true ↔ opts = some [0, 1] := by
  unfold isEmote; simp

-- ------------------------------------------------------------------ left / declined ⇒ silent

/-- Somebody whose id is not in the member map of a chat is addressed by none of that chat's traffic
    (lines, join / leave / subject notices), through any continuation of the history in which that id
    does not join (or create) the chat. -/
theorem nonmember_is_silent (w : ChatWorld) (i cid : Nat) (hcid : cid < 4294967296)
    (hnot : i ∉ w.entryIds cid) (es : List ChatEv) (hwf : ∀ e ∈ es, e.WF)
    (hno : ∀ e ∈ es, e.joins i cid = false) :
    ∀ os ∈ (w.run es).2, ∀ o ∈ os, o.chatTraffic cid = true → o.to ≠ i := by
  induction es generalizing w with
  | nil => intro os h; cases h
  | cons e es ih =>
    intro os hos o ho ht
    have hrun : (w.run (e :: es)).2 = (w.step e).2 :: ((w.step e).1.run es).2 := rfl
    rw [hrun] at hos
    rcases List.mem_cons.mp hos with rfl | hos'
    · intro heq
      have := w.traffic_to_members e (hwf e (by simp)) cid hcid o ho ht
      rw [heq] at this
      exact hnot (w.memberIds_subset cid this)
    · exact ih (w.step e).1 (w.nonmember_preserved e i cid hnot (hno e (by simp)))
        (fun e' he' => hwf e' (by simp [he'])) (fun e' he' => hno e' (by simp [he'])) os hos' o ho ht

/-- After `leave` by a connected user, no output of that chat is addressed to it until it joins again. -/
theorem left_is_silent (w : ChatWorld) (i r cid : Nat) (c : Client) (hg : w.reg.get i = some c)
    (hcid : cid < 4294967296) (es : List ChatEv) (hwf : ∀ e ∈ es, e.WF) (hno : ∀ e ∈ es, e.joins i cid = false) :
    ∀ os ∈ (w.run (.leave i r cid :: es)).2, ∀ o ∈ os, o.chatTraffic cid = true → o.to ≠ i := by
  intro os hos o ho ht
  have hrun : (w.run (.leave i r cid :: es)).2 = (w.step (.leave i r cid)).2 :: ((w.step (.leave i r cid)).1.run es).2 := rfl
  rw [hrun] at hos
  have hl := w.leave_removes i r cid c hg
  rcases List.mem_cons.mp hos with rfl | hos'
  · exact hl.2 o ho
  · exact nonmember_is_silent _ i cid hcid hl.1 es hwf hno os hos' o ho ht

/-- Somebody who declines an invitation (not being a member) is addressed by none of the chat's
    traffic — not even the decline notice — until it joins. -/
theorem decliner_is_silent (w : ChatWorld) (i r cid : Nat) (hcid : cid < 4294967296) (hnot : i ∉ w.entryIds cid)
    (es : List ChatEv) (hwf : ∀ e ∈ es, e.WF) (hno : ∀ e ∈ es, e.joins i cid = false) :
    ∀ os ∈ (w.run (.decline i r cid :: es)).2, ∀ o ∈ os, o.chatTraffic cid = true → o.to ≠ i :=
  nonmember_is_silent w i cid hcid hnot (.decline i r cid :: es)
    (by intro e he; rcases List.mem_cons.mp he with rfl | he
        · intro c hc; simp only [ChatEv.chatId, Option.some.injEq] at hc; omega
        · exact hwf e he)
    (by intro e he; rcases List.mem_cons.mp he with rfl | he
        · rfl
        · exact hno e he)

/-- Connection level, and the strongest form: a connection `k` (holding id `i`) that has no entry in
    the map of chat `cid` is reached by none of that chat's traffic, through any continuation in which
    id `i` does not join (or create) the chat — whatever ids are reissued meanwhile, and also while an
    entry for id `i` made by an *earlier* holder of that id is still in the map. -/
theorem unjoined_connection_is_silent (w : ChatWorld) (hw : w.Inv) (k i cid : Nat) (hcid : cid < 4294967296)
    (hout : w.Outside k i cid) (es : List ChatEv) (hwf : ∀ e ∈ es, e.WF) (hno : ∀ e ∈ es, e.joins i cid = false) :
    ∀ p ∈ w.trace es, ∀ o ∈ p.2, o.chatTraffic cid = true → deliver p.1 o ≠ some k := by
  induction es generalizing w with
  | nil => intro p hp; cases hp
  | cons e es ih =>
    intro p hp o ho ht
    have htr : w.trace (e :: es) = (w.reg, (w.step e).2) :: (w.step e).1.trace es := rfl
    rw [htr] at hp
    rcases List.mem_cons.mp hp with rfl | hp'
    · exact hout.not_reached e (hwf e (by simp)) hcid o ho ht
    · exact ih (w.step e).1 (ChatWorld.step_inv hw e) (hout.step hw e (hno e (by simp)))
        (fun e' he' => hwf e' (by simp [he'])) (fun e' he' => hno e' (by simp [he'])) p hp' o ho ht

/-- A newcomer — whatever id it is handed, even one a departed member of some chat used to hold — is
    outside every chat: after its login it has no entry anywhere. -/
theorem newcomer_is_outside (w : ChatWorld) (hw : w.Inv) (he : w.EntOK) (l an ac nm ic : Bytes) (r' : Registry) (c : Client)
    (ha : w.reg.add (newClient l an ac nm ic) = some (r', c)) (cid : Nat) :
    (w.step (.login l an ac nm ic)).1.Outside c.conn c.id cid := by
  obtain ⟨hinv', _, _, _, hconn, _, _, hser, hmem⟩ := Registry.add_spec hw.reg ha
  have hw1 : (w.step (.login l an ac nm ic)).1 = { w with reg := r' } := by
    simp only [ChatWorld.step, stepLogin, ha]
  rw [hw1]
  refine ⟨?_, ?_, by show c.conn < r'.serial; omega⟩
  · intro m hm hk
    have := (he.entries (w := w) (cid := cid) hm).1
    omega
  · intro x hx hxc
    have hc : c ∈ r'.clients := (hmem c).mpr (Or.inl rfl)
    rw [eq_of_nodup_map hinv'.connsNodup hx hc hxc]

/-- After `leave` by a connected user its connection has no entry in that chat any more. -/
theorem leaver_is_outside (w : ChatWorld) (hw : w.Inv) (he : w.EntOK) (a r cid : Nat) (c : Client)
    (hg : w.reg.get a = some c) : (w.step (.leave a r cid)).1.Outside c.conn a cid := by
  have hc := Registry.get_some hg
  have hrem := (w.leave_removes a r cid c hg).1
  have he' := ChatWorld.step_entOK hw he (.leave a r cid)
  have hreg : (w.step (.leave a r cid)).1.reg = w.reg := by
    simp only [ChatWorld.step, hg, stepLeave, ChatWorld.modifyChat]
  refine ⟨?_, ?_, by rw [hreg]; exact hw.reg.conns c hc.1⟩
  · intro m hm hk
    have h2 := (he'.entries hm).2 c (by rw [hreg]; exact hc.1) hk.symm
    exact hrem (List.mem_map.mpr ⟨m, hm, by rw [← h2, hc.2]⟩)
  · intro x hx hxc
    rw [hreg] at hx
    rw [eq_of_nodup_map hw.reg.connsNodup hx hc.1 hxc, hc.2]

/-- `EntOK` holds in every reachable state. -/
theorem reachable_entOK (es : List ChatEv) : (ChatWorld.init.after es).EntOK :=
  ChatWorld.after_entOK ChatWorld.Inv.init ChatWorld.EntOK.init es

-- the behaviour BEFORE fix 7d7f993, kept as a witness: bob (id 2, connection 1) joined chat 99 and
-- disconnected; the id space wrapped and id 2 was handed to a newcomer (connection 7) who never joined.
private def staleWorld : ChatWorld :=
  { reg := ⟨65538, 8, [⟨1, 0, [], [], [0, 0x70, 0, 0, 0, 0, 0, 0], [0x61], [0, 0], 0, [], true⟩,
                       ⟨2, 7, [], [], [0, 0x70, 0, 0, 0, 0, 0, 0], [0x6e], [0, 0], 0, [], true⟩]⟩,
    gone := [⟨2, 1, [], [], [0, 0x70, 0, 0, 0, 0, 0, 0], [0x62], [0, 0], 0, [], true⟩],
    chats := [⟨99, [], [(1, 0), (2, 1)]⟩] }

/-- One transaction per *map entry* (what `Members()` returned before the fix) reaches the newcomer's
    connection 7, which has no entry in the chat; one per *member* (after the fix) reaches connection 0
    only.  The state satisfies the invariants of reachable states. -/
theorem stale_entry_reached_newcomer_before_fix :
    staleWorld.reg.Inv ∧ staleWorld.EntOK ∧ ¬ staleWorld.NoStaleReuse ∧
    ((staleWorld.entries 99).map fun m => mkTran 106 m.1 []).filterMap (deliver staleWorld.reg) = [0, 7] ∧
    (staleWorld.step (.send 1 5 (some 99) none [0x68])).2.filterMap (deliver staleWorld.reg) = [0] := by
  refine ⟨⟨by unfold SortedIds; decide, by decide, by decide, by decide⟩, by unfold ChatWorld.EntOK; decide, ?_,
    by decide +kernel, by decide +kernel⟩
  intro h
  have := h ⟨99, [], [(1, 0), (2, 1)]⟩ (by decide) (2, 1) (by decide)
    ⟨2, 7, [], [], [0, 0x70, 0, 0, 0, 0, 0, 0], [0x6e], [0, 0], 0, [], true⟩ (by decide) rfl
  cases this

-- ------------------------------------------------------------------ wave d: recipients that do not read

/-- **A chat history reaches every READING member of its audiences exactly once, whatever the others do.**
    `chatSends` are the goroutines `processOutbox` starts for a chat history (every output of every handler,
    routed through the client table).  Under ANY schedule of their writes and ANY pattern of connections that
    stop / resume reading (`evs`: any event list that starts exactly those goroutines, in any order), once
    nothing deliverable is pending, a connection that reads has been handed exactly the transactions the
    history addresses to it, each once. -/
theorem reading_member_receives_exactly_its_traffic (es : List ChatEv) (evs : List (NetEv Out)) (k : Nat)
    (hs : (Net.spawned evs).Perm (chatSends ChatWorld.init es))
    (hq : (Net.run {} evs).Quiet) (hk : (Net.run {} evs).reads k = true) :
    ((Net.run {} evs).inbox k).Perm (((chatSends ChatWorld.init es).filter (·.to == k)).map (·.item)) :=
  (Net.reader_inbox_exact evs k hq hk).trans ((hs.filter (·.to == k)).map (·.item))

/-- **Delivery to each recipient is independent**: the lines a reading client receives do not depend on
    whether another recipient ever reads — two runs of the same history's goroutines, one in which some
    connections never read and one in which everybody reads, hand `k` the same transactions. -/
theorem delivery_independent_of_other_recipients (evs evs' : List (NetEv Out)) (k : Nat)
    (hs : (Net.spawned evs).Perm (Net.spawned evs'))
    (hq : (Net.run {} evs).Quiet) (hk : (Net.run {} evs).reads k = true)
    (hq' : (Net.run {} evs').Quiet) (hk' : (Net.run {} evs').reads k = true) :
    ((Net.run {} evs).inbox k).Perm ((Net.run {} evs').inbox k) :=
  Net.inbox_independent_of_non_readers evs evs' k hs hq hk hq' hk'

/-- **Non-readers cannot hold delivery up**: from every state of the dispatcher a schedule of writes alone
    (no event of the stalled connections) reaches a state in which nothing deliverable is pending. -/
theorem non_readers_cannot_block_delivery (n : Net Out) :
    ∃ fs : List Nat, (n.run (fs.map .fire)).Quiet ∧ (n.run (fs.map .fire)).stalled = n.stalled :=
  n.exists_quiet_schedule

/-- Nothing is lost or duplicated on the way, under every schedule (also for the connections that do not read:
    their transactions stay pending and are handed over when they read again). -/
theorem nothing_lost_nothing_duplicated (evs : List (NetEv Out)) :
    ((Net.run {} evs).delivered ++ (Net.run {} evs).pending).Perm (Net.spawned evs) := by
  simpa using Net.conservation ({} : Net Out) evs

/-- The contrast (what the regenerated facts below exclude): with ONE server-wide lock held across the
    `Write`, as soon as a goroutine blocks on a non-reader no schedule hands anything to anybody. -/
theorem server_wide_lock_would_starve_everybody (l : LockNet Out) (s : Send Out) (h : l.holder = some s) (fs : List Nat) :
    fs.foldl LockNet.fire l = l :=
  LockNet.stuck l s h fs

-- ------------------------------------------------------------------ replies (used by C14 as well)

/-- Every chat request yields at most one reply-flagged transaction; it is addressed to the requester
    and carries the request's id.  (Login and disconnect produce no reply at all.) -/
theorem step_replies (w : ChatWorld) (e : ChatEv) :
    match e.actor with
    | some a => ReplyOK a e.req (w.step e).2
    | none => (w.step e).2 = [] := by
  cases e with
  | accessEdit l ac => rfl
  | login l an ac nm ic =>
    simp only [ChatEv.actor, ChatWorld.step, stepLogin]
    split <;> rfl
  | disconnect a =>
    simp only [ChatEv.actor, ChatWorld.step]
    split
    · exact ReplyOK.nil
    · exact ReplyOK.nonreplies (by intro o ho; obtain ⟨x, _, rfl⟩ := List.mem_map.mp ho; rfl)
  | inviteNew a r t c' =>
    simp only [ChatEv.actor, ChatEv.req, ChatWorld.step]
    split
    · exact ReplyOK.nil
    · rename_i c hg
      have hid := (Registry.get_some hg).2
      simp only [stepInviteNew]
      split
      · exact ReplyOK.append_reply (l := []) (by intro o h; cases h) hid rfl
      · split
        · exact ReplyOK.nil
        · exact ReplyOK.append_reply (l := [_]) (by
            intro o ho; simp only [List.mem_singleton] at ho; subst ho; split <;> rfl) hid rfl
  | invite a r t c' =>
    simp only [ChatEv.actor, ChatEv.req, ChatWorld.step]
    split
    · exact ReplyOK.nil
    · rename_i c hg
      have hid := (Registry.get_some hg).2
      simp only [stepInvite]
      split
      · exact ReplyOK.append_reply (l := []) (by intro o h; cases h) hid rfl
      · exact ReplyOK.append_reply (l := [_]) (by
          intro o ho; simp only [List.mem_singleton] at ho; subst ho; rfl) hid rfl
  | join a r c' =>
    simp only [ChatEv.actor, ChatEv.req, ChatWorld.step]
    split
    · exact ReplyOK.nil
    · rename_i c hg
      have hid := (Registry.get_some hg).2
      simp only [stepJoin]
      exact ReplyOK.append_reply (by intro o ho; obtain ⟨x, _, rfl⟩ := List.mem_map.mp ho; rfl) hid rfl
  | leave a r c' =>
    simp only [ChatEv.actor, ChatEv.req, ChatWorld.step]
    split
    · exact ReplyOK.nil
    · exact ReplyOK.nonreplies (by intro o ho; obtain ⟨x, _, rfl⟩ := List.mem_map.mp ho; rfl)
  | decline a r c' =>
    simp only [ChatEv.actor, ChatEv.req, ChatWorld.step]
    split
    · exact ReplyOK.nil
    · exact ReplyOK.nonreplies (by intro o ho; obtain ⟨x, _, rfl⟩ := List.mem_map.mp ho; rfl)
  | setSubject a r c' s =>
    simp only [ChatEv.actor, ChatEv.req, ChatWorld.step]
    split
    · exact ReplyOK.nil
    · exact ReplyOK.nonreplies (by intro o ho; obtain ⟨x, _, rfl⟩ := List.mem_map.mp ho; rfl)
  | send a r c' o m =>
    simp only [ChatEv.actor, ChatEv.req, ChatWorld.step]
    split
    · exact ReplyOK.nil
    · rename_i c hg
      have hid := (Registry.get_some hg).2
      simp only [stepSend]
      split
      · exact ReplyOK.append_reply (l := []) (by intro o h; cases h) hid rfl
      · split <;> exact ReplyOK.nonreplies (by intro o ho; obtain ⟨x, _, rfl⟩ := List.mem_map.mp ho; rfl)

/-! Obligations over the constants regenerated from /repo's source on every run. -/

theorem generated_limit : Generated.miscConsts.lookup "LimitChatMsg" = some limitChatMsg := by decide

theorem generated_access_bits :
    Generated.accessConsts.lookup "AccessReadChat" = some 9 ∧
    Generated.accessConsts.lookup "AccessSendChat" = some 10 ∧
    Generated.accessConsts.lookup "AccessOpenChat" = some 11 ∧
    Generated.accessConsts.lookup "AccessDisconUser" = some 22 := by decide

theorem generated_chat_types :
    (["TranChatSend", "TranChatMsg", "TranServerMsg", "TranInviteNewChat", "TranInviteToChat", "TranRejectChatInvite",
      "TranJoinChat", "TranLeaveChat", "TranNotifyChatChangeUser", "TranNotifyChatDeleteUser", "TranNotifyChatSubject",
      "TranSetChatSubject", "TranNotifyDeleteUser"].map fun n => Generated.tranTypes.lookup n) =
    [some 105, some 106, some 104, some 112, some 113, some 114, some 115, some 116, some 117, some 118, some 119,
      some 120, some 302] := by decide

theorem generated_chat_fields :
    (["FieldError", "FieldData", "FieldUserName", "FieldUserID", "FieldUserIconID", "FieldChatOptions", "FieldUserFlags",
      "FieldOptions", "FieldChatID", "FieldChatSubject", "FieldUsernameWithInfo"].map fun n => Generated.fieldIDs.lookup n) =
    [some 100, some 101, some 102, some 103, some 104, some 109, some 112, some 113, some 114, some 115, some 300] := by decide

/-- `sendTransaction` makes exactly the lookup, the serialisation and ONE write; besides that write nothing
    in it can block (no mutex, condition variable, semaphore, channel operation, nothing deferred), and
    `processOutbox` starts a goroutine per transaction and itself only waits for the outbox: the shape
    `Net.step` models (each send its own process, enabled by its own connection alone).  A lock around the
    write is `LockNet` (`server_wide_lock_would_starve_everybody`). -/
theorem generated_send_holds_no_lock :
    Generated.sendCalls = ["ClientMgr.Get", "io.ReadAll", "Connection.Write"] ∧
    Generated.sendBlocking = [] ∧ Generated.sendDeferred = [] ∧
    Generated.dispatchSpawns = true ∧ Generated.dispatchBlocking = ["recv s.outbox"] := by decide

-- ------------------------------------------------------------------ non-vacuity

private def demoAccess : Bytes := [0x00, 0x70, 0, 0, 0, 0, 0, 0]   -- read, send, open chat
private def demo : List ChatEv :=
  [.login [117] [65] demoAccess [0x61] [0, 1], .login [118] [66] demoAccess [0x62] [0, 2],
   .login [119] [67] [0, 0x20, 0, 0, 0, 0, 0, 0] [0x63] [0, 3],
   .inviteNew 1 7 2 99, .join 2 8 99, .join 3 9 99, .leave 3 10 99]

-- three users, a chat with members 1 and 2 after 3 left; user 3 has send-chat only
example : (ChatWorld.init.after demo).entryIds 99 = [1, 2] := by decide +kernel
example : (ChatWorld.init.after demo).reg.ids = [1, 2, 3] := by decide +kernel
example : (ChatWorld.init.after demo).NoStaleReuse := short_history_no_stale_reuse demo (by decide)
-- a public line from user 3 goes to users 1 and 2 (readers) and not back to 3 (no read-chat)
example : ((ChatWorld.init.after demo).step (.send 3 11 none none [0x68, 0x69])).2.map (·.to) = [1, 2] := by decide +kernel
-- a private line goes to the two remaining members
example : ((ChatWorld.init.after demo).step (.send 3 11 (some 99) (some [0, 1]) [0x68, 0x69])).2.map (·.to) = [1, 2] := by
  decide +kernel
example : chatText [0x62, 0x6f, 0x62] false [0x68, 0x69] =
    [0x0d, 0x20, 0x20, 0x20, 0x20, 0x20, 0x20, 0x20, 0x20, 0x20, 0x20, 0x62, 0x6f, 0x62, 0x3a, 0x20, 0x20, 0x68, 0x69] := by
  decide +kernel
-- an invalid UTF-8 byte counts as one rune and is copied through
example : pad13 [0xff, 0xc3, 0xa9] = List.replicate 11 0x20 ++ [0xff, 0xc3, 0xa9] := by decide +kernel

-- wave d: users 1 and 2 are sent a line each (connections 0 and 1); connection 1 does not read.  Whatever the
-- schedule, connection 0 is handed its line; with a server-wide lock and the blocked write first, nothing moves.
private def twoSends : List (NetEv Nat) := [.stall 1, .spawn ⟨1, 10⟩, .spawn ⟨0, 20⟩, .fire 0, .fire 1, .fire 0]
example : (Net.run {} twoSends).inbox 0 = [20] ∧ (Net.run {} twoSends).pending.map (·.to) = [1] := by decide
example : (Net.run {} twoSends).Quiet := by
  intro s hs
  have : (Net.run {} twoSends).pending = [⟨1, 10⟩] := by decide
  rw [this] at hs; simp at hs; subst hs; decide
example : (Net.run {} (twoSends ++ [.resume 1, .fire 0])).inbox 1 = [10] := by decide
example : ([0, 0, 1, 0].foldl LockNet.fire ({ net := { pending := [⟨1, 10⟩, ⟨0, 20⟩], stalled := [1] } } : LockNet Nat)).net.delivered = [] := by
  decide
-- the goroutines of the demo history followed by a public line of user 3: (connection, type) — the line (106) goes to
-- connections 0 and 1
example : (chatSends ChatWorld.init (demo ++ [.send 3 11 none none [0x68, 0x69]])).map (fun s => (s.to, s.item.ty)) =
    [(1, 113), (0, 0), (0, 117), (1, 0), (0, 117), (1, 117), (2, 0), (0, 118), (1, 118), (0, 106), (1, 106)] := by
  decide +kernel

-- ------------------------------------------------------------------ wave e: the dispatcher in front of the goroutines

/-- **Each spawned send carries its own transaction.**  `processOutbox` as a process of its own: it receives the
    outbox's transactions one by one, each into the variable of that iteration, and starts a goroutine closing over it.
    Under every schedule of receives, completed writes, stalls and resumes, what was delivered, what is blocked in a
    goroutine and what is still in the outbox are together a permutation of what the handlers put on the outbox. -/
theorem dispatcher_conserves_transactions (ob : List (Send Out)) (evs : List Dispatch.Ev) :
    (Dispatch.all (Dispatch.run { outbox := ob } evs)).Perm ob := by
  simpa [Dispatch.all] using Dispatch.conservation ({ outbox := ob } : Dispatch.St Out) evs

/-- Hence for a chat history: once the dispatcher has received everything and no goroutine is blocked, every
    connection's inbox is — as a multiset, under every schedule — exactly the transactions the history addressed to it,
    each once (a burst of any length to any number of readers included). -/
theorem burst_inboxes_exactly_once (es : List ChatEv) (evs : List Dispatch.Ev) (k : Nat)
    (hr : (Dispatch.run { outbox := chatSends ChatWorld.init es } evs).outbox = [])
    (hp : (Dispatch.run { outbox := chatSends ChatWorld.init es } evs).net.pending = []) :
    ((Dispatch.run { outbox := chatSends ChatWorld.init es } evs).net.inbox k).Perm
      (((chatSends ChatWorld.init es).filter (·.to == k)).map (·.item)) :=
  Dispatch.inbox_exactly_once _ evs k hr hp

/-- The contrast (NOT the code): one variable shared by all iterations.  Two transactions, the second received
    before the first goroutine read the variable: one reader gets its line twice, the other nothing. -/
theorem shared_variable_dispatcher_loses_and_duplicates :
    let s := Shared.run ({ outbox := [⟨1, 10⟩, ⟨2, 20⟩] } : Shared.St Nat) [.recv, .recv, .read, .read, .fire 0, .fire 0]
    s.outbox = [] ∧ s.unread = 0 ∧ s.net.pending = [] ∧ s.net.inbox 1 = [] ∧ s.net.inbox 2 = [20, 20] :=
  Shared.loses_and_duplicates

-- non-vacuity: the demo history's sends through the dispatcher, received one by one and written in reverse order
example : let ob := chatSends ChatWorld.init (demo ++ [.send 1 11 none none [0x68, 0x69]])
    let s := Dispatch.run { outbox := ob } ((List.replicate ob.length Dispatch.Ev.recv) ++ (List.replicate ob.length (Dispatch.Ev.fire 0)))
    s.outbox = [] ∧ s.net.pending = [] ∧ s.net.delivered.length = ob.length := by decide +kernel

end Mobius.C12
