import MobiusModel.Tree
import MobiusModel.TreeAlias
import MobiusModel.Generated.Consts
import MobiusModel.Generated.FormatCalls
/-!
  C10 — Folder transfers reproduce the tree, item by item.

  Property theorems only (helper lemmas live in `Tree` / `Transfers`).  `Node.walk` is
  `filepath.Walk`; `Node.itemCount` mirrors `CalcItemCount`, `downloadFolder` mirrors
  `DownloadFolderHandler`'s dialogue, `upItem` / `uploadItems` mirror `UploadFolderHandler`'s loop;
  `fileHeader`, `ffoHeader`, `forkHeader`, `uploadStream` are the reference layouts of `Wire.lean`.

  All statements hold for every tree (any depth, fan-out, names, contents, side files), every script
  of client actions and every store the upload starts from; the only hypotheses are the property's
  own ("visible root name"), that sizes fit the protocol's fields, and — for uploads of whole trees —
  that sibling names are distinct (as in any directory).
-/
namespace Mobius.C10

-- ---------------------------------------------------------------- order of the walk

/-- **Depth-first order**: the walk of a folder is the folder itself, then — in byte-lexical order of
    their names — the complete walks of its children, each child's relative path being the folder's
    path extended by the child's own name. -/
theorem walk_is_depth_first (n : Bytes) (kids : List Node) (p : List Bytes) :
    (Node.dir n kids).walk p =
      ⟨p, n, none⟩ :: ((sortBy nodeLe kids).flatMap fun k => k.walk (p ++ [k.name])) :=
  walk_dir n kids p

/-- **Exactly once**: the walk is a permutation of the plain traversal of the tree — every node of
    the tree yields one callback, and every callback is a node of the tree. -/
theorem walk_visits_each_node_once (t : Node) (p : List Bytes) : (t.walk p).Perm (t.preorder p) :=
  walk_perm_preorder t p

/-- **An alias of a folder is one folder item without children**: its walk is the single entry of the alias
    (nothing below the target is visited under the alias's path), its header announces a folder, and nothing
    follows the header whatever the client answers. -/
theorem folder_alias_is_one_folder_item (n : Bytes) (p : List Bytes) (a : Action) :
    (Node.folderAlias n).walk p = [⟨p, n, none⟩] ∧
    (⟨p, n, none⟩ : Entry).isDir = true ∧
    (⟨p, n, none⟩ : Entry).header = fileHeader (joinSlash p) true ∧
    (itemOut ⟨p, n, none⟩ a).body = [] :=
  ⟨walk_folderAlias n p, rfl, rfl, by simp [itemOut]⟩

-- ---------------------------------------------------------------- item count = item headers

/-- **The announced item count (reply field 220) equals the number of item headers sent** to a client
    that answers every header, whatever its answers are. -/
theorem count_equals_headers (t : Node) (acts : List Action) (hroot : dotName t.name = false)
    (hfit : t.items.length < 65536) (hacts : t.items.length ≤ acts.length) :
    t.itemCount = ((downloadFolder t acts).map (·.header)).length := by
  unfold downloadFolder
  rw [downloadItems_headers _ _ hacts, List.length_map]
  unfold Node.itemCount
  rw [items_length t hroot]; omega

/-- **Headers = the visible entries, once each, in walk order**: entries whose own name starts with a
    dot are skipped, everything else below the requested folder gets exactly one header. -/
theorem headers_are_visible_entries (t : Node) (acts : List Action) (hacts : t.items.length ≤ acts.length) :
    (downloadFolder t acts).map (·.header) =
      (((t.walk []).drop 1).filter fun e => !dotName e.name).map Entry.header := by
  unfold downloadFolder
  rw [downloadItems_headers _ _ hacts]
  rfl

/-- **Each visible file and sub-folder exactly once**: the items are a permutation of the visible
    nodes of the tree below the requested folder (plain traversal, which lists every node once). -/
theorem items_are_the_visible_nodes_once (t : Node) :
    t.items.Perm (((t.preorder []).drop 1).filter Entry.visible) :=
  (walk_tail_perm_preorder t []).filter _

/-- **Paths are relative to the requested folder**: an item header is the size (2 + encoded path
    length), the kind (1 = folder), and the path items of the entry's relative path, one per component. -/
theorem header_encodes_relative_path (e : Entry) (hne : e.path ≠ []) (h : ∀ c ∈ e.path, (47 : UInt8) ∉ c) :
    e.header = be16 ((pathEncode e.path).length + 2) ++ be16 (if e.isDir then 1 else 0) ++ pathEncode e.path := by
  unfold Entry.header fileHeader encodeFilePath
  rw [splitSlash_joinSlash e.path hne h]

/-- Every answered item is the entry's header followed by what the action asks for. -/
theorem items_follow_actions (t : Node) (acts : List Action) (hacts : t.items.length ≤ acts.length) :
    downloadFolder t acts = (t.items.zip acts).map fun p => itemOut p.1 p.2 :=
  downloadItems_bodies _ _ hacts

-- ---------------------------------------------------------------- per action: size prefix and bytes

/-- **Skip** (action 3) and folders: nothing follows the item header. -/
theorem nothing_follows_skip_or_folder (e : Entry) (a : Action) :
    (e.file = none → (itemOut e a).body = []) ∧ (itemOut e .next).body = [] := by
  constructor
  · intro h; simp [itemOut, h]
  · unfold itemOut; cases e.file <;> simp [fileBody]

/-- **Send** (action 1): the 4-byte size prefix announces header + data + stored resource fork bytes;
    what follows is the flattened-file header, the whole data fork and, for fork count 3, the MACR
    fork header and the stored fork. -/
theorem send_bytes (e : Entry) (f : StoredFile) (he : e.file = some f) (h : f.WF) :
    (itemOut e .send).body = be32 (f.hdrLen + f.data.length + f.rsrcSize) ++ (f.header 0 ++ (f.data ++
      (if f.forkCount = 3 then forkHeader macr f.rsrcSize ++ f.rsrc.getD [] else []))) ∧
    rd32 (itemOut e .send).body = f.hdrLen + f.data.length + f.rsrcSize ∧
    ((itemOut e .send).body.drop 4).length = f.hdrLen + f.data.length + (if f.forkCount = 3 then 16 + f.rsrcSize else 0) := by
  have hts := transferSize_value f 0 h (Nat.zero_le _)
  simp only [Nat.sub_zero] at hts
  have hb : (itemOut e .send).body = be32 (f.hdrLen + f.data.length + f.rsrcSize) ++ (f.header 0 ++ (f.data ++
      (if f.forkCount = 3 then forkHeader macr f.rsrcSize ++ f.rsrc.getD [] else []))) := by
    simp [itemOut, he, fileBody, hts]
  have hl : (f.header 0).length = f.hdrLen := by
    unfold StoredFile.header StoredFile.hdrLen; exact ffoHeader_length _ _ _ h.1
  refine ⟨hb, ?_, ?_⟩
  · rw [hb, rd32_be32_append]; have := h.2.2.2; omega
  · rw [hb, List.drop_left' (be32_length _)]
    simp only [List.length_append, hl]
    split <;> simp [StoredFile.rsrcSize] <;> omega

/-- Send, two forks and no stored resource fork: exactly `prefix` bytes follow the prefix.
    Send, three forks: `prefix + 16` bytes follow (the MACR fork header is not counted). -/
theorem send_prefix_vs_bytes (e : Entry) (f : StoredFile) (he : e.file = some f) (h : f.WF) :
    (f.forkCount = 2 → f.rsrc = none → ((itemOut e .send).body.drop 4).length = rd32 (itemOut e .send).body) ∧
    (f.forkCount = 3 → ((itemOut e .send).body.drop 4).length = rd32 (itemOut e .send).body + 16) := by
  obtain ⟨_, hp, hl⟩ := send_bytes e f he h
  rw [hp, hl]
  constructor
  · intro h2 hr; simp [h2, StoredFile.rsrcSize, hr]
  · intro h3; simp [h3]; omega

/-- **Resume from k** (action 2): the prefix announces header + remaining data + stored resource fork
    bytes; what follows is the header and the data fork from offset `k` to its end — nothing else. -/
theorem resume_bytes (e : Entry) (f : StoredFile) (k : Nat) (he : e.file = some f) (h : f.WF) (hk : k ≤ f.data.length) :
    (itemOut e (.resume k)).body = be32 (f.hdrLen + (f.data.length - k) + f.rsrcSize) ++ (f.header 0 ++ f.data.drop k) ∧
    rd32 (itemOut e (.resume k)).body = f.hdrLen + (f.data.length - k) + f.rsrcSize ∧
    (f.rsrc = none → ((itemOut e (.resume k)).body.drop 4).length = rd32 (itemOut e (.resume k)).body) := by
  have hts := transferSize_value f k h hk
  have hb : (itemOut e (.resume k)).body = be32 (f.hdrLen + (f.data.length - k) + f.rsrcSize) ++ (f.header 0 ++ f.data.drop k) := by
    simp [itemOut, he, fileBody, hts]
  have hl : (f.header 0).length = f.hdrLen := by
    unfold StoredFile.header StoredFile.hdrLen; exact ffoHeader_length _ _ _ h.1
  have hp : rd32 (itemOut e (.resume k)).body = f.hdrLen + (f.data.length - k) + f.rsrcSize := by
    rw [hb, rd32_be32_append]; have := h.2.2.2; omega
  refine ⟨hb, hp, fun hr => ?_⟩
  rw [hp, hb, List.drop_left' (be32_length _)]
  simp [hl, StoredFile.rsrcSize, hr]

/-- What the reference client obtains from a sent or resumed item: exactly the file's data from the
    offset it asked for. -/
theorem client_recovers_item_data (e : Entry) (f : StoredFile) (k : Nat) (he : e.file = some f) (h : f.WF)
    (hk : k ≤ f.data.length) :
    (∃ rest, splitDownload ((itemOut e .send).body.drop 4) f.data.length = some (f.effInfo.encode, f.data, rest)) ∧
    splitDownload ((itemOut e (.resume k)).body.drop 4) (f.data.length - k) = some (f.effInfo.encode, f.data.drop k, []) := by
  have hisz : f.effInfo.size < 4294967296 := by have := h.2.2.2; simp only [StoredFile.hdrLen] at this; omega
  constructor
  · refine ⟨(if f.forkCount = 3 then forkHeader macr f.rsrcSize ++ f.rsrc.getD [] else []), ?_⟩
    rw [(send_bytes e f he h).1, List.drop_left' (be32_length _)]
    unfold StoredFile.header
    rw [splitDownload_header _ _ _ _ f.data.length h.1 hisz (by simp)]
    rw [List.take_left' rfl, List.drop_left' rfl]
  · rw [(resume_bytes e f k he h hk).1, List.drop_left' (be32_length _)]
    unfold StoredFile.header
    have hl : (f.data.drop k).length = f.data.length - k := List.length_drop
    rw [splitDownload_header _ _ _ _ (f.data.length - k) h.1 hisz (by omega)]
    rw [← hl, List.take_length, List.drop_length]

/-- **An alias whose target is gone is the empty file it is announced as**: one file entry; on "send" (and on
    "resume 0") the size prefix announces exactly the flattened-file header that follows, no data byte and no
    trailer follow, and the dialogue goes on with the next item (`items_follow_actions`). -/
theorem dangling_alias_is_an_empty_file (n : Bytes) (p : List Bytes) (hn : n.length < 65536) :
    (Node.danglingAlias n).walk p = [⟨p, n, some (danglingFile n)⟩] ∧
    (itemOut ⟨p, n, some (danglingFile n)⟩ .send).body =
      be32 (danglingFile n).hdrLen ++ (danglingFile n).header 0 ∧
    (itemOut ⟨p, n, some (danglingFile n)⟩ (.resume 0)).body =
      be32 (danglingFile n).hdrLen ++ (danglingFile n).header 0 ∧
    ((itemOut ⟨p, n, some (danglingFile n)⟩ .send).body.drop 4).length = rd32 (itemOut ⟨p, n, some (danglingFile n)⟩ .send).body := by
  have hw := danglingFile_WF n hn
  obtain ⟨hb, hp, hl⟩ := send_bytes ⟨p, n, some (danglingFile n)⟩ (danglingFile n) rfl hw
  obtain ⟨rb, _, _⟩ := resume_bytes ⟨p, n, some (danglingFile n)⟩ (danglingFile n) 0 rfl hw (Nat.zero_le _)
  have hfc : (danglingFile n).forkCount = 2 := rfl
  have hrs : (danglingFile n).rsrcSize = 0 := rfl
  have hd : (danglingFile n).data = [] := rfl
  refine ⟨walk_file _ p, ?_, ?_, ?_⟩
  · rw [hb, hfc, hrs, hd]; simp
  · rw [rb, hrs, hd]; simp
  · rw [hp, hl, hfc, hrs, hd]; simp

-- ---------------------------------------------------------------- folder upload, item by item

/-- **Already complete → skipped**: a file item whose name exists (and has no partial file) is answered
    "next file" and nothing changes, whatever the client would have sent. -/
theorem complete_file_is_skipped (fs : Fs) (it : UpItem) (cut : Option Nat) (hf : it.isDir = false)
    (x : Final) (hx : (fs.get it.path).final = some x) (hinc : (fs.get it.path).inc = none) :
    (upItem fs it cut).ok = true ∧ (upItem fs it cut).wrote = [0, 3] ∧ (upItem fs it cut).fs = fs :=
  upItem_existing_file fs it cut hf x hx hinc

/-- **Partial → resumed**: a file item whose partial file holds the first `k` bytes is answered "resume"
    with resume data carrying `k`; the client's remaining bytes complete it to exactly the client's
    file, published under the final name, and the partial file is gone. -/
theorem partial_file_is_resumed (fs : Fs) (it : UpItem) (k : Nat) (hf : it.isDir = false) (hok : it.OK)
    (hk : k ≤ it.data.length) (hinc : (fs.get it.path).inc = some (it.data.take k)) :
    fs.answer it.path = .resume k ∧ (upItem fs it none).ok = true ∧
    (upItem fs it none).wrote = (Answer.resume k).bytes ++ [0, 3] ∧
    (upItem fs it none).fs = fs.set it.path { final := some (.file it.data) } :=
  upItem_resume_file fs it k hf hok hk hinc

/-- **New file → received**: answered "send", published with exactly the client's bytes. -/
theorem new_file_is_received (fs : Fs) (it : UpItem) (hf : it.isDir = false) (hok : it.OK)
    (hfree : fs.get it.path = {}) (hpar : fs.parentOK it.path = true) :
    (upItem fs it none).ok = true ∧ (upItem fs it none).wrote = [0, 1] ++ [0, 3] ∧
    (upItem fs it none).fs = fs.set it.path { final := some (.file it.data) } :=
  upItem_fresh_file fs it hf hok hfree hpar

/-- **Folders** are created when absent and left alone when present; both are answered "next file". -/
theorem folder_items (fs : Fs) (it : UpItem) (cut : Option Nat) (hd : it.isDir = true) :
    (fs.get it.path = {} → fs.parentOK it.path = true →
      (upItem fs it cut).ok = true ∧ (upItem fs it cut).wrote = [0, 3] ∧ (upItem fs it cut).fs = fs.set it.path { final := some .dir }) ∧
    (∀ x, (fs.get it.path).final = some x →
      (upItem fs it cut).ok = true ∧ (upItem fs it cut).wrote = [0, 3] ∧ (upItem fs it cut).fs = fs) :=
  ⟨upItem_folder fs it cut hd, fun x hx => upItem_existing_folder fs it cut hd x hx⟩

/-- **Nothing else is touched**: an item changes only its own name. -/
theorem item_touches_only_its_name (fs : Fs) (it : UpItem) (cut : Option Nat) (q : List Bytes) (hq : it.path ≠ q) :
    (upItem fs it cut).fs.get q = fs.get q :=
  upItem_frame fs it cut q hq

/-- A cut inside a new file item leaves exactly the received data prefix in the partial file, no final
    name, and ends the session (so that a later session resumes from there, by `partial_file_is_resumed`). -/
theorem cut_item_leaves_prefix (fs : Fs) (it : UpItem) (n : Nat) (hf : it.isDir = false) (hok : it.OK)
    (hfree : fs.get it.path = {}) (hpar : fs.parentOK it.path = true) (h4 : 4 ≤ n)
    (hcut : n < 4 + (uploadStream it.fc it.info it.data it.rsrc).length) :
    (upItem fs it (some n)).ok = false ∧
    (upItem fs it (some n)).fs.get it.path = { final := none, inc := some (it.data.take (n - 4 - (56 + it.info.size))) } :=
  upItem_cut_file fs it n hf hok hfree hpar h4 hcut

-- ---------------------------------------------------------------- whole sessions

/-- **A session over any store**: if every streamed item is, at its turn, new (free name below an
    existing folder), already there, or partially there (the partial file holding a prefix of the
    client's data), the loop accepts all of them — answering send / next-file / resume with the
    partial file's size — and ends with exactly the store the items describe (`Session`). -/
theorem session_skips_complete_and_resumes_partial (fs fs' : Fs) (its : List UpItem) (ws : List Bytes)
    (h : Session fs its fs' ws) :
    uploadItems fs (its.map fun it => (it, none)) = (fs', ws, true) :=
  uploadItems_session fs fs' its ws h

/-- **Streaming again what is already complete changes nothing**: every item is answered "next file". -/
theorem reupload_changes_nothing (fs : Fs) (its : List UpItem)
    (h : ∀ it ∈ its, (∃ x, (fs.get it.path).final = some x) ∧ (fs.get it.path).inc = none) :
    uploadItems fs (its.map fun it => (it, none)) = (fs, its.map (fun _ => [0, 3]), true) :=
  uploadItems_session fs fs its _ (session_all_present fs its h)

-- ---------------------------------------------------------------- whole trees

/-- **A folder upload recreates exactly what was streamed**: streaming any tree (sibling names
    distinct, sizes within the protocol's fields) into an empty upload folder is accepted item by
    item; afterwards every streamed folder exists, every streamed file holds exactly the client's
    bytes, and no other name exists. -/
theorem upload_recreates_tree (n : Bytes) (kids : List Node) (hg : (Node.dir n kids).Good) :
    let its := (Node.dir n kids).clientStream
    let res := uploadItems [] (its.map fun it => (it, none))
    res.2.2 = true ∧
    (∀ it ∈ its, res.1.get it.path = if it.isDir then { final := some .dir } else { final := some (.file it.data) }) ∧
    (∀ q, (∀ it ∈ its, it.path ≠ q) → res.1.get q = {}) := by
  intro its res
  have hok := clientStream_ok n kids hg
  have hres : res = (applyItems [] its, its.map UpItem.freshWrote, true) := uploadItems_streamOK [] its hok
  obtain ⟨h1, h2⟩ := applyItems_get [] its hok
  rw [hres]
  refine ⟨rfl, ?_, ?_⟩
  · intro it hit
    have := h1 it hit
    simp only [UpItem.slot] at this
    exact this
  · intro q hq; exact h2 q hq

/-- **Upload, then download, returns the same tree**: after `upload_recreates_tree` the store holds
    exactly the walk of `t`; for any tree `t'` read back from it — same relative paths, names, kinds
    and data in its walk, whatever the modification times and side files — a folder download sends
    the same item headers in the same order, and the same data for every file. -/
theorem download_after_upload_same_tree (t t' : Node) (acts : List Action)
    (hsame : (t'.walk []).map Entry.content = (t.walk []).map Entry.content)
    (hacts : t.items.length ≤ acts.length) :
    (downloadFolder t' acts).map (·.header) = (downloadFolder t acts).map (·.header) ∧
    t'.items.map (fun e => e.file.map (·.data)) = t.items.map (fun e => e.file.map (·.data)) := by
  have hd : ((t'.walk []).drop 1).map Entry.content = ((t.walk []).drop 1).map Entry.content := by
    rw [List.map_drop, List.map_drop, hsame]
  obtain ⟨h1, h2⟩ := headers_of_same_content _ _ hd
  have hlen : t'.items.length = t.items.length := by
    have := congrArg List.length h1
    simpa [Node.items] using this
  unfold downloadFolder
  rw [downloadItems_headers _ _ hacts, downloadItems_headers _ _ (by omega)]
  exact ⟨h1, h2⟩

-- ---------------------------------------------------------------- wave d: aliases carry their link string

/-- **An absolute link string leads to the same place wherever the alias is stored; a relative one is resolved from
    the folder that holds the alias** — the definition has no other input (no working directory). -/
theorem alias_resolution (d d' : List Bytes) (l : LinkStr) :
    (l.isAbs = true → resolveAt d l = resolveAt d' l) ∧
    (l.isAbs = false → resolveAt d l = normalize d l.comps) ∧
    (l.isAbs = false → Plain l.comps → resolveAt d l = d ++ l.comps) :=
  ⟨resolveAt_abs d d' l, resolveAt_rel d l, resolveAt_rel_plain d l⟩

/-- **The relative link string from a folder to a target (`ln -s` / `filepath.Rel`), resolved from that folder, is the
    target** — for every folder and every target. -/
theorem relative_alias_reaches_its_target (d t : List Bytes) (ht : Plain t) : resolveAt d (relOf d t) = t :=
  resolveAt_relOf d t ht

/-- `../x/real.txt` stored in `/srv/Files/tree/sub` leads to `/srv/Files/tree/x/real.txt`; the same string resolved
    from another directory (a server's working directory, say `/opt/mobius`) leads elsewhere — the defect class. -/
example :
    resolveAt [[115, 114, 118], [70], [116], [115, 117, 98]] ⟨false, [dotdot, [120], [114]]⟩ = [[115, 114, 118], [70], [116], [120], [114]] ∧
    resolveAt [[111, 112, 116], [109]] ⟨false, [dotdot, [120], [114]]⟩ = [[111, 112, 116], [120], [114]] ∧
    relOf [[115, 114, 118], [70], [116], [115, 117, 98]] [[115, 114, 118], [70], [116], [120], [114]] = ⟨false, [dotdot, [120], [114]]⟩ := by decide

/-- **Whatever it leads to, an alias is exactly one item** under its own name at its own place in the walk. -/
theorem alias_is_one_item (what : Option Obj) (n ty cr : Bytes) (p : List Bytes) :
    ∃ f, (aliasNode what n ty cr).walk p = [⟨p, n, f⟩] :=
  aliasNode_walk what n ty cr p

/-- **The per-item size prefix covers aliases**: an alias leading to a regular file holding `data` is sent — on
    "send" — as size prefix ++ flattened-file header ++ exactly `data`, the prefix announcing exactly the bytes that
    follow; on "resume k" as prefix ++ header ++ `data.drop k`, again with an exact prefix. -/
theorem alias_of_file_item (n data mtime ty cr : Bytes) (p : List Bytes) (k : Nat)
    (hwf : (aliasFile n data mtime ty cr).WF) (hk : k ≤ data.length) :
    let f := aliasFile n data mtime ty cr
    let e : Entry := ⟨p, n, some f⟩
    (aliasNode (some (.file data mtime)) n ty cr).walk p = [e] ∧
    (itemOut e .send).body = be32 (f.hdrLen + data.length) ++ (f.header 0 ++ data) ∧
    ((itemOut e .send).body.drop 4).length = rd32 (itemOut e .send).body ∧
    (itemOut e (.resume k)).body = be32 (f.hdrLen + (data.length - k)) ++ (f.header 0 ++ data.drop k) ∧
    ((itemOut e (.resume k)).body.drop 4).length = rd32 (itemOut e (.resume k)).body := by
  intro f e
  have hfc : f.forkCount = 2 := rfl
  have hrs : f.rsrcSize = 0 := rfl
  have hr : f.rsrc = none := rfl
  have hd : f.data = data := rfl
  obtain ⟨hb, _, _⟩ := send_bytes e f rfl hwf
  obtain ⟨rb, _, rl⟩ := resume_bytes e f k rfl hwf (by rw [hd]; exact hk)
  refine ⟨walk_file _ p, ?_, ((send_prefix_vs_bytes e f rfl hwf).1 hfc hr), ?_, rl hr⟩
  · rw [hb, hfc, hrs, hd]; simp
  · rw [rb, hrs, hd]; simp

/-- Non-vacuity: an alias `l.txt` of a 5-byte file. -/
example : (aliasFile [108, 46, 116, 120, 116] [1, 2, 3, 4, 5] (List.replicate 8 0) [84, 69, 88, 84] [116, 116, 120, 116]).WF := by decide

/-- A tree with aliases, elaborated folder by folder: `r/{sub/{up → ../a, abs → /w/r/a, gone → nope}, a}` stored at `/w`. -/
example :
    let w : List Bytes → Option Obj := fun p => if p = [[119], [114], [97]] then some (.file [7, 7, 7] (List.replicate 8 0)) else if p = [[119], [114]] then some .dir else none
    let t : ANode := .dir [114] [.dir [115] [.alias [117] ⟨false, [dotdot, [97]]⟩ [84, 69, 88, 84] [84, 84, 88, 84],
      .alias [98] ⟨true, [[119], [114], [97]]⟩ [84, 69, 88, 84] [84, 84, 88, 84], .alias [103] ⟨false, [[110]]⟩ [84, 69, 88, 84] [84, 84, 88, 84],
      .alias [100] ⟨false, [dotdot, dotdot, [114]]⟩ [84, 69, 88, 84] [84, 84, 88, 84]], .file { name := [97], data := [7, 7, 7] }]
    ((t.elab w [[119]]).items.map fun e => (e.path, e.file.map (·.data))) =
      [([[97]], some [7, 7, 7]), ([[115]], none), ([[115], [98]], some [7, 7, 7]), ([[115], [100]], none), ([[115], [103]], some []), ([[115], [117]], some [7, 7, 7])] := by
  decide

-- ---------------------------------------------------------------- wave d: side files are named after the item only

/-- **The side files of an item live in the item's own folder under `<prefix><name>`, whatever bytes the item's name
    holds** (`%` included): `fmt.Sprintf` with the constant templates `.info_%s` / `.rsrc_%s` copies its argument
    verbatim — the folder is joined on afterwards and never passes through a format string. -/
theorem side_file_path (dir : List Bytes) (pre name : Bytes) (h : (37 : UInt8) ∉ pre) :
    sidePath dir pre name = some (dir ++ [pre ++ name]) := by
  simp [sidePath, sprintfS_prefix_template pre name h]

/-- `.info_` / `.rsrc_` hold no `%`; an item `50% off` in a folder `100%` has its information fork at `100%/.info_50% off`.
    Formatting the JOINED path instead (`Sprintf(Join(dir, template), name)`) does not even produce a path: -/
example :
    sidePath [[49, 48, 48, 37]] [46, 105, 110, 102, 111, 95] [53, 48, 37, 32, 111, 102, 102] =
      some [[49, 48, 48, 37], [46, 105, 110, 102, 111, 95, 53, 48, 37, 32, 111, 102, 102]] ∧
    sprintfS ([49, 48, 48, 37, 47] ++ [46, 105, 110, 102, 111, 95, 37, 115]) [[120]] = none := by decide

/-! Obligations over the constants regenerated from /repo's source on every run. -/

/-- The action codes of the item dialogue (`Answer.bytes`, `Action`) and the transfer types. -/
theorem generated_folder_actions :
    Generated.miscConsts.lookup "DlFldrActionSendFile" = some 1 ∧
    Generated.miscConsts.lookup "DlFldrActionResumeFile" = some 2 ∧
    Generated.miscConsts.lookup "DlFldrActionNextFile" = some 3 ∧
    Generated.miscConsts.lookup "FolderDownload" = some 2 ∧
    Generated.miscConsts.lookup "FolderUpload" = some 3 ∧
    Generated.stringConsts.lookup "IncompleteFileSuffix" = some ".incomplete" := by decide

/-- The side-file templates are `.info_%s` / `.rsrc_%s`: a `%`-free prefix followed by the single verb `%s` — the shape
    `side_file_path` is about (prefixes `.info_`, `.rsrc_`). -/
theorem generated_side_file_templates :
    (Generated.stringConsts.lookup "InfoForkNameTemplate").map (fun s => s.toList.map Char.toNat) = some ([46, 105, 110, 102, 111, 95] ++ [37, 115]) ∧
    (Generated.stringConsts.lookup "RsrcForkNameTemplate").map (fun s => s.toList.map Char.toNat) = some ([46, 114, 115, 114, 99, 95] ++ [37, 115]) ∧
    (37 : UInt8) ∉ ([46, 105, 110, 102, 111, 95] : Bytes) ∧ (37 : UInt8) ∉ ([46, 114, 115, 114, 99, 95] : Bytes) := by decide

/-- Every format string handed to a `fmt` formatting function in hotline/ and internal/mobius/ is a compile-time
    constant — no path or client-supplied name is ever interpreted as a format — with the one exception of the
    configured news template in `HandleTranOldPostNews` (not a file path; C10 does not depend on it). -/
theorem generated_format_strings_are_constants :
    ∀ e ∈ Generated.nonConstantFormats, e.2.1 = "HandleTranOldPostNews" := by decide

example : Generated.formatCallCount > 50 := by decide

-- ---------------------------------------------------------------- non-vacuity

def fA : StoredFile := { name := [97], data := [1, 2, 3, 4, 5, 6] }
def fDot : StoredFile := { name := [46, 104], data := [9] }
def fB : StoredFile := { name := [98], data := [7, 8], info := some { defaultInfo [98] (List.replicate 8 0) [84, 69, 88, 84] [116, 116, 120, 116] with comment := [33] } }
/-- root "r" { "b" (info fork), ".d" { "x" }, "a", ".h" } — children stored out of order -/
def exTree : Node := .dir [114] [.file fB, .dir [46, 100] [.file { name := [120], data := [5] }], .file fA, .file fDot]

example : (exTree.walk []).map (·.path) = [[], [[46, 100]], [[46, 100], [120]], [[46, 104]], [[97]], [[98]]] := by decide
example : exTree.items.map (·.path) = [[[46, 100], [120]], [[97]], [[98]]] := by decide
example : exTree.itemCount = 3 := by decide
example : fA.WF ∧ fB.WF := by decide
example : exTree.Good := by
  simp [exTree, Node.Good, Node.GoodKids, Node.name, fA, fB, fDot, StoredFile.effInfo, defaultInfo, InfoFork.WFup, InfoFork.fixedWF]
example : ((downloadFolder exTree [.send, .resume 4, .next]).map (·.body.length)) = [4 + 131 + 1, 4 + 131 + 2, 0] := by decide +kernel
example : (uploadItems [] (exTree.clientStream.map fun it => (it, none))).2.2 = true := by decide +kernel
-- a session: "a" partially there (2 of 6 bytes), "b" complete, "c" new
def exFs : Fs := [([[98]], { final := some (.file [7]) }), ([[97]], { inc := some [1, 2] })]
example : Session exFs
    [Entry.toItem ⟨[[97]], [97], some fA⟩, { path := [[98]], isDir := false, data := [7, 8] }, { path := [[99]], isDir := true }]
    (Fs.set (Fs.set exFs [[97]] { final := some (.file fA.data) }) [[99]] { final := some .dir })
    [(Answer.resume 2).bytes ++ [0, 3], [0, 3], [0, 3]] :=
  .cons (.resumed 2 rfl (Or.inr ⟨by decide, by decide, by decide, by decide⟩) (by decide) rfl)
    (.cons (.present (.file [7]) rfl (Or.inr rfl))
      (.cons (.fresh (Or.inl rfl) rfl rfl) (.nil _)))
example : (upItem [([[97]], { inc := some [1, 2] })] (Entry.toItem ⟨[[97]], [97], some fA⟩) none).fs.get [[97]] = { final := some (.file [1, 2, 3, 4, 5, 6]) } := by decide +kernel

end Mobius.C10
