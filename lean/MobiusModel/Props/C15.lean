import MobiusModel.Accounts
import MobiusModel.AccountsWire
import MobiusModel.AccountsFault
import MobiusModel.Generated.InitBranch
/-!
  C15 — Accounts: what can log in = what is listed = what is on disk.

  Property theorems only (definitions and helper lemmas: `MobiusModel/Accounts.lean`).
  `Env` carries the parameters: bcrypt (`hash`, `verify`, assumed `Env.Sound`), NAME_MAX.
  "Legal" histories = every login a request names is a legal file name (`LegalLogin`:
  non-empty, not "." / "..", no '/', no NUL) — the property's quantifier.
-/
namespace Mobius.C15
open Mobius.Accounts PathAlg

variable {H : Type}

/-! ### File names -/

/-- For a legal login the two file-name computations of the manager
    (`path.Join("/", login+".yaml")` in Create/Delete, `path.Join("/", login)+".yaml"` in Update)
    both give `login ++ ".yaml"`. -/
theorem file_name_of_legal_login (l : Login) (h : LegalLogin l) :
    fileC l = l ++ yamlExt ∧ fileU l = l ++ yamlExt :=
  ⟨fileC_legal h, fileU_legal h⟩

/-- The file name is injective on legal logins (two accounts never share a file). -/
theorem file_name_injective (a b : Login) (ha : LegalLogin a) (hb : LegalLogin b) :
    (fileC a = fileC b → a = b) ∧ (fileU a = fileU b → a = b) ∧ (fileC a = fileU b → a = b) := by
  rw [fileC_legal ha, fileC_legal hb, fileU_legal ha, fileU_legal hb]
  exact ⟨yaml_inj, yaml_inj, yaml_inj⟩

/-- Outside the legal logins the two computations DO differ (why legality is a hypothesis). -/
theorem file_name_illegal_differs : fileC dot ≠ fileU dot ∧ fileC [120, 47, 46, 46, 47, 98] = fileC [98] := by decide

example : LegalLogin [97, 100, 109, 105, 110] := by decide
example : LegalLogin [0xff, 0x80, 32, 126] := by decide            -- not UTF-8, space, '~'
example : ¬ LegalLogin [97, 47, 98] ∧ ¬ LegalLogin dotdot ∧ ¬ LegalLogin [] := by decide

/-! ### The invariant over all histories -/

/-- MAIN THEOREM.  After ANY history of new-user, set-user, batched update-user (create / modify /
    rename / delete mixed), delete-user, get-user, list-users, login attempts and restarts with legal
    logins, started in an agreeing state: an account is in memory under login `l` iff the file
    `l.yaml` holds exactly that account with that login inside. -/
theorem mem_disk_agree (env : Env H) (st : State H) (h0 : Inv st) (ops : List Op) (hl : ∀ o ∈ ops, o.Legal)
    (l : Login) (a : Account H) :
    (run env st ops).mem.get l = some a ↔
      ((run env st ops).disk.get (l ++ yamlExt) = some a ∧ a.login = l) := by
  have hi := run_inv env ops st h0 hl
  constructor
  · intro hm
    obtain ⟨h1, _, h3⟩ := hi.mem_ok l a hm
    exact ⟨h3, h1⟩
  · intro ⟨hd, hlg⟩
    have := (hi.disk_ok _ a hd).2
    rw [hlg] at this; exact this

/-- … and the accounts directory contains nothing else: every file is `<login inside it>.yaml`
    of a legal login that is in memory. -/
theorem disk_has_only_accounts (env : Env H) (st : State H) (h0 : Inv st) (ops : List Op) (hl : ∀ o ∈ ops, o.Legal)
    (f : FileName) (a : Account H) (hf : (run env st ops).disk.get f = some a) :
    f = a.login ++ yamlExt ∧ LegalLogin a.login ∧ (run env st ops).mem.get a.login = some a := by
  have hi := run_inv env ops st h0 hl
  obtain ⟨h1, h2⟩ := hi.disk_ok f a hf
  exact ⟨h1, (hi.mem_ok _ a h2).2.1, h2⟩

/-- What can log in = what is listed (with a matching password) = what is on disk. -/
theorem can_login_iff (env : Env H) (st : State H) (h0 : Inv st) (ops : List Op) (hl : ∀ o ∈ ops, o.Legal)
    (l : Login) (pw : Bytes) :
    let s := run env st ops
    (canLogin env s l pw = true ↔ listed s l = true ∧ ∃ a, s.mem.get l = some a ∧ env.verify a.hash pw = true) ∧
    (canLogin env s l pw = true ↔ ∃ a, s.disk.get (l ++ yamlExt) = some a ∧ a.login = l ∧ env.verify a.hash pw = true) ∧
    (listed s l = true ↔ ∃ a, (l, a) ∈ s.mem.toList) ∧
    (listed s l = true ↔ ∃ a, a ∈ listAccts s ∧ a.login = l) := by
  intro s
  have hagree := mem_disk_agree env st h0 ops hl l
  have hi := run_inv env ops st h0 hl
  refine ⟨?_, ?_, ?_, ?_⟩
  · unfold canLogin listed
    cases hm : s.mem.get l with
    | none => simp
    | some a => simp
  · unfold canLogin
    cases hm : s.mem.get l with
    | none =>
      simp only [Bool.false_eq_true, false_iff]
      intro ⟨a, hd, hlg, _⟩
      have := (hagree a).mpr ⟨hd, hlg⟩
      rw [hm] at this; cases this
    | some a =>
      simp only
      constructor
      · intro hv
        obtain ⟨hd, hlg⟩ := (hagree a).mp hm
        exact ⟨a, hd, hlg, hv⟩
      · intro ⟨b, hd, hlg, hv⟩
        have := (hagree b).mpr ⟨hd, hlg⟩
        rw [hm] at this; cases this; exact hv
  · unfold listed
    constructor
    · intro h
      cases hm : s.mem.get l with
      | none => rw [hm] at h; cases h
      | some a => exact ⟨a, (AMap.mem_toList_iff _ _ _).mpr hm⟩
    · intro ⟨a, ha⟩
      rw [(AMap.mem_toList_iff _ _ _).mp ha]; rfl
  · unfold listed listAccts
    constructor
    · intro h
      cases hm : s.mem.get l with
      | none => rw [hm] at h; cases h
      | some a =>
        exact ⟨a, List.mem_map.mpr ⟨(l, a), (AMap.mem_toList_iff _ _ _).mpr hm, rfl⟩, (hi.mem_ok l a hm).1⟩
    · intro ⟨a, ha, hlg⟩
      obtain ⟨e, he, hea⟩ := List.mem_map.mp ha
      obtain ⟨k, b⟩ := e
      simp only at hea; subst hea
      have hk := (AMap.mem_toList_iff _ _ _).mp he
      have := (hi.mem_ok k b hk).1
      rw [hlg] at this; subst this
      rw [hk]; rfl

/-- Restarting the server from the files yields the same accounts. -/
theorem restart_same_accounts (env : Env H) (st : State H) (h0 : Inv st) (ops : List Op) (hl : ∀ o ∈ ops, o.Legal)
    (l : Login) : (load (run env st ops).disk).get l = (run env st ops).mem.get l :=
  load_eq_mem _ (run_inv env ops st h0 hl) l

/-- Passwords are stored only as hashes: every stored password field is a value of `hash`,
    in memory and in every file, after any history (the clear text never reaches the store). -/
theorem stored_password_is_hash (env : Env H) (st : State H) (h0 : Inv st) (hh : HashedMem env st)
    (ops : List Op) (hl : ∀ o ∈ ops, o.Legal) :
    (∀ l a, (run env st ops).mem.get l = some a → ∃ p, a.hash = env.hash p) ∧
    (∀ f a, (run env st ops).disk.get f = some a → ∃ p, a.hash = env.hash p) := by
  have key : Inv (run env st ops) ∧ HashedMem env (run env st ops) := by
    induction ops generalizing st with
    | nil => exact ⟨h0, hh⟩
    | cons o rest ih =>
      simp only [run, List.foldl_cons]
      exact ih _ (step_inv env st o h0 (hl o (by simp))) (step_hashed env st o h0 hh)
        (fun p hp => hl p (by simp [hp]))
  refine ⟨key.2, ?_⟩
  intro f a hf
  exact key.2 _ a (key.1.disk_ok f a hf).2

/-! ### Password semantics -/

/-- What `verify` says about the three password cases, under the bcrypt assumption. -/
theorem password_rule (env : Env H) (hs : env.Sound) (old : H) (q : Bytes) :
    (∀ p, p ≠ [0] → (env.verify (pwUpdate env old (some p)) q = true ↔ q = p)) ∧
    (env.verify (pwUpdate env old (some [0])) q = env.verify old q) ∧
    (env.verify (pwUpdate env old none) q = true ↔ q = []) := by
  refine ⟨?_, ?_, ?_⟩
  · intro p hp
    simp only [pwUpdate, hp, if_false]
    rw [hs]; exact eq_comm
  · simp [pwUpdate]
  · simp only [pwUpdate]
    rw [hs]; exact eq_comm

/-- set-user (353) on an existing account: name and privileges are replaced, the password follows
    the rule (new value hashed / single zero byte = unchanged / absent = hash of ""), in memory AND
    in the file; no other login is touched. -/
theorem set_user_effect (env : Env H) (fs : List Field) (st : State H) (hi : Inv st) (acc : Account H)
    (hacc : st.mem.get (obfuscate (fieldData 105 fs)) = some acc)
    (hlen : (acc.login ++ yamlExt).length ≤ env.nameMax) :
    let a' : Account H := { acc with name := fieldData 102 fs,
                                     access := copyAccess acc.access (fieldData 110 fs),
                                     hash := pwUpdate env acc.hash (getField 106 fs) }
    let st' := (handleSetUser env fs st).1
    st'.mem.get acc.login = some a' ∧ st'.disk.get (acc.login ++ yamlExt) = some a' ∧
    (∀ k, k ≠ acc.login → st'.mem.get k = st.mem.get k) := by
  intro a' st'
  obtain ⟨h1, h2, _⟩ := hi.mem_ok _ _ hacc
  have hleg : LegalLogin acc.login := by rw [h1]; exact h2
  have hst : st' = ⟨st.mem.set acc.login a', st.disk.set (acc.login ++ yamlExt) a'⟩ := by
    show (handleSetUser env fs st).1 = _
    unfold handleSetUser
    simp only [hacc]
    have := update_same env a' st hleg hlen
    simp only [a'] at this ⊢
    rw [this]
  rw [hst]
  refine ⟨by simp, by simp, ?_⟩
  intro k hk
  simp [AMap.get_set, hk]

/-- Consequence for logins: after set-user the login accepts exactly the new password / the same
    passwords as before (marker) / exactly the empty password (field absent). -/
theorem set_user_login (env : Env H) (hs : env.Sound) (fs : List Field) (st : State H) (hi : Inv st)
    (acc : Account H) (hacc : st.mem.get (obfuscate (fieldData 105 fs)) = some acc)
    (hlen : (acc.login ++ yamlExt).length ≤ env.nameMax) (q : Bytes) :
    let st' := (handleSetUser env fs st).1
    (∀ p, getField 106 fs = some p → p ≠ [0] → (canLogin env st' acc.login q = true ↔ q = p)) ∧
    (getField 106 fs = some [0] → canLogin env st' acc.login q = canLogin env st acc.login q) ∧
    (getField 106 fs = none → (canLogin env st' acc.login q = true ↔ q = [])) := by
  intro st'
  have h := (set_user_effect env fs st hi acc hacc hlen).1
  have hlg : st.mem.get acc.login = some acc := by
    have := (hi.mem_ok _ _ hacc).1
    rw [this]; exact hacc
  have hr := password_rule env hs acc.hash q
  refine ⟨?_, ?_, ?_⟩
  · intro p hp hne
    simp only [canLogin, st', h, hp]
    exact hr.1 p hne
  · intro hp
    simp only [canLogin, st', h, hp, hlg]
    exact hr.2.1
  · intro hp
    simp only [canLogin, st', h, hp]
    exact hr.2.2

/-- One modify / rename sub-record of update-user (349) for an existing account `old`
    (`data` field = its login when renaming, `login` field = the login it shall have afterwards):
    afterwards login `n` holds the account with the new name, privileges (if sent) and password
    (rule as above), and when the login changed the OLD login is gone from memory and disk. -/
theorem update_user_record_effect (env : Env H) (fs : List Field) (st : State H) (hi : Inv st)
    (hn1 : fs.length ≠ 1) (lg nm : Bytes) (hlg : getField 105 fs = some lg) (hnm : getField 102 fs = some nm)
    (acc : Account H)
    (hacc : st.mem.get (accountToUpdate fs (obfuscate lg)) = some acc)
    (hleg : LegalLogin (obfuscate lg)) (hlen : (obfuscate lg ++ yamlExt).length ≤ env.nameMax)
    (hfree : acc.login ≠ obfuscate lg → st.mem.get (obfuscate lg) = none) :
    let n := obfuscate lg
    let a' : Account H := { login := n, name := nm,
                            hash := pwUpdate env acc.hash (getField 106 fs),
                            access := match getField 110 fs with
                              | some ac => copyAccess acc.access ac
                              | none => acc.access }
    let r := updateRec env fs st
    r.2 = none ∧ r.1.mem.get n = some a' ∧ r.1.disk.get (n ++ yamlExt) = some a' ∧
    (acc.login ≠ n → r.1.mem.get acc.login = none ∧ r.1.disk.get (acc.login ++ yamlExt) = none) ∧
    (∀ k, k ≠ n → k ≠ acc.login → r.1.mem.get k = st.mem.get k) := by
  intro n a' r
  obtain ⟨h1, h2, h3⟩ := hi.mem_ok _ _ hacc
  have haleg : LegalLogin acc.login := by rw [h1]; exact h2
  have hd : st.disk.get (acc.login ++ yamlExt) = some acc := by rw [h1]; exact h3
  -- the account handed to Update
  let a0 : Account H := { acc with
      hash := pwUpdate env acc.hash (getField 106 fs),
      access := match getField 110 fs with
        | some ac => copyAccess acc.access ac
        | none => acc.access,
      name := nm }
  have hr : r = (match update env a0 n st with
      | (true, st') => (st', none)
      | (false, st') => (st', some .silent)) := by
    show updateRec env fs st = _
    unfold updateRec
    rw [if_neg hn1]
    simp only [hlg, hnm, hacc]
    rfl
  by_cases e : acc.login = n
  · have hu := update_same env a0 st haleg (by show (acc.login ++ yamlExt).length ≤ _; rw [e]; exact hlen)
    have ea : a0 = a' := by simp only [a0, a', e]
    have ha0 : a0.login = n := e
    rw [show update env a0 n st = update env a0 a0.login st by rw [ha0], hu] at hr
    simp only at hr
    rw [hr, ea]
    refine ⟨rfl, ?_, ?_, ?_, ?_⟩
    · simp [show a'.login = n from rfl]
    · simp [show a'.login = n from rfl]
    · intro h; exact absurd e h
    · intro k hk _
      simp [AMap.get_set, show a'.login = n from rfl, hk]
  · obtain ⟨st', hu, hm, hdk⟩ := update_rename env a0 n st acc haleg hleg e (hfree e) hd hlen
    rw [hu] at hr
    simp only at hr
    rw [hr]
    have ea : ({ a0 with login := n } : Account H) = a' := by simp only [a0, a']
    rw [ea] at hm hdk
    have hne : ¬ acc.login ++ yamlExt = n ++ yamlExt := fun x => e (yaml_inj x)
    refine ⟨rfl, ?_, ?_, ?_, ?_⟩
    · simp [hm]
    · simp [hdk]
    · intro _
      constructor
      · rw [hm]; simp [e, show a0.login = acc.login from rfl]
      · rw [hdk]; simp [hne, show a0.login = acc.login from rfl]
    · intro k hk1 hk2
      rw [hm]; simp [hk1, show a0.login = acc.login from rfl, hk2]

/-- A rename sub-record whose target login already exists is refused: the request ends without a
    reply and NOTHING changes — both accounts survive in memory and on disk (fix 5d2c023). -/
theorem update_user_rename_onto_existing (env : Env H) (fs : List Field) (st : State H)
    (hn1 : fs.length ≠ 1) (lg nm : Bytes) (hlg : getField 105 fs = some lg) (hnm : getField 102 fs = some nm)
    (acc : Account H) (hacc : st.mem.get (accountToUpdate fs (obfuscate lg)) = some acc)
    (hne : acc.login ≠ obfuscate lg) (hex : (st.mem.get (obfuscate lg)).isSome) :
    updateRec env fs st = (st, some .silent) := by
  let a0 : Account H := { acc with
      hash := pwUpdate env acc.hash (getField 106 fs),
      access := match getField 110 fs with
        | some ac => copyAccess acc.access ac
        | none => acc.access,
      name := nm }
  have hu := update_rename_existing env a0 (obfuscate lg) st hne hex
  have hr : updateRec env fs st = (match update env a0 (obfuscate lg) st with
      | (true, st') => (st', none)
      | (false, st') => (st', some .silent)) := by
    unfold updateRec
    rw [if_neg hn1]
    simp only [hlg, hnm, hacc]
    rfl
  rw [hr, hu]

/-- A deleted login is gone from memory, from the listing and from disk, and can no longer log in
    (delete-user 351; the one-field sub-record of update-user behaves the same way). -/
theorem deleted_login_is_absent (env : Env H) (fs : List Field) (st : State H)
    (hl : LegalLogin (obfuscate (fieldData 105 fs)))
    (hd : (st.disk.get (obfuscate (fieldData 105 fs) ++ yamlExt)).isSome) (pw : Bytes) :
    let l := obfuscate (fieldData 105 fs)
    let st' := (handleDeleteUser env fs st).1
    st'.mem.get l = none ∧ st'.disk.get (l ++ yamlExt) = none ∧ listed st' l = false ∧ canLogin env st' l pw = false ∧
    (∀ k, k ≠ l → st'.mem.get k = st.mem.get k) := by
  intro l st'
  have hst : st' = ⟨st.mem.del l, st.disk.del (l ++ yamlExt)⟩ := by
    show (handleDeleteUser env fs st).1 = _
    unfold handleDeleteUser delete
    rw [fileC_legal hl]
    dsimp only
    cases hdd : st.disk.get (obfuscate (fieldData 105 fs) ++ yamlExt) with
    | none => rw [hdd] at hd; cases hd
    | some _ => rfl
  rw [hst]
  refine ⟨by simp, by simp, by simp [listed], by simp [canLogin], ?_⟩
  intro k hk
  simp [AMap.get_del, hk]

theorem update_user_delete_record (env : Env H) (fs : List Field) (st : State H) (d : Bytes)
    (h1 : fs.length = 1) (hd : getField 101 fs = some d) (hl : LegalLogin (obfuscate d))
    (hf : (st.disk.get (obfuscate d ++ yamlExt)).isSome) (pw : Bytes) :
    let r := updateRec env fs st
    r.2 = none ∧ r.1.mem.get (obfuscate d) = none ∧ r.1.disk.get (obfuscate d ++ yamlExt) = none ∧
    canLogin env r.1 (obfuscate d) pw = false := by
  intro r
  have hr : r = (⟨st.mem.del (obfuscate d), st.disk.del (obfuscate d ++ yamlExt)⟩, none) := by
    show updateRec env fs st = _
    unfold updateRec delete
    rw [if_pos h1]
    simp only [hd, fileC_legal hl]
    cases hdd : st.disk.get (obfuscate d ++ yamlExt) with
    | none => rw [hdd] at hf; cases hf
    | some _ => rfl
  rw [hr]
  exact ⟨rfl, by simp, by simp, by simp [canLogin]⟩

/-- new-user (350): the login did not exist; afterwards it holds the account with the HASH of the
    password field as sent, in memory and on disk. -/
theorem new_user_effect (env : Env H) (fs : List Field) (st : State H) (hi : Inv st)
    (hl : LegalLogin (obfuscate (fieldData 105 fs)))
    (hnew : st.mem.get (obfuscate (fieldData 105 fs)) = none)
    (hlen : (obfuscate (fieldData 105 fs) ++ yamlExt).length ≤ env.nameMax) :
    let l := obfuscate (fieldData 105 fs)
    let a : Account H := ⟨l, fieldData 102 fs, env.hash (fieldData 106 fs), copyAccess zeros8 (fieldData 110 fs)⟩
    let r := handleNewUser env fs st
    r.1.mem.get l = some a ∧ r.1.disk.get (l ++ yamlExt) = some a ∧ (∀ k, k ≠ l → r.1.mem.get k = st.mem.get k) := by
  intro l a r
  have hdn : st.disk.get (l ++ yamlExt) = none := by
    cases hd : st.disk.get (l ++ yamlExt) with
    | none => rfl
    | some b =>
      obtain ⟨h1, h2⟩ := hi.disk_ok _ b hd
      have : b.login = l := (yaml_inj h1).symm
      rw [this] at h2
      rw [hnew] at h2; cases h2
  have hr : r.1 = ⟨st.mem.set l a, st.disk.set (l ++ yamlExt) a⟩ := by
    show (handleNewUser env fs st).1 = _
    unfold handleNewUser create
    simp only [hnew, Option.isSome_none, Bool.false_eq_true, if_false, fileC_legal hl]
    rw [nameOK_legal env hl hlen, hdn]
    rfl
  rw [hr]
  refine ⟨by simp, by simp, ?_⟩
  intro k hk
  simp [AMap.get_set, hk]

/-! ### Non-vacuity: a concrete environment, a concrete agreeing state, concrete histories -/

/-- test environment: `hash` = identity on the byte string, `verify` = equality (meets `Sound`) -/
def envT : Env Bytes := ⟨id, fun h q => h == q, 255⟩

theorem envT_sound : envT.Sound := by
  intro p q
  show ((p == q) = true) ↔ p = q
  exact beq_iff_eq

def admin : Account Bytes := ⟨[97], [65], [115], [255, 255, 255, 255, 255, 255, 255, 255]⟩   -- login "a", password "s"

def st0 : State Bytes := ⟨AMap.empty.set admin.login admin, AMap.empty.set (admin.login ++ yamlExt) admin⟩

theorem inv_empty : Inv (⟨AMap.empty, AMap.empty⟩ : State H) :=
  ⟨fun _ _ h => by simp at h, fun _ _ h => by simp at h⟩

theorem st0_inv : Inv st0 := Inv.set inv_empty admin (by decide)

theorem st0_hashed : HashedMem envT st0 := fun l a h => ⟨a.hash, rfl⟩

/-- login "b" obfuscated = 0x9d; password "pw" as sent -/
def hist : List Op := [
  .newUser [⟨105, [0x9d]⟩, ⟨102, [66]⟩, ⟨106, [1, 2]⟩, ⟨110, [0, 0, 0, 0, 0, 0, 0, 0]⟩],
  .setUser [⟨105, [0x9d]⟩, ⟨102, [67]⟩, ⟨106, [0]⟩, ⟨110, [128, 0, 0, 0, 0, 0, 0, 0]⟩],
  .updateUser [[⟨101, [0x9d]⟩, ⟨105, [0x9c]⟩, ⟨102, [68]⟩, ⟨106, [9]⟩],     -- rename b → c, new password
               [⟨105, [0x9b]⟩, ⟨102, [69]⟩, ⟨106, []⟩, ⟨110, [0]⟩],           -- create d
               [⟨101, [0x9e]⟩]],                                              -- delete a
  .restart]

example : ∀ o ∈ hist, o.Legal := by decide
-- after the history: c can log in with the new password only, b (renamed away) and a (deleted) cannot
example : canLogin envT (run envT st0 hist) [99] [9] = true := by decide
example : canLogin envT (run envT st0 hist) [99] [1, 2] = false := by decide
example : canLogin envT (run envT st0 hist) [98] [1, 2] = false := by decide
example : canLogin envT (run envT st0 hist) [97] [115] = false := by decide
example : ((run envT st0 hist).disk.keys) = [[100] ++ yamlExt, [99] ++ yamlExt] := by decide
-- the marker left the password alone, the privileges changed
example : (run envT st0 (hist.take 2)).mem.get [98] = some ⟨[98], [67], [1, 2], [128, 0, 0, 0, 0, 0, 0, 0]⟩ := by decide

/-- The behaviour before fix 301829b (Update deleted the NEW key after storing it, so the final
    store re-added the new login while the OLD login was never removed), kept as a negation witness:
    with it the renamed-away login stays in memory although its file is gone. -/
def updateOld (a : Account Bytes) (newLogin : Login) (st : State Bytes) : State Bytes :=
  let a' : Account Bytes := { a with login := newLogin }
  ⟨((st.mem.set newLogin a').del newLogin).set newLogin a',
   ((st.disk.del (fileU a.login)).set (fileU newLogin) a')⟩

theorem old_update_breaks_agreement :
    let s := updateOld admin [98] st0
    s.mem.get [97] = some admin ∧ s.disk.get ([97] ++ yamlExt) = none := by decide

/-! ### Wave d: requests as BYTES (both parsers), field order and sizes, failing persists, `-init` -/

/-- What reaches the account store from the bytes of a request is the operation on the fields that were
    sent: `Transaction.decode` (the C01 theorem `Transaction.decode_encode'`) and, for update-user, the
    sub-record scanner return exactly the fields the client encoded — for every number, order and size of
    fields a transaction can carry (each field < 65536 bytes, payload < 4 GiB). -/
theorem wire_request_is_its_fields (env : Env H) (st : State H) (id : Nat) (o : Op) (h : o.Sendable id) :
    stepW env st (o.wire id) = step env st o :=
  stepW_wire env st id o h

/-- … so every theorem above holds for histories whose requests arrive as bytes; the main one: -/
theorem mem_disk_agree_wire (env : Env H) (st : State H) (h0 : Inv st) (id : Nat) (ops : List Op)
    (hl : ∀ o ∈ ops, o.Legal) (hs : ∀ o ∈ ops, o.Sendable id) (l : Login) (a : Account H) :
    (runW env st (ops.map (Op.wire id))).mem.get l = some a ↔
      ((runW env st (ops.map (Op.wire id))).disk.get (l ++ yamlExt) = some a ∧ a.login = l) := by
  rw [runW_wire env st id ops hs]
  exact mem_disk_agree env st h0 ops hl l a

/-- The order of the fields of a request (and of the sub-fields of an update-user record) does not matter:
    with pairwise different field types every handler gives the same result on every permutation. -/
theorem request_field_order_irrelevant (env : Env H) (fs fs' : List Field) (hp : fs.Perm fs')
    (hn : (fs.map (·.ty)).Nodup) (st : State H) :
    handleNewUser env fs st = handleNewUser env fs' st ∧ handleSetUser env fs st = handleSetUser env fs' st ∧
    handleDeleteUser env fs st = handleDeleteUser env fs' st ∧ updateRec env fs st = updateRec env fs' st :=
  ⟨handleNewUser_perm env hp hn st, handleSetUser_perm env hp hn st, handleDeleteUser_perm env hp hn st,
   updateRec_perm env hp hn st⟩

/-- a sendable rename record with the name sub-field in front of the others -/
def bigName : Bytes := List.replicate 40 65

example : (Op.updateUser [[⟨102, bigName⟩, ⟨101, [0x9e]⟩, ⟨105, [0x9c]⟩, ⟨106, [9]⟩]]).Sendable 7 := by
  refine ⟨?_, ?_⟩
  · intro t ht
    cases ht
    refine ⟨by decide, by decide, by decide, ?_, by decide, by decide⟩
    intro f hf
    simp only [List.map_cons, List.map_nil, List.mem_singleton] at hf
    subst hf
    exact ⟨by decide, by decide⟩
  · intro fs hfs
    simp only [List.mem_singleton] at hfs
    subst hfs
    refine ⟨?_, by decide⟩
    intro f hf
    simp only [List.mem_cons, List.not_mem_nil, or_false] at hf
    rcases hf with rfl | rfl | rfl | rfl <;> exact ⟨by decide, by decide⟩

example : ([⟨102, [66]⟩, ⟨105, [0x9d]⟩, ⟨110, [0]⟩, ⟨106, [1]⟩] : List Field).Perm [⟨105, [0x9d]⟩, ⟨106, [1]⟩, ⟨102, [66]⟩, ⟨110, [0]⟩] := by
  decide

/-- A request that cannot be persisted (the store's temporary file cannot be written) changes NOTHING:
    new-user is refused, set-user leaves the state as it was, a create / modify sub-record of update-user
    leaves the state as it was and ends the request. -/
theorem failed_persist_changes_nothing (env : Env H) (fs : List Field) (st : State H) :
    handleNewUserF .tmpBlocked env fs st = (st, .errReply) ∧
    (handleSetUserF .tmpBlocked env fs st).1 = st ∧
    (Inv st → fs.length ≠ 1 → NoRename fs →
      (updateRecF .tmpBlocked env fs st).1 = st ∧ (updateRecF .tmpBlocked env fs st).2 ≠ none) :=
  ⟨handleNewUserF_blocked env fs st, handleSetUserF_blocked env fs st, updateRecF_blocked env fs st⟩

/-- The agreement of memory and disk over ALL histories in which any step may be served under the
    failing persist (`FLegal`: legal logins; no rename sub-record under the fault — see the witness below). -/
theorem mem_disk_agree_with_failing_persists (env : Env H) (st : State H) (h0 : Inv st)
    (ops : List (Fault × Op)) (hl : ∀ o ∈ ops, FLegal o) (l : Login) (a : Account H) :
    ((runF env st ops).mem.get l = some a ↔ ((runF env st ops).disk.get (l ++ yamlExt) = some a ∧ a.login = l)) ∧
    (load (runF env st ops).disk).get l = (runF env st ops).mem.get l := by
  have hi := runF_inv env ops st h0 hl
  refine ⟨⟨fun hm => ?_, fun ⟨hd, hlg⟩ => ?_⟩, load_eq_mem _ hi l⟩
  · obtain ⟨h1, _, h3⟩ := hi.mem_ok l a hm
    exact ⟨h3, h1⟩
  · have := (hi.disk_ok _ a hd).2
    rw [hlg] at this; exact this

/-- without a fault `stepF` is `step` -/
theorem no_fault_is_step (env : Env H) (st : State H) (op : Op) : stepF env st (.none, op) = step env st op :=
  stepF_none env st op

def newB : Op := .newUser [⟨105, [0x9d]⟩, ⟨102, [66]⟩, ⟨106, [1, 2]⟩, ⟨110, [0, 0, 0, 0, 0, 0, 0, 0]⟩]
def setB : Op := .setUser [⟨105, [0x9d]⟩, ⟨102, [67]⟩, ⟨106, [0]⟩, ⟨110, [128, 0, 0, 0, 0, 0, 0, 0]⟩]
def modB : Op := .updateUser [[⟨105, [0x9d]⟩, ⟨102, [68]⟩, ⟨106, [9]⟩], [⟨101, [0x9e]⟩]]

example : ∀ o ∈ ([(.tmpBlocked, newB), (.none, newB), (.tmpBlocked, setB), (.tmpBlocked, modB), (.none, modB)] : List (Fault × Op)), FLegal o := by
  decide
-- the first (failing) new-user leaves the state alone, the second creates b
example : (runF envT st0 [(.tmpBlocked, newB)]).mem.get [98] = none ∧
    ((runF envT st0 [(.tmpBlocked, newB), (.none, newB)]).mem.get [98]).isSome = true := by decide

/-- FINDING (code as it is): a rename sub-record served while the temporary file cannot be written is
    refused, but the file has already been renamed and the table switched — memory holds login "b" with
    the new name while the file `b.yaml` still holds login "a" with the old one; a restart brings "a" back. -/
theorem rename_with_failing_write_breaks_agreement :
    let r := stepF envT st0 (.tmpBlocked, .updateUser [[⟨101, [0x9e]⟩, ⟨105, [0x9d]⟩, ⟨102, [66]⟩, ⟨106, [0]⟩]])
    r.2 matches .silent ∧
    r.1.mem.get [98] = some ⟨[98], [66], [115], admin.access⟩ ∧ r.1.disk.get ([98] ++ yamlExt) = some admin ∧
    (load r.1.disk).get [98] = none ∧ (load r.1.disk).get [97] = some admin := by decide

/-- `-init` on an existing config directory writes nothing (regenerated from cmd/mobius-hotline-server/main.go on
    every run): the branch only logs, and no file-writing call stands between process start and the account
    loader outside the populate branch — so `restart` (the loader on the directory as the server left it) is
    what a restart of the real binary does, with or without `-init`. -/
theorem init_on_existing_dir_writes_nothing :
    Generated.initGuard = "_,err:=os.Stat(path.Join(*configDir,\"/config.yaml\"));os.IsNotExist(err)" ∧
    Generated.initExistingDirCalls = ["slogger.Info"] ∧ Generated.startupWriters = [] := by decide

end Mobius.C15
