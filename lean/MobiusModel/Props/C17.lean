import MobiusModel.Session
import MobiusModel.Generated.Consts
import MobiusModel.Generated.Concurrency
import MobiusModel.Generated.Kick
import MobiusModel.KickTimer
/-!
  C17 — Disconnects and bans are enforced at the door.

  Property theorems only (helper lemmas live in `BanGate`, `Session`).  Quantifiers: all ban
  stores, all addresses (byte strings — IPv4 texts in particular), all instants `now` / expiry
  instants, all histories of ban requests and restarts, all client streams in all chunkings.
  Instants are nanoseconds as natural numbers; `time.Now()` is an input of each decision.
-/
set_option linter.unusedVariables false
namespace Mobius.C17
open Mobius.BanGate Mobius.Session

/-- (1) A permanently banned address is refused at every instant. -/
theorem gate_permanent (s : Store) (a : Bytes) (h : s.lookup a = some none) : ∀ now, refused s a now = true := by
  intro now; simp [refused, h]

/-- (2) A temporarily banned address is refused exactly until the expiry instant … -/
theorem gate_temporary (s : Store) (a : Bytes) (u : Nat) (h : s.lookup a = some (some u)) (now : Nat) :
    refused s a now = true ↔ now < u := by
  simp [refused, h]

/-- (2') … so once the ban has expired the address is let through again. -/
theorem gate_expired (s : Store) (a : Bytes) (u : Nat) (h : s.lookup a = some (some u)) (now : Nat) (hexp : u ≤ now) :
    refused s a now = false := by
  have : ¬ now < u := by omega
  simp [refused, h, this]

/-- (3) An address that is not listed is never refused. -/
theorem gate_unlisted (s : Store) (a : Bytes) (h : s.lookup a = none) (now : Nat) : refused s a now = false := by
  simp [refused, h]

/-- (4) Adding a ban for one address changes the decision for no other address, at any instant. -/
theorem ban_affects_only_its_address (s : Store) (a b : Bytes) (e : Entry) (now : Nat) (h : b ≠ a) :
    refused (s.add a e) b now = refused s b now :=
  refused_add_other s a b e now h

/-- (5) Disconnect with the temporary-ban option at instant `t0`: the address is refused for
    exactly the next `BanDuration` … -/
theorem disconnect_temporary (s : Store) (ip : Bytes) (t0 now : Nat) :
    refused (disconnectBan s (some 1) t0 ip) ip now = true ↔ now < t0 + banDuration := by
  simp [disconnectBan, refused, lookup_add_same]

/-- (5') … and can log in again afterwards. -/
theorem disconnect_temporary_expires (s : Store) (ip : Bytes) (t0 now : Nat) (h : t0 + banDuration ≤ now) :
    refused (disconnectBan s (some 1) t0 ip) ip now = false := by
  have : ¬ now < t0 + banDuration := by omega
  simpa [disconnectBan, refused, lookup_add_same] using this

/-- (5'') `BanDuration` is 30 minutes (in nanoseconds). -/
theorem ban_duration_is_30_minutes : banDuration = 30 * 60 * 1000000000 := rfl

/-- (6) Disconnect with the permanent-ban option: refused indefinitely. -/
theorem disconnect_permanent (s : Store) (ip : Bytes) (t0 : Nat) : ∀ now, refused (disconnectBan s (some 2) t0 ip) ip now = true := by
  intro now; simp [disconnectBan, refused, lookup_add_same]

/-- (7) Whatever the option, every other address is unaffected. -/
theorem disconnect_other_addresses (s : Store) (opt : Option Nat) (ip other : Bytes) (t0 now : Nat) (h : other ≠ ip) :
    refused (disconnectBan s opt t0 ip) other now = refused s other now := by
  unfold disconnectBan
  split
  · exact refused_add_other s ip other _ now h
  · exact refused_add_other s ip other _ now h
  · rfl

/-- (8) A plain disconnect (no option field, or an option other than 1 / 2) bans nobody. -/
theorem disconnect_without_ban (s : Store) (opt : Option Nat) (ip : Bytes) (t0 : Nat)
    (h1 : opt ≠ some 1) (h2 : opt ≠ some 2) : disconnectBan s opt t0 ip = s := by
  unfold disconnectBan
  split
  · exact absurd rfl h1
  · exact absurd rfl h2
  · rfl

/-- (9) Restarts are invisible: after *any* history of ban requests and restarts (a fresh
    `NewBanFile` on the same path) starting from an absent ban file, loading never fails and every
    address gets, at every instant, the decision of the same history with the restarts erased —
    given the YAML round trip assumed in `Codec`. -/
theorem restart_preserves_decisions (c : Codec) (ops : List Op) :
    ∃ s', BanGate.run c Sys.init ops = some s' ∧
      ∀ a now, refused s'.mem a now = refused (specStore Store.empty ops) a now := by
  obtain ⟨s', hrun, _, hl⟩ := run_spec c ops Sys.init Store.empty (consistent_init c) (fun _ => rfl)
  exact ⟨s', hrun, fun a now => refused_congr hl a now⟩

/-- (9') The newest ban for an address decides, across any number of later restarts and bans of
    other addresses. -/
theorem newest_ban_decides (c : Codec) (pre post : List Op) (a : Bytes) (e : Entry)
    (hpost : ∀ e', Op.add a e' ∉ post) :
    ∃ s', BanGate.run c Sys.init (pre ++ Op.add a e :: post) = some s' ∧ s'.mem.lookup a = some e := by
  obtain ⟨s', hrun, _, hl⟩ := run_spec c (pre ++ Op.add a e :: post) Sys.init Store.empty (consistent_init c) (fun _ => rfl)
  refine ⟨s', hrun, ?_⟩
  rw [hl a, specStore_append]
  simp only [specStore]
  rw [specStore_lookup_of_no_add _ post a hpost, lookup_add_same]

/-- (9'') Every ban that is the newest for its address is still there after a restart at the end of
    the history — whatever other bans (of other addresses, in any order: concurrent requests are
    atomic `Add`s, i.e. some sequential order) and restarts surround it. -/
theorem every_ban_survives_restart (c : Codec) (pre post : List Op) (a : Bytes) (e : Entry)
    (hpost : ∀ e', Op.add a e' ∉ post) :
    ∃ s', BanGate.run c Sys.init (pre ++ Op.add a e :: (post ++ [Op.reload])) = some s' ∧ s'.mem.lookup a = some e := by
  apply newest_ban_decides
  intro e' hm
  rcases List.mem_append.mp hm with h | h
  · exact hpost e' h
  · simp at h

/-- (5/6 bis) The handler's ban OVERWRITES whatever entry the address already has — an expired
    temporary ban, a running one, a permanent one: the newest request decides. -/
theorem disconnect_overwrites_existing_entry (s : Store) (ip : Bytes) (t0 : Nat) :
    (disconnectBan s (some 1) t0 ip).lookup ip = some (some (t0 + banDuration)) ∧
    (disconnectBan s (some 2) t0 ip).lookup ip = some none := by
  simp [disconnectBan, lookup_add_same]

/-- (10) Refusal happens right after the handshake and before any login is processed: for a
    refused address the result is the handshake reply plus one ban notice, whatever bytes follow
    the 12-byte handshake — no token is read, nothing is dispatched, the world is unchanged. -/
theorem refused_before_login {W O : Type} (env : Env W O) (w : W) (chunks : List Bytes)
    (h1 : (chunks.flatten.take 12).length = 12) (h2 : handshakeValid (chunks.flatten.take 12) = true)
    (h3 : refused env.bans (ipOf env.addr) env.now = true) :
    Session.run env w chunks =
      ⟨.banned (permanent env.bans (ipOf env.addr)),
       handshakeReply ++ (banNotice env.noticeId (permanent env.bans (ipOf env.addr))).encode,
       false, none, [], w, []⟩ := by
  rw [Session.run_eq_runStream]
  exact Session.core_refused env w _ _ h1 h2 h3

/-- (10') In particular two streams that agree on the handshake get the same treatment. -/
theorem refused_ignores_login {W O : Type} (env : Env W O) (w : W) (c1 c2 : List Bytes)
    (hsame : c1.flatten.take 12 = c2.flatten.take 12)
    (h1 : (c1.flatten.take 12).length = 12) (h2 : handshakeValid (c1.flatten.take 12) = true)
    (h3 : refused env.bans (ipOf env.addr) env.now = true) :
    Session.run env w c1 = Session.run env w c2 := by
  rw [refused_before_login env w c1 h1 h2 h3, refused_before_login env w c2 (hsame ▸ h1) (hsame ▸ h2) h3]

/-- (11) An address the gate lets through (never banned, another address banned, ban expired) is
    served exactly as if the ban list were empty. -/
theorem not_refused_unaffected {W O : Type} (env : Env W O) (w : W) (chunks : List Bytes)
    (h : refused env.bans (ipOf env.addr) env.now = false) :
    Session.run env w chunks = Session.run { env with bans := Store.empty } w chunks := by
  rw [Session.run_eq_runStream, Session.run_eq_runStream]
  exact Session.core_not_refused env w _ _ h

/-- (12) When a user is disconnected every other registered client is told that this user ID left,
    and the user is gone from the registry — also when the user never sent a name or has not agreed
    yet (`c.name = []`, `c.agreed = false`): it is listed, so it must be de-listed for the others. -/
theorem others_are_told_user_left (live : List BanGate.Client) (c o : BanGate.Client) (ho : o ∈ live) (hne : o.id ≠ c.id) :
    (o.id, c.id) ∈ (disconnect live c).2 ∧ ∀ x ∈ (disconnect live c).1, x.id ≠ c.id :=
  ⟨disconnect_tells_all_others live c o ho hne, disconnect_removes live c⟩

/-- The permanent / temporary wording of the notice follows the entry. -/
theorem notice_kind (s : Store) (a : Bytes) : permanent s a = true ↔ s.lookup a = some none := by
  unfold permanent
  split <;> simp_all

/-! Obligation over the constants regenerated from /repo's source on every run. -/

theorem generated_banDuration : Generated.miscConsts.lookup "BanDurationMinutes" = some banDurationMinutes := by decide

/-- `BanFile.Add` takes the lock and releases it by a deferred unlock: the map update and the
    write of the file are one critical section (what makes concurrent `Add`s atomic steps). -/
theorem generated_banfile_add_atomic :
    ("mobius.BanFile.Add", "bf.Lock()", true, false) ∈ Generated.lockSites ∧
    ∀ s ∈ Generated.lockSites, s.1 = "mobius.BanFile.Add" → s.2.2.1 = true := by decide

/-! "Every other address is unaffected" by the disconnect itself: the delayed second `Disconnect`. -/

/-- (13) For EVERY history of logins, own disconnects and delayed disconnects (`timerFires`) from the empty server —
    also when the kicked user hung up first and newcomers logged in meanwhile, also across the wrap of the 16-bit id
    counter — a disconnect removes exactly the connection it is aimed at (or nobody, the second time), everybody else
    stays in the table, and no "user left" notice names the id of a user who is still listed. -/
theorem disconnect_affects_only_its_target (es : List Kick.Ev) (conn : Nat) (e : Kick.Ev)
    (he : e = .leave conn ∨ e = .timerFires conn) :
    (∀ d, (Kick.step (Kick.run Kick.St.init es) e).2.removed = some d → d.conn = conn) ∧
    (∀ d ∈ (Kick.run Kick.St.init es).reg.clients, d.conn ≠ conn → d ∈ (Kick.step (Kick.run Kick.St.init es) e).1.reg.clients) ∧
    (∀ n ∈ (Kick.step (Kick.run Kick.St.init es) e).2.notices, ∀ d ∈ (Kick.step (Kick.run Kick.St.init es) e).1.reg.clients, n.2 ≠ d.id) :=
  ⟨((Kick.step_spec (Kick.Good.init.run es) e).2 conn he).1, ((Kick.step_spec (Kick.Good.init.run es) e).2 conn he).2,
   Kick.step_notices_name_nobody_listed _ e⟩

/-- (13') The second `Disconnect` of a connection object does nothing: table unchanged, nobody told anything. -/
theorem second_disconnect_is_a_no_op (s : Kick.St) (conn : Nat) (h : conn ∈ s.gone) :
    Kick.step s (.timerFires conn) = (s, {}) ∧ Kick.step s (.leave conn) = (s, {}) := by
  simp [Kick.step, h]

/-- (13'') The negative witness (before fix d658b12 every `Disconnect` deleted by id): after the id counter has gone
    round, the stale delayed `Disconnect` of a kicked user removes a newcomer — another connection object, from
    whatever address — and announces that it left. -/
theorem stale_disconnect_before_fix_hits_a_bystander :
    ∃ (r : Registry) (u n : Client),
      Registry.init.add Kick.blank = some (r, u) ∧ u.id = 1 ∧
      (Kick.spinN 65534 r).delete u.id = ⟨65535, 65535, []⟩ ∧
      Registry.add ⟨65535, 65535, []⟩ Kick.blank = some (⟨65537, 65536, [n]⟩, n) ∧
      n.id = u.id ∧ n.conn ≠ u.conn ∧
      (Kick.discById ⟨65537, 65536, [n]⟩ u.id).2.removed = some n ∧
      (Kick.discById ⟨65537, 65536, [n]⟩ u.id).1.clients = [] :=
  Kick.stale_timer_removes_newcomer_after_wrap

/-- `ClientConn.Disconnect` has the once-guarded shape the model assumes (regenerated from source on every run). -/
theorem generated_disconnect_once : Generated.disconnectShape = "once-guarded" := by decide

-- a kicked user (connection 1) hangs up, a newcomer logs in, the timer fires: newcomer and bystander stay, nobody is told anything
example : (Kick.step (Kick.run Kick.St.init [.login Kick.blank, .login Kick.blank, .leave 1, .login Kick.blank]) (.timerFires 1)).2 = {} := by decide
example : ((Kick.step (Kick.run Kick.St.init [.login Kick.blank, .login Kick.blank, .leave 1, .login Kick.blank]) (.timerFires 1)).1.reg.clients.map (·.conn)) = [0, 2] := by decide
example : (Kick.step (Kick.run Kick.St.init [.login Kick.blank, .login Kick.blank]) (.timerFires 1)).2.notices = [(1, 2)] := by decide

-- non-vacuity: concrete instances
example : (disconnect [⟨1, [97], true⟩, ⟨2, [], false⟩, ⟨3, [98], true⟩] ⟨2, [], false⟩).2 = [(1, 2), (3, 2)] := by decide
example : (Store.empty.add [49, 46, 50] none).lookup [49, 46, 50] = some none := by decide
example : ((Store.empty.add [49, 46, 50] none).add [49, 46, 51] (some 100)).lookup [49, 46, 51] = some (some 100) := by decide
example : refused ((Store.empty.add [49, 46, 50] none).add [49, 46, 51] (some 100)) [49, 46, 51] 99 = true := by decide
example : refused ((Store.empty.add [49, 46, 50] none).add [49, 46, 51] (some 100)) [49, 46, 51] 100 = false := by decide
example : ipOf [49, 46, 50, 58, 56, 48] = [49, 46, 50] := by decide
example : ∀ e', Op.add [1] e' ∉ [Op.reload, Op.add [2] none, Op.reload] := by
  intro e' h; simp at h
example : (Session.core (demoEnv (Store.empty.add [49] none) [49, 58, 57] 0) 40 demoHandshake
      (fun _ => ⟨[demoLogin.encode], .eof⟩)).outcome = .banned true := by decide +kernel
example : (demoHandshake.take 12).length = 12 ∧ handshakeValid (demoHandshake.take 12) = true := by decide

end Mobius.C17
