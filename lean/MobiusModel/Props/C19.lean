import MobiusModel.Board
import MobiusModel.Announce
import MobiusModel.Generated.Concurrency
import MobiusModel.Generated.Consts
import MobiusModel.Generated.Persist
/-!
  C19 — Message board and agreement are served whole and lose no post.

  Property theorems only (model and helper lemmas: `Board`, `Interleave`).

  Setting: any number of clients, each with its own sequence of server-level operations
  (`Op.read` = `Server.ReadMessageBoard` / `ReadAgreement`, `Op.post` = `Server.PostMessageBoard`);
  `procs : List (List Op)` are those sequences, `sched` any interleaving (`Interleave procs sched`).
  Each operation runs as ONE critical section (`execOp` = its raw `Seek/Read/Write` calls with nobody
  in between).  That this is what the code does is the obligation `lock_discipline` below over facts
  regenerated from /repo's source on every run; that it is *needed* is `raw_interleaving_tears`.
  The read sizes `io.ReadAll` uses are inputs (`sz`), only `1 ≤ sz i` is assumed.
-/
namespace Mobius.C19
open Mobius.Board

/-- Readers: for every interleaving, every `ReadMessageBoard` obtains exactly the board as of one
    linearisation point – the initial text with the posts scheduled before it prepended, newest first. -/
theorem readers_see_snapshot (init : Store) (procs : List (List Op)) (sched : List Op)
    (hm : Interleave procs sched) (hwf : ∀ p ∈ procs, ∀ op ∈ p, op.WF) :
    ∀ (i : Nat) (sz : Nat → Nat), sched[i]? = some (.read sz) →
      (runOps init sched).2[i]? = some (boardAfter init.data (sched.take i)) := by
  have hw : ∀ op ∈ sched, op.WF := by
    intro op hop
    have : op ∈ procs.flatten := hm.perm.mem_iff.mp hop
    obtain ⟨p, hp, hop'⟩ := List.mem_flatten.mp this
    exact hwf p hp op hop'
  intro i sz h
  exact runOps_result sched init i hw sz h

/-- Posts: for every interleaving the final board is the posts in linearisation order, newest first,
    prepended to the initial text; every post of every client is in it exactly once (the scheduled posts
    are a permutation of all clients' posts) and each client's posts keep their order. -/
theorem posts_all_kept (init : Store) (procs : List (List Op)) (sched : List Op)
    (hm : Interleave procs sched) (hwf : ∀ p ∈ procs, ∀ op ∈ p, op.WF) :
    (runOps init sched).1.data = (postsOf sched).reverse.flatten ++ init.data ∧
    (postsOf sched).Perm (postsOf procs.flatten) ∧
    ∀ (j : Nat) (p : List Op), procs[j]? = some p → (postsOf p).Sublist (postsOf sched) := by
  have hw : ∀ op ∈ sched, op.WF := by
    intro op hop
    have : op ∈ procs.flatten := hm.perm.mem_iff.mp hop
    obtain ⟨p, hp, hop'⟩ := List.mem_flatten.mp this
    exact hwf p hp op hop'
  refine ⟨runOps_data sched init hw, ?_, ?_⟩
  · exact hm.perm.filterMap _
  · intro j p hj
    exact (hm.sublist j p hj).filterMap _

/-- Persistence: when a post is acknowledged (its critical section is over) the file holds exactly
    the in-memory board, and that board is the post followed by the board as of the post's
    linearisation point. -/
theorem post_persisted_when_acked (init : Store) (procs : List (List Op)) (sched : List Op)
    (hm : Interleave procs sched) (hwf : ∀ p ∈ procs, ∀ op ∈ p, op.WF) :
    ∀ (i : Nat) (p : Bytes), sched[i]? = some (.post p) →
      (runOps init (sched.take (i + 1))).1.file = (runOps init (sched.take (i + 1))).1.data ∧
      (runOps init (sched.take (i + 1))).1.data = p ++ boardAfter init.data (sched.take i) := by
  have hw : ∀ op ∈ sched, op.WF := by
    intro op hop
    have : op ∈ procs.flatten := hm.perm.mem_iff.mp hop
    obtain ⟨p, hp, hop'⟩ := List.mem_flatten.mp this
    exact hwf p hp op hop'
  intro i p h
  have hi : i < sched.length := (List.getElem?_eq_some_iff.mp h).1
  have hsplit : sched.take (i + 1) = sched.take i ++ [.post p] := by
    rw [List.take_add_one, h]; rfl
  rw [hsplit]
  exact runOps_post_persisted (sched.take i) p init (fun op hop => hw op (List.mem_of_mem_take hop))

/-- File and memory never diverge: if they agree initially they agree after every schedule. -/
theorem file_tracks_board (init : Store) (procs : List (List Op)) (sched : List Op)
    (hm : Interleave procs sched) (hwf : ∀ p ∈ procs, ∀ op ∈ p, op.WF) (h0 : init.file = init.data) :
    (runOps init sched).1.file = (runOps init sched).1.data := by
  have hw : ∀ op ∈ sched, op.WF := by
    intro op hop
    have : op ∈ procs.flatten := hm.perm.mem_iff.mp hop
    obtain ⟨p, hp, hop'⟩ := List.mem_flatten.mp this
    exact hwf p hp op hop'
  exact runOps_file_inv sched init hw h0

/-- Agreement (no operation writes it): for every interleaving of any number of `ReadAgreement`
    operations every client receives the complete text. -/
theorem agreement_served_whole (init : Store) (procs : List (List Op)) (sched : List Op)
    (hm : Interleave procs sched) (hwf : ∀ p ∈ procs, ∀ op ∈ p, op.WF)
    (hro : ∀ p ∈ procs, postsOf p = []) :
    ∀ (i : Nat) (sz : Nat → Nat), sched[i]? = some (.read sz) → (runOps init sched).2[i]? = some init.data := by
  intro i sz h
  rw [readers_see_snapshot init procs sched hm hwf i sz h]
  have hnone : postsOf sched = [] := by
    have hperm := (posts_all_kept init procs sched hm hwf).2.1
    have : postsOf procs.flatten = [] := by
      have : ∀ (l : List (List Op)), (∀ p ∈ l, postsOf p = []) → postsOf l.flatten = [] := by
        intro l
        induction l with
        | nil => intro _; rfl
        | cons p ps ih =>
          intro hl
          have h1 := hl p (by simp)
          have h2 := ih (fun q hq => hl q (by simp [hq]))
          simp only [postsOf, List.flatten_cons, List.filterMap_append] at h1 h2 ⊢
          rw [h1, h2]; rfl
      exact this procs hro
    rw [this] at hperm
    exact List.Perm.eq_nil hperm
  have hsub : (postsOf (sched.take i)).Sublist (postsOf sched) := (List.take_sublist i sched).filterMap _
  rw [hnone] at hsub
  have : postsOf (sched.take i) = [] := List.eq_nil_of_sublist_nil hsub
  simp [boardAfter, this]

/-- Down to the raw `Seek/Read/Write` calls: in a schedule of raw calls where each operation's calls are
    contiguous (operation `j` tagged `j`), the store ends as above and each operation collects exactly
    the result above.  (The bridge from "one critical section" to the calls on the shared cursor.) -/
theorem locked_raw_schedule_refines (init : Store) (sched : List Op) :
    (runRaw init (lockedTrace init sched 0)).1 = (runOps init sched).1 ∧
    ∀ j, j < sched.length → some (got j (runRaw init (lockedTrace init sched 0)).2) = (runOps init sched).2[j]? := by
  have := lockedTrace_refines sched init 0
  simpa using this

/-- NEGATIVE WITNESS (the behaviour before `fix: message board and agreement reads are one step per
    client`, and of any future change that drops the lock): if the raw calls of two readers may
    interleave, a reader does not get the text.  Board `[1,2,3,4]`, two readers with 2-byte buffers, each
    `Seek(0); Read…` until its first EOF; schedule A.Seek A.Read B.Seek A.Read B.Read A.Read B.Read:
    A collects `[1,2,1,2]` (duplicated), B collects `[3,4]` (truncated); each saw EOF exactly on its last call. -/
theorem raw_interleaving_tears :
    ∃ (s : Store) (a b : List (Nat × Raw)) (sched : List (Nat × Raw)),
      a = [(0, .seek 0), (0, .read 2), (0, .read 2), (0, .read 2)] ∧
      b = [(1, .seek 0), (1, .read 2), (1, .read 2)] ∧
      Interleave [a, b] sched ∧
      got 0 (runRaw s sched).2 = [1, 2, 1, 2] ∧ got 1 (runRaw s sched).2 = [3, 4] ∧
      got 0 (runRaw s sched).2 ≠ s.data ∧ got 1 (runRaw s sched).2 ≠ s.data ∧
      eofs 0 (runRaw s sched).2 = [false, false, false, true] ∧ eofs 1 (runRaw s sched).2 = [false, false, true] ∧
      (runRaw s sched).1.data = s.data := by
  refine ⟨⟨[1, 2, 3, 4], 0, [1, 2, 3, 4]⟩, _, _,
    [(0, .seek 0), (0, .read 2), (1, .seek 0), (0, .read 2), (1, .read 2), (0, .read 2), (1, .read 2)],
    rfl, rfl, ?_, by decide, by decide, by decide, by decide, by decide, by decide, by decide⟩
  exact .step 0 _ _ rfl (.step 0 _ _ rfl (.step 1 _ _ rfl (.step 0 _ _ rfl (.step 1 _ _ rfl
    (.step 0 _ _ rfl (.step 1 _ _ rfl (.done (by simp))))))))

/-- A reader can even receive nothing: B seeks, A reads the whole text, then B reads. -/
theorem raw_interleaving_empty :
    ∃ (s : Store) (sched : List (Nat × Raw)),
      Interleave [[(0, .seek 0), (0, .read 8), (0, .read 8)], [(1, .seek 0), (1, .read 8)]] sched ∧
      got 1 (runRaw s sched).2 = [] ∧ s.data ≠ [] := by
  refine ⟨⟨[1, 2, 3, 4], 0, [1, 2, 3, 4]⟩,
    [(1, .seek 0), (0, .seek 0), (0, .read 8), (1, .read 8), (0, .read 8)], ?_, by decide, by decide⟩
  exact .step 1 _ _ rfl (.step 0 _ _ rfl (.step 0 _ _ rfl (.step 1 _ _ rfl (.step 0 _ _ rfl (.done (by simp))))))

/-- The post text: with the template found in the source, a post is
    `From <name> (<date>):\r\r<body>\r\r______…\r` with every `\n` (also inside name and body) turned
    into `\r`; it contains no `\n`. -/
theorem post_format (name date body : Bytes) :
    formatPost (ascii ((Generated.stringConsts.lookup "NewsTemplate").getD "")) name date body =
      nl2cr (ascii "From " ++ name ++ ascii " (" ++ date ++ ascii "):\n\n" ++ body ++
        ascii "\n\n__________________________________________________________" ++ [13]) ∧
    (10 : UInt8) ∉ formatPost (ascii ((Generated.stringConsts.lookup "NewsTemplate").getD "")) name date body := by
  refine ⟨?_, nl2cr_no_nl _⟩
  have h : splitVerbs (ascii ((Generated.stringConsts.lookup "NewsTemplate").getD "") ++ [13]) =
      [ascii "From ", ascii " (", ascii "):\n\n",
       ascii "\n\n__________________________________________________________" ++ [13]] := by decide +kernel
  simp only [formatPost, h, fill_four, List.append_assoc]

/-- A post is never empty, so two posts never collapse into one on the board. -/
theorem post_nonempty (name date body : Bytes) :
    formatPost (ascii ((Generated.stringConsts.lookup "NewsTemplate").getD "")) name date body ≠ [] := by
  rw [(post_format name date body).1]
  simp [nl2cr, ascii]

/-- One post through the handler: the board becomes the post followed by the previous board, the file
    holds exactly that, and every connected client is sent the post text exactly once. -/
theorem post_announced_and_persisted (template : Bytes) (clients : List Nat) (name date body : Bytes) (s : Store) :
    (handlePost template clients name date body s).1.data = formatPost template name date body ++ s.data ∧
    (handlePost template clients name date body s).1.file = (handlePost template clients name date body s).1.data ∧
    (handlePost template clients name date body s).2.map (·.1) = clients ∧
    ∀ e ∈ (handlePost template clients name date body s).2, e.2 = formatPost template name date body := by
  refine ⟨by simp [handlePost, execOp_post], by simp [handlePost, execOp_post], ?_, ?_⟩
  · simp only [handlePost, List.map_map]
    induction clients with
    | nil => rfl
    | cons c cs ih => simp [ih]
  intro e he
  simp only [handlePost, List.mem_map] at he
  obtain ⟨c, _, rfl⟩ := he
  rfl

/-- Acknowledged ⇒ on disk, also when persisting FAILS (the outcome of the persist step is an input): an
    acknowledged post is in the file, which equals the board, and was announced to every client; a post whose
    persisting failed is neither acknowledged nor announced and leaves the file as it was. -/
theorem ack_implies_on_disk (persistOk : Bool) (template : Bytes) (clients : List Nat) (name date body : Bytes) (s : Store) :
    ((handlePostF persistOk template clients name date body s).acked = true →
      (handlePostF persistOk template clients name date body s).store.file = formatPost template name date body ++ s.data ∧
      (handlePostF persistOk template clients name date body s).store.file =
        (handlePostF persistOk template clients name date body s).store.data ∧
      (handlePostF persistOk template clients name date body s).notes.map (·.1) = clients) ∧
    ((handlePostF persistOk template clients name date body s).acked = false →
      (handlePostF persistOk template clients name date body s).notes = [] ∧
      (handlePostF persistOk template clients name date body s).store.file = s.file) := by
  have h := post_announced_and_persisted template clients name date body s
  cases persistOk with
  | true =>
    refine ⟨fun _ => ⟨?_, ?_, ?_⟩, fun hf => by simp [handlePostF] at hf⟩
    · simp only [handlePostF, if_true]; rw [h.2.1, h.1]
    · simp only [handlePostF, if_true]; exact h.2.1
    · simp only [handlePostF, if_true]; exact h.2.2.1
  | false =>
    exact ⟨fun ht => by simp [handlePostF] at ht, fun _ => by simp [handlePostF, failedWrite]⟩

/-- Operator reload (`FlatNews.Reload`, one step under the store's lock) between any operations changes nothing:
    after every schedule the file equals the board and holds no `\n`, so reloading it yields the same store –
    no post is lost, readers keep getting the same text. -/
theorem reload_harmless (init : Store) (procs : List (List Op)) (sched : List Op)
    (hm : Interleave procs sched) (hwf : ∀ p ∈ procs, ∀ op ∈ p, op.WF) (h0 : init.file = init.data)
    (hnl : (10 : UInt8) ∉ init.data) (hp : ∀ p ∈ postsOf sched, (10 : UInt8) ∉ p) :
    reloadStep (runOps init sched).1 = (runOps init sched).1 := by
  have hw : ∀ op ∈ sched, op.WF := by
    intro op hop
    have : op ∈ procs.flatten := hm.perm.mem_iff.mp hop
    obtain ⟨p, hp', hop'⟩ := List.mem_flatten.mp this
    exact hwf p hp' op hop'
  have hfile := runOps_file_inv sched init hw h0
  have hdata := runOps_data sched init hw
  have hno : (10 : UInt8) ∉ (runOps init sched).1.data := by
    rw [hdata]; exact boardAfter_no_nl init.data sched hnl hp
  have hre : nl2cr (runOps init sched).1.file = (runOps init sched).1.data := by
    rw [hfile]; exact nl2cr_id _ hno
  cases hs : (runOps init sched).1 with
  | mk d c f =>
    rw [hs] at hre
    simp only [reloadStep]
    simp only at hre
    rw [hre]

/-- NEGATIVE WITNESS (a `Reload` that reads the file BEFORE taking the lock): reload reads the file, a post
    completes (memory and file), reload installs its stale snapshot – the post is gone from the served board;
    the next post persists memory over the file and the acknowledged post is gone from disk too. -/
theorem reload_outside_lock_loses_post :
    ∃ (s : Store) (p q : Bytes),
      let snapshot := nl2cr s.file                                  -- Reload: ReadFile + convert, no lock yet
      let s1 := (execOp s (.post p)).1                              -- a post is acknowledged in between
      let s2 : Store := { s1 with data := snapshot }                -- Reload: lock; f.data = snapshot
      let s3 := (execOp s2 (.post q)).1                             -- the next post
      s1.file = p ++ s.data ∧ s2.data = s.data ∧ s3.file = q ++ s.data ∧ s3.file ≠ q ++ p ++ s.data :=
  ⟨⟨[1, 2], 0, [1, 2]⟩, [7], [8], by decide⟩

/-! Obligations over facts regenerated from /repo's source on every run. -/

/-- `ReadMessageBoard`, `PostMessageBoard`, `ReadAgreement` take the server's mutex as their first
    statement and release it by `defer` (the whole body is the critical section). -/
theorem lock_discipline :
    ("hotline.Server.ReadMessageBoard", "s.boardMu.Lock()", true, false) ∈ Generated.lockSites ∧
    ("hotline.Server.PostMessageBoard", "s.boardMu.Lock()", true, false) ∈ Generated.lockSites ∧
    ("hotline.Server.ReadAgreement", "s.agreementMu.Lock()", true, false) ∈ Generated.lockSites ∧
    ("mobius.FlatNews.Write", "f.mu.Lock()", true, false) ∈ Generated.lockSites := by decide

/-- Shape of the three server operations: `Lock; defer Unlock;` then only the listed calls on the store
    (Seek(0,0) + io.ReadAll, resp. one Write). -/
theorem critical_sections :
    Generated.boardOps =
      [("hotline.Server.PostMessageBoard", "s.boardMu", true, ["s.MessageBoard.Write"]),
       ("hotline.Server.ReadAgreement", "s.agreementMu", true, ["s.Agreement.Seek(0, 0)", "io.ReadAll(s.Agreement)"]),
       ("hotline.Server.ReadMessageBoard", "s.boardMu", true, ["s.MessageBoard.Seek(0, 0)", "io.ReadAll(s.MessageBoard)"])] := by
  decide

/-- Nothing else in the server packages touches the stores: every use of the `MessageBoard` /
    `Agreement` fields is inside those three functions. -/
theorem no_access_outside_critical_sections :
    ∀ e ∈ Generated.boardFieldUses,
      e.1 = "hotline.Server.ReadMessageBoard" ∨ e.1 = "hotline.Server.PostMessageBoard" ∨
      e.1 = "hotline.Server.ReadAgreement" := by decide

/-- `Read`, `Write` and `Reload` of both stores take the store's own lock before anything else (in `Reload`:
    before the file is read). -/
theorem store_methods_locked : ∀ e ∈ Generated.storeLockFirst, e.2 = true := by decide

/-- `HandleTranOldPostNews` ends when `PostMessageBoard` reports an error (nothing announced, nothing acknowledged). -/
theorem post_error_ends_handler : Generated.postErrorHandling = "returns" := by decide

/-- `FlatNews.Write` prepends (`slices.Concat(p, f.data)`) and persists `f.data`. -/
theorem write_prepends : Generated.flatNewsWriteShape = ("slices.Concat(p, f.data)", "f.data") := by decide

/-- The date format constant is the protocol's (`Jan02 15:04`). -/
theorem date_format : Generated.stringConsts.lookup "NewsDateFormat" = some "Jan02 15:04" := by decide

-- non-vacuity: a concrete system with two clients (a reader-poster and a poster) and one of its interleavings
example : Interleave [[Op.read (fun _ => 2), Op.post [7]], [Op.post [8, 9]]]
    [Op.read (fun _ => 2), Op.post [8, 9], Op.post [7]] :=
  .step 0 _ _ rfl (.step 1 _ _ rfl (.step 0 _ _ rfl (.done (by simp))))
example : (runOps ⟨[1, 2, 3], 1, [1, 2, 3]⟩ [Op.read (fun _ => 2), Op.post [8, 9], Op.read (fun i => i + 1), Op.post [7]]).2
    = [[1, 2, 3], [], [8, 9, 1, 2, 3], []] := by decide
example : (runOps ⟨[1, 2, 3], 1, [1, 2, 3]⟩ [Op.read (fun _ => 2), Op.post [8, 9], Op.post [7]]).1
    = ⟨[7, 8, 9, 1, 2, 3], 3, [7, 8, 9, 1, 2, 3]⟩ := by decide
example : formatPost (ascii "From %s (%s):\n\n%s\n\n__") (ascii "al\nf") (ascii "Jan02 15:04") (ascii "hi\nyou")
    = ascii "From al\rf (Jan02 15:04):\r\rhi\ryou\r\r__\r" := by decide

/-! ## "is announced to all connected users" under concurrency (wave d)

  `post_announced_and_persisted` above is one post with nobody else running.  The announcement, however, is a WALK
  over `ClientMgr.List()` that other goroutines interleave with (`Announce`): users connect and disconnect, other
  handlers call `List()`, other posts are announced at the same moment. -/

/-- For EVERY schedule: post `p` not started in `s0`; any events `pre`; `p`'s `SendAll` takes its snapshot; any events
    `post` (connects, disconnects, `List()` calls, other posts' snapshots and walk steps, interleaved with `p`'s own
    walk steps, of which there are at least as many as `p`'s audience has members).  Then every client connected at
    the snapshot – in particular every client connected throughout – has been addressed with `p` EXACTLY once, and
    nobody else at all.  (Event sequences are arbitrary lists, so this covers every merge – in the sense of
    `Interleave` – of the posters' programs `snap pᵢ, deliver pᵢ, …` with each other and with everybody else's events.) -/
theorem post_announced_to_all_connected (s0 : Announce.State) (pre post : List Announce.Ev) (p : Nat)
    (hnd : s0.clients.Nodup) (h0 : Announce.delivered s0 p = []) (hp0 : s0.pending p = [])
    (hpre : Announce.Ev.snap p ∉ pre) (hpost : Announce.Ev.snap p ∉ post)
    (hsteps : (Announce.run s0 pre).clients.length ≤ (post.filter (· = Announce.Ev.deliver p)).length) (c : Nat) :
    (Announce.delivered (Announce.run s0 (pre ++ Announce.Ev.snap p :: post)) p).count c =
      if c ∈ (Announce.run s0 pre).clients then 1 else 0 :=
  Announce.announced_in_every_schedule s0 pre post p hnd h0 hp0 hpre hpost hsteps c

/-- … and at EVERY moment of the walk (not only at its end): announcements of `p` made so far ++ audience still to be
    addressed = the clients connected at the snapshot.  No event of anybody else can change a walk's audience. -/
theorem audience_fixed_at_snapshot (s : Announce.State) (p : Nat) (evs : List Announce.Ev)
    (hns : Announce.Ev.snap p ∉ evs) (h0 : Announce.delivered s p = []) :
    Announce.delivered (Announce.run (Announce.step s (.snap p)) evs) p ++
      (Announce.run (Announce.step s (.snap p)) evs).pending p = s.clients :=
  Announce.audience_is_snapshot s p evs hns h0

/-- NEGATIVE WITNESS (why `List()` must hand out a slice of its own): with ONE reused backing array
    (`Announce.stepShared`) the schedule  snapshot – first announcement – user 1 disconnects – somebody calls `List()` –
    rest of the walk  addresses 1, 3, 4, 4: user 2, connected throughout, never hears of the post and user 4 hears
    twice.  The code as it is (`Announce.step`) addresses 1, 2, 3, 4 in the same schedule. -/
theorem shared_list_skips_client :
    let evs : List Announce.Ev := [.snap 7, .deliver 7, .disconnect 1, .list, .deliver 7, .deliver 7, .deliver 7]
    (Announce.runShared ⟨[1, 2, 3, 4], [], fun _ => (0, 0), []⟩ evs).inbox = [(1, 7), (3, 7), (4, 7), (4, 7)] ∧
    (Announce.run ⟨[1, 2, 3, 4], fun _ => [], []⟩ evs).inbox = [(1, 7), (2, 7), (3, 7), (4, 7)] := by
  decide

-- non-vacuity: two posts announced at the same moment while user 2 leaves and user 9 arrives
example :
    (Announce.run ⟨[1, 2, 3], fun _ => [], []⟩
      [.snap 7, .deliver 7, .snap 8, .disconnect 2, .list, .deliver 8, .connect 9, .deliver 7, .deliver 8, .deliver 7,
       .deliver 8]).inbox =
    [(1, 7), (1, 8), (2, 7), (2, 8), (3, 7), (3, 8)] := by decide
-- the hypotheses of `post_announced_to_all_connected` on that schedule, for post 8 (snapshot after one step of post 7)
example : (Announce.run ⟨[1, 2, 3], fun _ => [], []⟩ [.snap 7, .deliver 7]).clients.length ≤
    (([.disconnect 2, .list, .deliver 8, .connect 9, .deliver 7, .deliver 8, .deliver 7, .deliver 8] : List Announce.Ev).filter
      (· = Announce.Ev.deliver 8)).length := by decide

end Mobius.C19
