import MobiusModel.FileOps
import MobiusModel.AcctLoader
/-!
  C07 — All filesystem effects stay inside the file root / the accounts directory.

  Property theorems only (helper lemmas live in `PathAlg`, `PathStr`, `FS`, `FileOps`).
  The model is the code after the `fix:` commits 4090825, 43697ad, cab4779, ecdb1a7; the pre-fix
  shapes are kept as negation witnesses at the end (documentation of what the old code did).

  Quantifier: ALL byte strings used as path field, file name, new name, destination path,
  folder-upload item segments and logins — no length, depth or alphabet bound anywhere.
  Assumptions (DESIGN §7 C07 "not covered"): the configured root is a clean ASCII path (`RootOK`);
  the OS resolves symlinks, the model is lexical — closed by `aliases_point_inside`: every symlink
  the server creates points inside the root, so with none pointing outside at start none ever does.
-/
namespace Mobius.C07
open Mobius.PathAlg Mobius.PathStr Mobius.FS Mobius.FileOps

-- ---------------------------------------------------------------- ReadPath

/-- PathAlg.readPath_under_root: for all path items and names, `ReadPath` stays under the root. -/
theorem readPath_under_root (root : List Comp) (items : List Bytes) (name : Bytes) :
    root <+: readPath root items name :=
  PathAlg.readPath_under_root root items name

example : readPath [[70]] [[46, 46], [97, 47, 46, 46, 47, 46, 46, 47, 98]] [46, 46, 47, 120] = [[70], [98], [120]] := by decide

/-- The Go expression (`Join(root, subPath, Join("/", name))` after per-item `Join("/", subPath, item)`,
    on byte STRINGS, then the Mac-Roman decode of the joined string) renders the component-level
    result: splitting, cleaning and decoding commute, for all byte strings. -/
theorem readPath_string_level (rc : List Comp) (hr : ∀ c ∈ rc, Normal c) (items : List Bytes) (name : Bytes) :
    decodeStr (readPathRaw (renderAbs rc) items name) = renderAbs ((readPath rc items name).map decodeStr) := by
  rw [readPathRaw_eq rc hr items name, decodeStr_renderAbs]

example : decodeStr (readPathRaw [47, 70] [[46, 46], [0x8e]] [46, 46, 47, 120]) = [47, 70, 47, 0xC3, 0xA9, 47, 120] := by decide

/-- The configured root may be written in any absolute form (trailing slash, doubled slash, `.`
    components — config.yaml and per-account roots are used verbatim): `ReadPath` cleans it along
    with the rest, and the result is under the CLEANED root's components. -/
theorem readPath_string_level_any_root (root t : Bytes) (hs : root = slash :: t) (items : List Bytes) (name : Bytes) :
    readPathRaw root items name = renderAbs (readPath ((PathAlg.splitSlash root).foldl step []) items name) ∧
    (PathAlg.splitSlash root).foldl step [] <+: readPath ((PathAlg.splitSlash root).foldl step []) items name :=
  ⟨readPathRaw_any_root root t hs items name, PathAlg.readPath_under_root _ items name⟩

example : readPathRaw [47, 70, 47, 46, 47, 47, 71, 47] [[46, 46]] [46, 46, 47, 120] = [47, 70, 47, 71, 47, 120] := by decide

/-- No high byte decodes to an ASCII byte (so not to `/`, `.` or NUL) and ASCII is fixed: the
    decode cannot create, join or remove a path component. -/
theorem macRoman_keeps_components (c : Comp) :
    (Normal (decodeStr c) ↔ Normal c) ∧ (∀ b : UInt8, b.toNat < 128 → (b ∈ decodeStr c ↔ b ∈ c)) :=
  ⟨normal_decodeStr c, fun b hb => mem_decodeStr_ascii c b hb⟩

example : decodeStr [0xDA, 46, 46, 0xDA] = [0xE2, 0x81, 0x84, 46, 46, 0xE2, 0x81, 0x84] := by decide

/-- Every target a handler computes from request bytes is the root followed by `Normal` components. -/
theorem target_contained (root : Path) (hr : RootOK root) (pf : Option Bytes) (name : Bytes) (t : Path)
    (h : target root pf name = .ok t) : root <+: t ∧ ∃ rest, t = root ++ rest ∧ ∀ c ∈ rest, Normal c :=
  ⟨target_under root hr pf name t h, target_shape root hr pf name t h⟩

example : target [[70]] (some [0, 2, 0, 0, 2, 46, 46, 0, 0, 1, 97]) [46, 46, 47, 46, 46, 47, 120] = .ok [[70], [97], [120]] := by decide

-- ---------------------------------------------------------------- fileWrapper side files

/-- Files.contained, forced hypothesis: the `.incomplete` / `.rsrc_` / `.info_` side files of a data
    path lie under the root exactly when the data path is STRICTLY below the root… -/
theorem wrapper_contained (root p : Path) (h : root <+: p) (hne : p ≠ root) :
    ∀ q ∈ wrapperPaths p, root <+: q :=
  wrapperPaths_under root p h hne

example : wrapperPaths [[70], [97]] = [[[70], [97]], [[70], [97] ++ incSfx], [[70], rsrcPfx ++ [97]], [[70], infoPfx ++ [97]]] := by decide

/-- …and the handlers never build a wrapper for the root: get-info / set-info / delete / move /
    download on a request that names nothing are refused (`addressesFileRoot`) before any side
    file is computed — so containment holds WITHOUT the extra hypothesis, for every request. -/
theorem request_paths_contained (root : Path) (hr : RootOK root) (req : Req) :
    ∀ q ∈ req.paths root, root <+: q :=
  Req.paths_under root hr req

example : (Req.delete none []).paths [[70]] = [[[70]]] := by decide
example : (Req.setInfo none [97] none (some [46, 46, 47, 120])).paths [[70]] =
    [[[70], [97]], [[70], [97] ++ incSfx], [[70], rsrcPfx ++ [97]], [[70], infoPfx ++ [97]], [[70], [120]],
     [[70], infoPfx ++ [97]], [[70], infoPfx ++ [120]], [[70]],
     [[70], [97]], [[70], [120]], [[70], [97] ++ incSfx], [[70], [120] ++ incSfx], [[70], rsrcPfx ++ [97]], [[70], rsrcPfx ++ [120]],
     [[70], infoPfx ++ [97]], [[70], infoPfx ++ [120]]] := by decide

/-- The upload request looks at `<target>.incomplete` only when the target does not exist — hence
    never for the (existing) root. -/
theorem upload_request_paths_contained (root : Path) (hr : RootOK root) (fs : FS) (hex : (statOk fs root).isSome)
    (pf : Option Bytes) (name : Bytes) : ∀ q ∈ uploadFilePaths root fs pf name, root <+: q :=
  uploadFilePaths_under root hr fs hex pf name

example : uploadFilePaths [[70]] [([[70]], .dir)] none [] = [[[70]]] := by decide

-- ---------------------------------------------------------------- effects (frame)

/-- FS.frame: an operation changes only entries at or below its path arguments. -/
theorem fs_frame (op : FSOp) (fs : FS) (x : Path) (h : ∀ q ∈ op.paths, ¬ q <+: x) :
    lookup (op.apply fs).2 x = lookup fs x :=
  FSOp.frame op fs x h

example : lookup (FSOp.apply [([[70]], .dir), ([[79]], .file [1])] (.removeAll [[70]])).2 [[79]] = some (.file [1]) := by decide

/-- For every request, whatever its bytes: nothing outside the root is created, altered or removed.
    Hypothesis `hdir`: the root is an existing directory.  It is what makes the folder rename's
    information-fork step safe: `.info_<new name>` next to a new path `t'` is outside the root only
    for `t' = root`, and `os.Rename(t, root)` cannot succeed onto an existing directory
    (`rename_onto_dir`), so that step is never reached; `root_survives` carries `hdir` along histories. -/
theorem handle_outside_unchanged (root : Path) (hr : RootOK root) (ig : Bytes → Bool) (fs : FS) (req : Req)
    (hdir : lookup fs root = some .dir) (x : Path) (hx : ¬ root <+: x) : lookup (handle root ig fs req).1 x = lookup fs x :=
  (handle_keeps root hr ig fs req hdir).1 x hx

/-- …and over every history of requests (induction on the request list). -/
theorem history_outside_unchanged (root : Path) (hr : RootOK root) (ig : Bytes → Bool) (fs : FS) (reqs : List Req)
    (hdir : lookup fs root = some .dir) (x : Path) (hx : ¬ root <+: x) : lookup (handleAll root ig fs reqs) x = lookup fs x :=
  (handleAll_keeps root hr ig fs reqs hdir).1 x hx

example :
    let fs : FS := [([[70]], .dir), ([[70], [97]], .file [1]), ([[70] ++ incSfx], .file [9]), ([rsrcPfx ++ [70]], .file [9])]
    handleAll [[70]] (fun _ => false) fs [.delete none [], .delete none [46, 46], .move none [97] (some [0, 1, 0, 0, 2, 46, 46]),
      .setInfo none [97] none (some [46, 46, 47, 46, 46, 47, 120]), .delete none [120]] =
      [([[70]], .dir), ([[70] ++ incSfx], .file [9]), ([rsrcPfx ++ [70]], .file [9])] := by decide

/-- Aliases: every symlink a request creates points inside the root; if none points outside before a
    history, none does after it (closes the "OS follows symlinks" gap of the lexical argument). -/
theorem aliases_point_inside (root : Path) (hr : RootOK root) (ig : Bytes → Bool) (fs : FS) (reqs : List Req)
    (hdir : lookup fs root = some .dir) (h : LinksInside root fs) : LinksInside root (handleAll root ig fs reqs) :=
  (handleAll_keeps root hr ig fs reqs hdir).2.1 h

example : (handle [[70]] (fun _ => false) [([[70]], .dir), ([[70], [100]], .dir)]
    (.alias none [46, 46, 47, 120] (some [0, 1, 0, 0, 1, 100]))).1 =
    [([[70], [100], [120]], .link [[70], [120]]), ([[70]], .dir), ([[70], [100]], .dir)] := by decide

/-- The root itself is never removed or replaced: if it is a directory before a history of requests,
    it is a directory after it (nothing is renamed onto it, removed at it or created over it). -/
theorem root_survives (root : Path) (hr : RootOK root) (ig : Bytes → Bool) (fs : FS) (reqs : List Req)
    (h : lookup fs root = some .dir) : lookup (handleAll root ig fs reqs) root = some .dir :=
  (handleAll_keeps root hr ig fs reqs h).2.2 h

example : lookup (handleAll [[70]] (fun _ => false) [([[70]], .dir), ([[70], [100]], .dir)]
    [.delete none [], .setInfo none [100] none (some []), .move none [] none, .newFolder none [], .alias none [100] (some [0, 1, 0, 0, 2, 46, 46])]) [[70]] = some .dir := by
  decide

-- ---------------------------------------------------------------- folder upload (transfer connection)

/-- `folderUpload.FormattedPath`: whatever the segments, the result has only `Normal` components
    (no `..`, not absolute): joined to the upload folder it stays below it. -/
theorem folder_item_path_normal (segs : List Bytes) : ∀ c ∈ formattedComps segs, Normal c :=
  formattedComps_normal segs

example : formattedComps [[46, 46], [46, 46], [47, 101], [46, 46, 47, 120]] = [[120]] := by decide

/-- …and the Go expression on byte STRINGS — `TrimPrefix(Join("/", Join(segments…)), "/")` with the
    relative `Clean` inside — renders exactly those components. -/
theorem folder_item_path_string_level (segs : List Bytes) :
    joinStr [[slash], joinStr segs] = renderAbs (formattedComps segs) :=
  formattedPath_string_level segs

example : joinStr [[slash], joinStr [[46, 46], [], [97, 47, 46, 46, 47, 46, 46], [120]]] = [47, 120] := by decide

/-- One folder-upload item: every path handed to the OS (the item, its `.incomplete`, the
    `fileWrapper` side files of a new file) lies under the transfer's folder, hence under the root. -/
theorem folder_item_paths_contained (root full : Path) (fs : FS) (segs : List Bytes) (isFolder : Bool)
    (hfull : root <+: full) (hex : (statOk fs full).isSome) :
    ∀ q ∈ folderItemPaths fs full (formattedComps segs) isFolder, root <+: q :=
  folderItemPaths_under root full fs segs isFolder hfull hex

example : folderItemPaths [([[70]], .dir)] [[70]] (formattedComps [[46, 46], [46, 46], [101]]) false =
    [[[70], [101]], [[70], [101] ++ incSfx], [[70], [101]], [[70], [101] ++ incSfx], [[70], rsrcPfx ++ [101]], [[70], infoPfx ++ [101]]] := by decide
example : folderItemPaths [([[70]], .dir)] [[70]] (formattedComps [[46, 46]]) false = [[[70]], [[70], incSfx]] := by decide

-- ---------------------------------------------------------------- account files

/-- Create / rename / update / delete: for every login the account file and its temporary sibling
    lie strictly below the accounts directory. -/
theorem account_paths_contained (dir : Path) (login new : Bytes) :
    (∀ q ∈ acctCreatePaths dir login, dir <+: q ∧ q ≠ dir) ∧
    (∀ q ∈ acctUpdatePaths dir login new, dir <+: q ∧ q ≠ dir) ∧
    (∀ q ∈ acctDeletePaths dir login, dir <+: q ∧ q ≠ dir) :=
  acctPaths_under dir login new

example : acctUpdatePaths [[85]] [98] [46, 46, 47, 120] = [[[85], [98] ++ yamlSfx], [[85], [120] ++ yamlSfx], [[85], [120] ++ yamlSfx ++ tmpSfx]] := by decide
example : acctCreatePaths [[85]] [46, 46] = [[[85], [46, 46] ++ yamlSfx ++ tmpSfx], [[85], [46, 46] ++ yamlSfx]] := by decide

/-- Account operations change nothing outside the accounts directory. -/
theorem account_outside_unchanged (dir : Path) (fs : FS) (login new yaml : Bytes) (x : Path) (hx : ¬ dir <+: x) :
    lookup (acctCreate fs dir login yaml) x = lookup fs x ∧
    lookup (acctUpdate fs dir login new yaml) x = lookup fs x ∧
    lookup (acctDelete fs dir login) x = lookup fs x :=
  let h := acct_keeps dir fs login new yaml
  ⟨h.1 x hx, h.2.1 x hx, h.2.2 x hx⟩

-- ---------------------------------------------------------------- what the old code did (negation witnesses)

/-- Before 4090825 / 43697ad: item segments (resp. the new name) were joined WITHOUT the rooted
    clean — `joinRaw` — which escapes. -/
theorem old_join_escapes : ∃ base segs, ¬ (base <+: joinRaw base segs) := joinRaw_escapes

/-- Before ecdb1a7: a request naming nothing made the wrapper's data path the root itself; its side
    files are then siblings of the root. -/
theorem old_root_wrapper_escapes : ∃ root : Path, ∃ q ∈ wrapperPaths root, ¬ root <+: q :=
  wrapperPaths_root_escape

/-- Before cab4779: `Join(accountDir, newLogin + ".yaml")` cleaned against the directory itself. -/
theorem old_account_update_escapes :
    ∃ dir login, ¬ (dir <+: joinRaw dir (PathAlg.splitSlash (login ++ yamlSfx))) :=
  ⟨[[85]], [46, 46, 47, 120], by decide⟩

-- ---------------------------------------------------------------- wave d: the account loader (restarts)

/-- Start-up (`NewYAMLAccountManager`): for every matched file, whatever login it holds — i.e. whatever bytes a client
    once supplied to create or rename an account — the file, the name the login prescribes for it, and the arguments of
    the legacy-format re-save all lie strictly below the accounts directory. -/
theorem account_loader_paths_contained (dir : Path) (e : LoadEntry) :
    ∀ q ∈ acctLoadPaths dir e, dir <+: q ∧ q ≠ dir :=
  acctLoadPaths_under dir e

/-- The loader changes nothing outside the accounts directory, for every list of matched files (names, logins inside,
    legacy flags) and every file system. -/
theorem account_loader_outside_unchanged (dir : Path) (fs : FS) (es : List LoadEntry) (x : Path) (hx : ¬ dir <+: x) :
    lookup (acctLoad fs dir es) x = lookup fs x :=
  acctLoad_keeps dir es fs x hx

/-- Histories with restarts: any sequence of create / rename / update / delete requests and restarts (each restart
    with any matched-file list), with any logins, leaves everything outside the accounts directory as it was. -/
theorem account_history_with_restarts_outside_unchanged (dir : Path) (fs : FS) (ops : List AcctOp) (x : Path)
    (hx : ¬ dir <+: x) : lookup (acctHistory fs dir ops) x = lookup fs x :=
  acctHistory_keeps dir ops fs x hx

/-- an account created with login `../../evil` is stored as `evil.yaml`; after a rename interrupted by a crash the
    file is called `b.yaml`: the restart moves it back to `<dir>/evil.yaml` — inside. -/
def exLoaderFS : FS := [([[99]], .dir), ([[99], [85]], .dir), ([[99], [85], [98] ++ yamlSfx], .file [1])]
def exEvil : Bytes := [46, 46, 47, 46, 46, 47, 101, 118, 105, 108]

example : acctLoadPaths [[99], [85]] { name := [98] ++ yamlSfx, login := exEvil } =
    [[[99], [85], [98] ++ yamlSfx], [[99], [85], [101, 118, 105, 108] ++ yamlSfx]] := by decide
example : lookup (acctHistory exLoaderFS [[99], [85]] [.restart [{ name := [98] ++ yamlSfx, login := exEvil }]])
    [[99], [85], [101, 118, 105, 108] ++ yamlSfx] = some (.file [1]) := by decide
example : lookup (acctHistory exLoaderFS [[99], [85]] [.restart [{ name := [98] ++ yamlSfx, login := exEvil }]])
    [[99], [85], [98] ++ yamlSfx] = none := by decide

/-- The shape the loader must not have (and the seeded change C07d-3 gave it): the prescribed name joined from the RAW
    login leaves the accounts directory — and the configuration directory. -/
theorem raw_loader_name_escapes :
    ∃ dir login, ¬ (dir <+: acctFileRaw dir login) ∧ ¬ (dir.dropLast <+: acctFileRaw dir login) :=
  ⟨[[99], [85]], exEvil, by decide⟩

end Mobius.C07
