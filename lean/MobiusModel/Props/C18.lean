import MobiusModel.News
import MobiusModel.NewsDeploy
import MobiusModel.Generated.InitGuard
/-!
  C18 — Threaded news keeps every article and threads new ones correctly.

  Property theorems only (model and helper lemmas: `MobiusModel/News.lean`).  All statements hold
  for EVERY state of the store (the article maps carry their "keys are distinct" proof), hence at
  every point of every history; the history-level theorems at the end add the invariant that ties
  the file to memory.  `Codec` carries the YAML parameters; `RoundTrip` is the stated assumption.
-/
namespace Mobius.C18
open Mobius.News

variable {F : Type}

/-! ### Posting -/

/-- When does `PostArticle` succeed / fail / panic: an empty path is an error; a path naming no item
    panics (nil map); with an item it succeeds iff the thread parent is 0 or present, else panics. -/
theorem post_outcome (cd : Codec F) (path : Path) (parent : Nat) (a : Art) (st : State F) :
    (path = [] → post cd path parent a st = .err st) ∧
    (path ≠ [] → st.mem.get path = none → post cd path parent a st = .panic st) ∧
    (∀ c, path ≠ [] → st.mem.get path = some c →
      ((parent = 0 ∨ (c.arts.get parent).isSome) → ∃ st', post cd path parent a st = .ok st') ∧
      (¬ (parent = 0 ∨ (c.arts.get parent).isSome) → ∃ st', post cd path parent a st = .panic st')) := by
  refine ⟨?_, ?_, ?_⟩
  · intro h; unfold post; rw [if_pos h]
  · intro h hn; unfold post; rw [if_neg h, hn]
  · intro c h hc
    unfold post
    rw [if_neg h, hc]
    simp only
    constructor
    · intro hp
      rw [(postArts_ok_iff c.arts parent a).mpr hp]
      exact ⟨_, rfl⟩
    · intro hp
      have : (postArts c.arts parent a).2 = false := by
        cases hb : (postArts c.arts parent a).2 with
        | false => rfl
        | true => exact absurd ((postArts_ok_iff c.arts parent a).mp hb) hp
      rw [this]
      exact ⟨_, rfl⟩

/-- A successful post gives the article an id not used by any article present in the category:
    `max present id + 1` (1 in an empty category); the article is stored under it with the
    requested parent, `prev` = the previously newest id, and the title/poster/date/body it came with. -/
theorem post_fresh_id (cd : Codec F) (path : Path) (parent : Nat) (a : Art) (st st' : State F)
    (h : post cd path parent a st = .ok st') :
    ∃ c, st.mem.get path = some c ∧
      getArticle st.mem path (nextId c.arts) = none ∧
      (∀ k b, getArticle st.mem path k = some b → k < nextId c.arts) ∧
      (c.arts.keys = [] → nextId c.arts = 1) ∧
      (c.arts.keys ≠ [] → nextId c.arts = maxKey c.arts + 1 ∧ maxKey c.arts ∈ c.arts.keys) ∧
      ∃ n, getArticle st'.mem path (nextId c.arts) = some n ∧
        n.parent = parent ∧ n.content = a.content ∧ (c.arts.keys ≠ [] → n.prev = maxKey c.arts) := by
  unfold post at h
  by_cases hp : path = []
  · rw [if_pos hp] at h; cases h
  · rw [if_neg hp] at h
    cases hc : st.mem.get path with
    | none => rw [hc] at h; cases h
    | some c =>
      rw [hc] at h
      simp only at h
      cases hok : (postArts c.arts parent a).2 with
      | false => rw [hok] at h; cases h
      | true =>
        rw [hok] at h
        simp only [if_true, R.ok.injEq] at h
        subst h
        refine ⟨c, rfl, ?_, ?_, ?_, ?_, ?_⟩
        · simp [getArticle, hc, (nextId_fresh c.arts).1]
        · intro k b hk
          simp only [getArticle, hc, Option.bind_some] at hk
          exact (nextId_fresh c.arts).2 k ((AMap.mem_keys_iff c.arts k).mpr ⟨b, hk⟩)
        · intro he; simp [nextId, he]
        · intro he; exact ⟨by simp [nextId, he], maxKey_mem c.arts he⟩
        · refine ⟨newArt c.arts parent a, ?_, by simp [newArt], by simp [newArt, Art.content], ?_⟩
          · rw [getArticle_set, if_pos rfl]
            exact postArts_new c.arts parent a hok
          · intro he; simp [newArt, he]

/-- A successful post links the new article after the previously newest one: that article's
    `next` becomes the new id. -/
theorem post_links_after_newest (cd : Codec F) (path : Path) (parent : Nat) (a : Art) (st st' : State F)
    (h : post cd path parent a st = .ok st') (c : Cat) (hc : st.mem.get path = some c) (hne : c.arts.keys ≠ []) :
    ∃ old old', c.arts.get (maxKey c.arts) = some old ∧
      getArticle st'.mem path (maxKey c.arts) = some old' ∧ old'.next = nextId c.arts := by
  unfold post at h
  by_cases hp : path = []
  · rw [if_pos hp] at h; cases h
  · rw [if_neg hp, hc] at h
    simp only at h
    cases hok : (postArts c.arts parent a).2 with
    | false => rw [hok] at h; cases h
    | true =>
      rw [hok] at h
      simp only [if_true, R.ok.injEq] at h
      subst h
      obtain ⟨old, hold⟩ := (AMap.mem_keys_iff c.arts _).mp (maxKey_mem c.arts hne)
      have hk : maxKey c.arts ≠ nextId c.arts := by
        have := (nextId_fresh c.arts).2 _ (maxKey_mem c.arts hne); omega
      refine ⟨old, touched c.arts parent true (maxKey c.arts) old, hold, ?_, ?_⟩
      · rw [getArticle_set, if_pos rfl]
        simp only
        rw [postArts_get _ _ _ _ hk, hold, hok]; rfl
      · simp only [touched, if_true]
        rw [(f2_content parent (nextId c.arts) (maxKey c.arts) _).2.2.2]
        simp [f1, hne]

/-- A successful reply sets the parent's first-child link only if it had none. -/
theorem post_first_child (cd : Codec F) (path : Path) (parent : Nat) (a : Art) (st st' : State F)
    (h : post cd path parent a st = .ok st') (c : Cat) (hc : st.mem.get path = some c) (hpar : parent ≠ 0) :
    ∃ pa pa', c.arts.get parent = some pa ∧ getArticle st'.mem path parent = some pa' ∧
      pa'.firstChild = (if pa.firstChild = 0 then nextId c.arts else pa.firstChild) := by
  unfold post at h
  by_cases hp : path = []
  · rw [if_pos hp] at h; cases h
  · rw [if_neg hp, hc] at h
    simp only at h
    cases hok : (postArts c.arts parent a).2 with
    | false => rw [hok] at h; cases h
    | true =>
      rw [hok] at h
      simp only [if_true, R.ok.injEq] at h
      subst h
      have hpres := (postArts_ok_iff c.arts parent a).mp hok
      rcases hpres with h0 | hpres
      · exact absurd h0 hpar
      · cases hpa : c.arts.get parent with
        | none => rw [hpa] at hpres; cases hpres
        | some pa =>
          have hk : parent ≠ nextId c.arts := by
            have := (nextId_fresh c.arts).2 _ ((AMap.mem_keys_iff c.arts parent).mpr ⟨pa, hpa⟩); omega
          refine ⟨pa, touched c.arts parent true parent pa, rfl, ?_, ?_⟩
          · rw [getArticle_set, if_pos rfl]
            simp only
            rw [postArts_get _ _ _ _ hk, hpa, hok]; rfl
          · show (f2 parent (nextId c.arts) parent (f1 c.arts parent pa)).firstChild = _
            unfold f2
            have hfc := (f1_content c.arts parent pa).2.2.2
            by_cases hz : pa.firstChild = 0
            · rw [if_pos ⟨hpar, rfl, by rw [hfc]; exact hz⟩, if_pos hz]
            · rw [if_neg (fun hh => hz (by rw [← hfc]; exact hh.2.2)), if_neg hz, hfc]

/-- Frame: whatever a post does (success OR contained panic), every OTHER article — in the same
    category or anywhere else — keeps its title, poster, date and body (and its `prev` / parent
    links), no article disappears, no other id appears, and the items of the tree and their types
    are unchanged.  Articles in other categories are untouched altogether. -/
theorem post_frame (cd : Codec F) (path : Path) (parent : Nat) (a : Art) (st : State F) :
    let st' := (post cd path parent a st).state
    (∀ p, (st'.mem.get p).map Cat.ty = (st.mem.get p).map Cat.ty) ∧
    (∀ p id, p ≠ path → getArticle st'.mem p id = getArticle st.mem p id) ∧
    (∀ c, st.mem.get path = some c → ∀ id, id ≠ nextId c.arts →
      (getArticle st'.mem path id).map (fun x => (x.content, x.prev, x.parent)) =
      (getArticle st.mem path id).map (fun x => (x.content, x.prev, x.parent))) := by
  intro st'
  have hst : st' = (post cd path parent a st).state := rfl
  unfold post at hst
  by_cases hp : path = []
  · rw [if_pos hp] at hst
    have : st' = st := hst
    rw [this]
    exact ⟨fun _ => rfl, fun _ _ _ => rfl, fun _ _ _ _ => rfl⟩
  · rw [if_neg hp] at hst
    cases hc : st.mem.get path with
    | none =>
      rw [hc] at hst
      have : st' = st := hst
      rw [this]
      exact ⟨fun _ => rfl, fun _ _ _ => rfl, fun _ _ _ _ => rfl⟩
    | some c =>
      rw [hc] at hst
      simp only at hst
      have hmem : st'.mem = st.mem.set path { c with arts := (postArts c.arts parent a).1 } := by
        rw [hst]; cases (postArts c.arts parent a).2 <;> rfl
      rw [hmem]
      refine ⟨?_, ?_, ?_⟩
      · intro p
        rw [AMap.get_set]
        by_cases e : p = path
        · rw [if_pos e, e, hc]; rfl
        · rw [if_neg e]
      · intro p id hne
        rw [getArticle_set, if_neg hne]
      · intro c' hc' id hid
        cases hc'
        rw [getArticle_set, if_pos rfl]
        simp only
        rw [postArts_get _ _ _ _ hid]
        have : getArticle st.mem path id = c.arts.get id := by simp [getArticle, hc]
        rw [this, Option.map_map]
        congr 1
        funext x
        have := touched_content c.arts parent (postArts c.arts parent a).2 id x
        simp [this.1, this.2.1, this.2.2]

/-- A post that panics (missing category / missing thread parent) persists nothing and changes no
    article's title, poster, date or body; no article appears or disappears. -/
theorem post_panic_harmless (cd : Codec F) (path : Path) (parent : Nat) (a : Art) (st st' : State F)
    (h : post cd path parent a st = .panic st') :
    st'.disk = st.disk ∧
    ∀ p id, (getArticle st'.mem p id).map Art.content = (getArticle st.mem p id).map Art.content := by
  have hfr := post_frame cd path parent a st
  rw [h] at hfr
  simp only [R.state] at hfr
  unfold post at h
  by_cases hp : path = []
  · rw [if_pos hp] at h; cases h
  · rw [if_neg hp] at h
    cases hc : st.mem.get path with
    | none =>
      rw [hc] at h
      cases h
      exact ⟨rfl, fun _ _ => rfl⟩
    | some c =>
      rw [hc] at h
      simp only at h
      cases hok : (postArts c.arts parent a).2 with
      | true => rw [hok] at h; cases h
      | false =>
        rw [hok] at h
        simp only [Bool.false_eq_true, if_false, R.panic.injEq] at h
        refine ⟨by rw [← h], ?_⟩
        intro p id
        by_cases e : p = path
        · subst e
          by_cases hid : id = nextId c.arts
          · subst hid
            rw [← h, getArticle_set, if_pos rfl]
            simp only
            rw [postArts_new_fail _ _ _ hok]
            simp [getArticle, hc, (nextId_fresh c.arts).1]
          · have := hfr.2.2 c hc id hid
            have h1 := congrArg (Option.map (fun (x : (Bytes × Bytes × Bytes × Bytes) × Nat × Nat) => x.1)) this
            simpa [Option.map_map, Function.comp_def] using h1
        · rw [hfr.2.1 p id e]

/-- A successful mutation writes the whole tree to the file. -/
theorem post_persists (cd : Codec F) (path : Path) (parent : Nat) (a : Art) (st st' : State F)
    (h : post cd path parent a st = .ok st') : st'.disk = cd.ser st'.mem := by
  unfold post at h
  by_cases hp : path = []
  · rw [if_pos hp] at h; cases h
  · rw [if_neg hp] at h
    cases hc : st.mem.get path with
    | none => rw [hc] at h; cases h
    | some c =>
      rw [hc] at h
      simp only at h
      cases hok : (postArts c.arts parent a).2 with
      | false => rw [hok] at h; cases h
      | true =>
        rw [hok] at h
        simp only [if_true, R.ok.injEq] at h
        rw [← h]

/-! ### Deleting -/

/-- Deleting an article removes exactly that article: it is gone, every other article (same
    category or not) is untouched — including its links —, the tree is unchanged; a path that names
    no item is an error that changes nothing (no item is created, fix 1d47fc0). -/
theorem delete_article_exact (cd : Codec F) (path : Path) (id : Nat) (st : State F) :
    (st.mem.get path = none ∨ path = [] → deleteArticle cd path id st = .err st) ∧
    (∀ c, path ≠ [] → st.mem.get path = some c → ∃ st', deleteArticle cd path id st = .ok st' ∧
      st'.disk = cd.ser st'.mem ∧
      getArticle st'.mem path id = none ∧
      (∀ p k, (p, k) ≠ (path, id) → getArticle st'.mem p k = getArticle st.mem p k) ∧
      (∀ p, (st'.mem.get p).map Cat.ty = (st.mem.get p).map Cat.ty)) := by
  constructor
  · intro h
    unfold deleteArticle
    by_cases hp : path = []
    · rw [if_pos hp]
    · rw [if_neg hp]
      rcases h with h | h
      · rw [h]
      · exact absurd h hp
  · intro c hp hc
    unfold deleteArticle
    rw [if_neg hp, hc]
    refine ⟨_, rfl, rfl, ?_, ?_, ?_⟩
    · rw [getArticle_set, if_pos rfl]; simp
    · intro p k hne
      rw [getArticle_set]
      by_cases e : p = path
      · rw [if_pos e]
        have hk : k ≠ id := fun x => hne (by rw [e, x])
        simp only
        rw [AMap.get_del_ne _ _ _ hk, e]
        simp [getArticle, hc]
      · rw [if_neg e]
    · intro p
      simp only
      rw [AMap.get_set]
      by_cases e : p = path
      · rw [if_pos e, e, hc]; rfl
      · rw [if_neg e]

/-- Deleting a bundle/category removes exactly the items at and below that path (with their
    articles); everything else is untouched. -/
theorem delete_item_exact (cd : Codec F) (path : Path) (st : State F) (hp : path ≠ []) :
    ∃ st', deleteItem cd path st = .ok st' ∧ st'.disk = cd.ser st'.mem ∧
      (∀ q, path <+: q → st'.mem.get q = none) ∧
      (∀ q, ¬ path <+: q → st'.mem.get q = st.mem.get q) := by
  unfold deleteItem
  rw [if_neg hp]
  refine ⟨_, rfl, rfl, ?_, ?_⟩
  · intro q hq; simp only; rw [get_removeUnder, if_pos hq]
  · intro q hq; simp only; rw [get_removeUnder, if_neg hq]

/-- Creating a bundle/category under an existing path (or at the top level) puts a fresh empty item
    of that type at `path ++ [name]` — REPLACING an item of that name together with everything below
    it, which is what the code does — and touches nothing else; under a path that names nothing it
    panics (nil map) and changes nothing. -/
theorem create_grouping_effect (cd : Codec F) (path : Path) (name : Bytes) (ty : Nat) (st : State F) :
    (mapExists st.mem path = false → createGrouping cd path name ty st = .panic st) ∧
    (mapExists st.mem path = true → ∃ st', createGrouping cd path name ty st = .ok st' ∧ st'.disk = cd.ser st'.mem ∧
      st'.mem.get (path ++ [name]) = some ⟨ty, AMap.empty⟩ ∧
      (∀ q, (path ++ [name]) <+: q → q ≠ path ++ [name] → st'.mem.get q = none) ∧
      (∀ q, ¬ (path ++ [name]) <+: q → st'.mem.get q = st.mem.get q)) := by
  constructor
  · intro h; unfold createGrouping; rw [h]; rfl
  · intro h
    unfold createGrouping
    rw [h]
    refine ⟨_, rfl, rfl, ?_, ?_, ?_⟩
    · simp
    · intro q hq hne
      simp only
      rw [AMap.get_set_ne _ _ _ _ hne, get_removeUnder, if_pos hq]
    · intro q hq
      have hne : q ≠ path ++ [name] := fun x => hq (by rw [x]; exact List.prefix_refl _)
      simp only
      rw [AMap.get_set_ne _ _ _ _ hne, get_removeUnder, if_neg hq]

/-! ### Listings -/

/-- The article list is every present article exactly once, in ascending id order. -/
theorem list_articles_complete_sorted (t : Tree) (path : Path) :
    (∀ id a, (id, a) ∈ listArticles t path ↔ getArticle t path id = some a) ∧
    (listArticles t path).Pairwise (fun x y => x.1 < y.1) ∧
    ((listArticles t path).map Prod.fst).Nodup :=
  ⟨listArticles_mem t path, listArticles_sorted t path, by
    have := listArticles_sorted t path
    unfold List.Nodup
    rw [List.pairwise_map]
    exact this.imp (fun h => by omega)⟩

/-- The encoding is parseable: for ids / parents below 2^32, 8-byte dates and titles / posters of at
    most 255 bytes the reference parser (what a client does, `Wire.parseArtEntries`) recovers from the
    emitted bytes exactly the listed entries — id, date, parent, title, poster and, for bodies of at
    most 65 535 bytes, the body size. -/
theorem list_articles_parseable (t : Tree) (path : Path)
    (hwf : ∀ id a, getArticle t path id = some a →
      id < 4294967296 ∧ a.date.length = 8 ∧ a.parent < 4294967296 ∧ a.title.length < 256 ∧ a.poster.length < 256) :
    let es := (listArticles t path).map artEntry
    parseArtEntries es.length (es.map ArtEntry.encode).flatten = some es ∧
    listArticlesField t path = artListEncode 0 es.length [] [] (es.map ArtEntry.encode).flatten ∧
    (∀ e ∈ listArticles t path, e.2.data.length < 65536 → (artEntry e).size = e.2.data.length) := by
  intro es
  refine ⟨?_, rfl, ?_⟩
  · apply parseArtEntries_encode
    intro e he
    obtain ⟨x, hx, rfl⟩ := List.mem_map.mp he
    obtain ⟨id, a⟩ := x
    have := hwf id a ((listArticles_mem t path id a).mp hx)
    exact ⟨this.1, this.2.1, this.2.2.1, this.2.2.2.1, this.2.2.2.2, Nat.mod_lt _ (by omega)⟩
  · intro e _ hl
    simp [artEntry, Nat.mod_eq_of_lt hl]

/-- One entry parses back from its own bytes with anything after it (the per-entry step). -/
theorem art_entry_parse_encode (e : ArtEntry) (h : e.WF) (rest : Bytes) :
    ArtEntry.parse (e.encode ++ rest) = some (e, rest) := artEntry_parse_encode e h rest

/-- The category listing of a path shows exactly the items directly below it, sorted by name. -/
theorem list_categories_children_sorted (t : Tree) (path : Path) :
    (∀ n c, (n, c) ∈ listCats t path ↔ t.get (path ++ [n]) = some c) ∧
    (listCats t path).Pairwise (fun x y => lexLe x.1 y.1 = true) :=
  ⟨listCats_mem t path, listCats_sorted t path⟩

/-! ### Reload and histories -/

/-- Under the YAML round-trip assumption, reloading after any successful mutation reproduces the
    tree that is in memory. -/
theorem reload_reproduces (cd : Codec F) (hrt : cd.RoundTrip) (st : State F) (op : Op) (st' : State F)
    (hop : op ≠ .reload) (h : step cd st op = .ok st') : reload cd st' = .ok st' := by
  have hd : st'.disk = cd.ser st'.mem := by
    cases op with
    | reload => exact absurd rfl hop
    | newBundle p n =>
      have := (create_grouping_effect cd p n 2 st)
      cases hm : mapExists st.mem p with
      | false => have e := this.1 hm; simp only [step] at h; rw [e] at h; cases h
      | true => obtain ⟨s, e, hd, _⟩ := this.2 hm; simp only [step] at h; rw [e] at h; cases h; exact hd
    | newCategory p n =>
      have := (create_grouping_effect cd p n 3 st)
      cases hm : mapExists st.mem p with
      | false => have e := this.1 hm; simp only [step] at h; rw [e] at h; cases h
      | true => obtain ⟨s, e, hd, _⟩ := this.2 hm; simp only [step] at h; rw [e] at h; cases h; exact hd
    | post p par a => exact post_persists cd p par a st st' h
    | delArticle p id =>
      simp only [step] at h
      unfold deleteArticle at h
      by_cases hp : p = []
      · rw [if_pos hp] at h; cases h
      · rw [if_neg hp] at h
        cases hc : st.mem.get p with
        | none => rw [hc] at h; cases h
        | some c => rw [hc] at h; cases h; rfl
    | delItem p =>
      simp only [step] at h
      unfold deleteItem at h
      by_cases hp : p = []
      · rw [if_pos hp] at h; cases h
      · rw [if_neg hp] at h; cases h; rfl
  obtain ⟨m, d⟩ := st'
  simp only at hd
  subst hd
  unfold reload
  have := hrt m
  simp only [this]

/-- `reload (persist t) = t` — the assumption itself, as the model uses it. -/
theorem reload_persist (cd : Codec F) (hrt : cd.RoundTrip) (t : Tree) :
    reload cd ⟨t, cd.ser t⟩ = .ok ⟨t, cd.ser t⟩ := by
  unfold reload; rw [hrt]

/-- an operation that does not delete / overwrite the article `(path, id)` -/
def Spares (path : Path) (id : Nat) : Op → Prop
  | .newBundle p n => ¬ (p ++ [n]) <+: path
  | .newCategory p n => ¬ (p ++ [n]) <+: path
  | .post _ _ _ => True
  | .delArticle p k => (p, k) ≠ (path, id)
  | .delItem p => ¬ p <+: path
  | .reload => True

instance (path : Path) (id : Nat) (o : Op) : Decidable (Spares path id o) := by
  cases o <;> unfold Spares <;> infer_instance

/-- ALL HISTORIES.  Started in a state whose file matches memory, after ANY history of create-bundle,
    create-category, post, reply (successful or panicking), delete-article, delete-item and reload that
    does not delete or overwrite the article, the article is still retrievable under its id with the
    same title, poster, date and body. -/
theorem article_survives_history (cd : Codec F) (hrt : cd.RoundTrip) (ops : List Op) (st : State F) (hg : Good cd st)
    (path : Path) (id : Nat) (a : Art) (ha : getArticle st.mem path id = some a)
    (hs : ∀ o ∈ ops, Spares path id o) :
    (getArticle (run cd st ops).mem path id).map Art.content = some a.content := by
  induction ops generalizing st a with
  | nil => simp [run, ha]
  | cons o rest ih =>
    simp only [run, List.foldl_cons]
    have hg' := step_good cd hrt st o hg
    have hsp := hs o (by simp)
    -- one step keeps the article with its content
    have key : ∃ a', getArticle (step cd st o).state.mem path id = some a' ∧ a'.content = a.content := by
      have hcpath : ∃ c, st.mem.get path = some c := by
        cases hc : st.mem.get path with
        | none => simp [getArticle, hc] at ha
        | some c => exact ⟨c, rfl⟩
      obtain ⟨c, hc⟩ := hcpath
      have cg : ∀ (p : Path) (n : Bytes) (ty : Nat), ¬ (p ++ [n]) <+: path →
          getArticle (createGrouping cd p n ty st).state.mem path id = some a := by
        intro p n ty hnp
        have := create_grouping_effect cd p n ty st
        cases hm : mapExists st.mem p with
        | false => rw [this.1 hm]; exact ha
        | true =>
          obtain ⟨s, e, _, _, _, hfr⟩ := this.2 hm
          rw [e]
          simp only [R.state, getArticle]
          rw [hfr path hnp]
          exact ha
      cases o with
      | newBundle p n => exact ⟨a, cg p n 2 hsp, rfl⟩
      | newCategory p n => exact ⟨a, cg p n 3 hsp, rfl⟩
      | post p par b =>
        have hfr := post_frame cd p par b st
        by_cases e : path = p
        · subst e
          have hid : id ≠ nextId c.arts := by
            intro x
            have := (nextId_fresh c.arts).1
            simp [getArticle, hc, x, this] at ha
          have := hfr.2.2 c hc id hid
          rw [ha] at this
          cases hg2 : getArticle (post cd path par b st).state.mem path id with
          | none => simp [step, hg2] at this
          | some a' =>
            simp only [step, hg2, Option.map_some, Option.some.injEq, Prod.mk.injEq] at this
            exact ⟨a', hg2, this.1⟩
        · exact ⟨a, by simp only [step]; rw [hfr.2.1 path id e]; exact ha, rfl⟩
      | delArticle p k =>
        simp only [step]
        have := delete_article_exact cd p k st
        by_cases hp : p = []
        · rw [this.1 (Or.inr hp)]; exact ⟨a, ha, rfl⟩
        · cases hcp : st.mem.get p with
          | none => rw [this.1 (Or.inl hcp)]; exact ⟨a, ha, rfl⟩
          | some cp =>
            obtain ⟨s, e, _, _, hfr, _⟩ := this.2 cp hp hcp
            rw [e]
            exact ⟨a, by simp only [R.state]; rw [hfr path id (fun x => hsp x.symm)]; exact ha, rfl⟩
      | delItem p =>
        simp only [step]
        by_cases hp : p = []
        · exact absurd (by rw [hp]; exact List.nil_prefix) hsp
        · obtain ⟨s, e, _, _, hfr⟩ := delete_item_exact cd p st hp
          rw [e]
          exact ⟨a, by simp only [R.state, getArticle]; rw [hfr path hsp]; exact ha, rfl⟩
      | reload =>
        simp only [step]
        obtain ⟨_, t, hd, _, hsame⟩ := hg
        unfold reload
        rw [hd]
        simp only [R.state]
        have := (hsame path).2 id
        rw [ha] at this
        cases hgt : getArticle t path id with
        | none => simp [hgt] at this
        | some a' =>
          simp only [hgt, Option.map_some, Option.some.injEq] at this
          exact ⟨a', rfl, strip_content a' a this⟩
    obtain ⟨a', ha', hcont⟩ := key
    rw [← hcont]
    exact ih _ hg' a' ha' (fun o ho => hs o (by simp [ho]))

/-- ALL HISTORIES.  Every reachable state (from a state whose file matches memory) is a proper
    tree whose file loads to the same tree up to `next` links that a contained panic left
    un-persisted: a restart never loses or alters an article's title, poster, date, body, parent,
    `prev` or first-child link, nor any bundle / category. -/
theorem reachable_file_matches_memory (cd : Codec F) (hrt : cd.RoundTrip) (ops : List Op) (st : State F)
    (hg : Good cd st) :
    ∃ t, cd.deser (run cd st ops).disk = some t ∧
      ∀ p, (t.get p).map Cat.ty = ((run cd st ops).mem.get p).map Cat.ty ∧
        ∀ id, (getArticle t p id).map Art.strip = (getArticle (run cd st ops).mem p id).map Art.strip := by
  obtain ⟨_, t, hd, _, hs⟩ := run_good cd hrt ops st hg
  exact ⟨t, hd, hs⟩

/-! ### Non-vacuity and negation witnesses -/

/-- test codec: the file is the tree -/
def cdT : Codec Tree := ⟨id, some⟩
theorem cdT_roundtrip : cdT.RoundTrip := fun _ => rfl

def s0 : State Tree := ⟨AMap.empty, AMap.empty⟩
theorem s0_good : Good cdT s0 :=
  good_persisted cdT cdT_roundtrip AMap.empty (fun p n h => by simp at h)

def artA (t : UInt8) : Art := ⟨[t], [80], [7, 228, 0, 0, 0, 0, 0, 1], 0, 0, 0, 0, [100, t]⟩

/-- bundle "B", category "B/c", three posts (one thread + a reply + another thread), a reply to a
    missing parent (panics), a post to a missing category (panics), a delete, a reload -/
def hist : List Op := [
  .newBundle [] [66], .newCategory [[66]] [99],
  .post [[66], [99]] 0 (artA 1), .post [[66], [99]] 1 (artA 2), .post [[66], [99]] 0 (artA 3),
  .post [[66], [99]] 9 (artA 4), .post [[66], [120]] 0 (artA 5),
  .delArticle [[66], [99]] 2, .reload, .post [[66], [99]] 1 (artA 6)]

-- links after the history: 1 is the thread root with first child 2 (since deleted), 3 follows 2, 4 (a reply to 1) follows 3
example : (getArticle (run cdT s0 hist).mem [[66], [99]] 1).map (fun a => (a.prev, a.next, a.parent, a.firstChild)) = some (0, 2, 0, 2) := by decide
example : (getArticle (run cdT s0 hist).mem [[66], [99]] 3).map (fun a => (a.prev, a.next, a.parent, a.firstChild)) = some (2, 4, 0, 0) := by decide
example : (getArticle (run cdT s0 hist).mem [[66], [99]] 4).map (fun a => (a.prev, a.next, a.parent, a.firstChild)) = some (3, 0, 1, 0) := by decide
example : getArticle (run cdT s0 hist).mem [[66], [99]] 2 = none := by decide
-- the reply to the missing parent 9 and the post to the missing category "B/x" panic
example : (post cdT [[66], [99]] 9 (artA 4) (run cdT s0 (hist.take 5))).kind = 2 := by decide
example : (post cdT [[66], [120]] 0 (artA 5) (run cdT s0 (hist.take 6))).kind = 2 := by decide
example : (post cdT [[66], [99]] 1 (artA 2) (run cdT s0 (hist.take 3))).kind = 0 := by decide
-- the contained panic left `next` of article 3 overwritten in memory only; the file still has 0
example : (getArticle (run cdT s0 (hist.take 6)).mem [[66], [99]] 3).map (·.next) = some 4 := by decide
example : (getArticle (run cdT s0 (hist.take 6)).disk [[66], [99]] 3).map (·.next) = some 0 := by decide
example : ∀ o ∈ hist.drop 3, Spares [[66], [99]] 1 o := by decide
example : ∃ c, ([66], c) ∈ listCats (run cdT s0 hist).mem [] :=
  ⟨⟨2, AMap.empty⟩, (listCats_mem _ _ _ _).mpr (by decide)⟩
example : ∃ a, (3, a) ∈ listArticles (run cdT s0 hist).mem [[66], [99]] :=
  ⟨⟨[3], [80], [7, 228, 0, 0, 0, 0, 0, 1], 2, 4, 0, 0, [100, 3]⟩, (listArticles_mem _ _ 3 _).mpr (by decide)⟩
example : (⟨7, [0, 0, 0, 0, 0, 0, 0, 0], 3, [84], [80, 81], 5⟩ : ArtEntry).WF := by decide
example : parseArtEntries 2 (([⟨7, [0, 0, 0, 0, 0, 0, 0, 0], 3, [84], [80, 81], 5⟩, ⟨9, [1, 2, 3, 4, 5, 6, 7, 8], 7, [], [80], 65535⟩] : List ArtEntry).map ArtEntry.encode).flatten
    = some [⟨7, [0, 0, 0, 0, 0, 0, 0, 0], 3, [84], [80, 81], 5⟩, ⟨9, [1, 2, 3, 4, 5, 6, 7, 8], 7, [], [80], 65535⟩] := by decide +kernel

/-- The behaviour before fix 1d47fc0, as a negation witness: `DeleteArticle` assigned
    `cats[name] = cat` unconditionally, creating a nameless type-0 item under a path that named nothing. -/
def deleteArticleOld (path : Path) (id : Nat) (st : State Tree) : State Tree :=
  match st.mem.get path with
  | none => let t' := st.mem.set path ⟨0, AMap.empty⟩; ⟨t', t'⟩
  | some c => let t' := st.mem.set path { c with arts := c.arts.del id }; ⟨t', t'⟩

theorem old_delete_article_creates_item :
    s0.mem.get [[110]] = none ∧ (deleteArticleOld [[110]] 1 s0).mem.get [[110]] = some ⟨0, AMap.empty⟩ ∧
    ∃ c, ([110], c) ∈ listCats (deleteArticleOld [[110]] 1 s0).mem [] :=
  ⟨by decide, by decide, ⟨⟨0, AMap.empty⟩, (listCats_mem _ _ _ _).mpr (by decide)⟩⟩

/-! ### Wave d: operator steps anywhere in a history; requests through the wire parser -/

/-- "Reloading the news file reproduces the same tree", as a HISTORY theorem: take any history of requests `h`
    and insert reload steps (SIGHUP, /api/v1/reload, a restart) at arbitrary points (`h'`).  Under the YAML
    hypothesis, started from a state whose file holds memory, both histories end in the SAME state (memory and
    file) — hence every later reply is the same.

    Full statement (not proved): the same for every `h`, with the final memories equal up to `next` links.
    Proved here: for histories in which no reply names a missing parent (`NoOrphan`).  What is missing: such a
    reply panics after the previously newest article's `next` was overwritten in memory only
    (`post_panic_harmless`), so a later reload legitimately resets that one link; the statement then needs the
    congruence of every operation under `SameButNext`, which `reachable_file_matches_memory` gives only for the
    final state, not for two runs side by side. -/
theorem reloads_erasable_partial (cd : Codec F) (hrt : cd.RoundTrip) (h h' : List Op) (w : WithReloads h h')
    (st : State F) (hs : Synced cd st) (hno : NoOrphan cd st h) :
    run cd st h' = run cd st h := by
  induction w generalizing st with
  | nil => rfl
  | keep o _ ih =>
    rw [run_cons, run_cons]
    exact ih _ (step_synced cd hrt st o hs hno.1) hno.2
  | ins _ ih =>
    rw [run_cons]
    show run cd (reload cd st).state _ = _
    rw [reload_synced cd hrt st hs]
    exact ih st hs hno

/-- … and at every point in between: the file keeps following memory (so the theorem applies to every prefix). -/
theorem history_stays_synced (cd : Codec F) (hrt : cd.RoundTrip) (ops : List Op) (st : State F) (hs : Synced cd st)
    (hno : NoOrphan cd st ops) : (run cd st ops).disk = cd.ser (run cd st ops).mem :=
  run_synced cd hrt ops st hs hno

/-- every request keeps the file equal to memory, except a reply to a missing parent -/
theorem request_persists_or_is_orphan_reply (cd : Codec F) (hrt : cd.RoundTrip) (st : State F) (op : Op)
    (hs : Synced cd st) : Synced cd (step cd st op).state ∨ OrphanReply st op := by
  by_cases h : OrphanReply st op
  · exact Or.inr h
  · exact Or.inl (step_synced cd hrt st op hs h)

/-- THE DEPLOYED BINARY.  On an initialised configuration directory (one that holds `config.yaml`) a start of the
    binary is a reload of the news file, with or without `-init`: `-init` never replaces the file. -/
theorem start_is_reload (cd : Codec F) (template : F) (init : Bool) (d : Deploy F) (h : d.initialised = true) :
    (start cd template init d).state.st = (reload cd d.st).state ∧
    (start cd template init d).state.st.disk = d.st.disk ∧
    (start cd template init d).state.initialised = true :=
  ⟨(start_initialised cd template init d h).1, start_keeps_file cd template init d h, (start_initialised cd template init d h).2.2⟩

/-- the first start with `-init` on a directory that holds nothing: the news are the template's -/
theorem first_start_gives_template (cd : Codec F) (template : F) (t0 : Tree) (d : Deploy F) (h : d.initialised = false)
    (ht : cd.deser template = some t0) : start cd template true d = .ok ⟨⟨t0, template⟩, true⟩ :=
  start_first cd template t0 d h ht

/-- Any deployment history — requests with restarts of the binary (`-init` or not) at arbitrary points — on an
    initialised directory ends with the news exactly as the requests alone leave them (same hypothesis as
    `reloads_erasable_partial`). -/
theorem restarts_erasable_partial (cd : Codec F) (hrt : cd.RoundTrip) (template : F) (ops : List DOp) (d : Deploy F)
    (hi : d.initialised = true) (hs : Synced cd d.st) (hno : NoOrphan cd d.st (requests ops)) :
    (drun cd template d ops).st = run cd d.st (requests ops) ∧ (drun cd template d ops).initialised = true := by
  induction ops generalizing d with
  | nil => exact ⟨rfl, hi⟩
  | cons o rest ih =>
    cases o with
    | req op =>
      have := ih ⟨(step cd d.st op).state, d.initialised⟩ hi (step_synced cd hrt d.st op hs hno.1) hno.2
      simpa [drun, dstep, requests, run] using this
    | restart i =>
      have e : dstep cd template d (.restart i) = d := start_synced cd hrt template i d hi hs
      have := ih d hi hs hno
      simp only [drun, List.foldl_cons, e]
      simpa [drun, requests] using this

/-- REQUESTS THROUGH THE WIRE PARSER (C01's round-trip theorem applied to a post): serialise the five fields of a
    post in ANY order, with a path / id / title / body of any size a field can carry (< 65536 bytes each);
    `Transaction.Write` returns exactly those fields, and `GetField` hands the handler the path, parent id, title
    and body that were sent. -/
theorem post_request_parsed (path idf title body : Bytes) (fs : List Field) (hp : (postRequest path idf title body).Perm fs)
    (hl : path.length < 65536 ∧ idf.length < 65536 ∧ title.length < 65536 ∧ body.length < 65536)
    (fl : UInt8) (id : Nat) (hid : id < 4294967296) :
    Transaction.decode (Transaction.encode ⟨fl, 0, 410, id, 0, fs⟩) = .ok ⟨fl, 0, 410, id, 0, fs⟩ ∧
    reqField 325 fs = some path ∧ reqField 326 fs = some idf ∧ reqField 328 fs = some title ∧ reqField 333 fs = some body := by
  have hnd : ((postRequest path idf title body).map (·.ty)).Nodup := by simp [postRequest]
  have hwf : ∀ f ∈ postRequest path idf title body, f.Scannable := by
    intro f hf
    simp only [postRequest, List.mem_cons, List.not_mem_nil, or_false] at hf
    rcases hf with rfl | rfl | rfl | rfl | rfl <;> simp [Field.Scannable, Field.WF, textPlain] <;> omega
  have hlen : fs.length = 5 := by rw [← hp.length_eq]; rfl
  have hsum : (fs.map fun f => 4 + f.data.length).sum = ((postRequest path idf title body).map fun f => 4 + f.data.length).sum :=
    ((hp.map _).sum_nat).symm
  refine ⟨?_, ?_, ?_, ?_, ?_⟩
  · apply Transaction.decode_encode'
    refine ⟨by show (410 : Nat) < 65536; omega, hid, by show (0 : Nat) < 4294967296; omega, fun f hf => hwf f (hp.mem_iff.mpr hf), by rw [hlen]; decide, ?_⟩
    show 2 + (fs.map fun f => 4 + f.data.length).sum + 20 < 4294967296
    rw [hsum]
    simp [postRequest, textPlain]
    omega
  all_goals (rw [reqField_perm _ _ _ hp hnd]; rfl)

-- non-vacuity: a history with a reload in three places; the deployed binary restarted twice; a permuted post
def histPlain : List Op := [
  .newBundle [] [66], .newCategory [[66]] [99], .post [[66], [99]] 0 (artA 1), .post [[66], [99]] 1 (artA 2),
  .newBundle [[66]] [101], .newCategory [[66], [101]] [102], .delArticle [[66], [99]] 2, .post [[66], [120]] 0 (artA 5)]
def histReloaded : List Op := [
  .newBundle [] [66], .reload, .newCategory [[66]] [99], .post [[66], [99]] 0 (artA 1), .reload, .reload, .post [[66], [99]] 1 (artA 2),
  .newBundle [[66]] [101], .reload, .newCategory [[66], [101]] [102], .delArticle [[66], [99]] 2, .post [[66], [120]] 0 (artA 5), .reload]
example : WithReloads histPlain histReloaded :=
  .keep _ (.ins (.keep _ (.keep _ (.ins (.ins (.keep _ (.keep _ (.ins (.keep _ (.keep _ (.keep _ (.ins .nil))))))))))))
example : Synced cdT s0 := rfl
example : NoOrphan cdT s0 histPlain := by decide
example : (run cdT s0 histReloaded).mem.toList = (run cdT s0 histPlain).mem.toList ∧ (run cdT s0 histReloaded).disk.toList = (run cdT s0 histPlain).disk.toList := by decide
-- a bundle created, the file reloaded while it is empty, a category created inside it: it is there
example : ((run cdT s0 histReloaded).mem.get [[66], [101], [102]]).map Cat.ty = some 3 := by decide
-- a reply to a missing parent is exactly what the hypothesis excludes
example : OrphanReply (run cdT s0 (hist.take 5)) (.post [[66], [99]] 9 (artA 4)) := by decide
example : (drun cdT (AMap.empty : Tree) ⟨s0, false⟩ [.restart true, .req (.newCategory [] [99]), .req (.post [[99]] 0 (artA 1)), .restart true,
    .req (.post [[99]] 1 (artA 2)), .restart false]).st.disk.toList = (run cdT s0 [.newCategory [] [99], .post [[99]] 0 (artA 1), .post [[99]] 1 (artA 2)]).disk.toList := by decide
example : (postRequest [0, 1, 0, 0, 1, 99] [0, 0] [84] [98, 111, 100, 121]).Perm
    [⟨333, [98, 111, 100, 121]⟩, ⟨325, [0, 1, 0, 0, 1, 99]⟩, ⟨327, textPlain⟩, ⟨328, [84]⟩, ⟨326, [0, 0]⟩] := by decide

/-! ### Obligation over the regenerated shape of the `-init` block (cmd/mobius-hotline-server/main.go) -/

def guardFact (k : String) : String := ((Generated.initGuard.find? (·.1 = k)).map (·.2)).getD ""

/-- The model's `Deploy.initialised` is ONE flag: "config.yaml exists in the configuration directory".  That is
    what the code does iff the directory whose `config.yaml` the `-init` guard stats is the `-config` directory,
    which is also the directory the template is copied over, the configuration is loaded from and
    ThreadedNews.yaml is loaded from; and the copy happens only when the stat says "does not exist", in one place. -/
theorem init_guard_is_the_models :
    Generated.initGuardProblems = [] ∧
    guardFact "config_flag_var" ≠ "" ∧ guardFact "stat_dir" = "*" ++ guardFact "config_flag_var" ∧
    guardFact "copy_dst" = guardFact "stat_dir" ∧ guardFact "mkdir" = guardFact "stat_dir" ∧
    guardFact "config_dir" = guardFact "stat_dir" ∧ guardFact "news_dir" = guardFact "stat_dir" ∧
    guardFact "stat_file" = guardFact "config_file" ∧ guardFact "copy_when" = "os.IsNotExist(err)" ∧
    guardFact "news_file" = "ThreadedNews.yaml" := by decide

end Mobius.C18
