import MobiusModel.News
/-!
  C18 — Threaded news keeps every article and threads new ones correctly.

  Property theorems only (model and helper lemmas: `MobiusModel/News.lean`).  All statements hold
  for EVERY state of the store (the article maps carry their "keys are distinct" proof), hence at
  every point of every history; the history-level theorems at the end add the invariant that ties
  the file to memory.  `Codec` carries the YAML parameters; `RoundTrip` is the stated assumption.
-/
namespace Mobius.C18
open Mobius.News

variable {F : Type}

/-! ### Posting -/

/-- When does `PostArticle` succeed / fail / panic: an empty path is an error; a path naming no item
    panics (nil map); with an item it succeeds iff the thread parent is 0 or present, else panics. -/
theorem post_outcome (cd : Codec F) (path : Path) (parent : Nat) (a : Art) (st : State F) :
    (path = [] → post cd path parent a st = .err st) ∧
    (path ≠ [] → st.mem.get path = none → post cd path parent a st = .panic st) ∧
    (∀ c, path ≠ [] → st.mem.get path = some c →
      ((parent = 0 ∨ (c.arts.get parent).isSome) → ∃ st', post cd path parent a st = .ok st') ∧
      (¬ (parent = 0 ∨ (c.arts.get parent).isSome) → ∃ st', post cd path parent a st = .panic st')) := by
  refine ⟨?_, ?_, ?_⟩
  · intro h; unfold post; rw [if_pos h]
  · intro h hn; unfold post; rw [if_neg h, hn]
  · intro c h hc
    unfold post
    rw [if_neg h, hc]
    simp only
    constructor
    · intro hp
      rw [(postArts_ok_iff c.arts parent a).mpr hp]
      exact ⟨_, rfl⟩
    · intro hp
      have : (postArts c.arts parent a).2 = false := by
        cases hb : (postArts c.arts parent a).2 with
        | false => rfl
        | true => exact absurd ((postArts_ok_iff c.arts parent a).mp hb) hp
      rw [this]
      exact ⟨_, rfl⟩

/-- A successful post gives the article an id not used by any article present in the category:
    `max present id + 1` (1 in an empty category); the article is stored under it with the
    requested parent, `prev` = the previously newest id, and the title/poster/date/body it came with. -/
theorem post_fresh_id (cd : Codec F) (path : Path) (parent : Nat) (a : Art) (st st' : State F)
    (h : post cd path parent a st = .ok st') :
    ∃ c, st.mem.get path = some c ∧
      getArticle st.mem path (nextId c.arts) = none ∧
      (∀ k b, getArticle st.mem path k = some b → k < nextId c.arts) ∧
      (c.arts.keys = [] → nextId c.arts = 1) ∧
      (c.arts.keys ≠ [] → nextId c.arts = maxKey c.arts + 1 ∧ maxKey c.arts ∈ c.arts.keys) ∧
      ∃ n, getArticle st'.mem path (nextId c.arts) = some n ∧
        n.parent = parent ∧ n.content = a.content ∧ (c.arts.keys ≠ [] → n.prev = maxKey c.arts) := by
  unfold post at h
  by_cases hp : path = []
  · rw [if_pos hp] at h; cases h
  · rw [if_neg hp] at h
    cases hc : st.mem.get path with
    | none => rw [hc] at h; cases h
    | some c =>
      rw [hc] at h
      simp only at h
      cases hok : (postArts c.arts parent a).2 with
      | false => rw [hok] at h; cases h
      | true =>
        rw [hok] at h
        simp only [if_true, R.ok.injEq] at h
        subst h
        refine ⟨c, rfl, ?_, ?_, ?_, ?_, ?_⟩
        · simp [getArticle, hc, (nextId_fresh c.arts).1]
        · intro k b hk
          simp only [getArticle, hc, Option.bind_some] at hk
          exact (nextId_fresh c.arts).2 k ((AMap.mem_keys_iff c.arts k).mpr ⟨b, hk⟩)
        · intro he; simp [nextId, he]
        · intro he; exact ⟨by simp [nextId, he], maxKey_mem c.arts he⟩
        · refine ⟨newArt c.arts parent a, ?_, by simp [newArt], by simp [newArt, Art.content], ?_⟩
          · rw [getArticle_set, if_pos rfl]
            exact postArts_new c.arts parent a hok
          · intro he; simp [newArt, he]

/-- A successful post links the new article after the previously newest one: that article's
    `next` becomes the new id. -/
theorem post_links_after_newest (cd : Codec F) (path : Path) (parent : Nat) (a : Art) (st st' : State F)
    (h : post cd path parent a st = .ok st') (c : Cat) (hc : st.mem.get path = some c) (hne : c.arts.keys ≠ []) :
    ∃ old old', c.arts.get (maxKey c.arts) = some old ∧
      getArticle st'.mem path (maxKey c.arts) = some old' ∧ old'.next = nextId c.arts := by
  unfold post at h
  by_cases hp : path = []
  · rw [if_pos hp] at h; cases h
  · rw [if_neg hp, hc] at h
    simp only at h
    cases hok : (postArts c.arts parent a).2 with
    | false => rw [hok] at h; cases h
    | true =>
      rw [hok] at h
      simp only [if_true, R.ok.injEq] at h
      subst h
      obtain ⟨old, hold⟩ := (AMap.mem_keys_iff c.arts _).mp (maxKey_mem c.arts hne)
      have hk : maxKey c.arts ≠ nextId c.arts := by
        have := (nextId_fresh c.arts).2 _ (maxKey_mem c.arts hne); omega
      refine ⟨old, touched c.arts parent true (maxKey c.arts) old, hold, ?_, ?_⟩
      · rw [getArticle_set, if_pos rfl]
        simp only
        rw [postArts_get _ _ _ _ hk, hold, hok]; rfl
      · simp only [touched, if_true]
        rw [(f2_content parent (nextId c.arts) (maxKey c.arts) _).2.2.2]
        simp [f1, hne]

/-- A successful reply sets the parent's first-child link only if it had none. -/
theorem post_first_child (cd : Codec F) (path : Path) (parent : Nat) (a : Art) (st st' : State F)
    (h : post cd path parent a st = .ok st') (c : Cat) (hc : st.mem.get path = some c) (hpar : parent ≠ 0) :
    ∃ pa pa', c.arts.get parent = some pa ∧ getArticle st'.mem path parent = some pa' ∧
      pa'.firstChild = (if pa.firstChild = 0 then nextId c.arts else pa.firstChild) := by
  unfold post at h
  by_cases hp : path = []
  · rw [if_pos hp] at h; cases h
  · rw [if_neg hp, hc] at h
    simp only at h
    cases hok : (postArts c.arts parent a).2 with
    | false => rw [hok] at h; cases h
    | true =>
      rw [hok] at h
      simp only [if_true, R.ok.injEq] at h
      subst h
      have hpres := (postArts_ok_iff c.arts parent a).mp hok
      rcases hpres with h0 | hpres
      · exact absurd h0 hpar
      · cases hpa : c.arts.get parent with
        | none => rw [hpa] at hpres; cases hpres
        | some pa =>
          have hk : parent ≠ nextId c.arts := by
            have := (nextId_fresh c.arts).2 _ ((AMap.mem_keys_iff c.arts parent).mpr ⟨pa, hpa⟩); omega
          refine ⟨pa, touched c.arts parent true parent pa, rfl, ?_, ?_⟩
          · rw [getArticle_set, if_pos rfl]
            simp only
            rw [postArts_get _ _ _ _ hk, hpa, hok]; rfl
          · show (f2 parent (nextId c.arts) parent (f1 c.arts parent pa)).firstChild = _
            unfold f2
            have hfc := (f1_content c.arts parent pa).2.2.2
            by_cases hz : pa.firstChild = 0
            · rw [if_pos ⟨hpar, rfl, by rw [hfc]; exact hz⟩, if_pos hz]
            · rw [if_neg (fun hh => hz (by rw [← hfc]; exact hh.2.2)), if_neg hz, hfc]

/-- Frame: whatever a post does (success OR contained panic), every OTHER article — in the same
    category or anywhere else — keeps its title, poster, date and body (and its `prev` / parent
    links), no article disappears, no other id appears, and the items of the tree and their types
    are unchanged.  Articles in other categories are untouched altogether. -/
theorem post_frame (cd : Codec F) (path : Path) (parent : Nat) (a : Art) (st : State F) :
    let st' := (post cd path parent a st).state
    (∀ p, (st'.mem.get p).map Cat.ty = (st.mem.get p).map Cat.ty) ∧
    (∀ p id, p ≠ path → getArticle st'.mem p id = getArticle st.mem p id) ∧
    (∀ c, st.mem.get path = some c → ∀ id, id ≠ nextId c.arts →
      (getArticle st'.mem path id).map (fun x => (x.content, x.prev, x.parent)) =
      (getArticle st.mem path id).map (fun x => (x.content, x.prev, x.parent))) := by
  intro st'
  have hst : st' = (post cd path parent a st).state := rfl
  unfold post at hst
  by_cases hp : path = []
  · rw [if_pos hp] at hst
    have : st' = st := hst
    rw [this]
    exact ⟨fun _ => rfl, fun _ _ _ => rfl, fun _ _ _ _ => rfl⟩
  · rw [if_neg hp] at hst
    cases hc : st.mem.get path with
    | none =>
      rw [hc] at hst
      have : st' = st := hst
      rw [this]
      exact ⟨fun _ => rfl, fun _ _ _ => rfl, fun _ _ _ _ => rfl⟩
    | some c =>
      rw [hc] at hst
      simp only at hst
      have hmem : st'.mem = st.mem.set path { c with arts := (postArts c.arts parent a).1 } := by
        rw [hst]; cases (postArts c.arts parent a).2 <;> rfl
      rw [hmem]
      refine ⟨?_, ?_, ?_⟩
      · intro p
        rw [AMap.get_set]
        by_cases e : p = path
        · rw [if_pos e, e, hc]; rfl
        · rw [if_neg e]
      · intro p id hne
        rw [getArticle_set, if_neg hne]
      · intro c' hc' id hid
        cases hc'
        rw [getArticle_set, if_pos rfl]
        simp only
        rw [postArts_get _ _ _ _ hid]
        have : getArticle st.mem path id = c.arts.get id := by simp [getArticle, hc]
        rw [this, Option.map_map]
        congr 1
        funext x
        have := touched_content c.arts parent (postArts c.arts parent a).2 id x
        simp [this.1, this.2.1, this.2.2]

/-- A post that panics (missing category / missing thread parent) persists nothing and changes no
    article's title, poster, date or body; no article appears or disappears. -/
theorem post_panic_harmless (cd : Codec F) (path : Path) (parent : Nat) (a : Art) (st st' : State F)
    (h : post cd path parent a st = .panic st') :
    st'.disk = st.disk ∧
    ∀ p id, (getArticle st'.mem p id).map Art.content = (getArticle st.mem p id).map Art.content := by
  have hfr := post_frame cd path parent a st
  rw [h] at hfr
  simp only [R.state] at hfr
  unfold post at h
  by_cases hp : path = []
  · rw [if_pos hp] at h; cases h
  · rw [if_neg hp] at h
    cases hc : st.mem.get path with
    | none =>
      rw [hc] at h
      cases h
      exact ⟨rfl, fun _ _ => rfl⟩
    | some c =>
      rw [hc] at h
      simp only at h
      cases hok : (postArts c.arts parent a).2 with
      | true => rw [hok] at h; cases h
      | false =>
        rw [hok] at h
        simp only [Bool.false_eq_true, if_false, R.panic.injEq] at h
        refine ⟨by rw [← h], ?_⟩
        intro p id
        by_cases e : p = path
        · subst e
          by_cases hid : id = nextId c.arts
          · subst hid
            rw [← h, getArticle_set, if_pos rfl]
            simp only
            rw [postArts_new_fail _ _ _ hok]
            simp [getArticle, hc, (nextId_fresh c.arts).1]
          · have := hfr.2.2 c hc id hid
            have h1 := congrArg (Option.map (fun (x : (Bytes × Bytes × Bytes × Bytes) × Nat × Nat) => x.1)) this
            simpa [Option.map_map, Function.comp_def] using h1
        · rw [hfr.2.1 p id e]

/-- A successful mutation writes the whole tree to the file. -/
theorem post_persists (cd : Codec F) (path : Path) (parent : Nat) (a : Art) (st st' : State F)
    (h : post cd path parent a st = .ok st') : st'.disk = cd.ser st'.mem := by
  unfold post at h
  by_cases hp : path = []
  · rw [if_pos hp] at h; cases h
  · rw [if_neg hp] at h
    cases hc : st.mem.get path with
    | none => rw [hc] at h; cases h
    | some c =>
      rw [hc] at h
      simp only at h
      cases hok : (postArts c.arts parent a).2 with
      | false => rw [hok] at h; cases h
      | true =>
        rw [hok] at h
        simp only [if_true, R.ok.injEq] at h
        rw [← h]

/-! ### Deleting -/

/-- Deleting an article removes exactly that article: it is gone, every other article (same
    category or not) is untouched — including its links —, the tree is unchanged; a path that names
    no item is an error that changes nothing (no item is created, fix 1d47fc0). -/
theorem delete_article_exact (cd : Codec F) (path : Path) (id : Nat) (st : State F) :
    (st.mem.get path = none ∨ path = [] → deleteArticle cd path id st = .err st) ∧
    (∀ c, path ≠ [] → st.mem.get path = some c → ∃ st', deleteArticle cd path id st = .ok st' ∧
      st'.disk = cd.ser st'.mem ∧
      getArticle st'.mem path id = none ∧
      (∀ p k, (p, k) ≠ (path, id) → getArticle st'.mem p k = getArticle st.mem p k) ∧
      (∀ p, (st'.mem.get p).map Cat.ty = (st.mem.get p).map Cat.ty)) := by
  constructor
  · intro h
    unfold deleteArticle
    by_cases hp : path = []
    · rw [if_pos hp]
    · rw [if_neg hp]
      rcases h with h | h
      · rw [h]
      · exact absurd h hp
  · intro c hp hc
    unfold deleteArticle
    rw [if_neg hp, hc]
    refine ⟨_, rfl, rfl, ?_, ?_, ?_⟩
    · rw [getArticle_set, if_pos rfl]; simp
    · intro p k hne
      rw [getArticle_set]
      by_cases e : p = path
      · rw [if_pos e]
        have hk : k ≠ id := fun x => hne (by rw [e, x])
        simp only
        rw [AMap.get_del_ne _ _ _ hk, e]
        simp [getArticle, hc]
      · rw [if_neg e]
    · intro p
      simp only
      rw [AMap.get_set]
      by_cases e : p = path
      · rw [if_pos e, e, hc]; rfl
      · rw [if_neg e]

/-- Deleting a bundle/category removes exactly the items at and below that path (with their
    articles); everything else is untouched. -/
theorem delete_item_exact (cd : Codec F) (path : Path) (st : State F) (hp : path ≠ []) :
    ∃ st', deleteItem cd path st = .ok st' ∧ st'.disk = cd.ser st'.mem ∧
      (∀ q, path <+: q → st'.mem.get q = none) ∧
      (∀ q, ¬ path <+: q → st'.mem.get q = st.mem.get q) := by
  unfold deleteItem
  rw [if_neg hp]
  refine ⟨_, rfl, rfl, ?_, ?_⟩
  · intro q hq; simp only; rw [get_removeUnder, if_pos hq]
  · intro q hq; simp only; rw [get_removeUnder, if_neg hq]

/-- Creating a bundle/category under an existing path (or at the top level) puts a fresh empty item
    of that type at `path ++ [name]` — REPLACING an item of that name together with everything below
    it, which is what the code does — and touches nothing else; under a path that names nothing it
    panics (nil map) and changes nothing. -/
theorem create_grouping_effect (cd : Codec F) (path : Path) (name : Bytes) (ty : Nat) (st : State F) :
    (mapExists st.mem path = false → createGrouping cd path name ty st = .panic st) ∧
    (mapExists st.mem path = true → ∃ st', createGrouping cd path name ty st = .ok st' ∧ st'.disk = cd.ser st'.mem ∧
      st'.mem.get (path ++ [name]) = some ⟨ty, AMap.empty⟩ ∧
      (∀ q, (path ++ [name]) <+: q → q ≠ path ++ [name] → st'.mem.get q = none) ∧
      (∀ q, ¬ (path ++ [name]) <+: q → st'.mem.get q = st.mem.get q)) := by
  constructor
  · intro h; unfold createGrouping; rw [h]; rfl
  · intro h
    unfold createGrouping
    rw [h]
    refine ⟨_, rfl, rfl, ?_, ?_, ?_⟩
    · simp
    · intro q hq hne
      simp only
      rw [AMap.get_set_ne _ _ _ _ hne, get_removeUnder, if_pos hq]
    · intro q hq
      have hne : q ≠ path ++ [name] := fun x => hq (by rw [x]; exact List.prefix_refl _)
      simp only
      rw [AMap.get_set_ne _ _ _ _ hne, get_removeUnder, if_neg hq]

/-! ### Listings -/

/-- The article list is every present article exactly once, in ascending id order. -/
theorem list_articles_complete_sorted (t : Tree) (path : Path) :
    (∀ id a, (id, a) ∈ listArticles t path ↔ getArticle t path id = some a) ∧
    (listArticles t path).Pairwise (fun x y => x.1 < y.1) ∧
    ((listArticles t path).map Prod.fst).Nodup :=
  ⟨listArticles_mem t path, listArticles_sorted t path, by
    have := listArticles_sorted t path
    unfold List.Nodup
    rw [List.pairwise_map]
    exact this.imp (fun h => by omega)⟩

/-- The encoding is parseable: for ids / parents below 2^32, 8-byte dates and titles / posters of at
    most 255 bytes the reference parser (what a client does, `Wire.parseArtEntries`) recovers from the
    emitted bytes exactly the listed entries — id, date, parent, title, poster and, for bodies of at
    most 65 535 bytes, the body size. -/
theorem list_articles_parseable (t : Tree) (path : Path)
    (hwf : ∀ id a, getArticle t path id = some a →
      id < 4294967296 ∧ a.date.length = 8 ∧ a.parent < 4294967296 ∧ a.title.length < 256 ∧ a.poster.length < 256) :
    let es := (listArticles t path).map artEntry
    parseArtEntries es.length (es.map ArtEntry.encode).flatten = some es ∧
    listArticlesField t path = artListEncode 0 es.length [] [] (es.map ArtEntry.encode).flatten ∧
    (∀ e ∈ listArticles t path, e.2.data.length < 65536 → (artEntry e).size = e.2.data.length) := by
  intro es
  refine ⟨?_, rfl, ?_⟩
  · apply parseArtEntries_encode
    intro e he
    obtain ⟨x, hx, rfl⟩ := List.mem_map.mp he
    obtain ⟨id, a⟩ := x
    have := hwf id a ((listArticles_mem t path id a).mp hx)
    exact ⟨this.1, this.2.1, this.2.2.1, this.2.2.2.1, this.2.2.2.2, Nat.mod_lt _ (by omega)⟩
  · intro e _ hl
    simp [artEntry, Nat.mod_eq_of_lt hl]

/-- One entry parses back from its own bytes with anything after it (the per-entry step). -/
theorem art_entry_parse_encode (e : ArtEntry) (h : e.WF) (rest : Bytes) :
    ArtEntry.parse (e.encode ++ rest) = some (e, rest) := artEntry_parse_encode e h rest

/-- The category listing of a path shows exactly the items directly below it, sorted by name. -/
theorem list_categories_children_sorted (t : Tree) (path : Path) :
    (∀ n c, (n, c) ∈ listCats t path ↔ t.get (path ++ [n]) = some c) ∧
    (listCats t path).Pairwise (fun x y => lexLe x.1 y.1 = true) :=
  ⟨listCats_mem t path, listCats_sorted t path⟩

/-! ### Reload and histories -/

/-- Under the YAML round-trip assumption, reloading after any successful mutation reproduces the
    tree that is in memory. -/
theorem reload_reproduces (cd : Codec F) (hrt : cd.RoundTrip) (st : State F) (op : Op) (st' : State F)
    (hop : op ≠ .reload) (h : step cd st op = .ok st') : reload cd st' = .ok st' := by
  have hd : st'.disk = cd.ser st'.mem := by
    cases op with
    | reload => exact absurd rfl hop
    | newBundle p n =>
      have := (create_grouping_effect cd p n 2 st)
      cases hm : mapExists st.mem p with
      | false => have e := this.1 hm; simp only [step] at h; rw [e] at h; cases h
      | true => obtain ⟨s, e, hd, _⟩ := this.2 hm; simp only [step] at h; rw [e] at h; cases h; exact hd
    | newCategory p n =>
      have := (create_grouping_effect cd p n 3 st)
      cases hm : mapExists st.mem p with
      | false => have e := this.1 hm; simp only [step] at h; rw [e] at h; cases h
      | true => obtain ⟨s, e, hd, _⟩ := this.2 hm; simp only [step] at h; rw [e] at h; cases h; exact hd
    | post p par a => exact post_persists cd p par a st st' h
    | delArticle p id =>
      simp only [step] at h
      unfold deleteArticle at h
      by_cases hp : p = []
      · rw [if_pos hp] at h; cases h
      · rw [if_neg hp] at h
        cases hc : st.mem.get p with
        | none => rw [hc] at h; cases h
        | some c => rw [hc] at h; cases h; rfl
    | delItem p =>
      simp only [step] at h
      unfold deleteItem at h
      by_cases hp : p = []
      · rw [if_pos hp] at h; cases h
      · rw [if_neg hp] at h; cases h; rfl
  obtain ⟨m, d⟩ := st'
  simp only at hd
  subst hd
  unfold reload
  have := hrt m
  simp only [this]

/-- `reload (persist t) = t` — the assumption itself, as the model uses it. -/
theorem reload_persist (cd : Codec F) (hrt : cd.RoundTrip) (t : Tree) :
    reload cd ⟨t, cd.ser t⟩ = .ok ⟨t, cd.ser t⟩ := by
  unfold reload; rw [hrt]

/-- an operation that does not delete / overwrite the article `(path, id)` -/
def Spares (path : Path) (id : Nat) : Op → Prop
  | .newBundle p n => ¬ (p ++ [n]) <+: path
  | .newCategory p n => ¬ (p ++ [n]) <+: path
  | .post _ _ _ => True
  | .delArticle p k => (p, k) ≠ (path, id)
  | .delItem p => ¬ p <+: path
  | .reload => True

instance (path : Path) (id : Nat) (o : Op) : Decidable (Spares path id o) := by
  cases o <;> unfold Spares <;> infer_instance

/-- ALL HISTORIES.  Started in a state whose file matches memory, after ANY history of create-bundle,
    create-category, post, reply (successful or panicking), delete-article, delete-item and reload that
    does not delete or overwrite the article, the article is still retrievable under its id with the
    same title, poster, date and body. -/
theorem article_survives_history (cd : Codec F) (hrt : cd.RoundTrip) (ops : List Op) (st : State F) (hg : Good cd st)
    (path : Path) (id : Nat) (a : Art) (ha : getArticle st.mem path id = some a)
    (hs : ∀ o ∈ ops, Spares path id o) :
    (getArticle (run cd st ops).mem path id).map Art.content = some a.content := by
  induction ops generalizing st a with
  | nil => simp [run, ha]
  | cons o rest ih =>
    simp only [run, List.foldl_cons]
    have hg' := step_good cd hrt st o hg
    have hsp := hs o (by simp)
    -- one step keeps the article with its content
    have key : ∃ a', getArticle (step cd st o).state.mem path id = some a' ∧ a'.content = a.content := by
      have hcpath : ∃ c, st.mem.get path = some c := by
        cases hc : st.mem.get path with
        | none => simp [getArticle, hc] at ha
        | some c => exact ⟨c, rfl⟩
      obtain ⟨c, hc⟩ := hcpath
      have cg : ∀ (p : Path) (n : Bytes) (ty : Nat), ¬ (p ++ [n]) <+: path →
          getArticle (createGrouping cd p n ty st).state.mem path id = some a := by
        intro p n ty hnp
        have := create_grouping_effect cd p n ty st
        cases hm : mapExists st.mem p with
        | false => rw [this.1 hm]; exact ha
        | true =>
          obtain ⟨s, e, _, _, _, hfr⟩ := this.2 hm
          rw [e]
          simp only [R.state, getArticle]
          rw [hfr path hnp]
          exact ha
      cases o with
      | newBundle p n => exact ⟨a, cg p n 2 hsp, rfl⟩
      | newCategory p n => exact ⟨a, cg p n 3 hsp, rfl⟩
      | post p par b =>
        have hfr := post_frame cd p par b st
        by_cases e : path = p
        · subst e
          have hid : id ≠ nextId c.arts := by
            intro x
            have := (nextId_fresh c.arts).1
            simp [getArticle, hc, x, this] at ha
          have := hfr.2.2 c hc id hid
          rw [ha] at this
          cases hg2 : getArticle (post cd path par b st).state.mem path id with
          | none => simp [step, hg2] at this
          | some a' =>
            simp only [step, hg2, Option.map_some, Option.some.injEq, Prod.mk.injEq] at this
            exact ⟨a', hg2, this.1⟩
        · exact ⟨a, by simp only [step]; rw [hfr.2.1 path id e]; exact ha, rfl⟩
      | delArticle p k =>
        simp only [step]
        have := delete_article_exact cd p k st
        by_cases hp : p = []
        · rw [this.1 (Or.inr hp)]; exact ⟨a, ha, rfl⟩
        · cases hcp : st.mem.get p with
          | none => rw [this.1 (Or.inl hcp)]; exact ⟨a, ha, rfl⟩
          | some cp =>
            obtain ⟨s, e, _, _, hfr, _⟩ := this.2 cp hp hcp
            rw [e]
            exact ⟨a, by simp only [R.state]; rw [hfr path id (fun x => hsp x.symm)]; exact ha, rfl⟩
      | delItem p =>
        simp only [step]
        by_cases hp : p = []
        · exact absurd (by rw [hp]; exact List.nil_prefix) hsp
        · obtain ⟨s, e, _, _, hfr⟩ := delete_item_exact cd p st hp
          rw [e]
          exact ⟨a, by simp only [R.state, getArticle]; rw [hfr path hsp]; exact ha, rfl⟩
      | reload =>
        simp only [step]
        obtain ⟨_, t, hd, _, hsame⟩ := hg
        unfold reload
        rw [hd]
        simp only [R.state]
        have := (hsame path).2 id
        rw [ha] at this
        cases hgt : getArticle t path id with
        | none => simp [hgt] at this
        | some a' =>
          simp only [hgt, Option.map_some, Option.some.injEq] at this
          exact ⟨a', rfl, strip_content a' a this⟩
    obtain ⟨a', ha', hcont⟩ := key
    rw [← hcont]
    exact ih _ hg' a' ha' (fun o ho => hs o (by simp [ho]))

/-- ALL HISTORIES.  Every reachable state (from a state whose file matches memory) is a proper
    tree whose file loads to the same tree up to `next` links that a contained panic left
    un-persisted: a restart never loses or alters an article's title, poster, date, body, parent,
    `prev` or first-child link, nor any bundle / category. -/
theorem reachable_file_matches_memory (cd : Codec F) (hrt : cd.RoundTrip) (ops : List Op) (st : State F)
    (hg : Good cd st) :
    ∃ t, cd.deser (run cd st ops).disk = some t ∧
      ∀ p, (t.get p).map Cat.ty = ((run cd st ops).mem.get p).map Cat.ty ∧
        ∀ id, (getArticle t p id).map Art.strip = (getArticle (run cd st ops).mem p id).map Art.strip := by
  obtain ⟨_, t, hd, _, hs⟩ := run_good cd hrt ops st hg
  exact ⟨t, hd, hs⟩

/-! ### Non-vacuity and negation witnesses -/

/-- test codec: the file is the tree -/
def cdT : Codec Tree := ⟨id, some⟩
theorem cdT_roundtrip : cdT.RoundTrip := fun _ => rfl

def s0 : State Tree := ⟨AMap.empty, AMap.empty⟩
theorem s0_good : Good cdT s0 :=
  good_persisted cdT cdT_roundtrip AMap.empty (fun p n h => by simp at h)

def artA (t : UInt8) : Art := ⟨[t], [80], [7, 228, 0, 0, 0, 0, 0, 1], 0, 0, 0, 0, [100, t]⟩

/-- bundle "B", category "B/c", three posts (one thread + a reply + another thread), a reply to a
    missing parent (panics), a post to a missing category (panics), a delete, a reload -/
def hist : List Op := [
  .newBundle [] [66], .newCategory [[66]] [99],
  .post [[66], [99]] 0 (artA 1), .post [[66], [99]] 1 (artA 2), .post [[66], [99]] 0 (artA 3),
  .post [[66], [99]] 9 (artA 4), .post [[66], [120]] 0 (artA 5),
  .delArticle [[66], [99]] 2, .reload, .post [[66], [99]] 1 (artA 6)]

-- links after the history: 1 is the thread root with first child 2 (since deleted), 3 follows 2, 4 (a reply to 1) follows 3
example : (getArticle (run cdT s0 hist).mem [[66], [99]] 1).map (fun a => (a.prev, a.next, a.parent, a.firstChild)) = some (0, 2, 0, 2) := by decide
example : (getArticle (run cdT s0 hist).mem [[66], [99]] 3).map (fun a => (a.prev, a.next, a.parent, a.firstChild)) = some (2, 4, 0, 0) := by decide
example : (getArticle (run cdT s0 hist).mem [[66], [99]] 4).map (fun a => (a.prev, a.next, a.parent, a.firstChild)) = some (3, 0, 1, 0) := by decide
example : getArticle (run cdT s0 hist).mem [[66], [99]] 2 = none := by decide
-- the reply to the missing parent 9 and the post to the missing category "B/x" panic
example : (post cdT [[66], [99]] 9 (artA 4) (run cdT s0 (hist.take 5))).kind = 2 := by decide
example : (post cdT [[66], [120]] 0 (artA 5) (run cdT s0 (hist.take 6))).kind = 2 := by decide
example : (post cdT [[66], [99]] 1 (artA 2) (run cdT s0 (hist.take 3))).kind = 0 := by decide
-- the contained panic left `next` of article 3 overwritten in memory only; the file still has 0
example : (getArticle (run cdT s0 (hist.take 6)).mem [[66], [99]] 3).map (·.next) = some 4 := by decide
example : (getArticle (run cdT s0 (hist.take 6)).disk [[66], [99]] 3).map (·.next) = some 0 := by decide
example : ∀ o ∈ hist.drop 3, Spares [[66], [99]] 1 o := by decide
example : ∃ c, ([66], c) ∈ listCats (run cdT s0 hist).mem [] :=
  ⟨⟨2, AMap.empty⟩, (listCats_mem _ _ _ _).mpr (by decide)⟩
example : ∃ a, (3, a) ∈ listArticles (run cdT s0 hist).mem [[66], [99]] :=
  ⟨⟨[3], [80], [7, 228, 0, 0, 0, 0, 0, 1], 2, 4, 0, 0, [100, 3]⟩, (listArticles_mem _ _ 3 _).mpr (by decide)⟩
example : (⟨7, [0, 0, 0, 0, 0, 0, 0, 0], 3, [84], [80, 81], 5⟩ : ArtEntry).WF := by decide
example : parseArtEntries 2 (([⟨7, [0, 0, 0, 0, 0, 0, 0, 0], 3, [84], [80, 81], 5⟩, ⟨9, [1, 2, 3, 4, 5, 6, 7, 8], 7, [], [80], 65535⟩] : List ArtEntry).map ArtEntry.encode).flatten
    = some [⟨7, [0, 0, 0, 0, 0, 0, 0, 0], 3, [84], [80, 81], 5⟩, ⟨9, [1, 2, 3, 4, 5, 6, 7, 8], 7, [], [80], 65535⟩] := by decide +kernel

/-- The behaviour before fix 1d47fc0, as a negation witness: `DeleteArticle` assigned
    `cats[name] = cat` unconditionally, creating a nameless type-0 item under a path that named nothing. -/
def deleteArticleOld (path : Path) (id : Nat) (st : State Tree) : State Tree :=
  match st.mem.get path with
  | none => let t' := st.mem.set path ⟨0, AMap.empty⟩; ⟨t', t'⟩
  | some c => let t' := st.mem.set path { c with arts := c.arts.del id }; ⟨t', t'⟩

theorem old_delete_article_creates_item :
    s0.mem.get [[110]] = none ∧ (deleteArticleOld [[110]] 1 s0).mem.get [[110]] = some ⟨0, AMap.empty⟩ ∧
    ∃ c, ([110], c) ∈ listCats (deleteArticleOld [[110]] 1 s0).mem [] :=
  ⟨by decide, by decide, ⟨⟨0, AMap.empty⟩, (listCats_mem _ _ _ _).mpr (by decide)⟩⟩

end Mobius.C18
