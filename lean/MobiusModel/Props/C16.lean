import MobiusModel.AccessYaml
import MobiusModel.Spec.Governing
import MobiusModel.Spec.Tables
import MobiusModel.Generated.AccessYaml
import MobiusModel.Generated.Consts
import MobiusModel.TranslatedTies
import MobiusModel.AccountEdit
/-!
  C16 — A privilege bit means the same on the wire, in memory and on disk.

  Property theorems only (lemmas live in `Access`, `AccessYaml`).  `AccessYaml.save / load` are folds
  over the tables regenerated from hotline/access.go on every run (`Generated.unmarshalTable`,
  `flagsStruct`, `marshalTable`, `accessConsts`); the finite facts about those tables are closed by
  `decide`, and lifted — by the lemmas, not by enumerating bitmaps — to all 2^64 bitmaps.
-/
namespace Mobius.C16
open Mobius.Spec Mobius.AccessYaml AccessBitmap

/-- the tables as they are in the source right now -/
def T : Tables := ⟨Generated.accessConsts, Generated.unmarshalTable, Generated.flagsStruct, Generated.marshalTable⟩

/-! ### obligations on the regenerated tables (finite; `decide`) -/

/-- The Access* constants carry the protocol's privilege numbers. -/
theorem generated_accessConsts : Generated.accessConsts = Spec.accessConsts := by decide

/-- The table check the round-trip lemmas need: every key that can be loaded resolves to a bit < 64,
    the save side writes that same bit under that same key, and the loadable bits are exactly the 40 defined ones. -/
theorem tables_ok : okB T Spec.definedBits = true := by decide

/-- `UnmarshalYAML` and `MarshalYAML ∘ accessFlags` are the *same* bijection between 40 names and 40 bits. -/
theorem tables_same_bijection : sameBijectionB T = true := by decide

/-- … namely the one the account-file format documents (name ↦ protocol privilege number). -/
theorem tables_are_the_documented_names :
    (loadTable T).length = 40 ∧ (∀ e ∈ loadTable T, ∃ n, e.2 = some n ∧ (e.1, n) ∈ Spec.accessYamlNames) ∧
    (∀ e ∈ Spec.accessYamlNames, (e.1, some e.2) ∈ loadTable T) ∧
    Spec.accessYamlNames.map (·.2) = Spec.definedBits := by decide

/-- Every yaml tag of the `accessFlags` struct equals its field name. -/
theorem yaml_tags_are_field_names : ∀ e ∈ Generated.flagsStruct, e.1 = e.2 := by decide

/-- The legacy branch is `for i, v := range flags { bits[i] = byte(v.(int)) }`. -/
theorem legacy_shape : Generated.legacyArrayShape = true := by decide

/-  (An earlier obligation compared the TEXT of the bodies of `Set` / `IsSet` with the expressions the model
    transcribes.  It is superseded by `translated_IsSet_is_the_model` / `translated_Set_is_the_model` at the end of
    this file: the bodies are translated to Lean on every run and proved EQUAL to `AccessBitmap.isSet` / `set` for
    all bitmaps and all 0 ≤ i < 64, so a harmless rewrite of the bodies no longer breaks an obligation and a semantic
    change still does.) -/

/-! ### theorems for all bitmaps -/

/-- Saving an account's bitmap and loading it back keeps exactly the defined privileges – for every bitmap. -/
theorem load_save (b : AccessBitmap) : load T (save T b) = b.mask Spec.definedBits :=
  AccessYaml.load_save T Spec.definedBits tables_ok b

/-- Bit by bit: privilege `i` is held after save→load iff it is a defined privilege and was held before
    (every defined privilege preserved, no other granted). -/
theorem load_save_isSet (b : AccessBitmap) (i : Nat) :
    (load T (save T b)).isSet i = true ↔ i ∈ Spec.definedBits ∧ b.isSet i = true := by
  by_cases hi : i < 64
  · exact isSet_load_save T Spec.definedBits tables_ok b i hi
  · rw [isSet_ge _ i (by omega), isSet_ge b i (by omega)]
    simp

example : load T (save T (ofBits [0, 19, 23, 40, 41, 63])) = ofBits [0, 23, 40] := by decide +kernel

/-- A bitmap made of defined privileges only survives unchanged. -/
theorem load_save_defined (b : AccessBitmap) (h : ∀ i, i < 64 → b.isSet i = true → i ∈ Spec.definedBits) :
    load T (save T b) = b := by
  apply ext_isSet
  intro i hi
  have := load_save_isSet b i
  cases h1 : (load T (save T b)).isSet i <;> cases h2 : b.isSet i <;> simp_all

/-- In the file, the key written `true` for privilege `i` is the documented name of privilege `i`
    (and every key written `true` is the documented name of a privilege the bitmap holds). -/
theorem saved_key_is_protocol_name (b : AccessBitmap) (k : String) :
    (k, true) ∈ save T b ↔ ∃ n, (k, n) ∈ Spec.accessYamlNames ∧ b.isSet n = true := by
  have hs : ∀ e ∈ saveTable T, ∃ n, e.2 = some n ∧ (e.1, n) ∈ Spec.accessYamlNames := by decide
  have hn : ∀ e ∈ Spec.accessYamlNames, (e.1, some e.2) ∈ saveTable T := by decide
  unfold save
  simp only [List.mem_map]
  constructor
  · rintro ⟨e, he, heq⟩
    obtain ⟨n, hn', hmem⟩ := hs e he
    simp only [saveEntry, hn', Prod.mk.injEq] at heq
    exact ⟨n, heq.1 ▸ hmem, heq.2⟩
  · rintro ⟨n, hmem, hset⟩
    exact ⟨(k, some n), hn (k, n) hmem, by simp [saveEntry, hset]⟩

example : (save T (ofBits [23])).filter (·.2) = [("CannotBeDisconnected", true)] := by decide +kernel

/-- An account file in the legacy numeric-array form loads to exactly the bytes it lists … -/
theorem legacy_load (b : AccessBitmap) : loadLegacy (legacyArray b) = some b :=
  loadLegacy_legacyArray b

/-- … hence to the same privileges as its named form: on every defined privilege the two storage formats agree,
    and migrating (load the array, save the names, load again) keeps exactly the defined privileges. -/
theorem legacy_same_as_named (b : AccessBitmap) :
    (loadLegacy (legacyArray b)).map (fun l => load T (save T l)) = some (b.mask Spec.definedBits) ∧
    ∀ i ∈ Spec.definedBits, ((loadLegacy (legacyArray b)).map (·.isSet i)) = some ((load T (save T b)).isSet i) := by
  rw [legacy_load]
  refine ⟨by simp [load_save], ?_⟩
  intro i hi
  have h64 : i < 64 := defined_lt T Spec.definedBits tables_ok i hi
  have := load_save_isSet b i
  simp only [Option.map_some, Option.some.injEq]
  cases h1 : (load T (save T b)).isSet i <;> cases h2 : b.isSet i <;> simp_all

example : loadLegacy [96, 112, 12, 32, 3, 128, 0, 0] = some (ofBytes [96, 112, 12, 32, 3, 128, 0, 0]) := by decide +kernel

/-- On the wire (field 110) the bitmap is its raw 8 bytes: decoding them gives the bitmap back, and
    privilege `i` is bit `7 - i%8` of byte `i/8` (counted from the most significant bit of the first byte). -/
theorem wire_is_raw_bytes (b : AccessBitmap) :
    (wire b).length = 8 ∧ ofBytes (wire b) = b ∧
    ∀ i, i < 64 → b.isSet i = ((wire b).getD (i / 8) 0).toNat.testBit (7 - i % 8) := by
  refine ⟨toBytes_length b, ofBytes_toBytes b, ?_⟩
  intro i hi
  rw [isSet_eq_testBit]
  have h8 : i / 8 < 8 := by omega
  simp [byteAt, h8, wire, toBytes, List.getD_eq_getElem?_getD]

example : wire (ofBits [0, 9, 40]) = [0x80, 0x40, 0, 0, 0, 0x80, 0, 0] := by decide +kernel

/-- Authorization decisions, the file and the wire use one numbering: setting privilege `i` in memory sets
    exactly bit `i`. -/
theorem one_numbering (b : AccessBitmap) (i j : Nat) (hi : i < 64) (hj : j < 64) :
    (b.set i).isSet j = true ↔ i = j ∨ b.isSet j = true :=
  isSet_set b i j hi hj

/-! ### Wave d: the privilege bytes of an account EDIT — request bytes, memory, file, restart -/

/-- The 8 privilege bytes of an update-user sub-record — sent as bytes inside a data field, in any position
    among its sub-fields, next to sub-fields of any size a field can carry — are the account's privileges in
    memory and in the file afterwards; in the file's named form they load back to exactly their defined
    privileges (so wire, memory, file and restart agree on every defined privilege). -/
theorem edited_privileges_are_the_bytes_sent {H : Type} (env : Accounts.Env H) (fs : List Field)
    (st : Accounts.State H) (hi : Accounts.Inv st) (hwf : ∀ f ∈ fs, f.WF) (hcnt : fs.length < 65536)
    (hn1 : fs.length ≠ 1) (lg nm ac : Bytes) (hlg : Accounts.getField 105 fs = some lg)
    (hnm : Accounts.getField 102 fs = some nm) (hac : Accounts.getField 110 fs = some ac) (h8 : ac.length = 8)
    (acc : Accounts.Account H) (hacc : st.mem.get (Accounts.accountToUpdate fs (obfuscate lg)) = some acc)
    (hold : acc.access.length ≤ 8) (hleg : Accounts.LegalLogin (obfuscate lg))
    (hlen : (obfuscate lg ++ Accounts.yamlExt).length ≤ env.nameMax)
    (hfree : acc.login ≠ obfuscate lg → st.mem.get (obfuscate lg) = none) :
    let r := Accounts.updateUserWire env [Accounts.recField fs] st
    ∃ a', r.1.mem.get (obfuscate lg) = some a' ∧ r.1.disk.get (obfuscate lg ++ Accounts.yamlExt) = some a' ∧
      a'.access = ac ∧ load T (save T (ofBytes a'.access)) = (ofBytes ac).mask Spec.definedBits := by
  intro r
  obtain ⟨a', hm, hd, ha⟩ := Accounts.edit_bytes_reach_memory_and_file env fs st hi hwf hcnt hn1 lg nm ac hlg hnm hac h8
    acc hacc hold hleg hlen hfree
  exact ⟨a', hm, hd, ha, by rw [ha, load_save]⟩

/-- After ANY history of account requests in which any step may have been served while the store could not
    persist (`Accounts.stepF`), every account's privileges in memory are those in its file, and those a
    restart loads: a failed save never leaves memory ahead of the file. -/
theorem privileges_same_in_memory_and_file {H : Type} (env : Accounts.Env H) (st : Accounts.State H)
    (h0 : Accounts.Inv st) (ops : List (Accounts.Fault × Accounts.Op)) (hl : ∀ o ∈ ops, Accounts.FLegal o)
    (l : Accounts.Login) (a : Accounts.Account H) (hm : (Accounts.runF env st ops).mem.get l = some a) :
    (∃ d, (Accounts.runF env st ops).disk.get (l ++ Accounts.yamlExt) = some d ∧ d.access = a.access) ∧
    ((Accounts.load (Accounts.runF env st ops).disk).get l).map (·.access) = some a.access :=
  Accounts.access_mem_eq_disk env st h0 ops hl l a hm

-- non-vacuity: a set-user served under the failing persist leaves memory = file = the old privileges
example : (Accounts.runF C15.envT C15.st0 [(.tmpBlocked, C15.newB), (.none, C15.newB), (.tmpBlocked, C15.setB)]).mem.get [98]
    = some ⟨[98], [66], [1, 2], [0, 0, 0, 0, 0, 0, 0, 0]⟩ := by decide

/-! Ties by translation (docs/Translator.md): `isSet` / `set` of the model ARE `(*AccessBitmap).IsSet` /
    `Set` of /repo's current hotline/access.go, translated to Lean on every check
    (`Generated/Translated.lean`): equal for every bitmap and every position `0 ≤ i < 64`; the Go
    code panics (index out of range) exactly for `i ≥ 64` and `i ≤ -8`.  A change of the byte / bit
    arithmetic in either Go method breaks its theorem. -/

theorem translated_IsSet_is_the_model (b : AccessBitmap) (i : Nat) (hi : i < 64) :
    Generated.Translated.AccessBitmap_IsSet b.bytes (i : Int) = .ok (b.isSet i) :=
  TranslatedTies.IsSet_translated b i hi

theorem translated_Set_is_the_model (b : AccessBitmap) (i : Nat) (hi : i < 64) :
    Generated.Translated.AccessBitmap_Set b.bytes (i : Int) = .ok (b.set i).bytes :=
  TranslatedTies.Set_translated b i hi

/-- outside `-8 < i < 64` both methods panic; for `-8 < i < 0` (Go's `/` and `%` truncate towards
    zero) `IsSet` answers false and `Set` changes nothing -/
theorem translated_IsSet_Set_outside (b : AccessBitmap) :
    (∀ i : Int, 64 ≤ i ∨ i ≤ -8 →
      Generated.Translated.AccessBitmap_IsSet b.bytes i = .panic ∧ Generated.Translated.AccessBitmap_Set b.bytes i = .panic) ∧
    (∀ k : Nat, 0 < k ∧ k < 8 →
      Generated.Translated.AccessBitmap_IsSet b.bytes (-(k : Int)) = .ok false ∧
      Generated.Translated.AccessBitmap_Set b.bytes (-(k : Int)) = .ok b.bytes) :=
  ⟨fun i h => ⟨TranslatedTies.IsSet_panics b i h, TranslatedTies.Set_panics b i h⟩,
   fun k h => ⟨TranslatedTies.IsSet_small_negative b k h, TranslatedTies.Set_small_negative b k h⟩⟩

-- non-vacuity
example : Generated.Translated.AccessBitmap_IsSet (AccessBitmap.ofBits [9, 40]).bytes 40 = .ok true := by decide
example : Generated.Translated.AccessBitmap_Set AccessBitmap.zero.bytes 22 = .ok (AccessBitmap.ofBits [22]).bytes := by decide
example : Generated.Translated.AccessBitmap_IsSet AccessBitmap.ones.bytes 64 = .panic := by decide

end Mobius.C16
