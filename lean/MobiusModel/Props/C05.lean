import MobiusModel.Authz
import MobiusModel.Generated.Handlers
import MobiusModel.Generated.AccessGuards
import MobiusModel.Generated.Consts
import MobiusModel.Spec.Tables
import MobiusModel.TranslatedTies
import MobiusModel.ChatGate
import MobiusModel.LoginName
import MobiusModel.Generated.PrivGates
import MobiusModel.SetUserLogins
/-!
  C05 — Every privileged effect requires the governing privilege.

  Property theorems only (helper lemmas live in `Authz`, `Access`).  `Authz.run acc r` is the
  decision model of the handler registered for request class `r` (transaction type + target-kind
  facts); `Spec.requested r` / `Effect.priv` is the protocol's governing-privilege table.  All
  theorems quantify over *every* 8-byte bitmap and every request class (the multi-user editor with
  an arbitrary list of sub-requests).  The model is tied to the Go handlers by the regenerated
  guard skeleton (obligations at the end) and by the decision-table run of the harness.
-/
namespace Mobius.C05
open Mobius.Spec Mobius.Authz AccessBitmap PathAlg

/-- (sound) A privileged effect is performed only if the request asks for it and the requester holds
    the privilege the protocol assigns to that effect. -/
theorem authz_sound (acc : AccessBitmap) (r : Req) (e : Effect) (h : e ∈ (run acc r).effects) :
    e ∈ requested r ∧ acc.isSet e.priv = true :=
  run_sound acc r e h

example : Effect.deleteFolder ∈ (run (ofBits [6]) (.deleteFile .folder)).effects := by decide
example : (run (ofBits [0]) (.deleteFile .folder)).effects = [] := by decide

/-- (sound, whole request) If everything the request asks for was done, every governing privilege is held. -/
theorem authz_full_effect_needs_all (acc : AccessBitmap) (r : Req) (h : (run acc r).effects = requested r) :
    ∀ p ∈ governing r, acc.isSet p = true := by
  intro p hp
  obtain ⟨e, he, rfl⟩ := List.mem_map.mp hp
  exact (run_sound acc r e (h ▸ he)).2

example : (run (ofBits [1, 25]) (.uploadFile .plain false)).effects = requested (.uploadFile .plain false) := by decide

/-- (complete) With the governing privilege(s) the request is never refused for lack of privilege. -/
theorem authz_complete (acc : AccessBitmap) (r : Req) (h : ∀ p ∈ governing r, acc.isSet p = true) (m : DenyMsg) :
    (run acc r).verdict ≠ .denied m := by
  intro hd
  obtain ⟨hno, ⟨e, he, hp⟩, _⟩ := run_denied acc r m hd
  have := h e.priv (List.mem_map.mpr ⟨e, he, rfl⟩)
  rw [hp, hno] at this
  cases this

example : ∀ p ∈ governing (.setFileInfo .file true true), (ofBits [28, 3]).isSet p = true := by decide
example : (run (ofBits [28, 3]) (.setFileInfo .file true true)).verdict = .proceeded := by decide

/-- A denial always names a governing privilege of this very request that the requester lacks
    (so the guard is on the right bit for the target kind). -/
theorem authz_denial_names_missing_governing_privilege (acc : AccessBitmap) (r : Req) (m : DenyMsg)
    (h : (run acc r).verdict = .denied m) :
    m.priv ∈ governing r ∧ acc.isSet m.priv = false := by
  obtain ⟨hno, ⟨e, he, hp⟩, _⟩ := run_denied acc r m h
  exact ⟨hp ▸ List.mem_map.mpr ⟨e, he, rfl⟩, hno⟩

example : (run (ofBits [35]) (.delNewsItem .bundle)).verdict = .denied .deleteNewsFldr := by decide

/-- (denied-is-inert) A denial sends exactly one error reply – to the requester, with the handler's
    text – and performs nothing: no effect at all for a request that asks for one effect; for the two
    multi-effect requests (set-file-info with comment and rename, the multi-user editor) only effects
    whose own privilege is held, performed before the refused one. -/
theorem authz_denied_inert (acc : AccessBitmap) (r : Req) (m : DenyMsg) (h : (run acc r).verdict = .denied m) :
    (run acc r).out = [.errReply m.text] ∧
    ((requested r).length ≤ 1 → (run acc r).effects = []) ∧
    (∀ e ∈ (run acc r).effects, e ∈ requested r ∧ acc.isSet e.priv = true) := by
  obtain ⟨_, _, hout, hsingle⟩ := run_denied acc r m h
  exact ⟨hout, hsingle, fun e he => run_sound acc r e he⟩

example : run zero (.deleteFile .file) = ⟨.denied .deleteFile, [], [.errReply "You are not allowed to delete files."]⟩ := by decide
example : run (ofBits [28]) (.setFileInfo .file true true) =
    ⟨.denied .renameFile, [.commentFile], [.errReply "You are not allowed to rename files."]⟩ := by decide

/-- The display-name privilege: without it the chosen name is simply not adopted – no error, the
    request goes on; with it the name is adopted. -/
theorem any_name (acc : AccessBitmap) :
    (run acc .setClientUserInfo).verdict = .proceeded ∧ (run acc (.agreed true)).verdict = .proceeded ∧
    (Effect.useAnyName ∈ (run acc .setClientUserInfo).effects ↔ acc.isSet Priv.anyName = true) ∧
    (Effect.useAnyName ∈ (run acc (.agreed true)).effects ↔ acc.isSet Priv.anyName = true) := by
  refine ⟨rfl, rfl, ?_, ?_⟩ <;> cases h : acc.isSet Priv.anyName <;> simp [run, proceed, h]

/-- Requests without a governing privilege in the protocol are never refused for lack of privilege. -/
theorem unprivileged_never_denied (acc : AccessBitmap) (r : Req) (h : requested r = []) (m : DenyMsg) :
    (run acc r).verdict ≠ .denied m :=
  authz_complete acc r (by simp [governing, h]) m

example : requested .joinChat = [] ∧ requested (.getFileNameList .plain) = [] ∧ requested (.getFileInfo .file) = [] := by decide

/-- An account holding every defined privilege is never refused for lack of privilege. -/
theorem all_privileges_never_denied (acc : AccessBitmap) (h : ∀ p ∈ definedBits, acc.isSet p = true) (r : Req) (m : DenyMsg) :
    (run acc r).verdict ≠ .denied m := by
  apply authz_complete
  intro p hp
  obtain ⟨e, _, rfl⟩ := List.mem_map.mp hp
  apply h
  cases e <;> decide

/-! ### the folder kind that governs uploads and listings is the kind of the folder the request acts on -/

/-- `ReadPath` acts below `root ++ addressedFolder items` – for all item lists (items containing `/`, `.`, `..`, empty items). -/
theorem readPath_acts_in_addressed_folder (root : List Comp) (items : List Bytes) (name : Bytes) :
    readPath root items name = root ++ (addressedFolder items ++ joinRooted [] name) := by
  unfold readPath addressedFolder
  have hsub := items_normal items [] (by simp)
  have hnm := joinRooted_normal [] name (by simp)
  exact foldl_step_of_normal _ _ (by
    intro c hc; simp at hc; rcases hc with hc | hc
    · exact hsub c hc
    · exact hnm c hc)

/-- An upload whose path field addresses (after joining and cleaning ALL items) a folder that is neither an upload
    folder nor a drop box is performed only with upload-anywhere (bit 25), and refused with the handler's text otherwise. -/
theorem upload_outside_upload_folders_needs_anywhere (acc : AccessBitmap) (items : List Bytes) (ex : Bool)
    (hp : placeOfItems items = .plain) :
    (Effect.uploadFile ∈ (run acc (.uploadFile (placeOfItems items) ex)).effects → acc.isSet Priv.uploadAnywhere = true) ∧
    (Effect.uploadFolder ∈ (run acc (.uploadFldr (placeOfItems items))).effects → acc.isSet Priv.uploadAnywhere = true) ∧
    (acc.isSet Priv.uploadFile = true → acc.isSet Priv.uploadAnywhere = false →
      (run acc (.uploadFile (placeOfItems items) ex)) = deny .uploadFileAnywhere) ∧
    (acc.isSet Priv.uploadFolder = true → acc.isSet Priv.uploadAnywhere = false →
      (run acc (.uploadFldr (placeOfItems items))) = deny .uploadFolderAnywhere) := by
  rw [hp]
  cases h1 : acc.isSet Priv.uploadFile <;> cases h2 : acc.isSet Priv.uploadAnywhere <;>
    cases h3 : acc.isSet Priv.uploadFolder <;> cases ex <;>
    simp [run, uploadRule, Authz.guard, deny, refuse, proceed, h1, h2, h3]

/-- Listing a path field that addresses a drop box proceeds only with view-drop-boxes (bit 30). -/
theorem drop_box_listing_needs_view (acc : AccessBitmap) (items : List Bytes) (hp : placeOfItems items = .dropBox) :
    ((run acc (.getFileNameList (placeOfItems items))).verdict = .proceeded → acc.isSet Priv.viewDropBoxes = true) ∧
    (acc.isSet Priv.viewDropBoxes = false → run acc (.getFileNameList (placeOfItems items)) = deny .viewDropBoxes) := by
  rw [hp]
  cases h : acc.isSet Priv.viewDropBoxes <;> simp [run, Authz.guard, deny, proceed, h]

private def bs (s : String) : Bytes := s.toUTF8.toList
example : placeOfItems [bs "Uploads/../Private"] = .plain := by decide +kernel
example : placeOfItems [bs "Drop Box", bs "."] = .dropBox := by decide +kernel
example : placeOfItems [bs "Drop Box", bs "x", bs ".."] = .dropBox := by decide +kernel
example : placeOfItems [bs "Uploads", bs ""] = .uploads := by decide +kernel
example : placeOfItems [bs "plain/../My DROP Box/."] = .dropBox := by decide +kernel
example : placeOfItems [bs "Uploads", bs ".."] = .plain ∧ placeOfItems [] = .plain := by decide +kernel

/-- Two path fields addressing the same folder are decided alike (the raw items do not matter). -/
theorem same_folder_same_decision (acc : AccessBitmap) (i1 i2 : List Bytes) (h : addressedFolder i1 = addressedFolder i2) (ex : Bool) :
    run acc (.uploadFile (placeOfItems i1) ex) = run acc (.uploadFile (placeOfItems i2) ex) ∧
    run acc (.uploadFldr (placeOfItems i1)) = run acc (.uploadFldr (placeOfItems i2)) ∧
    run acc (.getFileNameList (placeOfItems i1)) = run acc (.getFileNameList (placeOfItems i2)) := by
  have : placeOfItems i1 = placeOfItems i2 := by unfold placeOfItems; rw [h]
  rw [this]; exact ⟨rfl, rfl, rfl⟩

/-! ### Obligations over the facts regenerated from /repo's source on every run -/

/-- The 43 registered transaction types and their handlers are the expected ones. -/
theorem generated_registered : Generated.registered = Spec.expectedRegistered := by decide

/-- The request classes of the model are exactly the registered transaction types. -/
theorem req_classes_are_registered :
    Spec.reqRepresentatives.map Req.tranName = Generated.registered.map (·.1) := by decide

/-- The guard skeleton of the handlers — every `Authorize` call site, its constant, its form
    (deny-guard / branch condition), the branch it sits under and the state-changing calls preceding
    it — is the expected one.  A guard on another constant, a dropped guard, a guard moved below an
    effect or a changed branch condition changes the regenerated table and breaks this proof. -/
theorem generated_authSites : Generated.authSites = Spec.expectedAuthSites := by decide

/-- The Access* constants carry the protocol's privilege numbers … -/
theorem generated_accessConsts : Generated.accessConsts = Spec.accessConsts := by decide

/-- … and `Priv.*`, which the model tests, are those numbers under those constant names. -/
theorem priv_numbers : ∀ e ∈ Spec.privConstNames, Generated.accessConsts.lookup e.1 = some e.2 := by decide

/-- Every guard constant resolves to the privilege that governs the effect the guard protects. -/
theorem guard_constants_govern_their_effect :
    ∀ s ∈ Spec.siteEffects, Generated.accessConsts.lookup s.2.1 = some s.2.2.priv := by decide

/-- Every `Authorize` call site in the source is accounted for: it protects a listed effect or is one of
    the five non-governing sites (chat audience filter, admin-flag refresh, protected target, the two
    amplification loops). -/
theorem every_site_classified :
    ∀ s ∈ Generated.authSites,
      (Spec.siteEffects.any fun t => t.1 == s.1 && t.2.1 == s.2.2.1) || Spec.otherSites.contains (s.1, s.2.2.1) = true := by
  decide

/-- No state-changing call precedes a guard, except in the handlers that serve several separately
    governed effects in one request (each effect is preceded by its own guard there). -/
theorem guards_precede_effects :
    ∀ s ∈ Generated.authSites,
      s.2.2.2.2.2 = [] ∨ s.1 ∈ ["HandleSetFileInfo", "HandleUpdateUser", "HandleSetUser"] := by decide

/-- Both reply constructors mark the transaction as a reply to the request and address the requester. -/
theorem reply_constructors : ∀ c ∈ Generated.replyCtors, c.2 = "IsReply=true ID=true ClientID=true" := by decide

/-- Every lack-of-privilege error reply in the source is a denial of the model: same text, and the constant
    tested is the privilege the model attributes to that denial (the two amplification messages and the
    protected-target message belong to C06). -/
theorem deny_messages_are_the_models :
    ∀ d ∈ Generated.denyMessages, d.2.1 = "i" ∨ d.2.1 = "AccessCannotBeDiscon" ∨
      (DenyMsg.all.any fun m => m.source == d.2.2 && Generated.accessConsts.lookup d.2.1 == some m.priv) = true := by
  decide +kernel

/-- … and every denial of the model occurs in the source. -/
theorem model_denials_occur_in_source :
    ∀ m ∈ DenyMsg.all, (Generated.denyMessages.any fun d => d.2.2 == m.source) = true := by decide +kernel

/-- The folder-kind checks of the source look at the folder the path resolves to: `IsDropbox` / `IsUploadDir` test
    `resolvedName()`, which runs the same per-item `filepath.Join("/", subPath, item)` loop as `ReadPath`
    (= `addressedFolder`) and takes its base name ("" for the root). -/
theorem place_checks_use_the_resolved_folder : Generated.placeChecks = [
    ("IsDropbox", "{ return strings.Contains(strings.ToLower(fp.resolvedName()), \"drop box\") }"),
    ("IsUploadDir", "{ return strings.Contains(strings.ToLower(fp.resolvedName()), \"upload\") }"),
    ("resolvedName", "{ var subPath string for _, pathItem := range fp.Items { subPath = filepath.Join(\"/\", subPath, string(pathItem.Name)) } if subPath == \"\" || subPath == \"/\" { return \"\" } return filepath.Base(subPath) }"),
    ("ReadPath.loop", "for _, pathItem := range fp.Items { subPath = filepath.Join(\"/\", subPath, string(pathItem.Name)) }")] := by
  decide +kernel

/-! Tie by translation (docs/Translator.md): the `isSet` that `Authorize` is modelled with IS
    `(*AccessBitmap).IsSet` of /repo's current hotline/access.go, translated to Lean on every check
    (`Generated/Translated.lean`) — for every bitmap and every privilege position `0 ≤ i < 64`. -/
theorem translated_IsSet_is_the_model (b : AccessBitmap) (i : Nat) (hi : i < 64) :
    Generated.Translated.AccessBitmap_IsSet b.bytes (i : Int) = .ok (b.isSet i) :=
  TranslatedTies.IsSet_translated b i hi

-- non-vacuity
example : Generated.Translated.AccessBitmap_IsSet (AccessBitmap.ofBits [2, 22]).bytes 2 = .ok true := by decide

/-! ## Wave d — privileged effects decided outside the per-handler guard

    (a) *A private chat exists* is an effect of bit 11 ('open chat'): the handlers that act on a chat id (join, leave,
    subject, private send, decline) have no guard of their own because they can only reach a chat that was opened.
    (b) *The name a session shows* is client-chosen only under bit 26 ('use any name') — at the login transaction
    itself (`handleNewConnection`), at `TranAgreed` and at `TranSetClientUserInfo`. -/

/-- For EVERY history of chat requests from the empty manager: every private chat that exists was created by an
    invite-new request whose sender held 'open chat'. -/
theorem chat_exists_only_by_open_chat (ops : List ChatGate.Op) (i : Nat)
    (hi : i ∈ (ChatGate.run ChatGate.St.init ops).ids) : ∃ who, ChatGate.Op.inviteNew who true i ∈ ops := by
  rcases ChatGate.run_ids ops ChatGate.St.init i hi with h | h
  · cases h
  · exact h

/-- A request naming a chat id that was never issued (join / leave / subject / private send / decline, whoever sends
    it): the state is unchanged and nobody is reached (the Go handler dereferences a nil `*PrivateChat`; the panic is
    recovered in the requester's connection goroutine). -/
theorem chat_request_on_unissued_id_is_inert (s : ChatGate.St) (who cid : Nat) (subj : Bytes) (sd : Bool)
    (h : cid ∉ s.ids) (o : ChatGate.Op)
    (ho : o = .join who cid ∨ o = .leave who cid ∨ o = .setSubject who cid subj ∨ o = .send who sd cid ∨ o = .decline who cid) :
    (ChatGate.step s o).1 = s ∧ ((ChatGate.step s o).2 = .panicked ∨ (ChatGate.step s o).2 = .denied) :=
  ChatGate.step_unknown s o cid h ho

/-- Without 'open chat' an invite-new request is refused and no chat comes into being. -/
theorem invite_new_needs_open_chat (s : ChatGate.St) (who newId : Nat) :
    ChatGate.step s (.inviteNew who false newId) = (s, .denied) := rfl

-- non-vacuity: with the privilege the chat exists and an unprivileged user can join it and reach the opener
example : (ChatGate.run ChatGate.St.init [.inviteNew 1 true 77, .join 2 77]).ids = [77] ∧
    (ChatGate.step (ChatGate.run ChatGate.St.init [.inviteNew 1 true 77]) (.join 2 77)).2 = .ok [1] ∧
    (ChatGate.step (ChatGate.run ChatGate.St.init [.inviteNew 1 true 77]) (.join 2 78)).2 = .panicked := by decide

/-- For EVERY account name, every login form and every sequence of agreed / set-client-user-info requests: without
    'use any name' the session shows the account's configured name (or no name yet) — never a name of the client's
    choosing. -/
theorem session_name_without_any_name (acctName : Bytes) (login : Option Bytes) (evs : List LoginName.NameEv) :
    LoginName.session acctName false login evs = [] ∨ LoginName.session acctName false login evs = acctName := by
  apply LoginName.foldl_without
  cases login <;> simp [LoginName.atLogin]

/-- With the privilege the client's name is adopted at each of the three places (never refused). -/
theorem session_name_with_any_name (acctName n : Bytes) (login : Option Bytes) (evs : List LoginName.NameEv) :
    LoginName.atLogin acctName true (some n) = n ∧
    LoginName.session acctName true login (evs ++ [.agreed (some n)]) = n ∧
    LoginName.session acctName true login (evs ++ [.setInfo (some n)]) = n := by
  simp [LoginName.atLogin, LoginName.session, LoginName.stepName, List.foldl_append]

/-- The login is announced at once exactly when the name it ends up with is non-empty; in particular an account with
    an empty configured name and without the privilege is NOT announced under the client's name. -/
theorem login_without_any_name_announces_account_name (acctName n : Bytes) :
    LoginName.atLogin acctName false (some n) = acctName ∧
    LoginName.announcedAtLogin [] false (some n) = false := by
  simp [LoginName.atLogin, LoginName.announcedAtLogin]

-- non-vacuity
example : LoginName.session [65] false (some [88]) [.setInfo (some [89]), .agreed (some [90])] = [65] ∧
    LoginName.session [] false (some [88]) [.setInfo (some [89])] = [] ∧
    LoginName.session [65] true (some [88]) [.setInfo (some [89])] = [89] := by decide

/-- Regenerated: a private chat is stored into the manager's map only by `New`, which only `HandleInviteNewChat`
    calls, behind its guard on 'open chat' — the premise of `ChatGate.step` (no other request inserts). -/
theorem chat_comes_into_being_only_in_New :
    Generated.chatMapWrites = [("MemChatManager.New", "cm.chats[randID] = &PrivateChat{ClientConn: make(map[[2]byte]*ClientConn)}")] ∧
    Generated.chatNewCallers = [("HandleInviteNewChat", "!cc.Authorize(hotline.AccessOpenChat)")] := by decide

/-- Regenerated: every assignment to a session's `UserName` in the source, with the if-arms it sits in — the three
    places of `LoginName`, each adopting the client's field only under `Authorize(AccessAnyName)`. -/
theorem name_is_assigned_only_under_any_name : Generated.nameWrites = [
    ("Server.handleNewConnection", "clientLogin.GetField(FieldUserName).Data != nil && c.Authorize(AccessAnyName)", "clientLogin.GetField(FieldUserName).Data"),
    ("Server.handleNewConnection", "clientLogin.GetField(FieldUserName).Data != nil && !(c.Authorize(AccessAnyName))", "[]byte(c.Account.Name)"),
    ("HandleTranAgreed", "t.GetField(hotline.FieldUserName).Data != nil && cc.Authorize(hotline.AccessAnyName)", "t.GetField(hotline.FieldUserName).Data"),
    ("HandleTranAgreed", "t.GetField(hotline.FieldUserName).Data != nil && !(cc.Authorize(hotline.AccessAnyName))", "[]byte(cc.Account.Name)"),
    ("HandleSetClientUserInfo", "cc.Authorize(hotline.AccessAnyName)", "t.GetField(hotline.FieldUserName).Data")] := by decide

/-! ### wave e — logins are byte-string keys (`bob` ≠ `Bob`): the account store, the sessions, the single-account editor

  `SetUserLogins`: accounts keyed by the login bytes, sessions carrying a copy of their account, `setUser` = lookup
  (unknown login → refused, nothing changes), store, push into the sessions whose login is byte-wise equal. -/
section SetUserLoginsC05
open SetUserLogins

/-- After ANY history of account creations, logins and single-account edits every session carries exactly what ITS OWN
    account (the key byte-wise equal to its login) stores — so `Authorize` on the session decides every request by the
    privilege its account holds at that moment, never by another account's. -/
theorem session_authorized_by_own_account {α : Type} (es : List (Ev α)) (s : Sess α)
    (hs : s ∈ (SetUserLogins.run World.init es).sess) :
    lookup s.login (SetUserLogins.run World.init es).accts = some s.access :=
  coherent_run es _ coherent_init s hs

/-- An acknowledged set-user for login `l` changes the stored access of exactly the key `l` and the access of exactly
    the sessions whose account login = `l` as byte strings; ids, logins and order of the sessions are kept. -/
theorem set_user_changes_exactly_login {α : Type} (w : World α) (l : Bytes) (a : α) (h : (setUser w l a).2 = true) :
    (∀ l', lookup l' (setUser w l a).1.accts = if l' = l then some a else lookup l' w.accts) ∧
    (setUser w l a).1.sess = w.sess.map (fun s => if s.login = l then { s with access := a } else s) := by
  rw [setUser_ack_world w l a h]
  have hk := (setUser_ack_iff w l a).mp h
  refine ⟨fun l' => ?_, rfl⟩
  show lookup l' (update l a w.accts) = _
  rw [lookup_update]
  cases hl : lookup l w.accts with
  | none => rw [hl] at hk; cases hk
  | some b => rfl

/-- … in particular an edit of account X never changes what a session of an account Y ≠ X (byte-wise) may do. -/
theorem set_user_other_login_untouched {α : Type} (w : World α) (l : Bytes) (a : α) (s : Sess α) (hs : s ∈ w.sess)
    (hne : s.login ≠ l) : s ∈ (setUser w l a).1.sess ∧ lookup s.login (setUser w l a).1.accts = lookup s.login w.accts := by
  cases h : (setUser w l a).2 with
  | false =>
    have : lookup l w.accts = none := by
      cases hl : lookup l w.accts with
      | none => rfl
      | some b => have := (setUser_ack_iff w l a).mpr (by simp [hl]); rw [h] at this; cases this
    rw [setUser_refused w l a this]; exact ⟨hs, rfl⟩
  | true =>
    obtain ⟨h1, h2⟩ := set_user_changes_exactly_login w l a h
    refine ⟨?_, by rw [h1]; simp [hne]⟩
    rw [h2]; exact List.mem_map.mpr ⟨s, hs, by simp [hne]⟩

/-- A set-user naming a login that is not a key is refused and changes nothing. -/
theorem set_user_unknown_login_refused {α : Type} (w : World α) (l : Bytes) (a : α) (h : lookup l w.accts = none) :
    setUser w l a = (w, false) := setUser_refused w l a h

/-- non-vacuity: accounts `bob` (access 1) and `Bob` (access 2), one session each, then a session on `bob` again;
    set-user `Bob` := 9 is acknowledged and changes the account `Bob` and session 11 only; `BOB` is not a key: refused. -/
example :
    let bob : Bytes := [98, 111, 98]
    let Bob : Bytes := [66, 111, 98]
    let BOB : Bytes := [66, 79, 66]
    let w : World Nat := SetUserLogins.run World.init [.create bob 1, .create Bob 2, .login 10 bob, .login 11 Bob, .login 12 bob]
    (setUser w Bob 9).2 = true ∧
    (setUser w Bob 9).1.accts = [(bob, 1), (Bob, 9)] ∧
    (setUser w Bob 9).1.sess = [⟨10, bob, 1⟩, ⟨11, Bob, 9⟩, ⟨12, bob, 1⟩] ∧
    (setUser w BOB 9).2 = false ∧ (setUser w BOB 9).1.accts = w.accts ∧ (setUser w BOB 9).1.sess = w.sess := by
  decide

end SetUserLoginsC05

end Mobius.C05
