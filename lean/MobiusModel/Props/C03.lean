import MobiusModel.Containment
import MobiusModel.Lockset
import MobiusModel.RWLock
import MobiusModel.GrownState
import MobiusModel.Generated.Concurrency
import MobiusModel.Generated.LockShape
import MobiusModel.Spec.ConcurrencySpec
/-!
  C03 — Hostile input is contained to the offending connection (PARTIAL: see docs/C03.md).

  What is proved here, for every input / exit point / interleaving:
  * whatever a connection's bytes make it do, its trace of effects on the shared registry and the
    stats counters is balanced (the `defer` pairing), so after any number of hostile sessions, in
    any interleaving with well-behaved ones, the counters and the registry are exactly what the
    well-behaved sessions alone account for;
  * accesses to a shared map made under its mutex never overlap, in any schedule;
  * the source has the shape these two models assume (obligations over regenerated facts):
    both entry points recover panics first, every acquisition is followed by its deferred release,
    every lock is released by a deferred or paired unlock, every shared-map access is under a lock
    (or on the documented allow-list), and the set of goroutines is the expected one;
  * a goroutine that asks for a read lock it already holds while a writer is waiting is stuck for
    good together with the writer, and with them every later user of that mutex (RWMutex model,
    every continuation) — and the source contains no method that calls, while holding a mutex of
    its receiver, another method of the receiver taking the same mutex (regenerated fact).
  What no executable model exhibits and is therefore only exercised (child-process server under
  hostile streams): memory exhaustion, scheduler fairness, goroutine pile-up behind a client that
  never reads, data races on non-map fields.
-/
namespace Mobius.C03
open Mobius.Containment

/-- A control connection's bookkeeping is balanced wherever the connection exits. -/
theorem control_session_balanced (id : Nat) (e : CtlExit) (k : Nat) :
    net k (ctlTrace id e) = 0 ∧ memAfter id false (ctlTrace id e) = false := by
  cases e <;> simp [ctlTrace, net, memAfter] <;> (try split) <;> omega

/-- A transfer connection's counters are balanced wherever it exits. -/
theorem transfer_session_balanced (ref : Nat) (e : XferExit) (k : Nat) :
    net k (xferTrace ref e) = 0 := by
  cases e with
  | beforeLookup => rfl
  | afterLookup => rfl
  | inBody j => simp [xferTrace, net]; split <;> omega

/-- A hostile session: any control or transfer connection, exiting anywhere. -/
inductive Hostile : List Eff → Prop where
  | ctl (id : Nat) (e : CtlExit) : Hostile (ctlTrace id e)
  | xfer (ref : Nat) (e : XferExit) : Hostile (xferTrace ref e)

theorem hostile_net_zero {t : List Eff} (h : Hostile t) (k : Nat) : net k t = 0 := by
  cases h with
  | ctl id e => exact (control_session_balanced id e k).1
  | xfer ref e => exact transfer_session_balanced ref e k

theorem sum_zero_of_all_zero (l : List Int) (h : ∀ x ∈ l, x = 0) : l.sum = 0 := by
  induction l with
  | nil => rfl
  | cons a l ih =>
    simp only [List.sum_cons]
    rw [h a (by simp), ih (fun x hx => h x (by simp [hx]))]; rfl

/-- Counters at quiescence: in EVERY interleaving of any number of hostile sessions with the
    well-behaved sessions' traces, each watched counter ends where the well-behaved sessions alone
    put it. -/
theorem counters_unaffected_by_hostile (hostile good : List (List Eff)) (out : List Eff)
    (hh : ∀ t ∈ hostile, Hostile t) (hm : MergeAll (hostile ++ good) out) (k : Nat) :
    net k out = (good.map (net k)).sum := by
  rw [net_mergeAll k hm, List.map_append, List.sum_append]
  have : (hostile.map (net k)).sum = 0 := by
    apply sum_zero_of_all_zero
    intro x hx
    obtain ⟨t, ht, rfl⟩ := List.mem_map.mp hx
    exact hostile_net_zero (hh t ht) k
  omega

/-- Registry at quiescence: a well-behaved client `g` (whose id no other session mentions) is in
    the user list after the merged execution exactly if it would be after its own session alone —
    hostile sessions cannot add, remove or resurrect it. -/
theorem registry_entry_depends_on_own_session (pre post : List (List Eff)) (own out : List Eff) (g : Nat) (m : Bool)
    (hm : MergeAll (pre ++ own :: post) out)
    (hothers : ∀ t ∈ pre ++ post, ∀ a ∈ t, mentions g a = false) :
    memAfter g m out = memAfter g m own := by
  rw [memAfter_filter g m out, memAfter_filter g m own, filter_mergeAll (mentions g) pre own post out hm hothers]

/-- … and a hostile control connection with a fresh id is not in the user list afterwards. -/
theorem hostile_id_absent_afterwards (pre post : List (List Eff)) (out : List Eff) (id : Nat) (e : CtlExit)
    (hm : MergeAll (pre ++ ctlTrace id e :: post) out)
    (hothers : ∀ t ∈ pre ++ post, ∀ a ∈ t, mentions id a = false) :
    memAfter id false out = false := by
  rw [registry_entry_depends_on_own_session pre post _ out id false hm hothers]
  exact (control_session_balanced id e 0).2

/-- Mutual exclusion: in every schedule the mutex and the lock discipline allow, no two goroutines
    are inside a shared-map access at the same time. -/
theorem map_accesses_never_overlap (sched : List (Nat × Lockset.Act)) (s : Lockset.LState)
    (hr : Lockset.run Lockset.init sched = some s) (t u : Nat)
    (ht : s.inAcc t = true) (hu : s.inAcc u = true) : t = u :=
  Lockset.exclusive_of_inv s (Lockset.inv_run _ _ sched Lockset.inv_init hr) t u ht hu

/-- Wedging through a re-entrant read lock: a goroutine holding a read lock of a `sync.RWMutex` (a
    statistics reader) that asks for it again after a writer (a login, a disconnect, a transfer
    updating a counter) has entered `Lock()` never gets it, the writer never gets the mutex either —
    in EVERY continuation — and from then on no goroutine at all is admitted: the state behind the
    mutex is lost to all connections although nothing crashed. -/
theorem nested_read_lock_wedges_the_mutex (sched : List (Nat × RWLock.Act)) (s s' : RWLock.S) (r w : Nat)
    (h : RWLock.Stuck s r w)
    (hprog : ∀ ta ∈ sched, (ta.1 = r → ta.2 = .rlock) ∧ (ta.1 = w → ta.2 = .lockGrant))
    (hrun : RWLock.run s sched = some s') :
    (∀ ta ∈ sched, ta.1 ≠ r ∧ ta.1 ≠ w) ∧
    ∀ t, RWLock.step s' t .rlock = none ∧ RWLock.step s' t .lockGrant = none := by
  obtain ⟨hs', hall⟩ := RWLock.nested_rlock_deadlocks sched s s' r w h hprog hrun
  exact ⟨hall, RWLock.stuck_blocks_everyone s' r w hs'⟩

/-- … whereas a mutex whose holders always release next (no nested acquisition) can always move. -/
theorem mutex_progress_when_holders_release (s : RWLock.S) :
    (∃ t, t ∈ s.readers ∧ (RWLock.step s t .runlock).isSome) ∨
    (∃ t, s.writer = some t ∧ (RWLock.step s t .unlock).isSome) ∨
    (∃ t, t ∈ s.waiting ∧ (RWLock.step s t .lockGrant).isSome) ∨
    (∀ t, (RWLock.step s t .rlock).isSome) :=
  RWLock.progress_when_holders_release s

/-! Obligations over the facts regenerated from /repo's source. -/

/-- No method calls, while holding a mutex of its receiver (Lock or RLock), another method of the
    same receiver that takes the same mutex (directly or through further methods of the receiver):
    Go's mutexes are not re-entrant (`nested_read_lock_wedges_the_mutex`). -/
theorem generated_no_self_locked_calls : Generated.selfLockedCalls = [] := by decide

/-- The statistics are guarded the way the model assumes: writers take the write lock, the two
    readers (`Get`, `Values`) the read lock. -/
theorem generated_stats_lock_kinds :
    Generated.lockingMethods.filter (fun e => e.1 == "hotline.Stats") =
      [("hotline.Stats", "Decrement", "·.mu", "Lock"), ("hotline.Stats", "Get", "·.mu", "RLock"),
       ("hotline.Stats", "Increment", "·.mu", "Lock"), ("hotline.Stats", "Set", "·.mu", "Lock"),
       ("hotline.Stats", "Values", "·.mu", "RLock")] := by decide

/-- Both connection entry points start with `defer dontPanic(…)`. -/
theorem generated_entry_points_recover : ∀ e ∈ Generated.entryRecover, e.2 = true := by decide

/-- Every acquisition in the entry points is immediately followed by its deferred release. -/
theorem generated_acquire_release : Generated.acquireRelease = Spec.acquireRelease := by decide

/-- The deferred clean-ups of the entry points are the expected ones, in the expected order. -/
theorem generated_entry_defers : Generated.entryDefers = Spec.entryDefers := by decide

/-- Every `Lock()`/`RLock()` is released by a deferred unlock or an explicit one in the same block. -/
theorem generated_locks_released : ∀ l ∈ Generated.lockSites, l.2.2.1 = true ∨ l.2.2.2 = true := by decide

/-- Every access to a map-typed field of a shared struct is under that struct's lock, except the
    documented allow-list. -/
theorem generated_shared_maps_locked :
    ∀ a ∈ Generated.mapAccesses, a.2.2 = true ∨ a.1 ∈ Spec.unlockedAllowed := by decide

/-- The goroutines of the server are the expected ones (none added, none lost its shape). -/
theorem generated_goroutines : Generated.goStmts = Spec.goStmts := by decide

/-- The outbox dispatcher's loop body is `receive; go send`: it never blocks on a client. -/
theorem generated_outbox_shape : Generated.outboxShape = "receive-then-go" := by decide

-- non-vacuity
example : MergeAll [ctlTrace 7 .inLoop, [Eff.regAdd 1, Eff.inc 0]]
    [Eff.regAdd 1, Eff.regAdd 7, Eff.inc 0, Eff.inc 0, Eff.dec 0, Eff.regDel 7] :=
  .cons (.cons .nil (.left _ (.left _ .nil)))
    (.right _ (.left _ (.left _ (.right _ (.left _ (.left _ .nil))))))
example : net 0 [Eff.regAdd 1, Eff.regAdd 7, Eff.inc 0, Eff.inc 0, Eff.dec 0, Eff.regDel 7] = 1 := by decide
example : Lockset.run Lockset.init [(1, .acq), (1, .beginAcc), (1, .endAcc), (1, .rel), (2, .acq), (2, .beginAcc)] ≠ none := by
  decide
example : Lockset.run Lockset.init [(1, .acq), (2, .acq)] = none := by decide
-- reader 1 takes the read lock, writer 2 enters Lock(): stuck; connections 3 and 4 arrive and pile up behind them
example : ∃ s, RWLock.run RWLock.init [(1, .rlock), (2, .lockReq)] = some s ∧ RWLock.Stuck s 1 2 :=
  RWLock.stuck_after_reader_then_writer 1 2
example : RWLock.run ⟨[1], none, [2]⟩ [(3, .lockReq), (4, .lockReq)] = some ⟨[1], none, [2, 3, 4]⟩ := by decide
example : RWLock.step ⟨[1], none, [2, 3, 4]⟩ 1 .rlock = none ∧ RWLock.step ⟨[1], none, [2, 3, 4]⟩ 2 .lockGrant = none := by decide
-- the same nesting with no writer in between returns
example : RWLock.run RWLock.init [(1, .rlock), (1, .rlock), (1, .runlock), (1, .runlock)] = some RWLock.init :=
  RWLock.nested_rlock_without_writer_returns 1

-- ---------------------------------------------------------------- wave e: shared state grown past the 16-bit field limit

/-- **The header frames exactly the bytes written, for every field size**: a transaction occupies
    20 + 2 + Σ (4 + |data|) bytes on the socket, also when a field's data exceeds 65535 bytes and its
    16-bit prefix wraps. -/
theorem reply_header_frames_bytes_written (t : Transaction) :
    t.encode.length = 20 + 2 + (t.fields.map fun f => 4 + f.data.length).sum ∧
    (GrownState.replyHeader (t.fields.map fun f => f.data.length)).1 = t.payloadSize :=
  ⟨GrownState.encode_length_any_field t, GrownState.replyHeader_total t⟩

/-- **One client's posts cannot cut off the others**: for every stream of transactions the server writes
    to a client (fields of ANY length — e.g. the message board after posts that made it longer than 65535
    or 131071 bytes), a reader that trusts the transaction header finds every transaction, hence every
    later reply, exactly as sent. -/
theorem header_trusting_reader_resynchronises (ts : List Transaction)
    (h : ∀ t ∈ ts, t.payloadSize + 20 < 4294967296) (rest : Bytes) :
    GrownState.reframe ts.length (GrownState.streamOf ts ++ rest) = ts.map Transaction.encode :=
  GrownState.reframe_stream ts h rest

/-- The board reply after any posts, followed by any other reply: both are found. -/
theorem reply_after_grown_board_is_found (id : Nat) (init : Bytes) (posts : List Bytes) (next : Transaction) (rest : Bytes)
    (hb : (GrownState.board init posts).length + 26 < 4294967296) (hn : next.payloadSize + 20 < 4294967296) :
    GrownState.reframe 2 ((GrownState.boardReply id (GrownState.board init posts)).encode ++ next.encode ++ rest) =
      [(GrownState.boardReply id (GrownState.board init posts)).encode, next.encode] :=
  GrownState.next_reply_found_after_board id _ next rest hb hn

/-- Non-vacuity: three posts of 30000 bytes onto a 39601-byte board: the field holds 129601 bytes, its
    prefix announces 64065, the header announces all of them. -/
example (init a b c : Bytes) (h0 : init.length = 39601) (ha : a.length = 30000) (hb : b.length = 30000) (hc : c.length = 30000) :
    GrownState.replyHeader [(GrownState.board init [a, b, c]).length] = (129607, [64065]) := by
  rw [(GrownState.boardReply_header 7 _ _).2]; simp [h0, ha, hb, hc]

end Mobius.C03
