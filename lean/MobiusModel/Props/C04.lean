import MobiusModel.Session
import MobiusModel.LoginHistory
import MobiusModel.SetUserPw
import MobiusModel.BanReload
import MobiusModel.Generated.Consts
import MobiusModel.Generated.LockShape
/-!
  C04 — Nothing is served before a successful login.

  Property theorems only (helper lemmas live in `Session`).  Quantifiers: every environment `env`
  (account table `accts : login ↦ stored hash`, password check `verify`, ban list, address,
  instant, dispatcher and login/disconnect effects on an abstract world `W`), every initial world
  `w`, every client stream in every chunking — in particular every handshake byte string, every
  (login, password) pair and every sequence of bytes appended after the login attempt.
-/
set_option linter.unusedVariables false
namespace Mobius.C04
open Mobius.Session

/-- (1) A connection is logged in **exactly when** its first 12 bytes are a valid TRTP/HOTL
    handshake, its address is not refused by the ban gate, the first scanner token decodes as a
    transaction `t`, the account named by `t` (field 105 de-obfuscated, empty meaning "guest")
    exists, and the password check accepts field 106 against that account's stored hash. -/
theorem logged_in_iff {W O : Type} (env : Env W O) (w : W) (chunks : List Bytes) :
    (Session.run env w chunks).loggedIn = true ↔
      (chunks.flatten.take 12).length = 12 ∧ handshakeValid (chunks.flatten.take 12) = true ∧
      BanGate.refused env.bans (BanGate.ipOf env.addr) env.now = false ∧
      ∃ t, Transaction.decode (Session.firstToken chunks.flatten) = .ok t ∧
        ∃ h, env.accts (loginOf t) = some h ∧ env.verify h (pwOf t) = true := by
  rw [Session.run_eq_runStream]
  exact Session.runStream_loggedIn_iff env w chunks.flatten

/-- (1a) The guest fallback is for the empty login only … -/
theorem guest_only_for_empty_login (t : Transaction) (h : (getField t 105).data = []) :
    loginOf t = guestLogin :=
  loginOf_empty t h

/-- (1b) … any other login names itself (never silently "guest"). -/
theorem named_login_is_itself (t : Transaction) (h : (getField t 105).data ≠ []) :
    loginOf t = obfuscate (getField t 105).data :=
  loginOf_nonempty t h

/-- (2) A connection that is not logged in was sent nothing but: nothing at all, or the 8-byte
    handshake reply, or the handshake reply followed by one error reply to its first transaction,
    or the handshake reply followed by one ban notice; the world is unchanged (no handler, no
    registration, no disconnect effect ran), nothing was emitted towards other clients or the
    outbox, and no transaction was handed to the dispatcher. -/
theorem unauthenticated_is_inert {W O : Type} (env : Env W O) (w : W) (chunks : List Bytes)
    (h : (Session.run env w chunks).loggedIn = false) :
    ((Session.run env w chunks).toPeer = [] ∨
     (Session.run env w chunks).toPeer = handshakeReply ∨
     (∃ t, Transaction.decode (Session.firstToken chunks.flatten) = .ok t ∧
        (Session.run env w chunks).toPeer = handshakeReply ++ (errReply t.id).encode) ∨
     (∃ p, (Session.run env w chunks).toPeer = handshakeReply ++ (banNotice env.noticeId p).encode)) ∧
    (Session.run env w chunks).world = w ∧
    (Session.run env w chunks).outs = [] ∧
    (Session.run env w chunks).dispatched = [] := by
  rw [Session.run_eq_runStream] at h ⊢
  obtain ⟨hp, hw, ho, hd⟩ := Session.core_inert env w _ _ h
  refine ⟨?_, hw, ho, hd⟩
  rcases hp with h0 | h1 | ⟨t, ht, hpe⟩ | ⟨p, hpe⟩
  · exact Or.inl h0
  · exact Or.inr (Or.inl h1)
  · refine Or.inr (Or.inr (Or.inl ⟨t, ?_, hpe⟩))
    -- the transaction whose id the error reply carries is the decoded first token
    exact Session.core_loginTran env w _ _ t ht
  · exact Or.inr (Or.inr (Or.inr ⟨p, hpe⟩))

/-- (3) Whatever an unauthenticated peer appends after its first transaction is never looked at:
    two streams with the same first 12 bytes and the same first token, one of which is not logged
    in, produce the same result (same bytes to the peer, same — unchanged — world). -/
theorem unauthenticated_ignores_appended {W O : Type} (env : Env W O) (w : W) (c1 c2 : List Bytes)
    (hhs : c1.flatten.take 12 = c2.flatten.take 12)
    (htok : Session.firstToken c1.flatten = Session.firstToken c2.flatten)
    (h : (Session.run env w c1).loggedIn = false) :
    Session.run env w c1 = Session.run env w c2 := by
  rw [Session.run_eq_runStream] at h ⊢
  rw [Session.run_eq_runStream]
  unfold Session.runStream at h ⊢
  rw [← hhs]
  exact Session.core_unauth_head env w _ _ _ htok h

/-- (3') Concretely: after a valid handshake and a rejected login transaction (well-formed, fits
    the scanner buffer), any two continuations — e.g. destructive requests — give the same result. -/
theorem rejected_login_ignores_appended {W O : Type} (env : Env W O) (w : W) (hs : Bytes) (t : Transaction)
    (extra1 extra2 : Bytes) (c1 c2 : List Bytes)
    (h1 : c1.flatten = hs ++ (t.encode ++ extra1)) (h2 : c2.flatten = hs ++ (t.encode ++ extra2))
    (hhs : hs.length = 12) (ht : t.WFdec) (hfit : t.encode.length ≤ maxTok)
    (hrej : Session.authenticate env t = false) :
    Session.run env w c1 = Session.run env w c2 ∧ (Session.run env w c1).loggedIn = false := by
  have tk : ∀ e : Bytes, (hs ++ (t.encode ++ e)).take 12 = hs := by
    intro e; rw [← hhs]; exact List.take_left
  have dr : ∀ e : Bytes, (hs ++ (t.encode ++ e)).drop 12 = t.encode ++ e := by
    intro e; rw [← hhs]; exact List.drop_left
  have ft : ∀ e : Bytes, Session.firstToken (hs ++ (t.encode ++ e)) = t.encode := by
    intro e
    unfold Session.firstToken
    rw [dr e, Session.tokensOf_encode_cons t ht.2.2.2.2.2 hfit]
    rfl
  have hnot : (Session.run env w c1).loggedIn = false := by
    cases hl : (Session.run env w c1).loggedIn with
    | false => rfl
    | true =>
      obtain ⟨_, _, _, u, hu, hh, hacc, hver⟩ := (logged_in_iff env w c1).mp hl
      rw [h1, ft extra1, Transaction.decode_encode' t ht] at hu
      injection hu with hu
      subst hu
      have : Session.authenticate env t = true := (Session.authenticate_iff env t).mpr ⟨hh, hacc, hver⟩
      rw [hrej] at this
      cases this
  refine ⟨?_, hnot⟩
  apply unauthenticated_ignores_appended env w c1 c2 _ _ hnot
  · rw [h1, h2, tk, tk]
  · rw [h1, h2, ft, ft]

/-- (4) A login is never half-way: when logged in, exactly the handshake reply was written by
    the connection handler itself (everything else goes through the outbox of the registered client). -/
theorem logged_in_direct_bytes {W O : Type} (env : Env W O) (w : W) (chunks : List Bytes)
    (h : (Session.run env w chunks).loggedIn = true) :
    (Session.run env w chunks).toPeer = handshakeReply := by
  rw [Session.run_eq_runStream] at h ⊢
  exact Session.core_loggedIn_toPeer env w _ _ h

/-- (5) An account whose stored hash verifies no password (a value that is not a well-formed bcrypt
    hash: empty, plaintext, truncated) cannot be logged in to, whatever password is presented. -/
theorem unverifiable_account_never_logs_in {W O : Type} (env : Env W O) (w : W) (chunks : List Bytes)
    (h : ∀ t hh, Transaction.decode (Session.firstToken chunks.flatten) = .ok t →
      env.accts (loginOf t) = some hh → env.verify hh (pwOf t) = false) :
    (Session.run env w chunks).loggedIn = false := by
  cases hl : (Session.run env w chunks).loggedIn with
  | false => rfl
  | true =>
    obtain ⟨_, _, _, t, ht, hh, hacc, hver⟩ := (logged_in_iff env w chunks).mp hl
    rw [h t hh ht hacc] at hver
    cases hver

/-- (6) After an account was renamed, a first transaction naming the OLD login is refused whatever
    password it carries (the login no longer names an existing account) … -/
theorem renamed_away_login_refused {W O : Type} (env : Env W O) (w : W) (chunks : List Bytes)
    (old new newHash : Bytes) (hne : old ≠ new) (t : Transaction)
    (ht : Transaction.decode (Session.firstToken chunks.flatten) = .ok t) (hold : loginOf t = old) :
    (Session.run { env with accts := renameAcct env.accts old new newHash } w chunks).loggedIn = false := by
  apply unverifiable_account_never_logs_in
  intro u hh hu hacc
  rw [ht] at hu
  injection hu with hu
  subst hu
  simp only [hold, renameAcct_old env.accts old new newHash hne] at hacc
  cases hacc

/-- (6') … and the NEW login is what the account answers to: it authenticates exactly with the
    password its (possibly re-hashed) entry verifies. -/
theorem renamed_login_authenticates {W O : Type} (env : Env W O) (old new newHash : Bytes) (t : Transaction)
    (hnew : loginOf t = new) :
    Session.authenticate { env with accts := renameAcct env.accts old new newHash } t = env.verify newHash (pwOf t) := by
  simp [Session.authenticate, hnew, renameAcct_new]

/-! ### The account table after an administrator's batched edit (TranUpdateUser, several records)

    "Its current password" is what the LAST acknowledged edit of that account set.  `LoginHistory.applyBatch`
    is `HandleUpdateUser` on the table `login ↦ stored hash`: the records in order, each read through ITS OWN
    sub-fields, stopping at the first one that fails. -/

/-- (7) An acknowledged batch is exactly its records applied one after the other, each with its own
    sub-fields: nothing of an earlier record is visible to a later one. -/
theorem batched_edit_is_record_by_record (hash : Bytes → Bytes) (recs : List (List Field)) (t : LoginHistory.Table)
    (hack : (LoginHistory.applyBatch hash recs t).2 = true) :
    (LoginHistory.applyBatch hash recs t).1 = LoginHistory.applySingles hash recs t :=
  LoginHistory.applyBatch_eq_singles hash recs t hack

/-- (7a) The last record naming a login decides: after an acknowledged batch `pre ++ fs :: post` in
    which no record of `post` names the login of the first transaction, the connection is logged in
    exactly when handshake and ban gate pass and the entry that `fs` — applied with its own sub-fields
    to the table left by `pre` — gave that login verifies the password presented. -/
theorem logged_in_after_batch_iff {W O : Type} (env : Env W O) (w : W) (chunks : List Bytes) (hash : Bytes → Bytes)
    (pre post : List (List Field)) (fs : List Field)
    (hack : (LoginHistory.applyBatch hash (pre ++ fs :: post) env.accts).2 = true)
    (hpost : ∀ t, Transaction.decode (Session.firstToken chunks.flatten) = .ok t → ∀ r ∈ post, ¬ LoginHistory.touches r (loginOf t)) :
    (Session.run (LoginHistory.envAfter env hash (pre ++ fs :: post)) w chunks).loggedIn = true ↔
      (chunks.flatten.take 12).length = 12 ∧ handshakeValid (chunks.flatten.take 12) = true ∧
      BanGate.refused env.bans (BanGate.ipOf env.addr) env.now = false ∧
      ∃ t, Transaction.decode (Session.firstToken chunks.flatten) = .ok t ∧
        ∃ h, (LoginHistory.applyRec hash fs (LoginHistory.applyBatch hash pre env.accts).1).1 (loginOf t) = some h ∧
          env.verify h (pwOf t) = true := by
  rw [logged_in_iff]
  constructor
  · rintro ⟨h1, h2, h3, t, ht, h, hacc, hv⟩
    refine ⟨h1, h2, h3, t, ht, h, ?_, hv⟩
    rw [← LoginHistory.batch_last_edit_decides hash pre post fs env.accts (loginOf t) hack (hpost t ht)]
    exact hacc
  · rintro ⟨h1, h2, h3, t, ht, h, hacc, hv⟩
    refine ⟨h1, h2, h3, t, ht, h, ?_, hv⟩
    show (LoginHistory.applyBatch hash (pre ++ fs :: post) env.accts).1 (loginOf t) = some h
    rw [LoginHistory.batch_last_edit_decides hash pre post fs env.accts (loginOf t) hack (hpost t ht)]
    exact hacc

/-- (7b) A password changed by a record of the batch: afterwards the OLD password (anything bcrypt
    does not verify against the hash of the new one) is refused, whatever else the batch contained
    before that record and provided no later record names the account. -/
theorem password_changed_in_batch_old_refused {W O : Type} (env : Env W O) (w : W) (chunks : List Bytes) (hash : Bytes → Bytes)
    (pre post : List (List Field)) (fs : List Field) (lg p h nm : Bytes) (tr : Transaction)
    (hack : (LoginHistory.applyBatch hash (pre ++ fs :: post) env.accts).2 = true)
    (htr : Transaction.decode (Session.firstToken chunks.flatten) = .ok tr) (hl : loginOf tr = obfuscate lg)
    (hpost : ∀ r ∈ post, ¬ LoginHistory.touches r (obfuscate lg))
    (hlen : fs.length ≠ 1) (h105 : LoginHistory.getF 105 fs = some lg) (h101 : LoginHistory.getF 101 fs = none)
    (hex : (LoginHistory.applyBatch hash pre env.accts).1 (obfuscate lg) = some h)
    (h102 : LoginHistory.getF 102 fs = some nm) (h106 : LoginHistory.getF 106 fs = some p) (hp0 : p ≠ [0])
    (hwrong : env.verify (hash p) (pwOf tr) = false) :
    (Session.run (LoginHistory.envAfter env hash (pre ++ fs :: post)) w chunks).loggedIn = false := by
  apply unverifiable_account_never_logs_in
  intro u hh hu hacc
  rw [htr] at hu
  injection hu with hu
  subst hu
  have := LoginHistory.batch_last_edit_decides hash pre post fs env.accts (obfuscate lg) hack hpost
  rw [LoginHistory.applyRec_set_password hash fs _ lg p h nm hlen h105 h101 hex h102 h106 hp0] at this
  simp only [LoginHistory.set_same] at this
  simp only [LoginHistory.envAfter, hl] at hacc
  rw [this] at hacc
  injection hacc with hacc
  subst hacc
  show env.verify (hash p) (pwOf tr) = false
  exact hwrong

/-- (7c) An account deleted by a record of the batch cannot be logged in to afterwards, with any password. -/
theorem deleted_in_batch_refused {W O : Type} (env : Env W O) (w : W) (chunks : List Bytes) (hash : Bytes → Bytes)
    (pre post : List (List Field)) (d h : Bytes) (tr : Transaction)
    (hack : (LoginHistory.applyBatch hash (pre ++ [⟨101, d⟩] :: post) env.accts).2 = true)
    (htr : Transaction.decode (Session.firstToken chunks.flatten) = .ok tr) (hl : loginOf tr = obfuscate d)
    (hpost : ∀ r ∈ post, ¬ LoginHistory.touches r (obfuscate d))
    (hex : (LoginHistory.applyBatch hash pre env.accts).1 (obfuscate d) = some h) :
    (Session.run (LoginHistory.envAfter env hash (pre ++ [⟨101, d⟩] :: post)) w chunks).loggedIn = false := by
  apply unverifiable_account_never_logs_in
  intro u hh hu hacc
  rw [htr] at hu
  injection hu with hu
  subst hu
  have := LoginHistory.batch_last_edit_decides hash pre post [⟨101, d⟩] env.accts (obfuscate d) hack hpost
  rw [LoginHistory.applyRec_delete hash d h _ hex] at this
  simp only [LoginHistory.del_same] at this
  simp only [LoginHistory.envAfter, hl] at hacc
  rw [this] at hacc
  cases hacc

/-- (7d) Accounts no record names keep their entry (and hence their password). -/
theorem untouched_by_batch_keeps_entry (hash : Bytes → Bytes) (recs : List (List Field)) (t : LoginHistory.Table) (l : Bytes)
    (h : ∀ fs ∈ recs, ¬ LoginHistory.touches fs l) : (LoginHistory.applyBatch hash recs t).1 l = t l :=
  LoginHistory.applyBatch_untouched hash recs t l h

/-! ### The ban gate across configuration reloads -/

/-- (8) A reload never admits a banned address: in every schedule of the three steps of
    `BanFile.Load`, connection attempts, further bans and operator edits of the file that the mutex
    allows and that leave the entry of address `a` alone, every ban check of `a` decides as that
    entry demands — the list is never observed empty in between. -/
theorem reload_never_admits_banned (a : Bytes) (e : BanGate.Entry) (evs : List BanReload.Ev) (s s' : BanReload.St)
    (obs : List BanReload.Obs) (h : BanReload.Inv a e s) (hk : ∀ ev ∈ evs, BanReload.Keeps a e ev)
    (hr : BanReload.run true s evs = some (s', obs)) :
    ∀ ob ∈ obs, ob.addr = a → ob.refused = BanReload.decisionOf e ob.now :=
  (BanReload.gate_stable_across_reloads a e evs s s' obs h hk hr).2

/-- (8a) … because a connection that reaches the gate during a reload waits for it. -/
theorem check_waits_for_reload (s : BanReload.St) (a : Bytes) (now : Nat) (h : s.loader ≠ .idle) :
    BanReload.step true s (.check a now) = none :=
  BanReload.check_waits_for_reload s a now h

/-! Obligations over the facts regenerated from /repo's source. -/

/-- `BanFile.Load` is ONE critical section: one `Lock()`, its `Unlock()` deferred, no explicit unlock
    in between (the shape `BanReload.step true` models). -/
theorem generated_ban_load_one_critical_section :
    Generated.reloadSections.lookup "mobius.BanFile.Load" = some (1, 0, true) := by decide

/-- The fallback account's name. -/

theorem generated_guestAccount : Generated.stringConsts.lookup "GuestAccount" = some "guest" := by decide

-- non-vacuity: concrete instances
example : renameAcct (demoEnv BanGate.Store.empty [49] 0).accts [97, 98] [97, 99] [7] [97, 98] = none ∧
    renameAcct (demoEnv BanGate.Store.empty [49] 0).accts [97, 98] [97, 99] [7] [97, 99] = some [7] ∧
    renameAcct (demoEnv BanGate.Store.empty [49] 0).accts [97, 98] [97, 99] [7] guestLogin = some [] := by decide
example : Session.authenticate (demoEnv BanGate.Store.empty [49] 0) demoWrongLogin = false := by decide
example : demoWrongLogin.WFdec ∧ demoWrongLogin.encode.length ≤ maxTok := by
  unfold Transaction.WFdec Field.Scannable; decide
example : (getField demoLogin 105).data = [] := by decide
example : (getField demoWrongLogin 105).data ≠ [] ∧ loginOf demoWrongLogin = [97, 98] := by decide
-- a rejected login followed by another transaction: error reply for id 5, world untouched, nothing dispatched
example : (Session.core (demoEnv BanGate.Store.empty [49] 0) 40 demoHandshake
      (fun _ => ⟨[demoWrongLogin.encode, demoKeepAlive.encode], .eof⟩)).loggedIn = false := by decide +kernel
example : (Session.core (demoEnv BanGate.Store.empty [49] 0) 40 demoHandshake
      (fun _ => ⟨[demoWrongLogin.encode, demoKeepAlive.encode], .eof⟩)).toPeer
      = handshakeReply ++ (errReply 5).encode := by decide +kernel
-- an accepted guest login followed by a keep-alive: logged in, one transaction dispatched
example : (Session.core (demoEnv BanGate.Store.empty [49] 0) 40 demoHandshake
      (fun _ => ⟨[demoLogin.encode, demoKeepAlive.encode], .eof⟩)).dispatched = [demoKeepAlive] := by decide +kernel

-- a batch of three records (password change of "ab", deletion of "cd", creation of "ef"), acknowledged
def demoTable : LoginHistory.Table := LoginHistory.ofList [([97, 98], [1, 49]), ([99, 100], [1, 50])]
def demoBatch : List (List Field) :=
  [[⟨105, obfuscate [97, 98]⟩, ⟨102, [65]⟩, ⟨110, []⟩, ⟨106, [57]⟩], [⟨101, obfuscate [99, 100]⟩],
   [⟨106, [55]⟩, ⟨105, obfuscate [101, 102]⟩, ⟨110, []⟩, ⟨102, [66]⟩]]
example : (LoginHistory.applyBatch (fun p => 1 :: p) demoBatch demoTable).2 = true := by decide
example : (LoginHistory.applyBatch (fun p => 1 :: p) demoBatch demoTable).1 [97, 98] = some [1, 57] ∧
    (LoginHistory.applyBatch (fun p => 1 :: p) demoBatch demoTable).1 [99, 100] = none ∧
    (LoginHistory.applyBatch (fun p => 1 :: p) demoBatch demoTable).1 [101, 102] = some [1, 55] := by decide
example : ¬ LoginHistory.touches [⟨101, obfuscate [99, 100]⟩] [97, 98] := by
  simp [LoginHistory.touches, LoginHistory.renameSrc, LoginHistory.getF, obfuscate]
-- a reload with a connection from a permanently banned address arriving afterwards: refused; during: waits
example : BanReload.run true ⟨⟨[([49], none)]⟩, ⟨[([49], none)]⟩, .idle⟩
    [.loadLock, .loadRead, .loadUnlock, .check [49] 5] = some (⟨⟨[([49], none)]⟩, ⟨[([49], none)]⟩, .idle⟩, [⟨[49], 5, true⟩]) := by
  decide
example : BanReload.run true ⟨⟨[([49], none)]⟩, ⟨[([49], none)]⟩, .idle⟩ [.loadLock, .check [49] 5] = none := by decide
example : BanReload.Inv [49] none ⟨⟨[([49], none)]⟩, ⟨[([49], none)]⟩, .idle⟩ := by
  simp [BanReload.Inv, BanGate.Store.lookup, List.lookup]
-- without the critical section the same address would be admitted half-way through the reload
example : BanReload.run false ⟨⟨[([49], none)]⟩, ⟨[([49], none)]⟩, .idle⟩
    [.loadLock, .check [49] 5, .loadRead, .loadUnlock, .check [49] 5] =
      some (⟨⟨[([49], none)]⟩, ⟨[([49], none)]⟩, .idle⟩, [⟨[49], 5, false⟩, ⟨[49], 5, true⟩]) :=
  (BanReload.unlocked_clear_admits [49] 5).2

-- ---------------------------------------------------------------- wave e: the single-account editor (TranSetUser) before the login

/-- **Set-user password clause**: an acknowledged `HandleSetUser` on an existing account with password
    field `p` other than the one-byte marker stores `p` — for all `p`, including the empty field and
    every `p` whose first wire byte is 0 (clear text beginning with 0xFF). -/
theorem setUser_password_clause (hash : Bytes → Bytes) (fs : List Field) (t : LoginHistory.Table) (h p : Bytes)
    (hex : t (LoginHistory.setUserLogin fs) = some h) (hp : LoginHistory.getF 106 fs = some p) (hp0 : p ≠ [0]) :
    (LoginHistory.applySetUser hash fs t).2 = true ∧
    (LoginHistory.applySetUser hash fs t).1 (LoginHistory.setUserLogin fs) = some (hash p) :=
  LoginHistory.setUser_sets_password hash fs t h p hex hp hp0

/-- The marker (exactly `[0]`) leaves the stored hash; an absent field stores the empty password. -/
theorem setUser_marker_and_absent (hash : Bytes → Bytes) (fs : List Field) (t : LoginHistory.Table) (h : Bytes)
    (hex : t (LoginHistory.setUserLogin fs) = some h) :
    (LoginHistory.getF 106 fs = some [0] → (LoginHistory.applySetUser hash fs t).1 (LoginHistory.setUserLogin fs) = some h) ∧
    (LoginHistory.getF 106 fs = none → (LoginHistory.applySetUser hash fs t).1 (LoginHistory.setUserLogin fs) = some (hash [])) :=
  ⟨fun hp => (LoginHistory.setUser_marker_keeps hash fs t h hex hp).2,
   fun hp => (LoginHistory.setUser_absent_clears hash fs t h hex hp).2⟩

/-- **Logged in iff the password verifies against what the LAST edit set**, over every history of
    set-user and update-user requests: the last request naming the login is a set-user with password
    field `p ≠ [0]` ⇒ the gate's decision is `verify (hash p) presented`. -/
theorem login_after_setUser_history {W O : Type} (env : Session.Env W O) (hash : Bytes → Bytes)
    (pre post : List LoginHistory.Edit) (fs : List Field) (tr : Transaction) (h p : Bytes)
    (hl : LoginHistory.setUserLogin fs = loginOf tr)
    (hex : (LoginHistory.applyEdits hash pre env.accts).1 (loginOf tr) = some h)
    (hp : LoginHistory.getF 106 fs = some p) (hp0 : p ≠ [0])
    (hpost : ∀ x ∈ post, ¬ x.touches (loginOf tr)) :
    Session.authenticate (LoginHistory.envAfterEdits env hash (pre ++ .setUser fs :: post)) tr = env.verify (hash p) (pwOf tr) :=
  LoginHistory.authenticate_after_setUser env hash pre post fs tr h p hl hex hp hp0 hpost

/-- … with the marker: `verify` against the hash held before that request. -/
theorem login_after_setUser_marker_history {W O : Type} (env : Session.Env W O) (hash : Bytes → Bytes)
    (pre post : List LoginHistory.Edit) (fs : List Field) (tr : Transaction) (h : Bytes)
    (hl : LoginHistory.setUserLogin fs = loginOf tr)
    (hex : (LoginHistory.applyEdits hash pre env.accts).1 (loginOf tr) = some h)
    (hp : LoginHistory.getF 106 fs = some [0])
    (hpost : ∀ x ∈ post, ¬ x.touches (loginOf tr)) :
    Session.authenticate (LoginHistory.envAfterEdits env hash (pre ++ .setUser fs :: post)) tr = env.verify h (pwOf tr) :=
  LoginHistory.authenticate_after_setUser_marker env hash pre post fs tr h hl hex hp hpost

/-- In a history of requests the last one naming a login decides its entry. -/
theorem history_last_edit_decides (hash : Bytes → Bytes) (pre post : List LoginHistory.Edit) (e : LoginHistory.Edit)
    (t : LoginHistory.Table) (l : Bytes) (hpost : ∀ x ∈ post, ¬ x.touches l) :
    (LoginHistory.applyEdits hash (pre ++ e :: post) t).1 l = (LoginHistory.applyEdit hash e (LoginHistory.applyEdits hash pre t).1).1 l :=
  LoginHistory.history_last_edit_decides hash pre post e t l hpost

-- non-vacuity: "ab" gets the password with wire bytes [0, 158] (clear text 0xFF 'a'): stored as such; then the marker keeps it
def demoSetUser : List Field := [⟨105, obfuscate [97, 98]⟩, ⟨102, [65]⟩, ⟨110, []⟩, ⟨106, [0, 158]⟩]
def demoSetUserKeep : List Field := [⟨106, [0]⟩, ⟨105, obfuscate [97, 98]⟩, ⟨102, [65]⟩, ⟨110, []⟩]
example : (LoginHistory.applyEdits (fun p => 1 :: p) [.setUser demoSetUser, .setUser demoSetUserKeep, .batch demoBatch.tail] demoTable).2 = [true, true, true] ∧
    (LoginHistory.applyEdits (fun p => 1 :: p) [.setUser demoSetUser, .setUser demoSetUserKeep, .batch demoBatch.tail] demoTable).1 [97, 98] = some [1, 0, 158] := by decide
example : LoginHistory.setUserLogin demoSetUser = [97, 98] ∧ LoginHistory.getF 106 demoSetUser = some [0, 158] ∧ ([0, 158] : Bytes) ≠ [0] := by decide
example : ¬ (LoginHistory.Edit.batch demoBatch.tail).touches [97, 98] := by
  simp [LoginHistory.Edit.touches, demoBatch, LoginHistory.touches, LoginHistory.renameSrc, LoginHistory.getF, obfuscate]

/-! ### The handshake gate against the regenerated constants of `hotline/handshake.go`

  `Generated.handshakeVars` (the literal byte arrays `trtp`, `hotl`, `handshakeResponse`),
  `Generated.handshakeLayout` (the fields of `type handshake struct`, in the order `binary.Read` fills them
  from the 12 bytes read) and `Generated.handshakeValidExpr` (what `Valid` returns) are re-extracted from
  /repo on every run.  The theorems below say, for **every** byte string, that the model's gate
  `handshakeValid` is "bytes 0..3 are `trtp` and bytes 4..7 are `hotl`" with exactly those constants and
  that layout, and that the reply the model sends is `handshakeResponse`.  A change of a constant, of the
  field order / widths, or of the conjunction in `Valid` no longer builds. -/

/-- a regenerated byte array as model bytes (`[]` when the extractor did not find a literal: then
    `generated_handshake_vars_found` fails) -/
def genBytes (n : String) : Bytes := ((Generated.handshakeVars.lookup n).getD []).map UInt8.ofNat

theorem generated_handshake_vars_found :
    (Generated.handshakeVars.lookup "trtp").map List.length = some 4 ∧
    (Generated.handshakeVars.lookup "hotl").map List.length = some 4 ∧
    (Generated.handshakeVars.lookup "handshakeResponse").map List.length = some 8 ∧
    (∀ e ∈ Generated.handshakeVars, ∀ x ∈ e.2, x < 256) := by decide

/-- The struct `binary.Read(…, BigEndian, h)` fills: Protocol = bytes 0..3, SubProtocol = bytes 4..7,
    then two 2-byte fields; 12 bytes in all (= `handshakeSize`, `C02.generated_handshakeSize`). -/
theorem generated_handshake_layout :
    Generated.handshakeLayout =
      [("Protocol", "[4]byte"), ("SubProtocol", "[4]byte"), ("Version", "[2]byte"), ("SubVersion", "[2]byte")] := by decide

/-- `Valid` is the conjunction of the two comparisons and nothing else. -/
theorem generated_handshake_valid_expr :
    Generated.handshakeValidExpr = "h.Protocol == trtp && h.SubProtocol == hotl" := by decide

/-- For every byte string: the model's gate is `Protocol == trtp && SubProtocol == hotl` under the layout
    above, with the regenerated constants. -/
theorem handshakeValid_generated (p : Bytes) :
    handshakeValid p = (decide (p.take 4 = genBytes "trtp") && decide ((p.drop 4).take 4 = genBytes "hotl")) := by
  have h1 : genBytes "trtp" = [0x54, 0x52, 0x54, 0x50] := by decide
  have h2 : genBytes "hotl" = [0x48, 0x4F, 0x54, 0x4C] := by decide
  rw [h1, h2]
  unfold handshakeValid
  rcases p with _ | ⟨a, _ | ⟨b, _ | ⟨c, _ | ⟨d, _ | ⟨e, _ | ⟨f, _ | ⟨g, _ | ⟨h, r⟩⟩⟩⟩⟩⟩⟩⟩ <;>
    first | (simp; done) | (apply Bool.eq_iff_iff.mpr; simp [and_assoc])

/-- … so a string passes the gate **iff** its first four bytes are `trtp` and the next four are `hotl`. -/
theorem handshakeValid_iff_generated (p : Bytes) :
    handshakeValid p = true ↔ p.take 4 = genBytes "trtp" ∧ (p.drop 4).take 4 = genBytes "hotl" := by
  rw [handshakeValid_generated]; simp

/-- The 8 bytes the server answers an accepted handshake with are the regenerated `handshakeResponse`,
    which starts with `trtp` and carries error code 0. -/
theorem handshakeReply_generated :
    handshakeReply = genBytes "handshakeResponse" ∧ handshakeReply = genBytes "trtp" ++ [0, 0, 0, 0] := by decide

/-- The client handshake the model's sessions start with is `trtp ++ hotl ++ version ++ sub-version`. -/
theorem handshakeBytes_generated (ver sub : Nat) :
    handshakeBytes ver sub = genBytes "trtp" ++ genBytes "hotl" ++ be16 ver ++ be16 sub := by
  have h1 : genBytes "trtp" = [0x54, 0x52, 0x54, 0x50] := by decide
  have h2 : genBytes "hotl" = [0x48, 0x4F, 0x54, 0x4C] := by decide
  rw [h1, h2]; simp [handshakeBytes]

-- non-vacuity: a handshake with a good protocol and a bad sub-protocol (and the converse) is refused;
-- an all-good one with any version passes
example : handshakeValid ([0x54, 0x52, 0x54, 0x50] ++ [0x48, 0x4F, 0x54, 0x4D] ++ [0, 1, 0, 2]) = false ∧
    handshakeValid ([0x54, 0x52, 0x54, 0x51] ++ [0x48, 0x4F, 0x54, 0x4C] ++ [0, 1, 0, 2]) = false ∧
    handshakeValid (handshakeBytes 7 9) = true := by decide

/-- `performHandshake` makes exactly these calls, in this order: one exact read, the size check (`Write`),
    `Valid`, and — after it — the only write to the peer, which is `handshakeResponse`.  (The model's
    `Session.run` answers nothing before the gate: `unauthenticated_is_inert`.) -/
theorem generated_handshake_calls :
    Generated.handshakeCalls =
      ["io.ReadFull(rw, buf)", "h.Write(buf[:n])", "h.Valid()", "rw.Write(handshakeResponse[:])"] := by decide

end Mobius.C04
