import MobiusModel.FileOps
import MobiusModel.FileOpsAlias
import MobiusModel.Generated.FileTypes
import MobiusModel.ListLemmas
/-!
  C11 — File views agree and file operations carry the whole file.

  Property theorems only (helper lemmas live in `PathStr`, `FS`, `FileOps`).  The model is the
  code after `fix:` d869cd0 (the list strips only a trailing `.incomplete`).

  Quantifier: ALL namespaces `fs : FS` (every tree, including every state any history of requests
  can reach — no well-formedness hypothesis is needed, see `along_histories`), ALL ignore
  predicates, ALL request bytes.  "Entry of a folder" = a path one component below it that
  `lookup` binds (`mem_children`).

  Reading (DESIGN §7 C11): "file" in the agreement clause = regular file; an entry whose name
  ends in `.incomplete` is a partial upload by design; dangling aliases and names without a
  Mac-Roman representation are not shown by the server and are outside the quantifier — they are
  the two explicit conjuncts of `shown` besides the ignore predicate.
-/
namespace Mobius.C11
open Mobius.PathAlg Mobius.PathStr Mobius.FS Mobius.FileOps

-- ---------------------------------------------------------------- the list

/-- The file list shows exactly the entries of the folder that match no ignore pattern (and can be
    shown at all), each exactly once; the name sent is the Mac-Roman encoding of the entry's name
    with a trailing `.incomplete` removed (a partial upload appears under its final name). -/
theorem list_exact (fs : FS) (d : Path) (ig : Bytes → Bool) (es : List Entry) (h : fileList fs d ig = .ok es) :
    (es.map (·.disk)).Nodup ∧
    (∀ n, n ∈ es.map (·.disk) ↔ ∃ nd, lookup fs (d ++ [n]) = some nd ∧ shown fs d ig (n, nd) = true) ∧
    (∀ e ∈ es, encStr (trimInc e.disk) = some e.name) :=
  fileList_exact fs d ig es h

example :
    let fs : FS := [([], .dir), ([[97]], .file [1, 2, 3]), ([[46, 104]], .file []), ([[98] ++ incSfx], .file [7]), ([[100]], .dir),
      ([[100], [120]], .file []), ([[108]], .link [[122]])]
    (match fileList fs [] (fun n => n.head? = some 46) with
      | .ok es => es.map fun e => (e.disk, e.name, e.size)
      | _ => []) = [([97], [97], 3), ([98] ++ incSfx, [98], 1), ([100], [100], 1)] := by decide

/-- Only a TRAILING `.incomplete` is removed: `a.incomplete.txt` is listed as `a.incomplete.txt`. -/
example : trimInc ([97] ++ incSfx ++ [46, 116, 120, 116]) = [97] ++ incSfx ++ [46, 116, 120, 116] ∧ trimInc ([97] ++ incSfx) = [97] := by
  decide

/-- Folder item counts = the folder's non-ignored entries. -/
theorem folder_count (fs : FS) (d : Path) (ig : Bytes → Bool) (n : Comp) :
    entryInfo fs d ig n .dir =
      .ok (some (tyFldr, zeros 4, ((children fs (d ++ [n])).filter (fun c => !ig c.1)).length % 4294967296)) := rfl

-- ---------------------------------------------------------------- addressing by the listed name

/-- dec ∘ enc = id on representable names. -/
theorem dec_enc (n m : Bytes) (h : encStr n = some m) : decodeStr m = n := decodeStr_encStr n m h

example : encStr [82, 0xC3, 0xA9, 115, 46, 116] = some [82, 0x8E, 115, 46, 116] ∧ decodeStr [82, 0x8E, 115, 46, 116] = [82, 0xC3, 0xA9, 115, 46, 116] := by
  decide

/-- Every listed complete entry, addressed by its listed name bytes unchanged in the folder that was
    listed, resolves to that entry — and every handler (get-info, download, set-info / rename,
    move, delete, …) starts from exactly this resolution (`withTarget`), so all of them act on the
    same node. -/
theorem listed_name_addresses_entry (root : Path) (fs : FS) (pf : Option Bytes) (d : Path) (ig : Bytes → Bool)
    (es : List Entry) (e : Entry) (hd : target root pf [] = .ok d) (hl : fileList fs d ig = .ok es) (he : e ∈ es)
    (hcomplete : trimInc e.disk = e.disk) (hn : Normal e.disk) :
    target root pf e.name = .ok (d ++ [e.disk]) ∧
    ∀ k : Path → FS × Reply, withTarget root fs pf e.name k = k (d ++ [e.disk]) := by
  have henc := (fileList_exact fs d ig es hl).2.2 e he
  rw [hcomplete] at henc
  exact ⟨listed_name_resolves root pf d e.disk e.name hd hn henc,
    fun k => withTarget_listed root fs pf d e.disk e.name hd hn henc k⟩

example : target [] (some [0, 1, 0, 0, 1, 100]) [82, 0x8E] = .ok [[100], [82, 0xC3, 0xA9]] := by decide

-- ---------------------------------------------------------------- the three views agree

/-- For a regular file without resource fork (reached through real folders: no file or alias among the
    proper prefixes of its path, `hplain`): size in the list = size in get-info = file size in the
    download reply = number of bytes on disk (as uint32), and the type code in the list = the type
    code in get-info. -/
theorem views_agree (root : Path) (ig : Bytes → Bool) (fs : FS) (pf : Option Bytes) (name : Bytes) (d : Path) (n : Comp)
    (b : Bytes) (f : Ffo)
    (ht : target root pf name = .ok (d ++ [n])) (hnr : isRoot root (d ++ [n]) = false)
    (hfile : lookup fs (d ++ [n]) = some (.file b)) (hplain : firstSpecial fs (d ++ [n]) = none)
    (hrsrc : statOk fs (wrapper (d ++ [n])).rsrc = none)
    (hffo : ffo fs (d ++ [n]) = .ok f) (en : Bytes) (hen : encStr (wrapper (d ++ [n])).name = some en) :
    let ty := f.fork.ty.take 4
    let sz := b.length % 4294967296
    entryInfo fs d ig n (.file b) = .ok (some (ty, f.fork.creator.take 4, sz)) ∧
    (getInfo root fs pf name).2 = .info en (friendly ty) (friendly (f.fork.creator.take 4)) ty
        (if f.fork.comment = [] then none else some f.fork.comment) (if ty = tyFldr then none else some sz) ∧
    (∃ x, (download root fs pf name).2 = .download x sz) :=
  FileOps.views_agree root ig fs pf name d n b f ht hnr hfile hplain hrsrc hffo en hen

example :
    let fs : FS := [([], .dir), ([[112, 46, 106, 112, 103]], .file [1, 2, 3, 4, 5])]
    (handle [] (fun _ => false) fs (.list none)).2 = .list [⟨[112, 46, 106, 112, 103], [112, 46, 106, 112, 103], [74, 80, 69, 71], [111, 103, 108, 101], 5⟩] ∧
    (handle [] (fun _ => false) fs (.getInfo none [112, 46, 106, 112, 103])).2 =
      .info [112, 46, 106, 112, 103] [74, 80, 69, 71] [111, 103, 108, 101] [74, 80, 69, 71] none (some 5) ∧
    (handle [] (fun _ => false) fs (.download none [112, 46, 106, 112, 103])).2 = .download 140 5 := by decide

/-- Type and creator follow the extension table; a partial upload is HTft / HTLC. -/
example : typeOfName [97, 46, 80, 68, 70] = ([80, 68, 70, 32], [67, 65, 82, 79]) ∧ typeOfName ([97] ++ incSfx) = ([72, 84, 102, 116], [72, 84, 76, 67]) ∧
    typeOfName [97] = (tyTEXT, crTTXT) := by decide

-- ---------------------------------------------------------------- mutating requests

/-- Create-folder never replaces an existing entry. -/
theorem newFolder_never_replaces (root : Path) (fs : FS) (pf : Option Bytes) (name : Bytes) (t : Path) (n : Node)
    (ht : target root pf name = .ok t) (hex : lookup fs t = some n) :
    newFolder root fs pf name = (fs, .err) :=
  FileOps.newFolder_never_replaces root fs pf name t n ht hex

/-- …and on a free name inside an existing folder it creates exactly that folder. -/
theorem newFolder_creates (root : Path) (fs : FS) (pf : Option Bytes) (name : Bytes) (t : Path)
    (ht : target root pf name = .ok t) (hfree : lookup fs t = none) (hne : t ≠ [])
    (hparent : lookup fs t.dropLast = some .dir) (hst : stat statFuel fs t = .error .notExist) :
    newFolder root fs pf name = ((t, .dir) :: fs, .ok) :=
  FileOps.newFolder_creates root fs pf name t ht hfree hne hparent hst

example : newFolder [] [([], .dir), ([[97]], .file [1])] none [97] = ([([], .dir), ([[97]], .file [1])], .err) ∧
    newFolder [] [([], .dir), ([[97]], .file [1])] none [98] = ([([[98]], .dir), ([], .dir), ([[97]], .file [1])], .ok) := by decide

/-- Delete removes the whole file: target (with everything below it) and its `.incomplete`,
    `.rsrc_`, `.info_` side files are gone; every other path is unchanged. -/
theorem delete_removes_whole (root : Path) (hr : RootOK root) (fs : FS) (pf : Option Bytes) (name : Bytes) (t : Path) (fs' : FS)
    (ht : target root pf name = .ok t) (hok : delete root fs pf name = (fs', .ok)) :
    (∀ x, t <+: x → lookup fs' x = none) ∧
    lookup fs' (wrapper t).inc = none ∧ lookup fs' (wrapper t).rsrc = none ∧ lookup fs' (wrapper t).info = none ∧
    (∀ x, ¬ t <+: x → x ≠ (wrapper t).inc → x ≠ (wrapper t).rsrc → x ≠ (wrapper t).info → lookup fs' x = lookup fs x) :=
  FileOps.delete_removes_whole root hr fs pf name t fs' ht hok

example :
    delete [] [([], .dir), ([[97]], .file [1]), ([rsrcPfx ++ [97]], .file [2]), ([infoPfx ++ [97]], .file []), ([[97] ++ incSfx], .file [3]), ([[98]], .file [])] none [97] =
      ([([], .dir), ([[98]], .file [])], .ok) := by decide

/-- Move carries the whole file: an acknowledged move of `t` into folder `d` binds the data fork and
    every side file at the destination exactly as they were at the source (absent stays absent),
    leaves nothing at the source names and changes no other path. -/
theorem move_carries_whole (root : Path) (fs : FS) (pf : Option Bytes) (name : Bytes) (newPf : Option Bytes) (t d : Path) (fs' : FS)
    (ht : target root pf name = .ok t) (hd : target root newPf [] = .ok d) (htne : t ≠ [])
    (hok : move root fs pf name newPf = (fs', .ok)) (hsep : MoveSep t d (baseName t))
    (hfree : ∀ b ∈ (wrapperPaths (d ++ [baseName t])).tail, lookup fs b = none) :
    let w := wrapper t
    let v := wrapper (d ++ [baseName t])
    lookup fs' v.data = lookup fs w.data ∧ lookup fs' v.inc = lookup fs w.inc ∧
    lookup fs' v.rsrc = lookup fs w.rsrc ∧ lookup fs' v.info = lookup fs w.info ∧
    (∀ a ∈ wrapperPaths t, lookup fs' a = none) ∧ lookup fs t ≠ none ∧
    (∀ x, (∀ a ∈ wrapperPaths t, ¬ a <+: x) → (∀ b ∈ wrapperPaths (d ++ [baseName t]), ¬ b <+: x) → lookup fs' x = lookup fs x) :=
  move_carries fs fs' t d (baseName t) htne (move_ok_runs root fs pf name newPf t d fs' ht hd hok).2 hsep hfree

example :
    move [] [([], .dir), ([[100]], .dir), ([[97]], .file [1]), ([rsrcPfx ++ [97]], .file [2]), ([[97] ++ incSfx], .file [3]), ([[98]], .file [])]
        none [97] (some [0, 1, 0, 0, 1, 100]) =
      ([([], .dir), ([[100]], .dir), ([[100], [97]], .file [1]), ([[100], rsrcPfx ++ [97]], .file [2]), ([[100], [97] ++ incSfx], .file [3]), ([[98]], .file [])], .ok) := by
  decide

/-- Rename carries the whole file: the same for an acknowledged rename of a regular file to the single
    component `nm` its new name cleans to, inside its own folder. -/
theorem rename_carries_whole (root : Path) (fs : FS) (pf : Option Bytes) (name nn : Bytes) (t d : Path) (b : Bytes) (nm : Comp) (fs' : FS)
    (ht : target root pf name = .ok t) (hd : target root pf [] = .ok d) (htne : t ≠ [])
    (hfile : statOk fs t = some (.file b)) (hnm : newNameComps nn = [nm])
    (hok : setInfo root fs pf name none (some nn) = (fs', .ok)) (hsep : MoveSep t d nm)
    (hfree : ∀ b ∈ (wrapperPaths (d ++ [nm])).tail, lookup fs b = none) :
    let w := wrapper t
    let v := wrapper (d ++ [nm])
    lookup fs' v.data = lookup fs w.data ∧ lookup fs' v.inc = lookup fs w.inc ∧
    lookup fs' v.rsrc = lookup fs w.rsrc ∧ lookup fs' v.info = lookup fs w.info ∧
    (∀ a ∈ wrapperPaths t, lookup fs' a = none) ∧ lookup fs t ≠ none ∧
    (∀ x, (∀ a ∈ wrapperPaths t, ¬ a <+: x) → (∀ b ∈ wrapperPaths (d ++ [nm]), ¬ b <+: x) → lookup fs' x = lookup fs x) := by
  have h := (rename_ok_runs root fs pf name nn t d b fs' ht hd hfile hok).2
  rw [hnm] at h
  exact move_carries fs fs' t d nm htne h hsep hfree

example :
    setInfo [] [([], .dir), ([[97]], .file [1]), ([infoPfx ++ [97]], .file []), ([[97] ++ incSfx], .file [3])] none [97] none (some [46, 46, 47, 122]) =
      ([([], .dir), ([[122]], .file [1]), ([infoPfx ++ [122]], .file []), ([[122] ++ incSfx], .file [3])], .ok) := by decide

/-- A folder rename carries the folder's comment (after `fix:` 500a006): the folder is bound at the new
    name and its `.info_` side file at `.info_<new name>` exactly as it was (absent stays absent);
    nothing is left under the old names; no other path changes.  Hypotheses: the rename itself
    succeeded, the names differ and neither is the other's `.info_` name, `.info_<new name>` is free. -/
theorem folder_rename_carries_comment (root : Path) (fs fs' : FS) (pf : Option Bytes) (d : Path) (n n' : Comp) (nn : Bytes)
    (ht' : target root pf nn = .ok (d ++ [n']))
    (hok : renameStep root fs pf (d ++ [n]) true (some nn) = (fs', .ok))
    (hren : (FS.rename fs (d ++ [n]) (d ++ [n'])).1 = .ok)
    (hnn : n ≠ n') (h1 : infoPfx ++ n ≠ n') (h2 : infoPfx ++ n' ≠ n)
    (hfree : lookup fs (d ++ [infoPfx ++ n']) = none) :
    lookup fs' (d ++ [n']) = lookup fs (d ++ [n]) ∧
    lookup fs' (d ++ [infoPfx ++ n']) = lookup fs (d ++ [infoPfx ++ n]) ∧
    lookup fs' (d ++ [n]) = none ∧ lookup fs' (d ++ [infoPfx ++ n]) = none ∧
    (∀ x, ¬ d ++ [n] <+: x → ¬ d ++ [n'] <+: x → ¬ d ++ [infoPfx ++ n] <+: x → ¬ d ++ [infoPfx ++ n'] <+: x →
      lookup fs' x = lookup fs x) :=
  folder_rename_carries root fs fs' pf d n n' nn ht' hok hren hnn h1 h2 hfree

example :
    setInfo [] [([], .dir), ([[100]], .dir), ([[100], [120]], .file [1]), ([infoPfx ++ [100]], .file [])] none [100] none (some [101]) =
      ([([], .dir), ([[101]], .dir), ([[101], [120]], .file [1]), ([infoPfx ++ [101]], .file [])], .ok) := by decide

/-- Alias = symlink to the named path, on a free name. -/
theorem alias_is_symlink (root : Path) (fs : FS) (pf : Option Bytes) (name : Bytes) (newPf : Option Bytes) (src dst : Path) (fs' : FS)
    (hs : target root pf name = .ok src) (hd : target root newPf name = .ok dst)
    (hok : alias root fs pf name newPf = (fs', .ok)) :
    fs' = (dst, .link src) :: fs ∧ lookup fs' dst = some (.link src) ∧ lookup fs dst = none :=
  FileOps.alias_is_symlink root fs pf name newPf src dst fs' hs hd hok

/-- Set-comment writes the information fork (with the new comment) and nothing else. -/
theorem setComment_writes_info (root : Path) (fs : FS) (pf : Option Bytes) (name c : Bytes) (t : Path) (f : Ffo) (fs' : FS)
    (ht : target root pf name = .ok t) (hffo : ffo fs t = .ok f)
    (hok : setInfo root fs pf name (some c) none = (fs', .ok)) :
    lookup fs' (wrapper t).info = some (.file ({ f.fork with comment := c }).encode) ∧
    ∀ x, x ≠ (wrapper t).info → lookup fs' x = lookup fs x :=
  FileOps.setComment_writes_info root fs pf name c t f fs' ht hffo hok

example :
    (handle [] (fun _ => false) (setInfo [] [([], .dir), ([[97]], .file [1])] none [97] (some [104, 105]) none).1 (.getInfo none [97])).2 =
      .info [97] [84, 101, 120, 116, 32, 70, 105, 108, 101] crTTXT tyTEXT (some [104, 105]) (some 1) := by decide

-- ---------------------------------------------------------------- histories

/-- The clauses above carry no hypothesis on the namespace, so they hold in every state any history
    of requests reaches (induction on the request list is `handleAll`'s fold): e.g. the list clause. -/
theorem along_histories (root : Path) (ig : Bytes → Bool) (fs : FS) (reqs : List Req) (d : Path) (es : List Entry)
    (h : fileList (handleAll root ig fs reqs) d ig = .ok es) :
    (es.map (·.disk)).Nodup ∧
    (∀ n, n ∈ es.map (·.disk) ↔ ∃ nd, lookup (handleAll root ig fs reqs) (d ++ [n]) = some nd ∧
      shown (handleAll root ig fs reqs) d ig (n, nd) = true) :=
  let r := fileList_exact (handleAll root ig fs reqs) d ig es h
  ⟨r.1, r.2.1⟩

example :
    let fs := handleAll [] (fun n => n.head? = some 46) [([], .dir), ([[97]], .file [1])]
      [.newFolder none [100], .setInfo none [97] (some [99]) none, .move none [97] (some [0, 1, 0, 0, 1, 100]), .alias (some [0, 1, 0, 0, 1, 100]) [97] none]
    (handle [] (fun n => n.head? = some 46) fs (.list none)).2 =
      .list [⟨[97], [97], tyTEXT, crTTXT, 1⟩, ⟨[100], [100], tyFldr, zeros 4, 1⟩] := by decide

-- ---------------------------------------------------------------- wave d: aliases are first-class entries

/-- The agreement clause for an ALIAS of a regular file, addressed by the name the list shows for it: the size in
    the list = the size in get-info = the file size of the download reply = the bytes the alias delivers (uint32).
    The link string `t` resolves — through at most `statFuel - 1` further links — to a regular file holding `b`;
    no resource fork side file exists under the alias's name. -/
theorem alias_views_agree (root : Path) (ig : Bytes → Bool) (fs : FS) (pf : Option Bytes) (name : Bytes) (d : Path) (n : Comp)
    (t q : Path) (b : Bytes) (f : Ffo) (k : Nat)
    (ht : target root pf name = .ok (d ++ [n])) (hnr : isRoot root (d ++ [n]) = false)
    (hlink : lookup fs (d ++ [n]) = some (.link t)) (hplain : firstSpecial fs (d ++ [n]) = none)
    (hk : k < statFuel) (hres : stat k fs t = .ok (q, .file b))
    (hrsrc : statOk fs (wrapper (d ++ [n])).rsrc = none)
    (hffo : ffo fs (d ++ [n]) = .ok f) (en : Bytes) (hen : encStr (wrapper (d ++ [n])).name = some en) :
    let sz := b.length % 4294967296
    entryInfo fs d ig n (.link t) = .ok (some ((typeOfName (baseName t)).1, (typeOfName (baseName t)).2, sz)) ∧
    (∃ ns cs ty c, (getInfo root fs pf name).2 = .info en ns cs ty c (if ty = tyFldr then none else some sz)) ∧
    (∃ x, (download root fs pf name).2 = .download x sz) :=
  FileOps.alias_views_agree root ig fs pf name d n t q b f k ht hnr hlink hplain hk hres hrsrc hffo en hen

/-- The type code of an alias: the list reads it off the TARGET's name (above), get-info off the alias's own name
    (no information fork side file under the alias's name) — equal whenever both names select the same row of the
    extension table, in particular for every alias made by Make Alias (same name). -/
theorem alias_type_agrees (fs : FS) (d : Path) (n : Comp) (t q : Path) (b : Bytes) (f : Ffo) (k : Nat)
    (hlink : lookup fs (d ++ [n]) = some (.link t)) (hplain : firstSpecial fs (d ++ [n]) = none)
    (hk : k < statFuel) (hres : stat k fs t = .ok (q, .file b))
    (hinfo : statOk fs (wrapper (d ++ [n])).info = none)
    (hffo : ffo fs (d ++ [n]) = .ok f) (hname : typeOfName (baseName t) = typeOfName (wrapper (d ++ [n])).name) :
    f.fork.ty = (typeOfName (baseName t)).1 ∧ f.fork.creator = (typeOfName (baseName t)).2 := by
  rw [hname]
  exact FileOps.alias_info_type fs d n t q b f k hlink hplain hk hres hinfo hffo

/-- An alias `l` of `d/a.txt` (3 bytes) in the root: the three views. -/
example :
    let fs : FS := [([], .dir), ([[100]], .dir), ([[100], [97, 46, 116, 120, 116]], .file [1, 2, 3]), ([[97, 46, 116, 120, 116]], .link [[100], [97, 46, 116, 120, 116]])]
    (handle [] (fun _ => false) fs (.list none)).2 =
      .list [⟨[100], [100], tyFldr, zeros 4, 1⟩, ⟨[97, 46, 116, 120, 116], [97, 46, 116, 120, 116], tyTEXT, [116, 116, 120, 116], 3⟩] ∧
    (handle [] (fun _ => false) fs (.getInfo none [97, 46, 116, 120, 116])).2 =
      .info [97, 46, 116, 120, 116] [84, 101, 120, 116, 32, 70, 105, 108, 101] [116, 116, 120, 116] tyTEXT none (some 3) ∧
    (handle [] (fun _ => false) fs (.download none [97, 46, 116, 120, 116])).2 = .download 138 3 := by decide

/-- Witness reported to the lead (not a theorem about agreement): an alias named `p.jpg` of `a.txt` is TEXT in the
    list and JPEG in get-info — `hname` of `alias_type_agrees` cannot be dropped. -/
example :
    let fs : FS := [([], .dir), ([[97, 46, 116, 120, 116]], .file [1]), ([[112, 46, 106, 112, 103]], .link [[97, 46, 116, 120, 116]])]
    (match (handle [] (fun _ => false) fs (.list none)).2 with
      | .list es => es.map (·.ty)
      | _ => []) = [tyTEXT, tyTEXT] ∧
    (match (handle [] (fun _ => false) fs (.getInfo none [112, 46, 106, 112, 103])).2 with
      | .info _ _ _ ty _ _ => ty
      | _ => []) = [74, 80, 69, 71] := by decide

/-- An alias of a folder is a folder in both views: `fldr` with the folder's non-ignored count in the list, `fldr`
    in get-info. -/
theorem alias_of_folder_is_folder_in_both_views (fs : FS) (d : Path) (ig : Bytes → Bool) (n : Comp) (t q : Path) (f : Ffo) (k : Nat)
    (hlink : lookup fs (d ++ [n]) = some (.link t)) (hplain : firstSpecial fs (d ++ [n]) = none)
    (hk : k < statFuel) (hres : stat k fs t = .ok (q, .dir))
    (hinfo : statOk fs (wrapper (d ++ [n])).info = none) (hffo : ffo fs (d ++ [n]) = .ok f) :
    entryInfo fs d ig n (.link t) = .ok (some (tyFldr, zeros 4, countVisible fs q ig % 4294967296)) ∧ f.fork.ty = tyFldr :=
  ⟨FileOps.alias_of_folder_listed fs d ig n t q (FileOps.stat_mono_le k statFuel (Nat.le_of_lt hk) fs t _ hres),
   FileOps.alias_of_folder_info fs d n t q f k hlink hplain hk hres hinfo hffo⟩

example :
    let fs : FS := [([], .dir), ([[100]], .dir), ([[100], [120]], .file [1]), ([[100], [46, 104]], .file []), ([[108]], .link [[100]])]
    (handle [] (fun n => n.head? = some 46) fs (.list none)).2 =
      .list [⟨[100], [100], tyFldr, zeros 4, 1⟩, ⟨[108], [108], tyFldr, zeros 4, 1⟩] ∧
    (match (handle [] (fun n => n.head? = some 46) fs (.getInfo none [108])).2 with
      | .info _ _ _ ty _ sz => (ty, sz)
      | _ => ([], none)) = (tyFldr, none) := by decide

/-- Rename, move and delete addressed at an alias act on the alias ITSELF (`rename_carries_whole`,
    `move_carries_whole`, `delete_removes_whole` speak about whatever node is bound at the source name — a link
    node included); the entry it points at stays: -/
example :
    let fs : FS := [([], .dir), ([[100]], .dir), ([[97]], .file [1, 2]), ([[108]], .link [[97]])]
    (handle [] (fun _ => false) fs (.setInfo none [108] none (some [109]))) = ([([], .dir), ([[100]], .dir), ([[97]], .file [1, 2]), ([[109]], .link [[97]])], .ok) ∧
    (handle [] (fun _ => false) fs (.move none [108] (some [0, 1, 0, 0, 1, 100]))) = ([([], .dir), ([[100]], .dir), ([[97]], .file [1, 2]), ([[100], [108]], .link [[97]])], .ok) ∧
    (handle [] (fun _ => false) fs (.delete none [108])) = ([([], .dir), ([[100]], .dir), ([[97]], .file [1, 2])], .ok) := by decide

-- ---------------------------------------------------------------- wave d: the comment length field

/-- The information fork carries the comment's length in TWO bytes (big-endian) right after the name. -/
theorem comment_length_field (i : InfoFork) (h : i.fixedWF) :
    (i.encode.drop (72 + i.name.length)).take 2 = be16 i.comment.length :=
  FileOps.comment_length_field i h

/-- Every comment below 65536 bytes is read back exactly from the stored fork. -/
theorem comment_roundtrip (i : InfoFork) (c : Bytes) (h : i.fixedWF) (hn : i.name.length + 74 < 65536) (hc : c.length < 65536) :
    InfoFork.decode ({ i with comment := c }).encode = .ok { i with comment := c } :=
  FileOps.comment_roundtrip i c h hn hc

/-- Set-comment, then any later wrapper of the same entry (get-info, download header, rename, move): after an
    acknowledged set-comment of `c` (below 65536 bytes) every flattened file object built for the entry carries
    exactly `c`. -/
theorem set_comment_is_read_back (root : Path) (fs : FS) (pf : Option Bytes) (name c : Bytes) (t : Path) (f g : Ffo) (fs' : FS)
    (ht : target root pf name = .ok t) (hffo : ffo fs t = .ok f)
    (hok : setInfo root fs pf name (some c) none = (fs', .ok))
    (hwf : f.fork.fixedWF) (hn : f.fork.name.length + 74 < 65536) (hc : c.length < 65536)
    (hplain : firstSpecial fs' (wrapper t).info = none) (hffo' : ffo fs' t = .ok g) :
    g.fork = { f.fork with comment := c } ∧ g.fork.comment = c := by
  have hw := (FileOps.setComment_writes_info root fs pf name c t f fs' ht hffo hok).1
  have hs : statOk fs' (wrapper t).info = some (.file ({ f.fork with comment := c }).encode) :=
    FileOps.statOk_file fs' _ _ hw hplain
  have := FileOps.ffo_reads_comment fs' t { f.fork with comment := c } g ⟨hwf, by simp; omega, hc⟩ hn hs hffo'
  exact ⟨this, by rw [this]⟩

/-- 256, 257 and 65535 bytes: the length field is `01 00`, `01 01`, `ff ff` — one byte does not hold it. -/
example : be16 256 = [1, 0] ∧ be16 257 = [1, 1] ∧ be16 65535 = [255, 255] ∧ be16 255 = [0, 255] := by decide

/-- A 256-byte comment on a synthesised fork meets the hypotheses of `comment_roundtrip`. -/
example : InfoFork.decode ({ synthFork tyTEXT crTTXT [97] with comment := List.replicate 256 120 }).encode =
    .ok { synthFork tyTEXT crTTXT [97] with comment := List.replicate 256 120 } :=
  comment_roundtrip (synthFork tyTEXT crTTXT [97]) (List.replicate 256 120)
    (by simp [InfoFork.fixedWF, synthFork, amac, zeros, tyTEXT, crTTXT]) (by decide) (by rw [List.length_replicate]; decide)

-- ---------------------------------------------------------------- wave d: configured ignore patterns

/-- The list clause for a CONFIGURATION: with the ignore predicate "some configured pattern matches" (any matcher
    `m`, any pattern list), an entry is listed iff it is bound in the folder, matches NONE of the configured
    patterns, resolves, and its name is representable. -/
theorem list_exact_configured {P : Type} (m : P → Bytes → Bool) (pats : List P) (fs : FS) (d : Path) (es : List Entry)
    (h : fileList fs d (ignoredBy m pats) = .ok es) :
    ∀ n, n ∈ es.map (·.disk) ↔ ∃ nd, lookup fs (d ++ [n]) = some nd ∧ (∀ p ∈ pats, m p n = false) ∧
      visible fs d (ignoredBy m pats) (n, nd) = true ∧ (encStr (trimInc n)).isSome = true := by
  intro n
  rw [(list_exact fs d (ignoredBy m pats) es h).2.1 n]
  constructor
  · rintro ⟨nd, hl, hs⟩
    simp only [shown, Bool.and_eq_true, Bool.not_eq_true'] at hs
    exact ⟨nd, hl, (ignoredBy_false m pats n).1 hs.1.1, hs.1.2, hs.2⟩
  · rintro ⟨nd, hl, hp, hv, he⟩
    refine ⟨nd, hl, ?_⟩
    simp only [shown, Bool.and_eq_true, Bool.not_eq_true']
    exact ⟨⟨(ignoredBy_false m pats n).2 hp, hv⟩, he⟩

/-- Witness of the defect class "a configured pattern is lost before it reaches the list": with patterns `^.` and
    `^@` (prefix matcher) `@sys` is hidden; with `^@` dropped it is shown. -/
example :
    let fs : FS := [([], .dir), ([[97]], .file [1]), ([[46, 104]], .file []), ([[64, 115]], .file [2])]
    let m : Bytes → Bytes → Bool := fun p n => p.isPrefixOf n
    (match fileList fs [] (ignoredBy m [[46], [64]]) with | .ok es => es.map (·.disk) | _ => []) = [[97]] ∧
    (match fileList fs [] (ignoredBy m [[46]]) with | .ok es => es.map (·.disk) | _ => []) = [[97], [64, 115]] := by decide

-- ---------------------------------------------------------------- obligations over tables regenerated from the source

/-- The extractor read all three tables of `hotline/file_types.go`. -/
theorem generated_file_type_tables_readable : Generated.fileTypeProblems = [] := by decide

/-- The model's extension table is the source's `fileTypes` map: same keys, no key twice, same codes. -/
theorem generated_file_types_are_the_model :
    (Generated.fileTypes.map (·.1)).Nodup ∧ (fileTypes.map (·.1)).Nodup ∧
    (∀ e ∈ Generated.fileTypes, fileTypes.lookup e.1 = some e.2) ∧
    (∀ e ∈ fileTypes, Generated.fileTypes.lookup e.1 = some e.2) ∧
    Generated.defaultFileType = (tyTEXT, crTTXT) := by decide

/-- … hence for EVERY file name the model's type/creator is what the source's tables give. -/
theorem type_of_every_name_from_generated_tables (n : Bytes) :
    typeOfName n = ((Generated.fileTypes.lookup ((extOf n).map lowerAscii)).getD Generated.defaultFileType) := by
  have h := generated_file_types_are_the_model
  unfold typeOfName
  cases hm : fileTypes.lookup ((extOf n).map lowerAscii) with
  | none =>
    cases hg : Generated.fileTypes.lookup ((extOf n).map lowerAscii) with
    | none => simp [h.2.2.2.2]
    | some v =>
      have hmem : ((extOf n).map lowerAscii, v) ∈ Generated.fileTypes := mem_of_lookup_eq_some _ _ _ hg
      have := h.2.2.1 _ hmem
      simp at this; rw [hm] at this; cases this
  | some v =>
    have hmem : ((extOf n).map lowerAscii, v) ∈ fileTypes := mem_of_lookup_eq_some _ _ _ hm
    have := h.2.2.2.1 _ hmem
    simp at this; rw [this]; simp

/-- The friendly-name table of the get-info reply is the source's `friendlyCreatorNames` map. -/
theorem generated_friendly_names_are_the_model :
    (Generated.friendlyNames.map (·.1)).Nodup ∧ (friendlyNames.map (·.1)).Nodup ∧
    (∀ e ∈ Generated.friendlyNames, friendlyNames.lookup e.1 = some e.2) ∧
    (∀ e ∈ friendlyNames, Generated.friendlyNames.lookup e.1 = some e.2) := by decide

example : Generated.fileTypes.length = 13 ∧ Generated.friendlyNames.length = 8 := by decide

end Mobius.C11
