import MobiusModel.Crash
import MobiusModel.Request
import MobiusModel.Generated.Persist
import MobiusModel.Generated.Request
/-!
  C20 — A crash never leaves persistent state torn.

  Property theorems only (model and lemmas: `Crash`).  A persistent update is the program of system
  calls it makes; `crash prog k fs` is what a restart finds when the process was killed after `k` of
  them.  The directory model has INODES (hard links share content), so "every prior state" includes
  what earlier crashes leave behind: stale temp files and a temp name still linked to an account
  file.  Statements hold for EVERY `k` and EVERY well-formed prior state `fs` and re-establish their
  own hypotheses (`WF`, `TmpPrivate`), i.e. they are inductive over crash – restart – continue
  histories (`crash_recover_continue`).  The loaders mirror `NewFlatNews`, `NewThreadedNewsYAML`,
  `NewBanFile`, `NewYAMLAccountManager` (incl. its repair of a file whose name differs from the login
  inside, `recover`); the YAML codec is a parameter (`deser`, `loginOf`).  That the code makes exactly
  these programs is (a) the obligations at the end over os-call lists regenerated from the source,
  (b) the harness' strace comparison.
  Not modelled: a kill in the middle of one `write` call, power loss (no fsync anywhere).
-/
namespace Mobius.C20
open Mobius.Crash

def tmpOf (p : Name) : Name := p ++ ".tmp".toList

/-- Generic write-temp-then-rename (DESIGN §11 `Crash.temp_rename_atomic`), single-file stores: at every crash
    point the target holds its complete old content or the complete new content – the new one once the program
    has run to its end (which is before the update is acknowledged) – and no other file changes; the crash state
    is again well formed with a private temp file, so the same holds for the next update after the restart. -/
theorem temp_rename_atomic (fs : FS) (hwf : WF fs) (tmp p : Name) (new : Bytes) (hne : tmp ≠ p)
    (hp : TmpPrivate fs tmp) (k : Nat) :
    (get (crash (tempRename tmp p new) k fs) p = get fs p ∨
      get (crash (tempRename tmp p new) k fs) p = some new) ∧
    ((tempRename tmp p new).length ≤ k → get (crash (tempRename tmp p new) k fs) p = some new) ∧
    (∀ q, q ≠ p → q ≠ tmp → get (crash (tempRename tmp p new) k fs) q = get fs q) ∧
    WF (crash (tempRename tmp p new) k fs) ∧ TmpPrivate (crash (tempRename tmp p new) k fs) tmp := by
  have h := tempRename_get fs hwf tmp p new hne hp k
  exact ⟨h.1, fun hk => h.2.1 (by simpa [tempRename, writeFile] using hk), h.2.2⟩

/-- Message board (`FlatNews.Write`: temp = `<file>.tmp`, new content = post ++ in-memory board):
    a restart loads the old board or the board with the whole post; the latter once the call returned. -/
theorem board_post_crash_safe (fs : FS) (hwf : WF fs) (p : Name) (hp : TmpPrivate fs (tmpOf p)) (board post : Bytes) (k : Nat) :
    (loadBoard (crash (tempRename (tmpOf p) p (post ++ board)) k fs) p = loadBoard fs p ∨
      loadBoard (crash (tempRename (tmpOf p) p (post ++ board)) k fs) p = some (Board.nl2cr (post ++ board))) ∧
    (4 ≤ k → loadBoard (crash (tempRename (tmpOf p) p (post ++ board)) k fs) p = some (Board.nl2cr (post ++ board))) := by
  have h := tempRename_get fs hwf (tmpOf p) p (post ++ board) (append_tmp_ne p) hp k
  refine ⟨?_, fun hk => by simp [loadBoard, h.2.1 hk]⟩
  rcases h.1 with h1 | h1
  · left; simp [loadBoard, h1]
  · right; simp [loadBoard, h1]

/-- Threaded news (`ThreadedNewsYAML.writeFile`): if the old file loaded as `vold`, every crash state
    loads, as `vold` or as the complete new value; the new one once the call returned. -/
theorem news_update_crash_safe {α : Type} (deser : Bytes → Option α) (ser : α → Bytes)
    (hrt : ∀ v, deser (ser v) = some v) (fs : FS) (hwf : WF fs) (p : Name) (hp : TmpPrivate fs (tmpOf p)) (vold vnew : α)
    (hold : loadYaml deser fs p = some vold) (k : Nat) :
    (loadYaml deser (crash (tempRename (tmpOf p) p (ser vnew)) k fs) p = some vold ∨
      loadYaml deser (crash (tempRename (tmpOf p) p (ser vnew)) k fs) p = some vnew) ∧
    (4 ≤ k → loadYaml deser (crash (tempRename (tmpOf p) p (ser vnew)) k fs) p = some vnew) := by
  have h := tempRename_get fs hwf (tmpOf p) p (ser vnew) (append_tmp_ne p) hp k
  refine ⟨?_, fun hk => by simp [loadYaml, h.2.1 hk, hrt]⟩
  rcases h.1 with h1 | h1
  · left; simpa [loadYaml, h1] using hold
  · right; simp [loadYaml, h1, hrt]

/-- Ban list (`BanFile.Add`); the file may not exist yet (then the old value is the empty list). -/
theorem ban_add_crash_safe {α : Type} (deser : Bytes → Option α) (ser : α → Bytes) (empty : α)
    (hrt : ∀ v, deser (ser v) = some v) (fs : FS) (hwf : WF fs) (p : Name) (hp : TmpPrivate fs (tmpOf p)) (vold vnew : α)
    (hold : loadBans deser empty fs p = some vold) (k : Nat) :
    (loadBans deser empty (crash (tempRename (tmpOf p) p (ser vnew)) k fs) p = some vold ∨
      loadBans deser empty (crash (tempRename (tmpOf p) p (ser vnew)) k fs) p = some vnew) ∧
    (4 ≤ k → loadBans deser empty (crash (tempRename (tmpOf p) p (ser vnew)) k fs) p = some vnew) := by
  have h := tempRename_get fs hwf (tmpOf p) p (ser vnew) (append_tmp_ne p) hp k
  refine ⟨?_, fun hk => by simp [loadBans, h.2.1 hk, hrt]⟩
  rcases h.1 with h1 | h1
  · left; simpa [loadBans, h1] using hold
  · right; simp [loadBans, h1, hrt]

/-- Account update, same login (`Update` since `fix: 57e02c9`: remove the temp name, write `.account.tmp`, rename
    it over `<login>.yaml`): in EVERY well-formed directory – also one where `.account.tmp` is still hard-linked to
    some account file – the loader sees the old set of account files or the same set with this one file's content
    replaced (value level: every other entry identical). -/
theorem account_update_crash_safe {α : Type} (deser : Bytes → Option α) (fs : FS) (hwf : WF fs) (login : Name) (new : Bytes)
    (hex : ino fs.names (acctFile login) ≠ none) (k : Nat) :
    (loadAccounts deser (crash (freshTempRename acctTmp (acctFile login) new) k fs) = loadAccounts deser fs ∨
      loadAccounts deser (crash (freshTempRename acctTmp (acctFile login) new) k fs) =
        loadView deser (setV (view isYaml fs) (acctFile login) new)) ∧
    (5 ≤ k → loadAccounts deser (crash (freshTempRename acctTmp (acctFile login) new) k fs) =
        loadView deser (setV (view isYaml fs) (acctFile login) new)) := by
  have h := freshTempRename_view isYaml fs hwf acctTmp (acctFile login) new isYaml_account_tmp
    (account_tmp_ne_login login) hex k
  simp only [loadAccounts_eq]
  refine ⟨?_, fun hk => by rw [h.2 hk]⟩
  rcases h.1 with h1 | h1
  · left; rw [h1]
  · right; rw [h1]

/-- Account creation (`Create`: remove the temp name, write `.account.tmp`, `link` it to `<login>.yaml`, remove it):
    absent until the link, complete from the link on; the temp file is never loaded and never shared with an
    older account file while it is written. -/
theorem account_create_crash_safe {α : Type} (deser : Bytes → Option α) (fs : FS) (hwf : WF fs) (login : Name) (d : Bytes)
    (hnew : ino fs.names (acctFile login) = none) (k : Nat) :
    (k ≤ 4 → loadAccounts deser (crash (freshCreateLink acctTmp (acctFile login) d) k fs) = loadAccounts deser fs) ∧
    (5 ≤ k → loadAccounts deser (crash (freshCreateLink acctTmp (acctFile login) d) k fs) =
        loadView deser (view isYaml fs ++ [(acctFile login, d)])) := by
  have h := freshCreateLink_view isYaml fs hwf acctTmp (acctFile login) d isYaml_account_tmp
    (account_tmp_ne_login login) hnew k
  have hy : isYaml (acctFile login) = true := isYaml_login login
  simp only [hy, if_true] at h
  simp only [loadAccounts_eq]
  exact ⟨fun hk => by rw [h.1 hk], fun hk => by rw [h.2 hk]⟩

/-- Account rename + update (`Update` with a new, free login: `rename old.yaml new.yaml`, then the atomic
    replace): after the first call the file `new.yaml` still holds the complete OLD account, and the
    loader keys by the login inside the file – so every crash state loads as the complete old set or
    the complete new set. -/
theorem account_rename_crash_safe {α : Type} (deser : Bytes → Option α) (fs : FS) (hwf : WF fs) (old new : Name) (d : Bytes)
    (hon : acctFile old ≠ acctFile new) (hold : ino fs.names (acctFile old) ≠ none)
    (hnew : ino fs.names (acctFile new) = none) (k : Nat) :
    (loadAccounts deser (crash (freshRenameUpdate acctTmp (acctFile old) (acctFile new) d) k fs) = loadAccounts deser fs ∨
      loadAccounts deser (crash (freshRenameUpdate acctTmp (acctFile old) (acctFile new) d) k fs) =
        loadView deser (setV (view isYaml { fs with names := renN fs.names (acctFile old) (acctFile new) }) (acctFile new) d)) ∧
    (6 ≤ k → loadAccounts deser (crash (freshRenameUpdate acctTmp (acctFile old) (acctFile new) d) k fs) =
        loadView deser (setV (view isYaml { fs with names := renN fs.names (acctFile old) (acctFile new) }) (acctFile new) d)) := by
  have hv : isYaml (acctFile old) = isYaml (acctFile new) := by
    simp only [acctFile]; rw [isYaml_login, isYaml_login]
  have h := freshRenameUpdate_contents isYaml fs hwf acctTmp (acctFile old) (acctFile new) d isYaml_account_tmp hv
    (account_tmp_ne_login new) hon hold hnew k
  refine ⟨?_, fun hk => by simp [loadAccounts, loadView, h.2 hk]⟩
  rcases h.1 with h1 | h1
  · left; simp [loadAccounts, h1]
  · right; simp [loadAccounts, loadView, h1]

/-- The loader's repair (`fix: 083f744`) after a kill inside a rename-update: the file that already carries
    the new name but still holds the old login is renamed back – the restarted server has the complete OLD account
    under its OLD file name, on disk as in memory, and every later program addresses the right file. -/
theorem interrupted_rename_is_rolled_back (loginOf : Bytes → Option Name) (fs : FS) (oldF newF : Name)
    (hon : oldF ≠ newF) (hold : ino fs.names oldF ≠ none) (hnew : ino fs.names newF = none) (hy : isYaml newF = true)
    (hyo : isYaml oldF = true)
    (hname : ∀ e ∈ fs.names, isYaml e.1 = true → ∃ l, loginOf (fs.data e.2) = some l ∧ acctFile l = e.1) :
    (recover loginOf (crash (freshRenameUpdate acctTmp oldF newF []) 1 fs)).names = fs.names ∧
    (recover loginOf (crash (freshRenameUpdate acctTmp oldF newF []) 1 fs)).data = fs.data := by
  obtain ⟨i0, hi0⟩ := Option.ne_none_iff_exists'.mp hold
  have h1 : crash (freshRenameUpdate acctTmp oldF newF []) 1 fs = { fs with names := renN fs.names oldF newF } := by
    simp [crash, freshRenameUpdate, apply, hi0, hon, hnew]
  rw [h1]
  have hnew' : ino (renN fs.names oldF newF) newF ≠ none := by
    rw [ino_renN_new _ _ _ hon hnew, hi0]; simp
  have hold' : ino (renN fs.names oldF newF) oldF = none := ino_renN_old _ _ _ hon
  have H : ∀ e ∈ (renN fs.names oldF newF), isYaml e.1 = true →
      ∃ l, loginOf (fs.data e.2) = some l ∧ acctFile l = (if e.1 = newF then oldF else e.1) := by
    intro e he hye
    simp only [renN, List.mem_map] at he
    obtain ⟨x, hx, rfl⟩ := he
    have hxn : x.1 ≠ newF := ino_none_not_mem _ _ hnew x hx
    by_cases hxo : x.1 = oldF
    · simp only [hxo, if_true]
      obtain ⟨l, hl, hf⟩ := hname x hx (by rw [hxo]; exact hyo)
      exact ⟨l, hl, by rw [hf, hxo]⟩
    · simp only [hxo, if_false] at hye ⊢
      obtain ⟨l, hl, hf⟩ := hname x hx hye
      exact ⟨l, hl, by simp [hf, hxn]⟩
  have := recover_undoes_rename loginOf { fs with names := renN fs.names oldF newF } oldF newF hon hnew' hold' hy H
  refine ⟨?_, this.2⟩
  rw [this.1]
  exact renN_renN_back fs.names oldF newF (ino_none_not_mem _ _ hnew)

/-- `Update` as the code runs it now (all three cases: same login, rename onto a free login, rename onto an
    existing login = refused before any call): every crash state loads as the value before the update or as
    the value after the completed program. -/
theorem account_update_total_crash_safe (fs : FS) (hwf : WF fs) (old new : Name) (d : Bytes)
    (hold : ino fs.names (acctFile old) ≠ none) (kill : Option Nat) :
    obs (runOp fs (.update old new d) kill) = obs fs ∨
    obs (runOp fs (.update old new d) kill) = obs (runOp fs (.update old new d) none) :=
  (acct_step_atomic fs hwf (.update old new d) hold kill).1

/-- A rename onto an existing login makes no system call at all: the directory is untouched. -/
theorem rename_onto_existing_refused (fs : FS) (old new : Name) (d : Bytes) (k : Nat)
    (hne : acctFile old ≠ acctFile new) (hex : ino fs.names (acctFile new) ≠ none) :
    crash (updateProg acctTmp fs (acctFile old) (acctFile new) d) k fs = fs := by
  obtain ⟨c, hc⟩ := Option.ne_none_iff_exists'.mp hex
  simp [updateProg, hne, hc, crash]

/-- Account deletion is one call: before it the old set, after it the set without the file. -/
theorem account_delete_crash_safe (fs : FS) (hwf : WF fs) (login : Name) (kill : Option Nat) :
    obs (runOp fs (.delete login) kill) = obs fs ∨
    obs (runOp fs (.delete login) kill) = obs (runOp fs (.delete login) none) :=
  (acct_step_atomic fs hwf (.delete login) trivial kill).1

/-- INDUCTIVE FORM (crash anywhere – restart with the loader's repair – continue with any further account
    operations – crash anywhere again – …): in every state reachable from a well-formed directory by any such
    history, the next operation is again atomic and durable – a kill at any of its call boundaries shows the loader
    what it saw before or what it sees after the completed operation – and the state after it is reachable too.
    No hypothesis about what earlier crashes left behind is needed: well-formedness is the whole invariant, because
    every account write starts by giving the temp name an inode of its own.
    (`_partial`: the statement is about what the loader reads.  That after every history each file is still NAMED
    after the login it holds – which the later programs rely on to address the right file – is proved only for the
    one place where it is broken and repaired, `interrupted_rename_is_rolled_back` (kill after the first call;
    the later crash points of the same program and the harness' follow-up updates cover the rest by test),
    not as an invariant of all histories.) -/
theorem crash_recover_continue_partial (loginOf : Bytes → Option Name) (fs0 fs : FS) (h0 : WF fs0)
    (h : Hist loginOf fs0 fs) (op : AcctOp) (hv : op.Valid fs) (kill : Option Nat) :
    (obs (runOp fs op kill) = obs fs ∨ obs (runOp fs op kill) = obs (runOp fs op none)) ∧
    WF (runOp fs op kill) ∧ Hist loginOf fs0 (runOp fs op kill) ∧ Hist loginOf fs0 (recover loginOf (runOp fs op kill)) := by
  have hwf := hist_wf loginOf fs0 fs h0 h
  have hs := acct_step_atomic fs hwf op hv kill
  exact ⟨hs.1, hs.2, Hist.op op kill h hv, Hist.restart (Hist.op op kill h hv)⟩

/-- The loader's `*.yaml` glob ignores the temp names in use and would NOT ignore `<x>.tmp.yaml`. -/
theorem glob_ignores_temp :
    isYaml acctTmp = false ∧ (∀ x : Name, isYaml (tmpOf x) = false) ∧
    (∀ x : Name, isYaml (x ++ ".yaml.tmp".toList) = false) ∧
    (∀ x : Name, isYaml (x ++ ".tmp.yaml".toList) = true) := by
  refine ⟨isYaml_account_tmp, isYaml_dot_tmp, ?_, isYaml_tmp_dot_yaml⟩
  intro x
  have := isYaml_dot_tmp (x ++ ".yaml".toList)
  simpa [List.append_assoc] using this

/-- NEGATIVE WITNESS (the behaviour before the `fix:` commits for account create/update, the ban list
    and the second write of `FlatNews.Write`): `os.WriteFile` directly on the live file.  After its first
    call the file is EMPTY, for every prior state: the board is lost, `NewBanFile` / `NewThreadedNewsYAML`
    fail (no server start) when the decoder rejects empty input. -/
theorem direct_write_torn (fs : FS) (p : Name) (new : Bytes) :
    get (crash (directWrite p new) 1 fs) p = some [] ∧
    loadBoard (crash (directWrite p new) 1 fs) p = some [] ∧
    (∀ {α : Type} (deser : Bytes → Option α) (empty : α), deser [] = none →
      loadBans deser empty (crash (directWrite p new) 1 fs) p = none ∧
      loadYaml deser (crash (directWrite p new) 1 fs) p = none) := by
  have h : get (crash (directWrite p new) 1 fs) p = some [] := by
    simp only [crash, directWrite, writeFile, List.take, List.foldl, apply]
    cases hi : ino fs.names p with
    | some i => simp [Crash.get, hi, upd_same]
    | none =>
      simp only [Crash.get]
      rw [ino_append, hi]; simp [upd_same]
  refine ⟨h, by simp [loadBoard, h, Board.nl2cr], ?_⟩
  intro α deser empty he
  simp [loadBans, loadYaml, h, he]

/-- The concrete torn state: old content `[1,2]`, new content `[3]`, killed after the truncate –
    neither old nor new. -/
theorem direct_write_torn_witness :
    ∃ (fs : FS) (p : Name) (new : Bytes) (k : Nat), k ≤ (directWrite p new).length ∧
      get (crash (directWrite p new) k fs) p ≠ get fs p ∧ get (crash (directWrite p new) k fs) p ≠ some new :=
  ⟨ofList [("b".toList, [1, 2])], "b".toList, [3], 1, by decide, by decide, by decide⟩

/-- The old `FlatNews.Write` (atomic rename FOLLOWED by a direct rewrite): a kill after the fifth call
    leaves an empty board although the rename had already put the complete new text in place. -/
theorem old_board_write_torn :
    ∃ (fs : FS) (p : Name) (new : Bytes),
      get (crash (tempRename (tmpOf p) p new ++ directWrite p new) 4 fs) p = some new ∧
      get (crash (tempRename (tmpOf p) p new ++ directWrite p new) 5 fs) p = some [] ∧ new ≠ [] :=
  ⟨ofList [("b".toList, [1, 2])], "b".toList, [3], by decide, by decide, by decide⟩

/-- NEGATIVE WITNESS (why the temp file must be TRUNCATED when it is opened): if an earlier crash left a temp
    file LONGER than the new content and the temp is opened without `O_TRUNC`, the completed, acknowledged update
    publishes the new content followed by the stale tail – neither old nor new. -/
theorem no_trunc_inherits_stale_tail :
    ∃ (fs : FS) (tmp p : Name) (new : Bytes),
      get fs tmp ≠ none ∧
      get (crash (tempRenameNoTrunc tmp p new) 4 fs) p ≠ get fs p ∧
      get (crash (tempRenameNoTrunc tmp p new) 4 fs) p ≠ some new ∧
      get (crash (tempRename tmp p new) 4 fs) p = some new :=
  ⟨ofList [("n.tmp".toList, [9, 9, 9, 9, 9]), ("n".toList, [1])], "n.tmp".toList, "n".toList, [2, 3],
    by decide, by decide, by decide, by decide⟩

/-- NEGATIVE WITNESS for `fix: 57e02c9` (why every account write first removes the temp NAME): `Create(alice)` is
    killed after `link(.account.tmp, alice.yaml)` and before the removal of the temp name – both names are one
    file.  After the restart the OLD `Update(bob)` (`os.WriteFile(.account.tmp)` = open with `O_TRUNC` on the shared
    inode, then rename over `bob.yaml`) rewrites that shared file: `alice.yaml` now holds bob's account – alice,
    whose creation had become visible, is gone.  With the programs as they are now alice keeps her content. -/
theorem linked_temp_overwrites_account :
    ∃ (fs : FS) (alice bob : Name) (da db : Bytes),
      let s := crash (createLink acctTmp (acctFile alice) da) 4 fs       -- killed between link and remove
      get s (acctFile alice) = some da ∧
      get (crash (tempRename acctTmp (acctFile bob) db) 4 s) (acctFile alice) = some db ∧   -- old Update(bob)
      get (crash (freshTempRename acctTmp (acctFile bob) db) 5 s) (acctFile alice) = some da ∧  -- Update(bob) now
      get (crash (freshTempRename acctTmp (acctFile bob) db) 5 s) (acctFile bob) = some db ∧ da ≠ db :=
  ⟨ofList [("bob.yaml".toList, [2])], "alice".toList, "bob".toList, [5], [7],
    by decide, by decide, by decide, by decide, by decide⟩

/-- NEGATIVE WITNESS for `fix: 083f744` (why the loader renames a file back under the login it holds): a
    rename-update `a → b` is killed after its first call; WITHOUT the repair a later ordinary update of account `a`
    creates `a.yaml` next to the stale `b.yaml` that still says `Login: a` – two files for one login, and the loader
    keeps whichever is listed last.  WITH the repair (`recover`) there is one file again.  (`loginOf` = first byte.) -/
theorem unrepaired_rename_duplicates_login :
    ∃ (fs : FS) (d1 d2 : Bytes),
      let loginOf : Bytes → Option Name := fun b => match b with | [] => none | c :: _ => some [Char.ofNat c.toNat]
      let s := crash (freshRenameUpdate acctTmp (acctFile "a".toList) (acctFile "b".toList) d1) 1 fs
      obs s = obs fs ∧
      obs (crash (freshTempRename acctTmp (acctFile "a".toList) d2) 5 s) = [[97, 1], d2] ∧
      obs (crash (freshTempRename acctTmp (acctFile "a".toList) d2) 5 (recover loginOf s)) = [d2] :=
  ⟨ofList [("a.yaml".toList, [97, 1])], [98, 2], [97, 3], by decide, by decide, by decide⟩

/-- NEGATIVE WITNESS for the hypothesis "the new login is free" of `account_rename_crash_safe` (behaviour before
    `fix: 5d2c023`): renaming account `a` onto an EXISTING login `b` first renames `a.yaml` over `b.yaml`.  A kill
    right after that call leaves `b`'s account destroyed while `a` is still the old `a`. -/
theorem rename_onto_existing_login_torn :
    ∃ (fs : FS) (old new : Name) (d : Bytes) (k : Nat),
      get fs (acctFile new) ≠ none ∧
      contents isYaml (crash (freshRenameUpdate acctTmp (acctFile old) (acctFile new) d) k fs) ≠ contents isYaml fs ∧
      contents isYaml (crash (freshRenameUpdate acctTmp (acctFile old) (acctFile new) d) k fs) ≠
        contents isYaml (crash (freshRenameUpdate acctTmp (acctFile old) (acctFile new) d) 6 fs) :=
  ⟨ofList [("a.yaml".toList, [1]), ("b.yaml".toList, [2])], "a".toList, "b".toList, [9], 1, by decide, by decide, by decide⟩

/-! Obligations over the os-call lists regenerated from /repo's source on every run. -/

/-- Source expressions that denote a temp name: `<live file> + ".tmp"` or `Join(dir, ".account.tmp")`. -/
def isTempExpr (s : String) : Bool :=
  " + \".tmp\"".toList.isSuffixOf s.toList || ".tmp\")".toList.isSuffixOf s.toList

/-- The persistent update functions make exactly the os calls of the modelled programs, in that order:
    WriteFile(temp) then Rename(temp, live) [`tempRename`]; WriteFile(temp), Link(temp, final), deferred
    Remove(temp) [`createLink`]; Rename(old, new) only when the login changes, then Remove(temp), WriteFile(temp),
    Rename(temp, new) [`freshRenameUpdate` / `freshTempRename`]; Remove [`delete`]; the loader's repair is one Rename
    (file → `<login inside>.yaml`) under `want != filePath` and `IsNotExist(stat want)` [`repairStep`]. -/
theorem persist_programs :
    Generated.persistCalls.filter (fun r => r.1 != "mobius.HandleSetFileInfo") =
    [("mobius.BanFile.Add",
        [("WriteFile", "bf.filePath + \".tmp\"", "data:out", ""),
         ("Rename", "bf.filePath + \".tmp\"", "bf.filePath", "")]),
     ("mobius.FlatNews.Write",
        [("WriteFile", "f.filePath + \".tmp\"", "data:f.data", ""),
         ("Rename", "f.filePath + \".tmp\"", "f.filePath", "")]),
     ("mobius.NewYAMLAccountManager",
        [("Rename", "filePath", "filepath.Join(accountDir, path.Join(\"/\", account.Login) + \".yaml\")",
            "loop && if want != filePath && if os.IsNotExist(err)")]),
     ("mobius.ThreadedNewsYAML.writeFile",
        [("WriteFile", "n.filePath + \".tmp\"", "data:out", ""),
         ("Rename", "n.filePath + \".tmp\"", "n.filePath", "")]),
     ("mobius.YAMLAccountManager.Create",
        [("Remove", "filepath.Join(am.accountDir, \".account.tmp\")", "", ""),
         ("WriteFile", "filepath.Join(am.accountDir, \".account.tmp\")", "data:b", ""),
         ("Link", "filepath.Join(am.accountDir, \".account.tmp\")",
            "filepath.Join(am.accountDir, path.Join(\"/\", account.Login + \".yaml\"))", ""),
         ("Remove", "filepath.Join(am.accountDir, \".account.tmp\")", "", "defer")]),
     ("mobius.YAMLAccountManager.Delete",
        [("Remove", "filepath.Join(am.accountDir, path.Join(\"/\", login + \".yaml\"))", "", "")]),
     ("mobius.YAMLAccountManager.Update",
        [("Rename", "filepath.Join(am.accountDir, path.Join(\"/\", account.Login) + \".yaml\")",
            "filepath.Join(am.accountDir, path.Join(\"/\", newLogin) + \".yaml\")", "if account.Login != newLogin"),
         ("Remove", "filepath.Join(am.accountDir, \".account.tmp\")", "", ""),
         ("WriteFile", "filepath.Join(am.accountDir, \".account.tmp\")", "data:out", ""),
         ("Rename", "filepath.Join(am.accountDir, \".account.tmp\")",
            "filepath.Join(am.accountDir, path.Join(\"/\", newLogin) + \".yaml\")", "")])] := by
  decide

/-- The rename in `Update` is reached only when the new login is not in the account table (the early return
    `if _, exists := am.accounts[newLogin]; exists { return … }` precedes it in its block). -/
theorem rename_guarded :
    Generated.persistGuards.lookup "mobius.YAMLAccountManager.Update" =
      some ["_, exists := am.accounts[newLogin]; exists", "", "", ""] := by decide

/-- No other function of internal/mobius creates, writes, renames, links or removes files (a new
    persistent update path would show up here). -/
theorem persist_functions :
    Generated.persistCalls.map (·.1) =
      ["mobius.BanFile.Add", "mobius.FlatNews.Write", "mobius.HandleSetFileInfo", "mobius.NewYAMLAccountManager",
       "mobius.ThreadedNewsYAML.writeFile",
       "mobius.YAMLAccountManager.Create", "mobius.YAMLAccountManager.Delete", "mobius.YAMLAccountManager.Update"] := by
  decide

/-- Every `os.WriteFile` / `os.OpenFile` / `os.Create` of those functions targets a temp name – no live
    file is ever opened for writing. -/
theorem no_live_file_written :
    ∀ r ∈ Generated.persistCalls, ∀ c ∈ r.2,
      (c.1 = "WriteFile" ∨ c.1 = "OpenFile" ∨ c.1 = "Create" ∨ c.1 = "Truncate") → isTempExpr c.2.1 = true := by
  decide

/-- The server binary's own start-up code touches the stores only through the loaders: the only file-mutating
    calls in cmd/mobius-hotline-server are those of `-init` (create the config dir, copy the default files).  In
    particular nothing promotes, renames or removes `*.tmp` files before the loaders run. -/
theorem startup_only_loads :
    Generated.mainMutations =
      [("main.copyDir",
          [("MkdirAll", "path.Join(dst, dirEntry.Name())", "", "loop && if dirEntry.IsDir()"),
           ("Create", "path.Join(dst, dirEntry.Name(), subDirEntry.Name())", "", "loop && if dirEntry.IsDir() && loop"),
           ("Create", "path.Join(dst, dirEntry.Name())", "", "loop && else dirEntry.IsDir()")]),
       ("main.main", [("MkdirAll", "*configDir", "", "if *init && if os.IsNotExist(err)")])] := by decide

/-- The account loader globs `*.yaml` (which `isYaml` models). -/
theorem account_glob : Generated.accountGlob = "*.yaml" := by decide

-- non-vacuity: concrete directories, every crash point of the account programs – incl. a temp name still LINKED to al.yaml
example : (List.range 7).map (fun k =>
      contents isYaml (crash (freshTempRename acctTmp (acctFile "bob".toList) [9, 9]) k
        (apply (ofList [("al.yaml".toList, [1]), ("bob.yaml".toList, [2])]) (.link (acctFile "al".toList) acctTmp)))) =
    [[[1], [2]], [[1], [2]], [[1], [2]], [[1], [2]], [[1], [2]], [[1], [9, 9]], [[1], [9, 9]]] := by decide
example : (List.range 8).map (fun k =>
      contents isYaml (crash (freshRenameUpdate acctTmp (acctFile "bob".toList) (acctFile "rob".toList) [9]) k
        (ofList [("al.yaml".toList, [1]), ("bob.yaml".toList, [2])]))) =
    [[[1], [2]], [[1], [2]], [[1], [2]], [[1], [2]], [[1], [2]], [[1], [2]], [[1], [9]], [[1], [9]]] := by decide
example : (List.range 7).map (fun k =>
      contents isYaml (crash (freshCreateLink acctTmp (acctFile "eve".toList) [5]) k (ofList [("al.yaml".toList, [1])]))) =
    [[[1]], [[1]], [[1]], [[1]], [[1]], [[1], [5]], [[1], [5]]] := by decide
example : get (crash (directWrite "Banlist.yaml".toList [3]) 1 (ofList [("Banlist.yaml".toList, [1, 2])])) "Banlist.yaml".toList
    = some [] := by decide
example : WF (ofList [("al.yaml".toList, [1]), ("bob.yaml".toList, [2])]) := by
  unfold WF; decide

/-! ## The crash points of a whole REQUEST (wave d)

  A client's change is a transaction handled by a handler, and a handler composes store calls: the batched account
  editor (`HandleUpdateUser`) makes one `AccountManager` call per record, a rename is one record.  The system calls
  of the request are the concatenation of its store calls' programs (`Crash.reqProg`, each decided in the state its
  predecessors left); a kill can land between two of them.  Reading: a record is one change in flight; every crash
  state must load as the state after some PREFIX of the records (each whole or not at all, in order), and as the
  state after all of them once every call was made.  One record = "old or new". -/

/-- THE REQUEST-LEVEL CLAUSE for the account handlers: for every well-formed directory, every request (list of records
    = account operations valid in the state they meet) and EVERY call boundary `k` of the whole request, the loader
    sees the accounts as they are after the first `j` records for some `j`; the directory stays well formed (so the
    statement applies again after the restart); and with all calls made it is the state after all records. -/
theorem update_user_request_crash_safe (fs : FS) (hwf : WF fs) (ops : List AcctOp) (hv : ReqValid fs ops) (k : Nat) :
    (∃ j, j ≤ ops.length ∧ obs (crash (reqProg fs ops) k fs) = obs (runReq fs (ops.take j))) ∧
    WF (crash (reqProg fs ops) k fs) ∧
    ((reqProg fs ops).length ≤ k → crash (reqProg fs ops) k fs = runReq fs ops) :=
  request_crash_prefix fs hwf ops hv k

/-- One-record requests (`HandleSetUser`, `HandleNewUser`, `HandleDeleteUser`, a single rename through the batched
    editor): every crash state loads as the complete old or the complete new account set. -/
theorem single_account_request_crash_safe (fs : FS) (hwf : WF fs) (op : AcctOp) (hv : op.Valid fs) (k : Nat) :
    obs (crash (reqProg fs [op]) k fs) = obs fs ∨ obs (crash (reqProg fs [op]) k fs) = obs (runReq fs [op]) :=
  single_record_request_old_or_new fs hwf op hv k

/-- Store-independent composition: whenever each step of a request is atomic for an observation `o` (under an
    invariant the steps re-establish), every crash prefix of the concatenated program observes as the state after a
    prefix of the steps. -/
theorem request_of_atomic_steps_crash_safe {β : Type} (o : FS → β) (I : FS → Prop) (ps : List Step)
    (hat : ∀ p ∈ ps, AtomicStep o I p) (fs : FS) (hI : I fs) (k : Nat) :
    ∃ j, j ≤ ps.length ∧ o (crash (stepsProg fs ps) k fs) = o (runSteps fs (ps.take j)) :=
  seq_crash_prefix o I ps hat fs hI k

/-- … instantiated for the single-file stores: a request that rewrites the board / the news file / the ban list any
    number of times (each by write-temp-then-rename, the new content a function of the state) shows, at every call
    boundary, the file after a prefix of those rewrites. -/
theorem single_file_request_crash_safe (p : Name) (news : List (FS → Bytes)) (fs : FS) (hwf : WF fs)
    (hp : TmpPrivate fs (tmpOf p)) (k : Nat) :
    let ps : List Step := news.map fun new => fun fs => tempRename (tmpOf p) p (new fs)
    ∃ j, j ≤ news.length ∧ get (crash (stepsProg fs ps) k fs) p = get (runSteps fs (ps.take j)) p := by
  intro ps
  have h := seq_crash_prefix (fun fs => get fs p) (fun fs => WF fs ∧ TmpPrivate fs (tmpOf p)) ps
    (by
      intro q hq
      simp only [ps, List.mem_map] at hq
      obtain ⟨new, _, rfl⟩ := hq
      exact tempRename_atomicStep (tmpOf p) p (append_tmp_ne p) new) fs ⟨hwf, hp⟩ k
  simpa [ps] using h

/-- NEGATIVE WITNESS (why a record must be ONE store call): the rename `bob → rob` carried out as `Create(rob)` then
    `Delete(bob)`.  After the calls of the Create and before the unlink the loader sees BOTH accounts – neither the
    old set nor the new set – although each of the two store calls is atomic on its own; the same rename as one
    `Update` is old-or-new at every crash point. -/
theorem rename_as_create_then_delete_torn :
    ∃ (fs : FS) (old new : Name) (d : Bytes) (k : Nat),
      let ops := [AcctOp.create new d, AcctOp.delete old]
      ReqValid fs ops ∧ k ≤ (reqProg fs ops).length ∧
      obs (crash (reqProg fs ops) k fs) ≠ obs fs ∧
      obs (crash (reqProg fs ops) k fs) ≠ obs (runReq fs ops) ∧
      (∀ k', obs (crash (reqProg fs [AcctOp.update old new d]) k' fs) = obs fs ∨
             obs (crash (reqProg fs [AcctOp.update old new d]) k' fs) = obs (runReq fs [AcctOp.update old new d])) :=
  rename_as_create_delete_torn

/-- OBLIGATION over the regenerated fact `handlerStoreCalls`: the handlers make exactly these store-changing calls, in
    these branches.  In particular the batched editor's "account exists" branch – modify AND rename – is exactly one
    `AccountManager.Update`; its delete branch one `Delete`; its create branch one `Create`. -/
theorem handler_store_calls :
    Generated.handlerStoreCalls =
      [("mobius.HandleDelNewsArt", [("ThreadedNewsMgr.DeleteArticle", "")]),
       ("mobius.HandleDelNewsItem", [("ThreadedNewsMgr.DeleteNewsItem", "")]),
       ("mobius.HandleDeleteUser", [("AccountManager.Delete", "")]),
       ("mobius.HandleDisconnectUser",
          [("BanList.Add", "if t.GetField(hotline.FieldOptions).Data != nil && case 1"),
           ("BanList.Add", "if t.GetField(hotline.FieldOptions).Data != nil && case 2")]),
       ("mobius.HandleNewNewsCat", [("ThreadedNewsMgr.CreateGrouping", "")]),
       ("mobius.HandleNewNewsFldr", [("ThreadedNewsMgr.CreateGrouping", "")]),
       ("mobius.HandleNewUser", [("AccountManager.Create", "")]),
       ("mobius.HandlePostNewsArt", [("ThreadedNewsMgr.PostArticle", "")]),
       ("mobius.HandleSetUser", [("AccountManager.Update", "")]),
       ("mobius.HandleTranOldPostNews", [("Server.PostMessageBoard", "")]),
       ("mobius.HandleUpdateUser",
          [("AccountManager.Delete", "loop && if len(subFields) == 1"),
           ("AccountManager.Update", "loop && if acc != nil"),
           ("AccountManager.Create", "loop && else acc != nil")])] := by decide

/-- OBLIGATION: no branch of a handler makes two store-changing calls (one context = one branch): per request – and
    per record of the batched editor – there is ONE store program, which is what `update_user_request_crash_safe`
    needs of the handler. -/
theorem one_store_call_per_branch :
    ∀ r ∈ Generated.handlerStoreCalls, (r.2.map (·.2)).Nodup := by decide

-- non-vacuity: a three-record request (create eve, rename bob → rob, delete al); what the loader sees at every one
-- of its 6 + 6 + 1 call boundaries – always the state after 0, 1, 2 or 3 records
example :
    let fs := ofList [("al.yaml".toList, [1]), ("bob.yaml".toList, [2])]
    let ops := [AcctOp.create "eve".toList [5], AcctOp.update "bob".toList "rob".toList [9], AcctOp.delete "al".toList]
    (List.range 14).map (fun k => obs (crash (reqProg fs ops) k fs)) =
      [[[1], [2]], [[1], [2]], [[1], [2]], [[1], [2]], [[1], [2]],        -- nothing yet
       [[1], [2], [5]], [[1], [2], [5]], [[1], [2], [5]], [[1], [2], [5]], [[1], [2], [5]], [[1], [2], [5]],
       [[1], [2], [5]],                                                     -- eve created (link), bob's rename under way
       [[1], [9], [5]],                                                     -- bob renamed and rewritten
       [[9], [5]]] := by decide                                            -- al deleted
example : ReqValid (ofList [("al.yaml".toList, [1]), ("bob.yaml".toList, [2])])
    [AcctOp.create "eve".toList [5], AcctOp.update "bob".toList "rob".toList [9], AcctOp.delete "al".toList] := by
  refine ⟨?_, ?_, trivial, trivial⟩ <;> simp only [AcctOp.Valid] <;> decide
-- the torn state of the two-call rename, concretely: both accounts are loaded
example : obs (crash (reqProg (ofList [("bob.yaml".toList, [2])]) [AcctOp.create "rob".toList [9], AcctOp.delete "bob".toList]) 6
    (ofList [("bob.yaml".toList, [2])])) = [[2], [9]] := by decide
example : AtomicStep (fun fs => get fs "b".toList) (fun fs => WF fs ∧ TmpPrivate fs (tmpOf "b".toList))
    (fun _ => tempRename (tmpOf "b".toList) "b".toList [7]) :=
  tempRename_atomicStep _ _ (append_tmp_ne _) _

end Mobius.C20
